(* Corr11.v — the correspondence runner for C11: per generated query, the structure the real parser and goexpr report,
   the plan the real planner chose on a cluster, and whether executing it gave the rows of the local plan. *)
From Coq Require Import List Arith Bool.
From Zeno Require Import Plan.
Import ListNotations.

Record plan_case := {
  pc_q : pquery;
  pc_pushdown : option bool;      (* the cluster plan's kind (None: the query could not be planned locally either) *)
  pc_agree : bool                 (* cluster rows = local rows (both failing counts as agreeing) *)
}.

Definition plan_bad (c:plan_case) : bool :=
  negb (pc_agree c) ||
  match pc_pushdown c with
  | Some b => negb (Bool.eqb b (pushdown_allowed (pc_q c)))
  | None => false
  end.

Fixpoint plan_mm (cs:list plan_case) (i:nat) : list nat :=
  match cs with
  | [] => []
  | c :: t => (if plan_bad c then [i] else []) ++ plan_mm t (S i)
  end.
Definition plan_mismatches (cs:list plan_case) : list nat := plan_mm cs 0.
