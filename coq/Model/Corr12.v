(* Corr12.v — the correspondence runner for C12: the operations the harness applied to the real in-process
   cluster are applied to the protocol model; at every settle point (all nodes up, caught up) the model is driven
   to quiescence by the fair schedule [settle] and the entries each follower holds are compared with what the real
   follower's table "tid" showed.  Entries are coded off * nsrc + src.  Definitions only. *)
From Coq Require Import List Arith Bool.
From Zeno Require Import Repl.
Import ListNotations.

Inductive hop :=
| HOp (m:mop)
| HDrain                              (* the model may make progress here (the real system does so on its own) *)
| HSettle (obs:list (list nat)).      (* per follower: the sorted codes of the entries its table holds, with multiplicity *)

Record repl_case := {
  rc_parts : list nat;                (* partition of each follower *)
  rc_nsrc : nat;                      (* number of leaders *)
  rc_guard : nat;                     (* Follow requests observed to violate step_ok's precondition on the real code *)
  rc_ops : list hop
}.

Fixpoint insert_sorted (x:nat) (l:list nat) : list nat :=
  match l with
  | [] => [x]
  | h :: t => if Nat.leb x h then x :: l else h :: insert_sorted x t
  end.
Definition sort_nat (l:list nat) : list nat := fold_right insert_sorted [] l.

Fixpoint held (nsrc:nat) (ss:list sys) (src:nat) (f:nat) : list nat :=
  match ss with
  | [] => []
  | s :: t => map (fun off => off * nsrc + src) (content (nth f (s_fols s) dfol)) ++ held nsrc t (S src) f
  end.

Definition list_eqb (a b:list nat) : bool :=
  Nat.eqb (length a) (length b) && forallb (fun p => Nat.eqb (fst p) (snd p)) (combine a b).

(* result: for every settle point, the followers whose observed content differs from the model's, and whether the
   model was quiescent there *)
Fixpoint hrun (nsrc:nat) (ss:list sys) (ops:list hop) (idx:nat) : list (nat * nat) :=
  match ops with
  | [] => []
  | HOp m :: t => hrun nsrc (mstep ss m) t idx
  | HDrain :: t => hrun nsrc (map settle ss) t idx
  | HSettle obs :: t =>
    let ss' := map settle ss in
    let nf := length (s_fols (nth 0 ss' dsys)) in
    (if forallb quiescent ss' then [] else [(idx, 999)]) ++
    (if Nat.eqb (length obs) nf then [] else [(idx, 998)]) ++
    flat_map (fun f => if list_eqb (sort_nat (held nsrc ss' 0 f)) (nth f obs []) then [] else [(idx, f)]) (seq 0 nf) ++
    hrun nsrc ss' t (S idx)
  end.

Definition hops_ok (ops:list hop) (ss:list sys) : bool :=
  mrun_ok ss (flat_map (fun h => match h with HOp m => [m] | _ => [] end) ops).

Definition repl_bad (c:repl_case) : bool :=
  negb (Nat.eqb (rc_guard c) 0) ||
  match hrun (rc_nsrc c) (minit (rc_nsrc c) (rc_parts c)) (rc_ops c) 0 with [] => false | _ => true end.

Fixpoint repl_mm (cs:list repl_case) (i:nat) : list nat :=
  match cs with
  | [] => []
  | c :: t => (if repl_bad c then [i] else []) ++ repl_mm t (S i)
  end.
Definition repl_mismatches (cs:list repl_case) : list nat := repl_mm cs 0.
