(* Auth.v — model of the access decisions (C19): rpcserver.server.authorize and
   web.handler.authenticate, and the guard tables over the handlers.  Definitions only. *)
From Coq Require Import String.
From Zeno Require Import Base.
Local Open Scope string_scope.

(* ---- RPC ---- *)
(* authorize: no password configured => world access; otherwise one of the presented passwords must match *)
Definition authorize (password:string) (presented:list string) : bool :=
  if String.eqb password "" then true else existsb (String.eqb password) presented.

Fixpoint smem (x:string) (l:list string) : bool :=
  match l with [] => false | y :: r => String.eqb x y || smem x r end.

(* a handler discloses stored data or query traffic if it reaches one of these DB methods *)
Definition disclosing_db_methods : list string := ["Query"; "Follow"; "RegisterQueryHandler"].
Definition rpc_discloses (h:string * (bool * list string)) : bool :=
  existsb (fun m => smem m disclosing_db_methods) (snd (snd h)).
Definition rpc_guarded (h:string * (bool * list string)) : bool := fst (snd h).
Definition rpc_table_ok (t:list (string * (bool * list string))) : bool :=
  forallb (fun h => implb (rpc_discloses h) (rpc_guarded h)) t.

(* ---- web ---- *)
Inductive org_answer := InOrg | NotInOrg | OrgError.
Inductive cookie :=
| CAbsent                                   (* no cookie *)
| CUndecodable                              (* forged / signed with other keys / garbage: securecookie.Decode fails *)
| CSession (expiration:Z) (org:org_answer). (* decodes; the organisation check would answer [org] *)

Record wconf := { w_oauth : bool;           (* OAuthClientID and OAuthClientSecret configured *)
                  w_password : string }.    (* static token, "" = none *)

(* handler.authenticate *)
Definition authenticate (c:wconf) (header:string) (ck:cookie) (now:Z) : bool :=
  if negb (w_oauth c) then true
  else if negb (String.eqb (w_password c) "") && negb (String.eqb header "")
       then String.eqb header (w_password c)
  else match ck with
       | CSession e InOrg => negb (e <? now)%Z
       | _ => false
       end.

Definition serving_calls : list string := ["h.query"; "h.cache.getByPermalink"].
Definition web_serves_data (r:string * (string * (bool * list string))) : bool :=
  existsb (fun m => smem m serving_calls) (snd (snd (snd r))).
Definition web_guarded (r:string * (string * (bool * list string))) : bool := fst (snd (snd r)).
Definition web_table_ok (t:list (string * (string * (bool * list string)))) : bool :=
  forallb (fun r => implb (web_serves_data r) (web_guarded r)) t.

(* ---- correspondence cases ---- *)
Inductive auth_case :=
| RpcCase (handler:string) (password:string) (presented:list string) (served:bool)
| WebCase (route:string) (c:wconf) (header:string) (ck:cookie) (now:Z) (served:bool).

Definition rpc_handler_guarded (t:list (string * (bool * list string))) (h:string) : bool :=
  match find (fun x => String.eqb (fst x) h) t with Some x => rpc_guarded x | None => false end.
Definition web_route_guarded (t:list (string * (string * (bool * list string)))) (r:string) : bool :=
  match find (fun x => String.eqb (fst x) r) t with Some x => web_guarded x | None => false end.

Definition auth_case_ok (rt:list (string * (bool * list string))) (wt:list (string * (string * (bool * list string)))) (c:auth_case) : bool :=
  match c with
  | RpcCase h pw pres served =>
      Bool.eqb served (if rpc_handler_guarded rt h then authorize pw pres else true)
  | WebCase r cf hd ck now served =>
      Bool.eqb served (if web_route_guarded wt r then authenticate cf hd ck now else true)
  end.
