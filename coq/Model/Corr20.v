(* Corr20.v — correspondence cases for the RPC boundary (C20): expressions that crossed the real
   msgpack codec must print and behave like the originals; messages must round-trip. *)
From Coq Require Import QArith.
From Zeno Require Import Base Expr ExprSpec Corr05.

Inductive c20_case :=
| CodecCase (same_name same_string same_width:bool) (c:expr_case)   (* c was produced by the DECODED expression *)
| MsgCase (roundtrip_equal:bool).

Definition c20_case_ok (c:c20_case) : bool :=
  match c with
  | CodecCase n s w x => n && s && w && expr_case_ok x
  | MsgCase b => b
  end.
Definition c20_mismatches (cs:list c20_case) : list Z := failing (map c20_case_ok cs).
