(* Repl.v — the follow protocol (cluster_follow.go, the follower's doFollowLeaders, server.followSource)
   for ONE table fed by ONE leader's WAL and replicated to F followers (C12).

   The other tables of the same stream show up only in two places, both adversarial here:
   an entry may be submitted to a follower although this table did not include it ([LRead]'s extra copies:
   another table included it), and the leader's reader may restart earlier than this table's specs require
   ([Join]'s c: another table's spec is older).  Several leaders are independent copies of this system
   (per-source offsets everywhere in the code); see [msys] at the end.

   Offsets: the i-th entry (0-based) of the leader's WAL has offset i+1; 0 is "no offset yet".
   Definitions only — proofs are in Proofs/ReplP.v. *)
From Coq Require Import List Arith Bool.
Import ListNotations.

Record entry := { e_part : nat; e_pass : bool }.   (* partition under the table's keys; table's WHERE passes *)

Record fol := {
  f_part : nat;
  f_up : bool;                 (* the follower process is running *)
  f_link : bool;               (* its link to the leader works *)
  f_deliv : nat;               (* doFollowLeaders' offsets[i][source]: last offset handed to the table *)
  f_mem : list nat;            (* offsets of the entries applied to the memstore, in order, with multiplicity *)
  f_moff : nat;                (* memstore.offsetsBySource[source] *)
  f_file : list nat;           (* the entries aggregated in the newest filestore *)
  f_foff : nat;                (* the offset in its header, advanced by the offset file *)
  f_earliest : nat;            (* Follow.EarliestOffset, as maintained by server.followSource *)
  f_snaps : list (list nat * nat)   (* images of the table directory taken so far *)
}.

Record lfol := {               (* the leader's side of one follower: followSpec + follower *)
  l_joined : bool;
  l_failed : bool;
  l_spec : nat;                (* followSpec.offset *)
  l_queue : list nat           (* follower.entries *)
}.

Record sys := {
  s_log : list entry;          (* the leader's WAL: accepted inserts, in order *)
  s_lup : bool;
  s_cursor : nat;              (* entries consumed by followWAL's reader (next offset is s_cursor+1) *)
  s_lf : list lfol;
  s_fols : list fol
}.

Inductive op :=
| Ins (part:nat) (pass:bool)       (* DB.Insert on the leader, acknowledged *)
| LRead (extra:list bool)          (* the leader processes the next WAL entry; extra_f: one more copy is submitted to f *)
| Deliver (f:nat)                  (* follower.read: one queued entry goes through the callback *)
| Join (f:nat) (c:nat)             (* f calls Follow; the reader restarts at min(c, every spec) *)
| Flush (f:nat)
| Stop (f:nat)                     (* clean Close: flush, then down *)
| Kill (f:nat)                     (* the process dies *)
| Start (f:nat) (earliest:nat)     (* process start on the directory; earliest: min persisted offset over the follower's tables *)
| Snap (f:nat)                     (* copy the directory *)
| Restore (f:nat) (k:nat)          (* while down: put the k-th copy back *)
| Cut (f:nat) | Uncut (f:nat)
| LStop | LStart.

Fixpoint upd {A} (l:list A) (i:nat) (x:A) : list A :=
  match l, i with
  | [], _ => []
  | _ :: t, O => x :: t
  | h :: t, S j => h :: upd t j x
  end.

Definition dfol : fol := {| f_part := 0; f_up := false; f_link := false; f_deliv := 0; f_mem := []; f_moff := 0;
                            f_file := []; f_foff := 0; f_earliest := 0; f_snaps := [] |}.
Definition dlfol : lfol := {| l_joined := false; l_failed := false; l_spec := 0; l_queue := [] |}.
Definition dentry : entry := {| e_part := 0; e_pass := false |}.

Definition relevant_b (p:nat) (e:entry) : bool := Nat.eqb (e_part e) p && e_pass e.

(* offsets (1-based, ascending) of the entries among the first n of the log that table partition p must hold *)
Fixpoint rel_from (p:nat) (l:list entry) (off:nat) : list nat :=
  match l with
  | [] => []
  | e :: t => if relevant_b p e then off :: rel_from p t (S off) else rel_from p t (S off)
  end.
Definition relevant (p:nat) (log:list entry) : list nat := rel_from p log 1.
Definition rel_upto (p:nat) (log:list entry) (n:nat) : list nat := rel_from p (firstn n log) 1.

Definition content (f:fol) : list nat := f_file f ++ f_mem f.

(* ---- follower side ---- *)
(* the callback of doFollowLeaders followed by table.insert (isFollower): dedup by offset, then the table's own
   partition and WHERE check; skipped entries still advance the memstore offset *)
Definition callback (log:list entry) (f:fol) (off:nat) : fol :=
  let f1 :=
    if Nat.ltb (f_deliv f) off then
      let e := nth (off - 1) log dentry in
      {| f_part := f_part f; f_up := f_up f; f_link := f_link f; f_deliv := off;
         f_mem := if relevant_b (f_part f) e then f_mem f ++ [off] else f_mem f;
         f_moff := off; f_file := f_file f; f_foff := f_foff f; f_earliest := f_earliest f; f_snaps := f_snaps f |}
    else f in
  (* followSource: f.EarliestOffset = off once the insert function returned without error *)
  {| f_part := f_part f1; f_up := f_up f1; f_link := f_link f1; f_deliv := f_deliv f1; f_mem := f_mem f1;
     f_moff := f_moff f1; f_file := f_file f1; f_foff := f_foff f1; f_earliest := off; f_snaps := f_snaps f1 |}.

Definition flush (f:fol) : fol :=
  {| f_part := f_part f; f_up := f_up f; f_link := f_link f; f_deliv := f_deliv f; f_mem := [];
     f_moff := f_moff f; f_file := f_file f ++ f_mem f; f_foff := f_moff f; f_earliest := f_earliest f; f_snaps := f_snaps f |}.

(* the process is gone: everything volatile is lost; what a restart reads back is the directory *)
Definition down (f:fol) : fol :=
  {| f_part := f_part f; f_up := false; f_link := f_link f; f_deliv := f_foff f; f_mem := [];
     f_moff := f_foff f; f_file := f_file f; f_foff := f_foff f; f_earliest := f_earliest f; f_snaps := f_snaps f |}.

Definition start (f:fol) (earliest:nat) : fol :=
  {| f_part := f_part f; f_up := true; f_link := f_link f; f_deliv := f_foff f; f_mem := [];
     f_moff := f_foff f; f_file := f_file f; f_foff := f_foff f; f_earliest := earliest; f_snaps := f_snaps f |}.

Definition snap (f:fol) : fol :=
  {| f_part := f_part f; f_up := f_up f; f_link := f_link f; f_deliv := f_deliv f; f_mem := f_mem f;
     f_moff := f_moff f; f_file := f_file f; f_foff := f_foff f; f_earliest := f_earliest f;
     f_snaps := f_snaps f ++ [(f_file f, f_foff f)] |}.

Definition restore (f:fol) (k:nat) : fol :=
  match nth_error (f_snaps f) k with
  | Some (fl, fo) =>
    {| f_part := f_part f; f_up := false; f_link := f_link f; f_deliv := fo; f_mem := [];
       f_moff := fo; f_file := fl; f_foff := fo; f_earliest := f_earliest f; f_snaps := f_snaps f |}
  | None => f
  end.

Definition set_link (f:fol) (b:bool) : fol :=
  {| f_part := f_part f; f_up := f_up f; f_link := b; f_deliv := f_deliv f; f_mem := f_mem f;
     f_moff := f_moff f; f_file := f_file f; f_foff := f_foff f; f_earliest := f_earliest f; f_snaps := f_snaps f |}.

(* ---- leader side ---- *)
Definition fail_l (l:lfol) : lfol := {| l_joined := l_joined l; l_failed := true; l_spec := l_spec l; l_queue := [] |}.

(* processFollowers, case result: for the followers of the entry's partition, include iff WHERE passed and the offset
   is after the spec; then advance the spec; failed followers are not submitted to *)
Definition lread_one (e:entry) (off:nat) (fp:nat) (extra:bool) (l:lfol) : lfol :=
  if l_joined l then
    let mine := Nat.eqb (e_part e) fp in
    let incl := mine && e_pass e && Nat.ltb (l_spec l) off in
    let q1 := if incl && negb (l_failed l) then l_queue l ++ [off] else l_queue l in
    let q2 := if extra && negb (l_failed l) then q1 ++ [off] else q1 in
    {| l_joined := true; l_failed := l_failed l;
       l_spec := if mine && Nat.ltb (l_spec l) off then off else l_spec l; l_queue := q2 |}
  else l.

Fixpoint lread_all (e:entry) (off:nat) (fs:list fol) (extra:list bool) (ls:list lfol) : list lfol :=
  match ls, fs with
  | l :: lt, f :: ft => lread_one e off (f_part f) (hd false extra) l :: lread_all e off ft (tl extra) lt
  | _, _ => ls
  end.

Definition min_spec (ls:list lfol) (c:nat) : nat :=
  fold_left (fun m l => if l_joined l then Nat.min m (l_spec l) else m) ls c.

Definition set_fols (s:sys) (fs:list fol) : sys :=
  {| s_log := s_log s; s_lup := s_lup s; s_cursor := s_cursor s; s_lf := s_lf s; s_fols := fs |}.
Definition set_lf (s:sys) (ls:list lfol) : sys :=
  {| s_log := s_log s; s_lup := s_lup s; s_cursor := s_cursor s; s_lf := ls; s_fols := s_fols s |}.
Definition mark_failed (s:sys) (f:nat) : sys := set_lf s (upd (s_lf s) f (fail_l (nth f (s_lf s) dlfol))).

Definition step (s:sys) (o:op) : sys :=
  match o with
  | Ins p w =>
    if s_lup s then {| s_log := s_log s ++ [{| e_part := p; e_pass := w |}]; s_lup := true; s_cursor := s_cursor s;
                       s_lf := s_lf s; s_fols := s_fols s |} else s
  | LRead extra =>
    if s_lup s && Nat.ltb (s_cursor s) (length (s_log s)) then
      let e := nth (s_cursor s) (s_log s) dentry in
      {| s_log := s_log s; s_lup := true; s_cursor := S (s_cursor s);
         s_lf := lread_all e (S (s_cursor s)) (s_fols s) extra (s_lf s); s_fols := s_fols s |}
    else s
  | Deliver f =>
    let l := nth f (s_lf s) dlfol in
    let fo := nth f (s_fols s) dfol in
    if s_lup s && l_joined l && negb (l_failed l) && Nat.ltb f (length (s_fols s)) then
      match l_queue l with
      | [] => s
      | h :: t =>
        if f_up fo && f_link fo then
          set_fols (set_lf s (upd (s_lf s) f {| l_joined := true; l_failed := false; l_spec := l_spec l; l_queue := t |}))
                   (upd (s_fols s) f (callback (s_log s) fo h))
        else mark_failed s f
      end
    else s
  | Join f c =>
    let fo := nth f (s_fols s) dfol in
    if s_lup s && f_up fo && Nat.ltb f (length (s_fols s)) then
      (* onFollowerJoined: spec = max(table offset for this leader, EarliestOffset); a fresh follower object *)
      let l := {| l_joined := true; l_failed := false; l_spec := Nat.max (f_deliv fo) (f_earliest fo); l_queue := [] |} in
      let ls := upd (s_lf s) f l in
      {| s_log := s_log s; s_lup := true; s_cursor := min_spec ls c; s_lf := ls; s_fols := s_fols s |}
    else s
  | Flush f =>
    let fo := nth f (s_fols s) dfol in
    if f_up fo && Nat.ltb f (length (s_fols s)) then set_fols s (upd (s_fols s) f (flush fo)) else s
  | Stop f =>
    let fo := nth f (s_fols s) dfol in
    if f_up fo && Nat.ltb f (length (s_fols s)) then mark_failed (set_fols s (upd (s_fols s) f (down (flush fo)))) f else s
  | Kill f =>
    let fo := nth f (s_fols s) dfol in
    if f_up fo && Nat.ltb f (length (s_fols s)) then mark_failed (set_fols s (upd (s_fols s) f (down fo))) f else s
  | Start f x =>
    let fo := nth f (s_fols s) dfol in
    if negb (f_up fo) && Nat.ltb f (length (s_fols s)) then set_fols s (upd (s_fols s) f (start fo x)) else s
  | Snap f =>
    let fo := nth f (s_fols s) dfol in
    if Nat.ltb f (length (s_fols s)) then set_fols s (upd (s_fols s) f (snap fo)) else s
  | Restore f k =>
    let fo := nth f (s_fols s) dfol in
    if negb (f_up fo) && Nat.ltb f (length (s_fols s)) then set_fols s (upd (s_fols s) f (restore fo k)) else s
  | Cut f =>
    let fo := nth f (s_fols s) dfol in
    if Nat.ltb f (length (s_fols s)) then set_fols s (upd (s_fols s) f (set_link fo false)) else s
  | Uncut f =>
    let fo := nth f (s_fols s) dfol in
    if Nat.ltb f (length (s_fols s)) then set_fols s (upd (s_fols s) f (set_link fo true)) else s
  | LStop =>
    {| s_log := s_log s; s_lup := false; s_cursor := 0; s_lf := map (fun _ => dlfol) (s_lf s); s_fols := s_fols s |}
  | LStart =>
    {| s_log := s_log s; s_lup := true; s_cursor := 0; s_lf := map (fun _ => dlfol) (s_lf s); s_fols := s_fols s |}
  end.

Definition run (s:sys) (ops:list op) : sys := fold_left step ops s.

(* the one thing the protocol needs from the follower's start-up code (makeFollows): the EarliestOffset it
   announces is not after what this table has persisted.  Checked on the real code by the harness at every Follow. *)
Definition step_ok (s:sys) (o:op) : bool :=
  match o with
  | Start f x => Nat.leb x (f_foff (nth f (s_fols s) dfol))
  | _ => true
  end.
Fixpoint run_ok (s:sys) (ops:list op) : bool :=
  match ops with
  | [] => true
  | o :: t => step_ok s o && run_ok (step s o) t
  end.

Definition init_fol (p:nat) : fol :=
  {| f_part := p; f_up := true; f_link := true; f_deliv := 0; f_mem := []; f_moff := 0; f_file := []; f_foff := 0;
     f_earliest := 0; f_snaps := [] |}.
Definition init (parts:list nat) : sys :=
  {| s_log := []; s_lup := true; s_cursor := 0; s_lf := map (fun _ => dlfol) parts; s_fols := map init_fol parts |}.

(* all nodes up and caught up *)
Definition quiet_l (l:lfol) : bool := l_joined l && negb (l_failed l) && match l_queue l with [] => true | _ => false end.
Definition quiet_f (f:fol) : bool := f_up f && f_link f.
Definition quiescent (s:sys) : bool :=
  s_lup s && Nat.eqb (s_cursor s) (length (s_log s)) && forallb quiet_l (s_lf s) && forallb quiet_f (s_fols s).

(* ---- a fair schedule, used by the correspondence check to drive the model to quiescence ---- *)
Fixpoint joins (fs:list fol) (ls:list lfol) (i:nat) : list op :=
  match fs, ls with
  | f :: ft, l :: lt =>
    (if f_up f && f_link f && (negb (l_joined l) || l_failed l) then [Join i 0] else []) ++ joins ft lt (S i)
  | _, _ => []
  end.
Fixpoint deliver_all (ls:list lfol) (i:nat) : list op :=
  match ls with
  | [] => []
  | l :: lt => repeat (Deliver i) (length (l_queue l)) ++ deliver_all lt (S i)
  end.
Definition settle (s:sys) : sys :=
  let s1 := run s (joins (s_fols s) (s_lf s) 0) in
  let s2 := run s1 (repeat (LRead []) (length (s_log s1) - s_cursor s1)) in
  run s2 (deliver_all (s_lf s2) 0).

(* ---- several leaders: independent copies; follower operations act on every copy ---- *)
Inductive mop :=
| OnSource (src:nat) (o:op)        (* Ins, LRead, Deliver, Join, LStop, LStart of leader src *)
| OnFollower (o:op).               (* Flush, Stop, Kill, Start, Snap, Restore, Cut, Uncut: the follower process is one *)
Definition dsys : sys := {| s_log := []; s_lup := false; s_cursor := 0; s_lf := []; s_fols := [] |}.
Definition mstep (ss:list sys) (m:mop) : list sys :=
  match m with
  | OnSource i o => if Nat.ltb i (length ss) then upd ss i (step (nth i ss dsys) o) else ss
  | OnFollower o => map (fun s => step s o) ss
  end.
Definition mrun (ss:list sys) (ms:list mop) : list sys := fold_left mstep ms ss.
Fixpoint mrun_ok (ss:list sys) (ms:list mop) : bool :=
  match ms with
  | [] => true
  | m :: t =>
    match m with
    | OnSource i o => step_ok (nth i ss dsys) o
    | OnFollower o => forallb (fun s => step_ok s o) ss
    end && mrun_ok (mstep ss m) t
  end.
Definition minit (nsrc:nat) (parts:list nat) : list sys := repeat (init parts) nsrc.
