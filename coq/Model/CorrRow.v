(* CorrRow.v — the model's reader of the row format (Model/RowCodec.v) run on real files (stage rowfile of C03): the bytes
   that follow the header of a table's newest file must parse, row after row, to the end of the file with nothing left
   over; the keys read must be exactly the keys a scan of the table reports, and every row must have one column per
   stored field. *)
From Zeno Require Import Base RowCodec.

Fixpoint decode_all (fuel:nat) (file:list Z) : option (list (list Z * list (list Z))) :=
  match fuel with
  | O => None
  | S f => match file with
           | [] => Some []
           | _ => match decode_row file with
                  | Some (key, cols, rest) =>
                      match decode_all f rest with Some rows => Some ((key, cols) :: rows) | None => None end
                  | None => None
                  end
           end
  end.

Record row_case := {
  rc_file : list Z;              (* the file after its header, decompressed *)
  rc_keys : list (list Z);       (* the keys a disk-only scan of the table reports *)
  rc_ncols : Z                   (* stored fields, _points included *)
}.

Definition key_in (k:list Z) (ks:list (list Z)) : bool := existsb (list_eqb Z.eqb k) ks.
Definition row_case_ok (c:row_case) : bool :=
  match decode_all (S (length (rc_file c))) (rc_file c) with
  | None => false
  | Some rows =>
      Nat.eqb (length rows) (length (rc_keys c))
      && forallb (fun r => key_in (fst r) (rc_keys c) && (zlen (snd r) =? rc_ncols c)) rows
      && forallb (fun k => key_in k (map fst rows)) (rc_keys c)
  end.
Definition row_mismatches (cs:list row_case) : list Z := failing (map row_case_ok cs).
