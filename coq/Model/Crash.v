(* Crash.v — one table of a standalone database: WAL, reader, row-store goroutine, memstore, filestore header
   offsets, offset file; process kills at any step and reopening on the same directory (C02).

   Offsets: the i-th entry (0-based) of the WAL has offset i+1; 0 is "no offset".  A WAL entry whose values
   contain arrays becomes several row-store inserts that all carry the entry's offset (insert.go doInsert);
   [c_k] is that number.  The flag [atomic] selects how they reach the row store:
     atomic = true   one item per entry, applied under one lock hold (the code after the fix)
     atomic = false  one item per insert, a flush may land between them (the code as shipped)
   Definitions only — proofs are in Proofs/CrashP.v. *)
From Coq Require Import List Arith Bool.
Import ListNotations.

Record centry := { c_pass : bool;      (* the table's WHERE passes and the point is inside the retention period *)
                   c_k : nat }.        (* additional row-store inserts besides the first (array values) *)

Inductive pitem :=
| PIns (off:nat) (subs:list nat)       (* apply these sub-inserts of entry off, then record off *)
| PSkip (off:nat).                     (* table.skip: record the offset only *)

Record cstate := {
  c_wal : list centry;                 (* acknowledged inserts (the WAL is synced on write) *)
  (* --- the table directory --- *)
  c_file : list (nat * nat);           (* (offset, sub-insert) pairs aggregated in the newest filestore *)
  c_foff : nat;                        (* offset in its header *)
  c_ofile : nat;                       (* offset file (0: none) *)
  (* --- the process --- *)
  c_up : bool;
  c_rpos : nat;                        (* WAL entries read by the table's reader *)
  c_pend : list pitem;                 (* read, not yet applied by the row-store goroutine *)
  c_mem : list (nat * nat);            (* memstore *)
  c_moff : nat;                        (* memstore.offsetsBySource *)
  c_changed : bool                     (* memstore.offsetChanged *)
}.

Inductive cop :=
| Ack (pass:bool) (k:nat)              (* DB.Insert returned nil *)
| Read                                 (* processWALInserts + table.insert: the next WAL entry is turned into row-store inserts *)
| Apply                                (* the row-store goroutine takes one item *)
| Flush                                (* the row-store goroutine flushes (data: temp file, sync, rename, swap; or offsets only) *)
| Crash                                (* the process is killed *)
| Open.                                (* NewDB on the directory *)

Definition dcentry : centry := {| c_pass := false; c_k := 0 |}.

Definition items (atomic:bool) (off:nat) (e:centry) : list pitem :=
  if c_pass e then
    if atomic then [PIns off (seq 0 (S (c_k e)))]
    else map (fun i => PIns off [i]) (seq 0 (S (c_k e)))
  else [PSkip off].

Definition cstep (atomic:bool) (s:cstate) (o:cop) : cstate :=
  match o with
  | Ack p k =>
    {| c_wal := c_wal s ++ [{| c_pass := p; c_k := k |}]; c_file := c_file s; c_foff := c_foff s; c_ofile := c_ofile s;
       c_up := c_up s; c_rpos := c_rpos s; c_pend := c_pend s; c_mem := c_mem s; c_moff := c_moff s; c_changed := c_changed s |}
  | Read =>
    if c_up s && Nat.ltb (c_rpos s) (length (c_wal s)) then
      {| c_wal := c_wal s; c_file := c_file s; c_foff := c_foff s; c_ofile := c_ofile s; c_up := true;
         c_rpos := S (c_rpos s);
         c_pend := c_pend s ++ items atomic (S (c_rpos s)) (nth (c_rpos s) (c_wal s) dcentry);
         c_mem := c_mem s; c_moff := c_moff s; c_changed := c_changed s |}
    else s
  | Apply =>
    if c_up s then
      match c_pend s with
      | [] => s
      | PIns off subs :: t =>
        {| c_wal := c_wal s; c_file := c_file s; c_foff := c_foff s; c_ofile := c_ofile s; c_up := true; c_rpos := c_rpos s;
           c_pend := t; c_mem := c_mem s ++ map (fun i => (off, i)) subs; c_moff := off; c_changed := true |}
      | PSkip off :: t =>
        {| c_wal := c_wal s; c_file := c_file s; c_foff := c_foff s; c_ofile := c_ofile s; c_up := true; c_rpos := c_rpos s;
           c_pend := t; c_mem := c_mem s; c_moff := off; c_changed := true |}
      end
    else s
  | Flush =>
    if c_up s then
      match c_mem s with
      | [] =>
        (* nothing to flush; if offsets moved, write the offset file (temp, sync, rename: atomic) *)
        {| c_wal := c_wal s; c_file := c_file s; c_foff := c_foff s;
           c_ofile := if c_changed s then c_moff s else c_ofile s;
           c_up := true; c_rpos := c_rpos s; c_pend := c_pend s; c_mem := []; c_moff := c_moff s; c_changed := false |}
      | _ =>
        (* rows of the old file merged with the memstore, header offsets = the memstore's, renamed into place *)
        {| c_wal := c_wal s; c_file := c_file s ++ c_mem s; c_foff := c_moff s; c_ofile := c_ofile s;
           c_up := true; c_rpos := c_rpos s; c_pend := c_pend s; c_mem := []; c_moff := c_moff s; c_changed := false |}
      end
    else s
  | Crash =>
    {| c_wal := c_wal s; c_file := c_file s; c_foff := c_foff s; c_ofile := c_ofile s;
       c_up := false; c_rpos := 0; c_pend := []; c_mem := []; c_moff := 0; c_changed := false |}
  | Open =>
    if c_up s then s else
    (* openRowStore: newest filestore's offsets advanced by the offset file; the reader resumes after that offset *)
    let off := Nat.max (c_foff s) (c_ofile s) in
    {| c_wal := c_wal s; c_file := c_file s; c_foff := c_foff s; c_ofile := c_ofile s;
       c_up := true; c_rpos := off; c_pend := []; c_mem := []; c_moff := off; c_changed := false |}
  end.

Definition crun (atomic:bool) (s:cstate) (ops:list cop) : cstate := fold_left (cstep atomic) ops s.

Definition cinit : cstate :=
  {| c_wal := []; c_file := []; c_foff := 0; c_ofile := 0; c_up := true; c_rpos := 0; c_pend := []; c_mem := [];
     c_moff := 0; c_changed := false |}.

(* what the table must reflect: every sub-insert of every passing entry among the first n, once, in order *)
Fixpoint expand_from (l:list centry) (off:nat) : list (nat * nat) :=
  match l with
  | [] => []
  | e :: t => (if c_pass e then map (fun i => (off, i)) (seq 0 (S (c_k e))) else []) ++ expand_from t (S off)
  end.
Definition expected (wal:list centry) : list (nat * nat) := expand_from wal 1.
Definition expected_upto (wal:list centry) (n:nat) : list (nat * nat) := expand_from (firstn n wal) 1.

Definition ccontent (s:cstate) : list (nat * nat) := c_file s ++ c_mem s.

(* ingestion has caught up *)
Definition caught_up (s:cstate) : bool :=
  c_up s && Nat.eqb (c_rpos s) (length (c_wal s)) && match c_pend s with [] => true | _ => false end.

(* restart if necessary and let ingestion catch up: Open, then Read/Apply until nothing is left *)
Definition catch_up (atomic:bool) (s:cstate) : cstate :=
  let s1 := cstep atomic s Open in
  let s2 := crun atomic s1 (repeat Apply (length (c_pend s1))) in
  let todo := length (c_wal s2) - c_rpos s2 in
  (* with atomic = false an entry is several items: apply generously *)
  fold_left (fun st _ => crun atomic (cstep atomic st Read) (repeat Apply (length (c_pend (cstep atomic st Read)))))
            (seq 0 todo) s2.
