(* Corr02.v — the correspondence runner for C02: the history the harness drove a real database through (acknowledged
   inserts, flushes, waits, kills, reopenings) is applied to the crash model; after the last kill the model is
   reopened and caught up, and the number of row-store inserts it reflects per WAL entry is compared with what the
   real table "tid" showed.  Definitions only. *)
From Coq Require Import List Arith Bool.
From Zeno Require Import Crash.
Import ListNotations.

Inductive hcop :=
| COp (o:cop)
| CDrain.                               (* the harness waited until ingestion had caught up *)

Record crash_case := { cc_ops : list hcop; cc_obs : list nat;
                       cc_hung : nat }.   (* child processes that never finished (Close or reopening hung) *)

Definition hcstep (s:cstate) (h:hcop) : cstate :=
  match h with
  | COp o => cstep true s o
  | CDrain => if c_up s then catch_up true s else s
  end.

Definition reflected (s:cstate) (off:nat) : nat :=
  length (filter (fun p => Nat.eqb (fst p) off) (ccontent s)).

Definition list_eqb (a b:list nat) : bool :=
  Nat.eqb (length a) (length b) && forallb (fun p => Nat.eqb (fst p) (snd p)) (combine a b).

Definition crash_bad (c:crash_case) : bool :=
  let s := catch_up true (fold_left hcstep (cc_ops c) cinit) in
  negb (Nat.eqb (cc_hung c) 0 && caught_up s && list_eqb (map (reflected s) (seq 1 (length (c_wal s)))) (cc_obs c)).

Fixpoint crash_mm (cs:list crash_case) (i:nat) : list nat :=
  match cs with
  | [] => []
  | c :: t => (if crash_bad c then [i] else []) ++ crash_mm t (S i)
  end.
Definition crash_mismatches (cs:list crash_case) : list nat := crash_mm cs 0.
