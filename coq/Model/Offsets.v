(* Offsets.v — common.OffsetsBySource (common/common.go): WAL offsets per source id, as the row store keeps them for the
   memstore, writes them into file headers and the offset file, and hands them to the followers' bookkeeping.
   A wal.Offset is (file sequence, position), compared lexicographically (wal.Offset.After); the nil offset reads as
   (0, 0).  A Go map is modelled as an association list kept sorted by source id (the harness prints the real map
   sorted); None is the nil map.  Definitions only. *)
From Zeno Require Import Base.

Definition off : Type := (Z * Z)%type.
Definition off_after (a b:off) : bool := (fst b <? fst a) || ((fst a =? fst b) && (snd b <? snd a)).
Definition off_max (a b:off) : off := if off_after b a then b else a.
Definition off_zero : off := (0, 0).

Definition omap : Type := list (Z * off).
Definition obs : Type := option omap.

Fixpoint oget (s:Z) (m:omap) : option off :=
  match m with [] => None | (s', o) :: r => if s =? s' then Some o else oget s r end.
(* result[source] on a Go map: the zero value when absent *)
Definition oread (s:Z) (m:omap) : off := match oget s m with Some o => o | None => off_zero end.
Fixpoint oset (s:Z) (o:off) (m:omap) : omap :=
  match m with
  | [] => [(s, o)]
  | (s', o') :: r => if s =? s' then (s, o) :: r else if s <? s' then (s, o) :: (s', o') :: r else (s', o') :: oset s o r
  end.

(* OffsetsBySource.Advance *)
Definition advance (a b:obs) : obs :=
  match a, b with
  | None, _ => b
  | _, None => a
  | Some x, Some y =>
      Some (fold_left (fun res so => let '(s, o) := so in if off_after o (oread s res) then oset s o res else res) y x)
  end.

(* OffsetsBySource.LimitAge: a new map even for a nil receiver *)
Definition limit_age (lim:off) (a:obs) : obs :=
  Some (map (fun so => (fst so, if off_after lim (snd so) then lim else snd so)) (match a with Some x => x | None => [] end)).

(* what a reader of the map sees for a source *)
Definition olook (s:Z) (a:obs) : off := match a with Some m => oread s m | None => off_zero end.
Definition okeys (a:obs) : list Z := match a with Some m => map fst m | None => [] end.
