(* RowCodec.v — the row format of a table's files: fileStore.doWrite writes
     rowLength:u64 | keyLength:u16 | key | numColumns:u16 | columnLength:u64 x n | columns
   (big endian, rowLength counts itself) and fileStore.iterate reads it back.  Bytes are Z, lengths are taken from
   the lists; the conversions uint16(len(key)), uint16(len(columns)), uint64(len(seq)) wrap like Go's.
   Definitions only (proofs: Proofs/RowCodecP.v). *)
From Zeno Require Import Base.

Fixpoint enc_be (n:nat) (x:Z) : list Z :=
  match n with O => [] | S k => (x / 256 ^ Z.of_nat k) mod 256 :: enc_be k x end.
Fixpoint dec_be (n:nat) (l:list Z) (acc:Z) : option (Z * list Z) :=
  match n with
  | O => Some (acc, l)
  | S k => match l with [] => None | b :: r => dec_be k r (acc * 256 + b) end
  end.
Definition zlen {A} (l:list A) : Z := Z.of_nat (length l).

(* fileStore.doWrite, the non-raw path after truncation *)
Definition encode_row (key:list Z) (cols:list (list Z)) : list Z :=
  let rowLength := 8 + 2 + zlen key + 2 + fold_right (fun c acc => 8 + zlen c + acc) 0 cols in
  enc_be 8 rowLength ++ enc_be 2 (zlen key) ++ key ++ enc_be 2 (zlen cols)
  ++ flat_map (fun c => enc_be 8 (zlen c)) cols ++ concat cols.

Fixpoint read_lengths (n:nat) (l:list Z) : option (list Z * list Z) :=
  match n with
  | O => Some ([], l)
  | S k => match dec_be 8 l 0 with
           | Some (v, r) => match read_lengths k r with Some (vs, r') => Some (v :: vs, r') | None => None end
           | None => None
           end
  end.
Fixpoint read_cols (lens:list Z) (l:list Z) : option (list (list Z) * list Z) :=
  match lens with
  | [] => Some ([], l)
  | n :: r => if zlen l <? n then None          (* "Not enough data left to decode column" *)
              else match read_cols r (skipz n l) with
                   | Some (cs, l') => Some (firstz n l :: cs, l')
                   | None => None
                   end
  end.

(* fileStore.iterate on one row: key, columns, and what follows the row in the file *)
Definition decode_row (file:list Z) : option (list Z * list (list Z) * list Z) :=
  match dec_be 8 file 0 with
  | None => None
  | Some (rowLength, rest) =>
      if zlen rest <? rowLength - 8 then None else
      let row := firstz (rowLength - 8) rest in
      let after := skipz (rowLength - 8) rest in
      match dec_be 2 row 0 with
      | None => None
      | Some (keyLength, r1) =>
          if zlen r1 <? keyLength then None else
          let key := firstz keyLength r1 in
          match dec_be 2 (skipz keyLength r1) 0 with
          | None => None
          | Some (ncols, r2) =>
              match read_lengths (Z.to_nat ncols) r2 with
              | None => None
              | Some (lens, r3) =>
                  match read_cols lens r3 with
                  | Some (cols, _) => Some (key, cols, after)
                  | None => None
                  end
              end
          end
      end
  end.
