(* Sort.v — model of core/sort.go (orderedRows.Less, FlatRow.Get), core/compare.go,
   core/limit.go, core/offset.go and planner.addOrderLimitOffset.  Definitions only. *)
From Zeno Require Import Base.

(* dynamic values a FlatRow.Get can return: nil, bool, integer kinds, float kinds, string *)
Inductive val := VNil | VBool (b:bool) | VInt (z:Z) | VFlt (z:Z) | VStr (s:list Z).

Record frow := { r_ts : Z; r_vals : list (Z * Z); r_key : list (Z * val) }.

Inductive okey := OTime (desc:bool) | OKey (name:Z) (desc:bool).

Fixpoint assoc {A} (n:Z) (l:list (Z * A)) : option A :=
  match l with [] => None | (k,v)::r => if k =? n then Some v else assoc n r end.

(* FlatRow.Get: first the values by field name, then the key (nil when absent) *)
Definition row_get (r:frow) (n:Z) : val :=
  match assoc n (r_vals r) with
  | Some v => VFlt v
  | None => match assoc n (r_key r) with Some v => v | None => VNil end
  end.

Fixpoint str_cmp (a b:list Z) : comparison :=
  match a, b with
  | [], [] => Eq | [], _ => Lt | _, [] => Gt
  | x::ar, y::br => match x ?= y with Eq => str_cmp ar br | c => c end
  end.

Definition bool_cmp (a b:bool) : comparison :=
  match a, b with true, false => Gt | false, true => Lt | _, _ => Eq end.

(* core.compare: None = the unchecked type assertion b.(T) panics *)
Definition cmp (a b:val) : option comparison :=
  match a, b with
  | VNil, VNil => Some Eq
  | VNil, _ => Some Lt
  | _, VNil => Some Gt
  | VBool x, VBool y => Some (bool_cmp x y)
  | VInt x, VInt y => Some (x ?= y)
  | VFlt x, VFlt y => Some (x ?= y)
  | VStr x, VStr y => Some (str_cmp x y)
  | _, _ => None
  end.

(* orderedRows.Less as written (after the D2 repair: _time returns false when greater) *)
Fixpoint less (ks:list okey) (a b:frow) : option bool :=
  match ks with
  | [] => Some false
  | OTime d :: r =>
      let ta := if d then r_ts b else r_ts a in
      let tb := if d then r_ts a else r_ts b in
      if ta <? tb then Some true else if tb <? ta then Some false else less r a b
  | OKey n d :: r =>
      let va := if d then row_get b n else row_get a n in
      let vb := if d then row_get a n else row_get b n in
      match cmp va vb with
      | None => None
      | Some Lt => Some true
      | Some Gt => Some false
      | Some Eq => less r a b
      end
  end.

(* ---- specification: the lexicographic total preorder of the key list ---- *)
Definition vtag (v:val) : Z :=
  match v with VNil => 0 | VBool _ => 1 | VInt _ => 2 | VFlt _ => 3 | VStr _ => 4 end.
(* a total comparison on all values that agrees with [cmp] wherever [cmp] is defined *)
Definition vcmp (a b:val) : comparison :=
  match a, b with
  | VBool x, VBool y => bool_cmp x y
  | VInt x, VInt y => x ?= y
  | VFlt x, VFlt y => x ?= y
  | VStr x, VStr y => str_cmp x y
  | _, _ => vtag a ?= vtag b
  end.
Definition key_cmp (k:okey) (a b:frow) : comparison :=
  match k with
  | OTime d => if d then r_ts b ?= r_ts a else r_ts a ?= r_ts b
  | OKey n d => if d then vcmp (row_get b n) (row_get a n) else vcmp (row_get a n) (row_get b n)
  end.
Fixpoint row_cmp (ks:list okey) (a b:frow) : comparison :=
  match ks with [] => Eq | k::r => match key_cmp k a b with Eq => row_cmp r a b | c => c end end.
Definition lex_le (ks:list okey) (a b:frow) : Prop := row_cmp ks a b <> Gt.
Definition lex_leb (ks:list okey) (a b:frow) : bool :=
  match row_cmp ks a b with Gt => false | _ => true end.

(* the values two rows expose for every key are comparable by core.compare *)
Definition comparable2 (ks:list okey) (a b:frow) : bool :=
  forallb (fun k => match k with OTime _ => true
                    | OKey n _ => match cmp (row_get a n) (row_get b n) with Some _ => true | None => false end end) ks.
Definition comparable (ks:list okey) (rows:list frow) : bool :=
  forallb (fun a => forallb (fun b => comparable2 ks a b) rows) rows.

(* ---- executable oracles applied to the implementation's output ---- *)
Fixpoint sorted_chk (ks:list okey) (l:list frow) : bool :=
  match l with
  | [] => true
  | a :: r => match r with [] => true | b :: _ => lex_leb ks a b && sorted_chk ks r end
  end.

Definition val_eqb (a b:val) : bool :=
  match a, b with
  | VNil, VNil => true | VBool x, VBool y => Bool.eqb x y
  | VInt x, VInt y => x =? y | VFlt x, VFlt y => x =? y
  | VStr x, VStr y => match str_cmp x y with Eq => true | _ => false end
  | _, _ => false
  end.
Definition row_eqb (a b:frow) : bool :=
  (r_ts a =? r_ts b)
  && list_eqb (fun x y => (fst x =? fst y) && (snd x =? snd y)) (r_vals a) (r_vals b)
  && list_eqb (fun x y => (fst x =? fst y) && val_eqb (snd x) (snd y)) (r_key a) (r_key b).
Definition count_row (x:frow) (l:list frow) : nat := length (filter (row_eqb x) l).
Definition perm_chk (l1 l2:list frow) : bool :=
  forallb (fun x => Nat.eqb (count_row x l1) (count_row x l2)) (l1 ++ l2).
Definition rows_eqb (l1 l2:list frow) : bool := list_eqb row_eqb l1 l2.

(* ---- the model's own pipeline ---- *)
Definition lessb (ks:list okey) (a b:frow) : bool := match less ks a b with Some true => true | _ => false end.
Fixpoint insert_sorted (ks:list okey) (x:frow) (l:list frow) : list frow :=
  match l with [] => [x] | y::r => if lessb ks y x then y :: insert_sorted ks x r else x :: y :: r end.
Definition sort_rows (ks:list okey) (l:list frow) : list frow :=
  fold_right (insert_sorted ks) [] l.

(* core.Offset / core.Limit as callback counters over the delivered stream *)
Fixpoint offset_from (idx off:Z) (l:list frow) : list frow :=
  match l with [] => [] | x::r => if off <=? idx then x :: offset_from (idx+1) off r else offset_from (idx+1) off r end.
Definition offset_rows (off:Z) (l:list frow) := offset_from 0 off l.
Fixpoint limit_from (idx lim:Z) (l:list frow) : list frow :=
  match l with [] => [] | x::r => if idx <? lim then x :: limit_from (idx+1) lim r else [] end.
Definition limit_rows (lim:Z) (l:list frow) := limit_from 0 lim l.

(* planner.addOrderLimitOffset: [lim] = None when the query has no LIMIT clause *)
Definition order_limit_offset (ks:list okey) (off:Z) (lim:option Z) (l:list frow) : list frow :=
  let l1 := match ks with [] => l | _ => sort_rows ks l end in
  let l2 := if 0 <? off then offset_rows off l1 else l1 in
  match lim with Some n => limit_rows n l2 | None => l2 end.

(* ---- correspondence case: the implementation's observed outputs ---- *)
Record sort_case := {
  sc_keys : list okey; sc_off : Z; sc_lim : option Z;
  sc_in : list frow;
  sc_sorted : list frow;     (* output of core.Sort alone (= input when no keys) *)
  sc_out : list frow         (* output of sort -> offset -> limit *)
}.
Definition slice_spec (off:Z) (lim:option Z) (l:list frow) : list frow :=
  let l2 := skipz (Z.max 0 off) l in
  match lim with Some n => firstz (Z.max 0 n) l2 | None => l2 end.
Definition sort_case_ok (c:sort_case) : bool :=
  sorted_chk (sc_keys c) (sc_sorted c)
  && perm_chk (sc_in c) (sc_sorted c)
  && (match sc_keys c with [] => rows_eqb (sc_in c) (sc_sorted c) | _ => true end)
  && rows_eqb (sc_out c) (slice_spec (sc_off c) (sc_lim c) (sc_sorted c)).
Definition sort_mismatches (cs:list sort_case) : list Z := failing (map sort_case_ok cs).
