(* Tree.v — structural model of bytetree.Tree (bytetree/bytetree.go), the radix tree that holds
   a table's memstore and the output of core.Group: nodes with an optional key and optional
   data, edges labelled with byte strings, Update (exact match / descend / split on a common
   prefix / new edge), Remove and Walk with per-context removal marks, Copy, Length.
   A transcription branch for branch; definitions only (proofs: Proofs/TreeP.v).

   Bytes are Z, keys are lists of bytes (nil = []), a node's data ([]encoding.Sequence, nil when
   the node is interior) is an abstract D.  What Update does to the data (Sequence.Update or
   SubMerge per field) is the parameter f : option D -> D, applied to nil data when the node
   is new.  Not modelled: the byte estimate (Tree.bytes), the RWMutex around removedFor.

   Go mutates nodes in place; every function here returns the new tree.  Walk marks the nodes
   its callback does not keep while it goes; the model finds such a node again through its
   key (mark = the marking half of Remove), which is the same node in every well-formed tree
   (TreeP.mark_by_key) — all trees reachable through Update are well formed. *)
From Zeno Require Import Base.

Section Tree.
Variable D : Type.

Inductive node :=
| Node (key : list Z) (data : option D) (removed : list Z) (es : edges)
with edges :=
| ENil
| ECons (label : list Z) (target : node) (rest : edges).

Definition n_key (n:node) := match n with Node k _ _ _ => k end.
Definition n_data (n:node) := match n with Node _ d _ _ => d end.
Definition n_removed (n:node) := match n with Node _ _ r _ => r end.
Definition n_edges (n:node) := match n with Node _ _ _ es => es end.

Fixpoint elist (es:edges) : list (list Z * node) :=
  match es with ENil => [] | ECons l t r => (l, t) :: elist r end.
Fixpoint eapp (es:edges) (l:list Z) (t:node) : edges :=
  match es with ENil => ECons l t ENil | ECons l' t' r => ECons l' t' (eapp r l t) end.

(* the loop  for ; i < keyLength && i < labelLength; i++ { if edge.label[i] != key[i] { break } } *)
Fixpoint cpl (a b:list Z) : nat :=
  match a, b with x :: a', y :: b' => if x =? y then S (cpl a' b') else O | _, _ => O end.

(* node.doUpdate, preceded by what Tree.doUpdate does on an exact match: a node that has no
   data yet (an interior node made by a split) takes the key and counts as new *)
Definition set_data (f:option D -> D) (full:list Z) (n:node) : node * bool :=
  match n with
  | Node k None r es => (Node full (Some (f None)) r es, true)
  | Node k (Some d) r es => (Node k (Some (f (Some d))) r es, false)
  end.

Definition leaf (f:option D -> D) (full:list Z) : node := Node full (Some (f None)) [] ENil.

(* edge.split *)
Definition split (f:option D -> D) (full key:list Z) (i:nat) (lbl:list Z) (t:node) : list Z * node :=
  if Nat.eqb i (length key)
  then (firstn i lbl, Node full (Some (f None)) [] (ECons (skipn i lbl) t ENil))
  else (firstn i lbl, Node [] None [] (ECons (skipn i lbl) t (ECons (skipn i key) (leaf f full) ENil))).

(* Tree.doUpdate below node n with the rest [key] of [full]: the new node and whether a key was added *)
Definition setter := (option D -> D) -> list Z -> node -> node * bool.
Fixpoint upd_n (sd:setter) (f:option D -> D) (full key:list Z) (n:node) {struct n} : node * bool :=
  match n with
  | Node k d r es =>
      match upd_es sd f full key es with
      | Some (es', c) => (Node k d r es', c)
      | None => (Node k d r (eapp es key (leaf f full)), true)        (* Create new edge *)
      end
  end
with upd_es (sd:setter) (f:option D -> D) (full key:list Z) (es:edges) {struct es} : option (edges * bool) :=
  match es with
  | ENil => None
  | ECons lbl t rest =>
      let i := cpl lbl key in
      if Nat.eqb i (length key) && Nat.eqb (length key) (length lbl) then
        let '(t', c) := sd f full t in Some (ECons lbl t' rest, c)
      else if Nat.eqb i (length lbl) && Nat.ltb (length lbl) (length key) then
        let '(t', c) := upd_n sd f full (skipn (length lbl) key) t in Some (ECons lbl t' rest, c)
      else if Nat.ltb 0 i then
        let '(l', t') := split f full key i lbl t in Some (ECons l' t' rest, true)
      else
        match upd_es sd f full key rest with
        | Some (rest', c) => Some (ECons lbl t rest', c)
        | None => None
        end
  end.

(* wasRemovedFor / doRemoveFor *)
Definition was_removed (ctx:Z) (n:node) : bool :=
  if ctx =? 0 then false else existsb (Z.eqb ctx) (n_removed n).
Definition do_remove (ctx:Z) (n:node) : node :=
  if ctx =? 0 then n else match n with Node k d r es => Node k d (r ++ [ctx]) es end.

(* Tree.Remove below node n: the new node and the data handed back (None = nil) *)
Fixpoint rem_n (ctx:Z) (key:list Z) (n:node) {struct n} : node * option D :=
  match n with
  | Node k d r es => let '(es', o) := rem_es ctx key es in (Node k d r es', o)
  end
with rem_es (ctx:Z) (key:list Z) (es:edges) {struct es} : edges * option D :=
  match es with
  | ENil => (ENil, None)
  | ECons lbl t rest =>
      let i := cpl lbl key in
      if Nat.eqb i (length key) && Nat.eqb (length key) (length lbl) then
        if was_removed ctx t then (es, None) else (ECons lbl (do_remove ctx t) rest, n_data t)
      else if Nat.eqb i (length lbl) && Nat.ltb (length lbl) (length key) then
        let '(t', o) := rem_n ctx (skipn (length lbl) key) t in (ECons lbl t' rest, o)
      else
        let '(rest', o) := rem_es ctx key rest in (ECons lbl t rest', o)
  end.

(* the node Update / Remove address with [key], if there is one (specification-level lookup) *)
Fixpoint find_n (key:list Z) (n:node) {struct n} : option node := find_es key (n_edges n)
with find_es (key:list Z) (es:edges) {struct es} : option node :=
  match es with
  | ENil => None
  | ECons lbl t rest =>
      let i := cpl lbl key in
      if Nat.eqb i (length key) && Nat.eqb (length key) (length lbl) then Some t
      else if Nat.eqb i (length lbl) && Nat.ltb (length lbl) (length key) then find_n (skipn (length lbl) key) t
      else if Nat.ltb 0 i then None
      else find_es key rest
  end.

Fixpoint size_n (n:node) : nat := S (size_es (n_edges n))
with size_es (es:edges) : nat :=
  match es with ENil => O | ECons _ t r => size_n t + size_es r end.

(* the order in which Walk and Copy take nodes off their queue: breadth first *)
Fixpoint bfs (fuel:nat) (queue:list node) : list node :=
  match fuel with
  | O => []
  | S fu => match queue with
            | [] => []
            | n :: q => n :: bfs fu (q ++ map snd (elist (n_edges n)))
            end
  end.
Definition bfs_nodes (root:node) : list node := bfs (size_n root) [root].

(* Walk's callback, without its error: (more, keep) *)
Definition visitor := list Z -> D -> bool * bool.

(* what one Walk reports, in order, and the keys it marks; it stops after the first "no more" *)
Fixpoint walk_list (ctx:Z) (fn:visitor) (ns:list node) : list (list Z * D) * list (list Z) :=
  match ns with
  | [] => ([], [])
  | n :: r =>
      match n_data n with
      | Some d =>
          if was_removed ctx n then walk_list ctx fn r
          else let '(more, keep) := fn (n_key n) d in
               let '(vs, ms) := if more then walk_list ctx fn r else ([], []) in
               ((n_key n, d) :: vs, if keep then ms else n_key n :: ms)
      | None => walk_list ctx fn r
      end
  end.

Record tree := { t_root : node; t_len : Z }.
Definition tnew : tree := {| t_root := Node [] None [] ENil; t_len := 0 |}.

(* Tree.Update *)
Definition tupdate_with (sd:setter) (f:option D -> D) (key:list Z) (t:tree) : tree :=
  let '(r, c) := upd_n sd f key key (t_root t) in
  {| t_root := r; t_len := if c then t_len t + 1 else t_len t |}.
Definition tupdate := tupdate_with set_data.
(* Tree.Remove *)
Definition tremove (ctx:Z) (key:list Z) (t:tree) : tree * option D :=
  let '(r, o) := rem_n ctx key (t_root t) in ({| t_root := r; t_len := t_len t |}, o).
Definition mark (ctx:Z) (r:node) (key:list Z) : node := fst (rem_n ctx key r).
(* Tree.Walk *)
Definition twalk (ctx:Z) (fn:visitor) (t:tree) : tree * list (list Z * D) :=
  let '(vs, ms) := walk_list ctx fn (bfs_nodes (t_root t)) in
  ({| t_root := fold_left (mark ctx) ms (t_root t); t_len := t_len t |}, vs).

(* Tree.Copy: same keys, data and edges, no removal marks *)
Fixpoint copy_n (n:node) : node :=
  match n with Node k d _ es => Node k d [] (copy_es es) end
with copy_es (es:edges) : edges :=
  match es with ENil => ENil | ECons l t r => ECons l (copy_n t) (copy_es r) end.
Definition tcopy (t:tree) : tree :=
  {| t_root := Node [] None [] (copy_es (n_edges (t_root t))); t_len := t_len t |}.

(* lookup through the tree, as the specifications use it *)
Definition tfind (key:list Z) (t:tree) : option D :=
  match find_n key (t_root t) with Some n => n_data n | None => None end.
Definition tremoved (ctx:Z) (key:list Z) (t:tree) : bool :=
  match find_n key (t_root t) with Some n => was_removed ctx n | None => false end.

(* fileStore.iterate's use of the memstore tree: Remove every key read from the file (merging
   what comes back), then Walk what is left without keeping it *)
Fixpoint remove_all (ctx:Z) (keys:list (list Z)) (t:tree) : tree * list (list Z * option D) :=
  match keys with
  | [] => (t, [])
  | k :: r => let '(t1, o) := tremove ctx k t in
              let '(t2, os) := remove_all ctx r t1 in (t2, (k, o) :: os)
  end.
Definition take_all : visitor := fun _ _ => (true, false).
Definition iterate_keys (ctx:Z) (file_keys:list (list Z)) (t:tree) : list (list Z * option D) * list (list Z * D) :=
  let '(t1, os) := remove_all ctx file_keys t in (os, snd (twalk ctx take_all t1)).

(* the shipped Update (before the repair in /repo): an exact match on a node without data left
   the node's key alone and did not count it *)
Definition set_data_shipped (f:option D -> D) (full:list Z) (n:node) : node * bool :=
  match n with Node k d r es => (Node k (Some (f d)) r es, false) end.

End Tree.

Arguments Node {D}. Arguments ENil {D}. Arguments ECons {D}.
