(* Cluster.v — partition routing and the two distributed query plans at specification level
   (C10, C11).  murmur3 over the dimension bytes is external: [hash] is a Section variable.
   Definitions only. *)
From Coq Require Import QArith.
From Zeno Require Import Base Sort Expr ExprSpec DB.

Section C.
Variable hash : key -> Z.            (* murmur3-32 of the bytes of the selected dimensions, as a non-negative int *)

(* DB.partitionFor: the partition keys that are present (sorted), or all dims when there are none *)
Definition part_input (keys:list Z) (dims:key) : key :=
  match keys with
  | [] => dims
  | _ => filter (fun d => zmem (fst d) keys && negb (is_nil (snd d))) dims
  end.
Definition partition_for (keys:list Z) (P:Z) (dims:key) : Z := Z.modulo (hash (part_input keys dims)) P.

(* leader side: the entry is offered to the followers of partition_for under the table's partition keys;
   follower side: table.insert re-checks inPartition with the same keys and its own partition number *)
Definition leader_offers (keys:list Z) (P:Z) (dims:key) (p:Z) : bool := partition_for keys P dims =? p.
Definition follower_accepts (keys:list Z) (P:Z) (dims:key) (p:Z) : bool := partition_for keys P dims =? p.
End C.

(* the points of a history that are routed to partition p *)
Definition routed_to (route:tpoint -> Z) (p:Z) (pts:list tpoint) : list tpoint :=
  filter (fun x => route x =? p) pts.

(* a query's output groups are confined to single partitions *)
Definition confined (T:table) (q:query) (route:tpoint -> Z) (pts:list tpoint) : Prop :=
  forall x y k t, In x pts -> In y pts ->
    contributes T q x = Some (k, t) -> contributes T q y = Some (k, t) -> route x = route y.

(* non-pushdown: the leader re-merges the partial states of the partitions *)
Definition remerge (e:expr) (parts:list (list point)) : cell :=
  fold_left (fun acc ps => Expr.merge e acc (st e ps)) parts (empty e).
