(* Plan.v — the planner's decision between whole-query pushdown and partition-side pre-aggregation
   (planner/cluster.go pushdownAllowed), on the structure of the parsed query (C11).

   A query is a stack of levels, outermost first; the last one reads the table.  A level either groups by all
   dimensions of its input (GROUP BY * / no GROUP BY) or by named expressions; for every expression goexpr reports
   the parameters it transforms one-to-one (WalkOneToOneParams).  Names are numbers.  Definitions only. *)
From Coq Require Import List Arith Bool.
Import ListNotations.

Record level := {
  l_all : bool;                               (* GroupByAll *)
  l_gb : list (nat * list nat)                (* group-by name, its one-to-one parameters *)
}.

Record pquery := {
  pq_crosstab : bool;                         (* the outer query has a CROSSTAB *)
  pq_subbad : bool;                           (* the FROM-subquery has ORDER BY, CROSSTAB, LIMIT or OFFSET *)
  pq_nested_subq : bool;                      (* some FROM-subquery level filters by an IN-subquery of its own (each partition
                                                 would evaluate it on its own data; only the outermost WHERE's subqueries are
                                                 evaluated cluster-wide by the leader) *)
  pq_levels : list level;                     (* outermost first, non-empty *)
  pq_table_gb : option (list nat);            (* None: the table groups by all dimensions; Some ps: the one-to-one
                                                 parameters of its group-by expressions *)
  pq_pk : list nat                            (* the table's partition keys; [] = partitioned by all dimensions *)
}.

Definition memb (x:nat) (l:list nat) : bool := existsb (Nat.eqb x) l.

(* the parameters a level's key carries one-to-one, given what its consumer keeps of that key *)
Definition carried (pall:bool) (pparams:list nat) (gb:list (nat * list nat)) : list nat :=
  flat_map (fun g => if pall || memb (fst g) pparams then snd g else []) gb.

Fixpoint pd_walk (pall:bool) (pparams:list nat) (ls:list level) (tgb:option (list nat)) (pk:list nat) : bool :=
  match ls with
  | [] => false
  | [bottom] =>
    (* the table's key must determine the partition *)
    (match tgb with
     | None => true
     | Some tparams => negb (match pk with [] => true | _ => false end) && forallb (fun k => memb k tparams) pk
     end) &&
    (if l_all bottom && pall then true
     else negb (match pk with [] => true | _ => false end) &&
          forallb (fun k => memb k (if l_all bottom then pparams else carried pall pparams (l_gb bottom))) pk)
  | l :: rest =>
    if l_all l then pd_walk pall pparams rest tgb pk
    else pd_walk false (carried pall pparams (l_gb l)) rest tgb pk
  end.

Definition pushdown_allowed (q:pquery) : bool :=
  negb (pq_crosstab q) && negb (pq_subbad q) && negb (pq_nested_subq q) &&
  pd_walk true [] (pq_levels q) (pq_table_gb q) (pq_pk q).

(* ---- meaning: keys are functions from names to values; a level maps its input key to its output key ---- *)
Section Sem.
Variable value : Type.
Variable absent : value.
Definition key := nat -> value.
(* the group-by expression named n of the level that has d levels below it, evaluated on that level's input key *)
Variable eval : nat -> nat -> key -> value.

Definition level_out (d:nat) (l:level) (kin:key) : key :=
  if l_all l then kin else fun n => if memb n (map fst (l_gb l)) then eval d n kin else absent.

(* the key of the output group that a table row with key k ends up in: the levels are applied bottom-up *)
Fixpoint out_key (ls:list level) (k:key) : key :=
  match ls with
  | [] => k
  | l :: rest => level_out (length rest) l (out_key rest k)
  end.

(* goexpr's contract for WalkOneToOneParams: the value of the expression determines the value of each reported parameter *)
Fixpoint oto_sound (ls:list level) : Prop :=
  match ls with
  | [] => True
  | l :: rest =>
    (forall n ps p k1 k2, In (n, ps) (l_gb l) -> In p ps ->
        eval (length rest) n k1 = eval (length rest) n k2 -> k1 p = k2 p) /\ oto_sound rest
  end.

(* the table: its key is computed from the point's dimensions; None = all dimensions (identity) *)
Variable tkey : key -> key.
Definition table_oto (tgb:option (list nat)) : Prop :=
  match tgb with
  | None => forall d n, tkey d n = d n
  | Some tparams => forall d1 d2 p, In p tparams -> (forall n, tkey d1 n = tkey d2 n) -> d1 p = d2 p
  end.

(* routing looks at the partition keys of the point's dimensions only ([]: at all of them) *)
Definition route_respects (pk:list nat) (route:key -> nat) : Prop :=
  match pk with
  | [] => forall d1 d2, (forall n, d1 n = d2 n) -> route d1 = route d2
  | _ => forall d1 d2, (forall p, In p pk -> d1 p = d2 p) -> route d1 = route d2
  end.
End Sem.
