(* Base.v — shared definitions: time as Z nanoseconds since Go's zero time,
   rounding functions of encoding/time.go.  Definitions only. *)
From Coq Require Export List ZArith Bool.
Export ListNotations.
Open Scope Z_scope.

(* time: Z nanoseconds since Go's zero time.Time; 0 = time.Time{} *)
Definition is_zero (t:Z) : bool := t =? 0.
Definition ceil_mul (t r:Z) : Z := - ((- t) / r) * r.
Definition floor_mul (t r:Z) : Z := (t / r) * r.
Definition cdiv (a b:Z) : Z := - ((- a) / b).

(* encoding.RoundTimeUp / RoundTimeDown: multiples of res since the zero time *)
Definition round_up (ts res:Z) : Z := ceil_mul ts res.
Definition round_down (ts res:Z) : Z := floor_mul ts res.

(* encoding.RoundTimeUntilUp / RoundTimeUntilDown: on the grid anchored at [until] *)
Definition round_until_up (ts res until:Z) : Z :=
  if is_zero ts then ts else if is_zero until then round_up ts res
  else until - ((until - ts) / res) * res.
Definition round_until_down (ts res until:Z) : Z :=
  if is_zero ts then ts else if is_zero until then round_down ts res
  else until - (cdiv (until - ts) res) * res.

Fixpoint nthc {A} (n:nat) (l:list A) : option A :=
  match n, l with O, x::_ => Some x | S k, _::r => nthc k r | _, [] => None end.

Fixpoint upd_nth {A} (n:nat) (f:A->A) (l:list A) : list A :=
  match n, l with
  | O, x::r => f x :: r
  | S k, x::r => x :: upd_nth k f r
  | _, [] => []
  end.

(* Z-indexed list operations, recursive on the list so that astronomically large
   indices (times are ~6e19 ns) never materialise as unary naturals *)
Fixpoint firstz {A} (n:Z) (l:list A) : list A :=
  match l with [] => [] | x :: r => if 0 <? n then x :: firstz (n - 1) r else [] end.
Fixpoint skipz {A} (n:Z) (l:list A) : list A :=
  match l with [] => [] | x :: r => if 0 <? n then skipz (n - 1) r else l end.
Fixpoint nthz {A} (i:Z) (l:list A) : option A :=
  match l with [] => None | x :: r => if i =? 0 then Some x else if i <? 0 then None else nthz (i - 1) r end.

Fixpoint list_eqb {A} (e:A->A->bool) (a b:list A) : bool :=
  match a, b with [], [] => true | x::r, y::s => e x y && list_eqb e r s | _, _ => false end.

(* indices of the [false] entries of a list of booleans: used by every
   correspondence runner to report which cases disagree *)
Fixpoint failing_from (i:Z) (l:list bool) : list Z :=
  match l with [] => [] | b::r => if b then failing_from (i+1) r else i :: failing_from (i+1) r end.
Definition failing (l:list bool) : list Z := failing_from 0 l.
