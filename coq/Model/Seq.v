(* Seq.v — model of encoding/seq.go: Truncate, UpdateValue, Merge, SubMerge, ValueAt*.
   A sequence is None (Go's empty slice; Until() is the zero time) or
   Some (until, cells newest first).  Generic in the cell type.  Definitions only. *)
From Zeno Require Import Base.

Section S.
Variable cell : Type.
Variable cempty : cell.                       (* all-zero bytes of one period *)
Variable cmerge : cell -> cell -> cell.       (* Expr.Merge on one period *)

Definition seq := option (Z * list cell).
Definition s_until (s:seq) : Z := match s with None => 0 | Some (u,_) => u end.
Definition s_cells (s:seq) : list cell := match s with None => [] | Some (_,c) => c end.
Definition s_n (s:seq) : Z := Z.of_nat (length (s_cells s)).
Definition s_asof (s:seq) (res:Z) : Z :=
  match s with None => 0 | Some (u,c) => u - Z.of_nat (length c) * res end.
Definition empties (n:Z) : list cell := repeat cempty (Z.to_nat n).

(* Sequence.Truncate (after the D1 repair it never writes through its operand; at value level nothing changes) *)
Definition truncate (s:seq) (res asOf until:Z) : seq :=
  match s with None => None | Some (oldUntil, cs) =>
    let asOf' := round_until_down asOf res oldUntil in
    let until' := round_until_down until res oldUntil in
    let n := Z.of_nat (length cs) in
    let step1 : option (Z * list cell) :=
      if is_zero until' then Some (oldUntil, cs) else
        let ptr := Z.quot (oldUntil - until') res in
        if 0 <? ptr then (if n <=? ptr then None else Some (until', skipz ptr cs))
        else Some (oldUntil, cs) in
    match step1 with None => None | Some (u, cs1) =>
      if is_zero asOf' then Some (u, cs1) else
        let maxP := Z.quot (u - asOf') res in
        if maxP <=? 0 then None else Some (u, firstz maxP cs1)
    end
  end.

(* Sequence.UpdateValue; f = apply the point to one period's cell *)
Definition update_value (s:seq) (ts0 res tb0:Z) (f:cell->cell) : seq :=
  let ts := round_up ts0 res in
  let until := if is_zero (s_until s) then ts else s_until s in
  let tb := round_until_up tb0 res until in
  if ts <=? tb then truncate s res tb 0 else
  match s with
  | None => Some (ts, [f cempty])
  | Some (start, cs) =>
    let gap := Z.quot (ts - start) res in
    let maxP := Z.quot (ts - tb) res in
    if (start <? tb) || (maxP <? gap) then Some (ts, [f cempty]) else
    if start <? ts then
      let n := Z.of_nat (length cs) in
      let numP := if maxP <? n + gap then maxP else n + gap in
      let keep := numP - gap in
      Some (ts, upd_nth 0 f (empties gap ++ firstz keep cs))
    else
      let p := Z.quot (start - ts) res in
      let n := Z.of_nat (length cs) in
      let cs' := if n <=? p then cs ++ empties (p + 1 - n) else cs in
      Some (start, upd_nth (Z.to_nat p) f cs')
  end.

Fixpoint zipmerge (a b:list cell) (n:nat) : list cell :=
  match n with O => [] | S k =>
    match a, b with
    | x::ar, y::br => cmerge x y :: zipmerge ar br k
    | _, _ => []
    end end.

(* Sequence.Merge *)
Definition merge (a b:seq) (res tb0:Z) : seq :=
  match a, b with
  | None, _ => b
  | _, None => a
  | Some (ua, ca), Some (ub, cb) =>
    let '(startA, sa, startB, sb) := if ua <? ub then (ub, cb, ua, ca) else (ua, ca, ub, cb) in
    let tb := round_until_up tb0 res startA in
    if startB <? tb then Some (startA, sa) else
    let aP := Z.of_nat (length sa) in let bP := Z.of_nat (length sb) in
    let endA := startA - aP * res in let endB := startB - bP * res in
    let end_ := if endA <? endB then endA else endB in
    let total := Z.quot (startA - end_) res in
    let leadEnd := if startB <? endA then endA else startB in
    let lead := Z.quot (startA - leadEnd) res in
    let lead' := if 0 <? lead then lead else 0 in
    let part1 := firstz lead' sa in
    let sa1 := skipz lead' sa in
    let '(part2, sa2, sb2) :=
      if endA <? startB then
        let ov := (if endA <? endB then Z.quot (startA - endB) res else Z.quot (startA - endA) res) - lead in
        let ov' := if 0 <? ov then ov else 0 in
        (zipmerge sa1 sb (Z.to_nat ov'), skipz ov' sa1, skipz ov' sb)
      else if startB <? endA then
        (empties (Z.quot (endA - startB) res), sa1, sb)
      else ([], sa1, sb) in
    let part3 := if endA <? endB then sa2 else if endB <? endA then sb2 else [] in
    let body := part1 ++ part2 ++ part3 in
    (* out has exactly [total] cells: pad / cut like copy() into a fixed buffer *)
    Some (startA, firstz total (body ++ empties total))
  end.

(* Sequence.SubMerge.  sm r c kshift-th... : [sm] merges an input period list suffix into a result cell;
   it receives the input cells starting at the current input period (the Go sub-merger sees other[po*w:]). *)
Definition sub_merge (out inn:seq) (res inRes shift asOf until stride:Z)
           (sm:cell -> list cell -> cell) : seq :=
  let shiftBack := - shift in
  let otherAsOf0 := s_asof inn inRes in
  let otherAsOf := if otherAsOf0 <? asOf then asOf else otherAsOf0 in
  let inn1 := truncate inn inRes (asOf - shiftBack) until in
  match inn1 with None => out | Some (_, []) => out | Some (otherUntil0, ics0) =>
    let result0 := truncate out res asOf until in
    let '(otherUntil, ics) :=
      if 0 <? shiftBack then
        let su0 := otherUntil0 + shiftBack in
        let su := if until <? su0 then until else su0 in
        let grow := Z.quot (su - otherUntil0) inRes in
        if 0 <? grow then (su, empties grow ++ ics0) else (otherUntil0, ics0)
      else (otherUntil0, ics0) in
    let newUntil := round_until_up otherUntil res until in
    let '(resultUntil, rcs1) :=
      match result0 with
      | None | Some (_, []) => (newUntil, [cempty])
      | Some (ru, rcs) =>
        let ptp := Z.quot (newUntil - ru) res in
        if 0 <? ptp then (newUntil, empties ptp ++ rcs) else (ru, rcs)
      end in
    let rasof := resultUntil - Z.of_nat (length rcs1) * res in
    let oldAsOf := round_until_up rasof res resultUntil in
    let newAsOf := round_until_down otherAsOf res resultUntil in
    let pta := Z.quot (oldAsOf - newAsOf) res in
    let rcs2 := if 0 <? pta then rcs1 ++ empties pta else rcs1 in
    let scale := Z.quot res inRes in
    let untilOffset := Z.quot (resultUntil - otherUntil) inRes in
    let rP := Z.of_nat (length rcs2) in
    let strideP := Z.quot stride inRes in
    let fix go (po:nat) (rest:list cell) (acc:list cell) : list cell :=
      match rest with [] => acc | _ :: rest' =>
        let p := (Z.of_nat po + untilOffset) / scale in
        if rP <=? p then acc else
        let acc' :=
          if (stride <=? 0) || (Z.rem (Z.of_nat po + untilOffset) scale <? strideP)
          then upd_nth (Z.to_nat p) (fun r => sm r rest) acc
          else acc in
        go (S po) rest' acc'
      end in
    Some (resultUntil, go O ics rcs2)
  end.

(* denotation: period END time -> cell *)
Definition den (res:Z) (s:seq) (t:Z) : option cell :=
  match s with None => None | Some (u, cs) =>
    let d := u - t in
    if (0 <=? d) && (Z.rem d res =? 0) then nthz (d / res) cs else None
  end.

(* Sequence.ValueAtTime's period lookup (non-constant expressions): the cell a read-out is taken from *)
Definition cell_at_time (s:seq) (t res:Z) : option cell :=
  match s with None => None | Some (u, cs) =>
    let t' := round_until_up t res u in
    if u <? t' then None else nthz (Z.quot (u - t') res) cs
  end.
End S.

Arguments s_until {cell}.
Arguments s_cells {cell}.
Arguments s_asof {cell}.
