(* Coalesce.v — model of DB.doProcessIterations (table.go): several iterations of one
   table served by one shared scan.  Each iteration asks for some of the scanned fields,
   may stop early (LIMIT) and may fail (its own deadline, a failing consumer).
   Definitions only. *)
From Zeno Require Import Base.

Section C.
Variable V : Type.                           (* a column value (a sequence) *)

Record iter := {
  it_fields : list nat;                      (* positions, in the union of requested fields, of this iteration's out fields *)
  it_stop : nat -> bool;                     (* after its k-th row (k >= 1) the consumer wants no more *)
  it_fail : nat -> bool                      (* its k-th row callback returns an error *)
}.

Inductive status := Running | Done | Failed.
Definition srow := list V.                   (* one scanned row: a value per field of the union *)
Definition project (fs:list nat) (r:srow) : list (option V) := map (fun i => nth_error r i) fs.

Record istate := { is_n : nat; is_rows : list (list (option V)); is_status : status }.
Definition istart : istate := {| is_n := 0; is_rows := []; is_status := Running |}.

(* deliver one scanned row to one iteration (it.onValue) *)
Definition deliver (it:iter) (s:istate) (r:srow) : istate :=
  match is_status s with
  | Running =>
      let k := S (is_n s) in
      let rows := is_rows s ++ [project (it_fields it) r] in
      if it_fail it k then {| is_n := k; is_rows := rows; is_status := Failed |}
      else if it_stop it k then {| is_n := k; is_rows := rows; is_status := Done |}
      else {| is_n := k; is_rows := rows; is_status := Running |}
  | _ => s                                   (* removed from remainingIterations: not fed any more *)
  end.

(* an iteration running alone over the scanned rows *)
Definition solo (it:iter) (rows:list srow) : istate := fold_left (deliver it) rows istart.

(* the shared scan: every row goes to every iteration that is still running; an iteration's error
   or early stop removes only that iteration (after the error-isolation repair) *)
Definition costep (its:list iter) (ss:list istate) (r:srow) : list istate :=
  map (fun p => deliver (fst p) (snd p) r) (combine its ss).
Definition any_running (ss:list istate) : bool :=
  existsb (fun s => match is_status s with Running => true | _ => false end) ss.
(* the scan stops as soon as no iteration wants more rows *)
Fixpoint coscan (its:list iter) (ss:list istate) (rows:list srow) : list istate :=
  match rows with
  | [] => ss
  | r :: rest => if any_running ss then coscan its (costep its ss r) rest else ss
  end.
Definition coalesced (its:list iter) (rows:list srow) : list istate :=
  coscan its (map (fun _ => istart) its) rows.
End C.
