(* Expr.v — model of the expr package (expr/*.go): accumulator states ("cells"),
   Update, Merge, Get.  Definitions only.

   States are integers: every stored accumulator (SUM, MIN, MAX, COUNT, AVG's
   (count,total)) is closed under + , min, max and * of the inputs, so with
   integer inputs states are integers and the monoid laws are exact.  Division
   and comparisons-to-0/1 happen only in Get, which evaluates in Q.
   A cell mirrors the expression tree (DFS order = byte order in the Go buffer);
   zero-width expressions (field, constant) have cell CU. *)
From Coq Require Import QArith.
From Zeno Require Import Base.

Inductive agg := SUM | MIN | MAX | COUNT.
Inductive binop := ADD | SUB | MUL | DIV | LT | LTE | EQ | NEQ | GTE | GT | AND | OR.

Inductive expr :=
| EField (n:Z)                         (* expr.FIELD *)
| EConst (z:Z)                         (* expr.CONST, integer constants *)
| EBounded (e:expr) (lo hi:Z)          (* expr.BOUNDED *)
| EAgg (a:agg) (w:expr)                (* SUM/MIN/MAX/COUNT(wrapped) *)
| EAvg (v w:expr)                      (* WAVG(value, weight); AVG = WAVG(v, CONST 1) *)
| EBin (o:binop) (l r:expr)            (* + - * / comparisons AND OR *)
| EIf (c:nat) (e:expr)                 (* IF(cond, wrapped); cond = index into the point's oracle column *)
| EShift (e:expr) (off:Z)              (* SHIFT(wrapped, offset) *)
| EUnary (f:Z) (e:expr).               (* LN/LOG2/LOG10(wrapped): state only, read-out not modelled *)

Inductive cell :=
| CU
| CAgg (s:option Z)                    (* None = not set *)
| CAvg (s:option (Z * Z))              (* (count, total) *)
| CBin (l r:cell).

Definition params := list (Z * Z).     (* field name -> value *)
Definition conds := list bool.         (* IF condition id -> goexpr result on this point's dims *)
Record point := { p_vals : params; p_md : conds }.

Fixpoint pget (p:params) (n:Z) : option Z :=
  match p with [] => None | (k,v)::r => if k =? n then Some v else pget r n end.

(* EncodedWidth in bytes *)
Fixpoint width (e:expr) : Z :=
  match e with
  | EField _ | EConst _ => 0
  | EBounded e _ _ | EIf _ e | EShift e _ | EUnary _ e => width e
  | EAgg _ w => 1 + 8 + width w
  | EAvg v _ => 8 * 2 + 1 + width v
  | EBin _ l r => width l + width r
  end.

(* expressions an aggregate may wrap (validateWrappedInAggregate): field, constant, bounded thereof *)
Fixpoint wrappable (e:expr) : bool :=
  match e with EField _ | EConst _ => true | EBounded e _ _ => wrappable e | _ => false end.

(* Validate, restricted to the part of the grammar that is modelled: aggregates wrap
   wrappable expressions only; a binary expression wraps aggregate, if, avg, constant,
   shift, unary or (valid) binary expressions (validateWrappedInBinary) *)
Definition bin_child_kind (e:expr) : bool :=
  match e with EAgg _ _ | EIf _ _ | EAvg _ _ | EConst _ | EShift _ _ | EUnary _ _ | EBin _ _ _ => true | _ => false end.
Fixpoint valid (e:expr) : bool :=
  match e with
  | EField _ | EConst _ => true
  | EBounded e _ _ | EIf _ e | EShift e _ | EUnary _ e => valid e
  | EAgg _ w => wrappable w
  | EAvg v w => wrappable v && wrappable w
  | EBin _ l r => bin_child_kind l && bin_child_kind r && valid l && valid r
  end.

(* value and "updated" flag that Update of a wrappable expression reports to the aggregate around it *)
Fixpoint pval (e:expr) (p:params) : Z * bool :=
  match e with
  | EField n => match pget p n with Some v => (v, true) | None => (0, false) end
  | EConst z => (z, false)
  | EBounded e lo hi => let '(v, u) := pval e p in if (lo <=? v) && (v <=? hi) then (v, u) else (0, false)
  | _ => (0, false)
  end.

(* kernels of expr/aggregates.go (tied to Gen/Facts.v by Tie/Tie.v) *)
Definition agg_update (a:agg) (wasSet:bool) (cur next:Z) : Z :=
  match a with
  | SUM => cur + next
  | MIN => if negb wasSet then next else if next <? cur then next else cur
  | MAX => if negb wasSet then next else if cur <? next then next else cur
  | COUNT => cur + 1
  end.
Definition agg_merge (a:agg) (wasSet:bool) (cur next:Z) : Z :=
  match a with
  | SUM => cur + next
  | MIN => if negb wasSet then next else if next <? cur then next else cur
  | MAX => if negb wasSet then next else if cur <? next then next else cur
  | COUNT => cur + next
  end.

Fixpoint empty (e:expr) : cell :=
  match e with
  | EField _ | EConst _ => CU
  | EBounded e _ _ | EIf _ e | EShift e _ | EUnary _ e => empty e
  | EAgg _ _ => CAgg None
  | EAvg _ _ => CAvg None
  | EBin _ l r => CBin (empty l) (empty r)
  end.

Fixpoint shaped (e:expr) (c:cell) : bool :=
  match e, c with
  | EField _, CU | EConst _, CU => true
  | EBounded e _ _, _ | EIf _ e, _ | EShift e _, _ | EUnary _ e, _ => shaped e c
  | EAgg _ _, CAgg _ => true
  | EAvg _ _, CAvg _ => true
  | EBin _ l r, CBin cl cr => shaped l cl && shaped r cr
  | _, _ => false
  end.

(* Expr.Update: the state after applying one point *)
Fixpoint update (e:expr) (c:cell) (p:params) (md:conds) : cell :=
  match e with
  | EField _ | EConst _ => c
  | EBounded e _ _ | EShift e _ | EUnary _ e => update e c p md
  | EIf cid e => if nth cid md false then update e c p md else c
  | EAgg a w =>
      match c with
      | CAgg s =>
          let '(v, u) := pval w p in
          if u then CAgg (Some (agg_update a (match s with Some _ => true | None => false end)
                                             (match s with Some x => x | None => 0 end) v))
          else c
      | _ => c
      end
  | EAvg v w =>
      match c with
      | CAvg s =>
          let '(vv, u) := pval v p in
          let '(wv, _) := pval w p in
          let '(cnt, tot) := match s with Some ct => ct | None => (0, 0) end in
          if u then CAvg (Some (cnt + wv, tot + vv * wv)) else c
      | _ => c
      end
  | EBin _ l r =>
      match c with CBin cl cr => CBin (update l cl p md) (update r cr p md) | _ => c end
  end.

(* Expr.Merge on one period *)
Fixpoint merge (e:expr) (x y:cell) : cell :=
  match e with
  | EField _ | EConst _ => CU
  | EBounded e _ _ | EIf _ e | EShift e _ | EUnary _ e => merge e x y
  | EAgg a _ =>
      match x, y with
      | CAgg sx, CAgg sy =>
          CAgg (match sx, sy with
                | None, _ => sy
                | Some vx, None => Some vx
                | Some vx, Some vy => Some (agg_merge a true vx vy)
                end)
      | _, _ => x
      end
  | EAvg _ _ =>
      match x, y with
      | CAvg sx, CAvg sy =>
          CAvg (match sx, sy with
                | None, _ => sy
                | Some cx, None => Some cx
                | Some (cx, tx), Some (cy, ty) => Some (cx + cy, tx + ty)
                end)
      | _, _ => x
      end
  | EBin _ l r =>
      match x, y with CBin xl xr, CBin yl yr => CBin (merge l xl yl) (merge r xr yr) | _, _ => x end
  end.

(* ---- read-out, in Q ---- *)
Definition maxfloat : Q := (179769313486231570814527423731704356798070567525844996598917476803157260780028538760589558632766878171540458953514382464234321326889464182768467546703537516986049910576551282076245490090389328944075868508455133942304583236903222948165808559332123348274797826204144723168738177180919299881250404026184124858368 # 1).
Definition qb (b:bool) : Q := if b then 1%Q else 0%Q.
Definition cond_op (o:binop) (l r:Q) : bool :=
  match o with
  | LT => negb (Qle_bool r l) | LTE => Qle_bool l r
  | EQ => Qeq_bool l r | NEQ => negb (Qeq_bool l r)
  | GTE => Qle_bool r l | GT => negb (Qle_bool l r)
  | AND => negb (Qle_bool l 0) && negb (Qle_bool r 0)
  | OR => negb (Qle_bool l 0) || negb (Qle_bool r 0)
  | _ => false
  end.
Definition calc (o:binop) (l r:Q) : Q :=
  match o with
  | ADD => (l + r)%Q | SUB => (l - r)%Q | MUL => (l * r)%Q
  | DIV => if Qeq_bool r 0 then (if Qeq_bool l 0 then 0%Q else maxfloat) else (l / r)%Q
  | _ => qb (cond_op o l r)
  end.
Definition avg_calc (cnt tot:Z) : Q := if cnt =? 0 then 0%Q else (inject_Z tot / inject_Z cnt)%Q.

(* Expr.Get: (value, wasSet).  EUnary: the wrapped value (fn not applied; read-out of unary math is outside the model) *)
Fixpoint get (e:expr) (c:cell) : Q * bool :=
  match e with
  | EField _ => (0%Q, false)
  | EConst z => (inject_Z z, true)
  | EBounded e lo hi =>
      let '(v, s) := get e c in
      if s && Qle_bool (inject_Z lo) v && Qle_bool v (inject_Z hi) then (v, true) else (0%Q, false)
  | EIf _ e | EShift e _ | EUnary _ e => get e c
  | EAgg _ _ => match c with CAgg (Some v) => (inject_Z v, true) | _ => (0%Q, false) end
  | EAvg _ _ => match c with CAvg (Some (cnt, tot)) => (avg_calc cnt tot, true) | _ => (0%Q, false) end
  | EBin o l r =>
      match c with
      | CBin cl cr =>
          let '(lv, ls) := get l cl in let '(rv, rs) := get r cr in
          if negb ls && negb rs then (0%Q, false) else (calc o lv rv, true)
      | _ => (0%Q, false)
      end
  end.

Fixpoint is_constant (e:expr) : bool :=
  match e with
  | EField _ => false | EConst _ => true
  | EBounded e _ _ | EIf _ e | EShift e _ | EUnary _ e => is_constant e
  | EAgg _ w => is_constant w | EAvg v _ => is_constant v
  | EBin _ l r => is_constant l && is_constant r
  end.

(* Expr.Shift: cumulative shift *)
Fixpoint eshift (e:expr) : Z :=
  match e with
  | EField _ | EConst _ => 0
  | EBounded e _ _ | EIf _ e | EUnary _ e => eshift e
  | EShift e off => off + eshift e
  | EAgg _ w => eshift w
  | EAvg v w => Z.min (eshift v) (eshift w)
  | EBin _ l r => Z.min (eshift l) (eshift r)
  end.

(* ---- SubMergers ---- *)
(* e.String() == sub.String(): String drops AVG's weight and the cached widths *)
Fixpoint strform (e:expr) : expr :=
  match e with
  | EField n => EField n | EConst z => EConst z
  | EBounded e lo hi => EBounded (strform e) lo hi
  | EAgg a w => EAgg a (strform w)
  | EAvg v _ => EAvg (strform v) (EConst 0)
  | EBin o l r => EBin o (strform l) (strform r)
  | EIf c e => EIf c (strform e)
  | EShift e off => EShift (strform e) off
  | EUnary f e => EUnary f (strform e)
  end.
Definition agg_eqb (a b:agg) : bool :=
  match a, b with SUM, SUM | MIN, MIN | MAX, MAX | COUNT, COUNT => true | _, _ => false end.
Definition binop_tag (o:binop) : Z :=
  match o with ADD => 0 | SUB => 1 | MUL => 2 | DIV => 3 | LT => 4 | LTE => 5 | EQ => 6 | NEQ => 7 | GTE => 8 | GT => 9 | AND => 10 | OR => 11 end.
Fixpoint expr_eqb (x y:expr) : bool :=
  match x, y with
  | EField a, EField b => a =? b
  | EConst a, EConst b => a =? b
  | EBounded e lo hi, EBounded e' lo' hi' => expr_eqb e e' && (lo =? lo') && (hi =? hi')
  | EAgg a w, EAgg a' w' => agg_eqb a a' && expr_eqb w w'
  | EAvg v w, EAvg v' w' => expr_eqb v v' && expr_eqb w w'
  | EBin o l r, EBin o' l' r' => (binop_tag o =? binop_tag o') && expr_eqb l l' && expr_eqb r r'
  | EIf c e, EIf c' e' => Nat.eqb c c' && expr_eqb e e'
  | EShift e off, EShift e' off' => expr_eqb e e' && (off =? off')
  | EUnary f e, EUnary f' e' => (f =? f') && expr_eqb e e'
  | _, _ => false
  end.
Definition same_string (x y:expr) : bool := expr_eqb (strform x) (strform y).

(* a SubMerge: data cell, the input periods from the current one on, input resolution, metadata
   (None = nil metadata: IF includes) *)
Definition smfn := cell -> list cell -> Z -> option conds -> cell.
Definition include_md (cid:nat) (md:option conds) : bool :=
  match md with None => true | Some m => nth cid m false end.
Definition merge_first (e:expr) : smfn :=
  fun data other _ _ => match other with c :: _ => merge e data c | [] => data end.

Fixpoint first_match (e:expr) (subs:list expr) : option nat :=
  match subs with [] => None | s :: r => if same_string e s then Some O else option_map S (first_match e r) end.

Fixpoint submergers (e:expr) (subs:list expr) : list (option smfn) :=
  match e with
  | EField _ | EConst _ => map (fun _ => None) subs
  | EUnary _ e => submergers e subs
  | EBounded w _ _ =>
      if existsb (same_string e) subs
      then map (fun s => if same_string e s then Some (merge_first w) else None) subs
      else submergers w subs
  | EAgg _ _ | EAvg _ _ => map (fun s => if same_string e s then Some (merge_first e) else None) subs
  | EBin o l r =>
      match first_match e subs with
      | Some i => map (fun j => if Nat.eqb (fst j) i then Some (merge_first e) else None)
                      (combine (seq 0 (length subs)) subs)
      | None =>
          map (fun lr : option smfn * option smfn =>
                 match lr with
                 | (None, None) => None
                 | (Some lf, None) => Some (fun data other res md => match data with CBin dl dr => CBin (lf dl other res md) dr | _ => data end)
                 | (None, Some rf) => Some (fun data other res md => match data with CBin dl dr => CBin dl (rf dr other res md) | _ => data end)
                 | (Some lf, Some rf) => Some (fun data other res md => match data with CBin dl dr => CBin (lf dl other res md) (rf dr other res md) | _ => data end)
                 end)
              (combine (submergers l subs) (submergers r subs))
      end
  | EIf cid w =>
      if existsb (same_string e) subs
      then map (fun s => if same_string e s then Some (merge_first w) else None) subs
      else map (fun o : option smfn => match o with
                        | None => None
                        | Some f => Some (fun data other res md => if include_md cid md then f data other res md else data)
                        end) (submergers w subs)
  | EShift w off =>
      if existsb (same_string e) subs
      then map (fun s => if same_string e s then Some (merge_first w) else None) subs
      else map (fun o : option smfn => match o with
                        | None => None
                        | Some f => Some (fun data other res md =>
                                            let k := - (Z.quot off res) in
                                            if (0 <=? k) && (k <? Z.of_nat (length other))
                                            then f data (skipz k other) res md else data)
                        end) (submergers w subs)
  end.

(* accumulate a list of points into a single state *)
Definition st (e:expr) (pts:list point) : cell :=
  fold_left (fun c p => update e c (p_vals p) (p_md p)) pts (empty e).

(* ---- decidable equality on cells (for the correspondence run) ---- *)
Definition oz_eqb (a b:option Z) : bool :=
  match a, b with None, None => true | Some x, Some y => x =? y | _, _ => false end.
Definition ozz_eqb (a b:option (Z*Z)) : bool :=
  match a, b with None, None => true | Some (x,u), Some (y,v) => (x =? y) && (u =? v) | _, _ => false end.
Fixpoint cell_eqb (a b:cell) : bool :=
  match a, b with
  | CU, CU => true
  | CAgg x, CAgg y => oz_eqb x y
  | CAvg x, CAvg y => ozz_eqb x y
  | CBin a1 a2, CBin b1 b2 => cell_eqb a1 b1 && cell_eqb a2 b2
  | _, _ => false
  end.
Definition qres_eqb (a b:Q * bool) : bool :=
  Bool.eqb (snd a) (snd b) && (negb (snd a) || Qeq_bool (fst a) (fst b)).
