(* CorrOffsets.v — correspondence cases for common.OffsetsBySource (stage offs of C02 and C12). *)
From Zeno Require Import Base Offsets.

Record offs_case := {
  oc_a : obs; oc_b : obs; oc_lim : off;
  oc_adv : obs;        (* a.Advance(b), entries sorted by source; None = nil *)
  oc_lim_a : obs       (* a.LimitAge(lim) *)
}.

Definition off_eqb (x y:off) : bool := (fst x =? fst y) && (snd x =? snd y).
Definition obs_eqb (x y:obs) : bool :=
  match x, y with
  | None, None => true
  | Some m, Some n => list_eqb (fun p q => (fst p =? fst q) && off_eqb (snd p) (snd q)) m n
  | _, _ => false
  end.
Definition offs_case_ok (c:offs_case) : bool :=
  obs_eqb (advance (oc_a c) (oc_b c)) (oc_adv c) && obs_eqb (limit_age (oc_lim c) (oc_a c)) (oc_lim_a c).
Definition offs_mismatches (cs:list offs_case) : list Z := failing (map offs_case_ok cs).
