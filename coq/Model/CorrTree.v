(* CorrTree.v — correspondence cases for bytetree (stage `tree` of C01, C03, C18): operation
   sequences over a family of trees (a Copy adds one) with what the real bytetree.Tree was
   seen to return; the data of a node is the SUM the real tree accumulated in its one field. *)
From Zeno Require Import Base Tree.

Inductive top :=
| TUpd (t:nat) (key:list Z) (v:Z)                              (* Tree.Update: adds v to the key's SUM *)
| TRem (t:nat) (ctx:Z) (key:list Z) (obs:option Z)             (* Tree.Remove: nil, or the data's value *)
| TWalk (t:nat) (ctx ka kb ma mb:Z) (obs:list (list Z * Z))    (* Tree.Walk with the callback (ka,kb,ma,mb) *)
| TCopy (t:nat)                                                (* Tree.Copy: becomes the next tree *)
| TLen (t:nat) (obs:Z).                                        (* Tree.Length *)

Definition addv (v:Z) (o:option Z) : Z := match o with None => v | Some c => c + v end.

(* the harness's Walk callback: keep unless (len key + value) mod ka = kb; go on unless (len key + 2 value) mod ma = mb *)
Definition visit (ka kb ma mb:Z) : visitor Z := fun key d =>
  let l := Z.of_nat (length key) in
  (if ma =? 0 then true else negb ((l + 2 * d) mod ma =? mb),
   if ka =? 0 then true else negb ((l + d) mod ka =? kb)).

Definition oz_eqb (a b:option Z) : bool :=
  match a, b with None, None => true | Some x, Some y => x =? y | _, _ => false end.
Definition kv_eqb (a b:list Z * Z) : bool := list_eqb Z.eqb (fst a) (fst b) && (snd a =? snd b).

Definition set_tree (i:nat) (t:tree Z) (ts:list (tree Z)) : list (tree Z) := upd_nth i (fun _ => t) ts.

(* runs the operations on the model; false as soon as an observation differs *)
Fixpoint trun (ops:list top) (ts:list (tree Z)) : bool :=
  match ops with
  | [] => true
  | o :: r =>
      match o with
      | TUpd i key v =>
          match nthc i ts with Some t => trun r (set_tree i (tupdate Z (addv v) key t) ts) | None => false end
      | TRem i ctx key obs =>
          match nthc i ts with
          | Some t => let '(t', got) := tremove Z ctx key t in oz_eqb got obs && trun r (set_tree i t' ts)
          | None => false end
      | TWalk i ctx ka kb ma mb obs =>
          match nthc i ts with
          | Some t => let '(t', got) := twalk Z ctx (visit ka kb ma mb) t in
                      list_eqb kv_eqb got obs && trun r (set_tree i t' ts)
          | None => false end
      | TCopy i =>
          match nthc i ts with Some t => trun r (ts ++ [tcopy Z t]) | None => false end
      | TLen i obs =>
          match nthc i ts with Some t => (t_len Z t =? obs) && trun r ts | None => false end
      end
  end.

Definition tree_case_ok (ops:list top) : bool := trun ops [tnew Z].
Definition tree_mismatches (cs:list (list top)) : list Z := failing (map tree_case_ok cs).
