(* Pin.v — scans running while the row store keeps flushing and removing old files (row_store.go:
   rowStore.iterate, doProcessFlush, removeOldFiles).

   The stream is the sequence of applied points 0, 1, 2, ...  A file store written by a flush holds a prefix
   [0, upto) of it, the memstore the rest [upto, n).  A scan captures the current file store and a copy of the
   memstore, registers itself as a reader of that file (iterationsInProgress: "pins" it), opens the file and
   merges it with its memstore copy.  A remover deletes old files nobody is registered on.  fileStore.iterate
   treats a file that does not exist as "no file store yet" and goes on with the memstore alone.

   [atomic] says whether capturing and pinning happen in one critical section of rs.mx (true: the code after
   the repair; false: the code as shipped, which released the read lock and then took the write lock to pin).
   Definitions only — proofs are in Proofs/PinP.v. *)
From Coq Require Import List Arith Bool.
Import ListNotations.

Record pfile := { pf_id : nat; pf_upto : nat }.           (* the file holds the points [0, pf_upto) *)

Inductive phase :=
| Captured                                                (* holds file store + memstore copy, not registered yet *)
| Pinned                                                  (* registered on its file *)
| Finished (from upto : nat).                             (* returned the points [from, upto) *)

Record pscan := {
  ps_file : option pfile;                                 (* the file store captured (None: the table has none yet) *)
  ps_n : nat;                                             (* points applied when the memstore copy was taken *)
  ps_phase : phase
}.

Record pstate := {
  p_n : nat;                                              (* points applied so far *)
  p_next : nat;                                           (* id of the next file *)
  p_cur : option pfile;                                   (* rs.fileStore *)
  p_disk : list nat;                                      (* ids of the data files in the table directory *)
  p_scans : list pscan
}.

Inductive pop :=
| PInsert                                                 (* one more point applied to the memstore *)
| PFlush                                                  (* memstore written out as a new file, which becomes current *)
| PRemove (ids : list nat)                                (* the remover deletes these files *)
| PBegin                                                  (* a scan captures file store and memstore copy (and pins, if atomic) *)
| PPin (i : nat)                                          (* scan i registers on its file (separate step only if not atomic) *)
| PRead (i : nat).                                        (* scan i opens its file, merges, delivers, unregisters *)

Definition pinit : pstate := {| p_n := 0; p_next := 0; p_cur := None; p_disk := []; p_scans := [] |}.

Definition file_id (f:option pfile) : option nat := match f with Some x => Some (pf_id x) | None => None end.
Definition file_upto (f:option pfile) : nat := match f with Some x => pf_upto x | None => 0 end.

(* the files some scan is registered on *)
Definition pinned_ids (s:pstate) : list nat :=
  flat_map (fun sc => match ps_phase sc, ps_file sc with Pinned, Some f => [pf_id f] | _, _ => [] end) (p_scans s).

Definition mem (x:nat) (l:list nat) : bool := existsb (Nat.eqb x) l.

(* what the remover may delete: not the current file, and no file with a registered reader
   (rs.iterationsInProgress[filename] == 0); which of those it picks is up to its retention rule *)
Definition removable (s:pstate) (id:nat) : bool :=
  negb (match file_id (p_cur s) with Some c => Nat.eqb c id | None => false end) && negb (mem id (pinned_ids s)).

Fixpoint set_nth {A} (n:nat) (x:A) (l:list A) : list A :=
  match n, l with
  | O, _ :: r => x :: r
  | S k, y :: r => y :: set_nth k x r
  | _, [] => []
  end.

Definition pstep (atomic:bool) (s:pstate) (o:pop) : pstate :=
  match o with
  | PInsert => {| p_n := S (p_n s); p_next := p_next s; p_cur := p_cur s; p_disk := p_disk s; p_scans := p_scans s |}
  | PFlush =>
    if Nat.ltb (file_upto (p_cur s)) (p_n s) then
      let f := {| pf_id := p_next s; pf_upto := p_n s |} in
      {| p_n := p_n s; p_next := S (p_next s); p_cur := Some f; p_disk := p_disk s ++ [p_next s]; p_scans := p_scans s |}
    else s                                                (* empty memstore: no new file *)
  | PRemove ids =>
    if forallb (removable s) ids then
      {| p_n := p_n s; p_next := p_next s; p_cur := p_cur s;
         p_disk := filter (fun d => negb (mem d ids)) (p_disk s); p_scans := p_scans s |}
    else s                                                (* not something the remover does *)
  | PBegin =>
    {| p_n := p_n s; p_next := p_next s; p_cur := p_cur s; p_disk := p_disk s;
       p_scans := p_scans s ++ [{| ps_file := p_cur s; ps_n := p_n s; ps_phase := if atomic then Pinned else Captured |}] |}
  | PPin i =>
    match nth_error (p_scans s) i with
    | Some sc =>
      match ps_phase sc with
      | Captured => {| p_n := p_n s; p_next := p_next s; p_cur := p_cur s; p_disk := p_disk s;
                       p_scans := set_nth i {| ps_file := ps_file sc; ps_n := ps_n sc; ps_phase := Pinned |} (p_scans s) |}
      | _ => s
      end
    | None => s
    end
  | PRead i =>
    match nth_error (p_scans s) i with
    | Some sc =>
      match ps_phase sc with
      | Pinned =>
        (* os.OpenFile: a missing file is read as "no file store yet" *)
        let from := match ps_file sc with
                    | Some f => if mem (pf_id f) (p_disk s) then 0 else pf_upto f
                    | None => 0
                    end in
        {| p_n := p_n s; p_next := p_next s; p_cur := p_cur s; p_disk := p_disk s;
           p_scans := set_nth i {| ps_file := ps_file sc; ps_n := ps_n sc; ps_phase := Finished from (ps_n sc) |} (p_scans s) |}
      | _ => s
      end
    | None => s
    end
  end.

Definition prun (atomic:bool) (ops:list pop) : pstate := fold_left (pstep atomic) ops pinit.

(* the property, per scan: it returned exactly the points applied before it captured its snapshot *)
Definition scan_ok (sc:pscan) : bool :=
  match ps_phase sc with
  | Finished from upto => Nat.eqb from 0 && Nat.eqb upto (ps_n sc)
  | _ => true
  end.

(* ---- correspondence: one observed history ---- *)
(* what the harness did and saw: it holds a scan right after the capture step (as far as the source lets that
   step reach: with or without the registration), lets it go on later; per finished scan the sorted list of point
   indices its rows carried, per remover tick the files (by creation index) that disappeared from the directory *)
Inductive hpop :=
| HInsert | HFlush | HBegin
| HResume (i:nat) (seen:list nat)                         (* scan i goes on and returned rows for exactly these points *)
| HRemove (gone:list nat).                                (* files deleted during the wait *)

Definition hop_ops (atomic:bool) (h:hpop) : list pop :=
  match h with
  | HInsert => [PInsert] | HFlush => [PFlush] | HBegin => [PBegin]
  | HResume i _ => if atomic then [PRead i] else [PPin i; PRead i]
  | HRemove g => [PRemove g]
  end.

Fixpoint list_nat_eqb (a b:list nat) : bool :=
  match a, b with [], [] => true | x :: r, y :: t => Nat.eqb x y && list_nat_eqb r t | _, _ => false end.

(* replay the history on the model with the code's structure ([atomic] as the source says), checking at each
   step that the observation is what the model does: a remover tick deletes only what the model lets it delete,
   a finished scan returned exactly the points the model's scan returns *)
Fixpoint pin_replay (atomic:bool) (s:pstate) (h:list hpop) : bool :=
  match h with
  | [] => true
  | x :: r =>
    let s' := fold_left (pstep atomic) (hop_ops atomic x) s in
    (match x with
     | HRemove g => forallb (removable s) g && forallb (fun d => mem d (p_disk s)) g
     | HResume i seen =>
       match nth_error (p_scans s') i with
       | Some sc => match ps_phase sc with
                    | Finished from upto => list_nat_eqb seen (seq from (upto - from))
                    | _ => false
                    end
       | None => false
       end
     | _ => true
     end) && pin_replay atomic s' r
  end.

Record pin_case := mk_pin_case { pc_atomic : bool; pc_hist : list hpop }.
(* a case is fine when the implementation did what the model does AND every scan of the model run satisfies the
   property (the second is a theorem for atomic = true; for atomic = false it is what exhibits the failing input) *)
Definition pin_case_ok (c:pin_case) : bool :=
  pin_replay (pc_atomic c) pinit (pc_hist c) &&
  forallb scan_ok (p_scans (prun (pc_atomic c) (flat_map (hop_ops (pc_atomic c)) (pc_hist c)))).

Fixpoint pin_failing_from (i:nat) (l:list pin_case) : list nat :=
  match l with [] => [] | c :: r => if pin_case_ok c then pin_failing_from (S i) r else i :: pin_failing_from (S i) r end.
Definition pin_mismatches (l:list pin_case) : list nat := pin_failing_from 0 l.
