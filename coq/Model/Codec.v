(* Codec.v — how expressions cross the RPC boundary (C20): a wire tree per msgpack extension type,
   encode / decode per expression type following expr/*.go (default struct encoding = the exported
   fields; hand-written decoders rebuild the unexported function fields from names; bounded is
   positional), and the table-level completeness condition.  Definitions only. *)
From Coq Require Import String.
From Zeno Require Import Base Expr.
Local Open Scope string_scope.

Inductive wire :=
| WExt (id:Z) (fields:list (string * wire))     (* an extension type with named fields (a msgpack map) *)
| WPos (id:Z) (items:list wire)                 (* an extension type encoded positionally *)
| WInt (z:Z)
| WNat (n:nat)
| WStr (s:string).

Definition agg_name (a:agg) : string := match a with SUM => "SUM" | MIN => "MIN" | MAX => "MAX" | COUNT => "COUNT" end.
Definition agg_of_name (s:string) : option agg :=
  if String.eqb s "SUM" then Some SUM else if String.eqb s "MIN" then Some MIN
  else if String.eqb s "MAX" then Some MAX else if String.eqb s "COUNT" then Some COUNT else None.
Definition op_name (o:binop) : string :=
  match o with ADD => "+" | SUB => "-" | MUL => "*" | DIV => "/" | LT => "<" | LTE => "<=" | EQ => "=" | NEQ => "<>"
             | GTE => ">=" | GT => ">" | AND => "AND" | OR => "OR" end.
Definition op_of_name (s:string) : option binop :=
  if String.eqb s "+" then Some ADD else if String.eqb s "-" then Some SUB else if String.eqb s "*" then Some MUL
  else if String.eqb s "/" then Some DIV else if String.eqb s "<" then Some LT else if String.eqb s "<=" then Some LTE
  else if String.eqb s "=" then Some EQ else if String.eqb s "<>" then Some NEQ else if String.eqb s ">=" then Some GTE
  else if String.eqb s ">" then Some GT else if String.eqb s "AND" then Some AND else if String.eqb s "OR" then Some OR else None.

Fixpoint encode (e:expr) : wire :=
  match e with
  | EField n => WExt 50 [("Name", WInt n)]
  | EConst z => WExt 51 [("Value", WInt z)]
  | EBounded w lo hi => WPos 52 [encode w; WInt lo; WInt hi]
  | EAgg a w => WExt 53 [("Name", WStr (agg_name a)); ("Wrapped", encode w)]
  | EIf c w => WExt 54 [("Cond", WNat c); ("Wrapped", encode w); ("Width", WInt (width w))]
  | EAvg v w => WExt 55 [("Value", encode v); ("Weight", encode w)]
  | EBin o l r => WExt 56 [("Op", WStr (op_name o)); ("Left", encode l); ("Right", encode r); ("DeAggregated", WInt 0)]
  | EShift w off => WExt 57 [("Wrapped", encode w); ("Offset", WInt off); ("Width", WInt (width w))]
  | EUnary f w => WExt 58 [("Name", WInt f); ("Wrapped", encode w); ("Width", WInt (width w))]
  end.

Fixpoint wfield (n:string) (l:list (string * wire)) : option wire :=
  match l with [] => None | (k, v) :: r => if String.eqb k n then Some v else wfield n r end.

(* decode with fuel = the size of the tree; None = malformed *)
Fixpoint decode (fuel:nat) (w:wire) : option expr :=
  match fuel with O => None | S k =>
    match w with
    | WExt 50 fs => match wfield "Name" fs with Some (WInt n) => Some (EField n) | _ => None end
    | WExt 51 fs => match wfield "Value" fs with Some (WInt z) => Some (EConst z) | _ => None end
    | WPos 52 [w1; WInt lo; WInt hi] => match decode k w1 with Some e => Some (EBounded e lo hi) | None => None end
    | WExt 53 fs =>
        match wfield "Name" fs, wfield "Wrapped" fs with
        | Some (WStr s), Some w1 => match agg_of_name s, decode k w1 with Some a, Some e => Some (EAgg a e) | _, _ => None end
        | _, _ => None end
    | WExt 54 fs =>
        match wfield "Cond" fs, wfield "Wrapped" fs with
        | Some (WNat c), Some w1 => match decode k w1 with Some e => Some (EIf c e) | None => None end
        | _, _ => None end
    | WExt 55 fs =>
        match wfield "Value" fs, wfield "Weight" fs with
        | Some w1, Some w2 => match decode k w1, decode k w2 with Some v, Some w => Some (EAvg v w) | _, _ => None end
        | _, _ => None end
    | WExt 56 fs =>
        match wfield "Op" fs, wfield "Left" fs, wfield "Right" fs with
        | Some (WStr s), Some w1, Some w2 =>
            match op_of_name s, decode k w1, decode k w2 with Some o, Some l, Some r => Some (EBin o l r) | _, _, _ => None end
        | _, _, _ => None end
    | WExt 57 fs =>
        match wfield "Wrapped" fs, wfield "Offset" fs with
        | Some w1, Some (WInt off) => match decode k w1 with Some e => Some (EShift e off) | None => None end
        | _, _ => None end
    | WExt 58 fs =>
        match wfield "Name" fs, wfield "Wrapped" fs with
        | Some (WInt f), Some w1 => match decode k w1 with Some e => Some (EUnary f e) | None => None end
        | _, _ => None end
    | _ => None
    end
  end.

Fixpoint esize (e:expr) : nat :=
  match e with
  | EField _ | EConst _ => 1
  | EBounded e _ _ | EAgg _ e | EIf _ e | EShift e _ | EUnary _ e => S (esize e)
  | EAvg a b | EBin _ a b => S (esize a + esize b)
  end.

(* ---- the codec table translated from the source ---- *)
(* per extension type: the fields whose value determines behaviour (Update/Merge/Get/String/EncodedWidth) *)
Definition behaviour_fields (ty:string) : list string :=
  if String.eqb ty "field" then ["Name"] else if String.eqb ty "constant" then ["Value"]
  else if String.eqb ty "bounded" then ["wrapped"; "min"; "max"]
  else if String.eqb ty "aggregate" then ["Name"; "Wrapped"; "update"; "merge"]
  else if String.eqb ty "ifExpr" then ["Cond"; "Wrapped"; "Width"]
  else if String.eqb ty "avg" then ["Value"; "Weight"]
  else if String.eqb ty "binaryExpr" then ["Op"; "Left"; "Right"; "calc"]
  else if String.eqb ty "shift" then ["Wrapped"; "Offset"; "Width"]
  else if String.eqb ty "unaryMathExpr" then ["Name"; "fn"; "Wrapped"; "Width"]
  else if String.eqb ty "ptile" then ["Value"; "Percentile"; "Min"; "Max"; "Precision"; "HDRPrecision"; "Width"]
  else if String.eqb ty "ptileOptimized" then ["Wrapped"; "ptile"; "Percentile"]
  else ["<unknown type>"].

Fixpoint smem (x:string) (l:list string) : bool :=
  match l with [] => false | y :: r => String.eqb x y || smem x r end.

(* a type restores a field if its hand-written decoder assigns it, or (default decoding) it is exported *)
Definition restored (row:Z * (string * (bool * (bool * (list string * (list string * list string)))))) : list string :=
  let '(_, (_, (custom, (_, (exported, (_, assigned)))))) := row in if custom then assigned else exported.
Definition codec_row_ok (row:Z * (string * (bool * (bool * (list string * (list string * list string)))))) : bool :=
  forallb (fun f => smem f (restored row)) (behaviour_fields (fst (snd row))).
Definition codec_table_ok (t:list (Z * (string * (bool * (bool * (list string * (list string * list string))))))) : bool :=
  forallb codec_row_ok t.
