(* PinSrc.v — reading the structure of rowStore.iterate off the step list the translator extracts from
   row_store.go (Gen/Facts.v, gen_iterate_steps): does the scan register on its file store in the same critical
   section of rs.mx in which it captured it?  Definitions only. *)
From Coq Require Import List Bool String.
Import ListNotations.
Open Scope string_scope.

(* steps: "rlock" "runlock" "lock" "unlock" (rs.mx), "capture" (fs := rs.fileStore), "copy_mem" (rs.memStore.copy()),
   "pin" (rs.iterationsInProgress[fs.filename]++), "read" (fs.iterate) *)
Definition is_lock (s:string) : bool := String.eqb s "lock" || String.eqb s "rlock".
Definition is_unlock (s:string) : bool := String.eqb s "unlock" || String.eqb s "runlock".

(* scanning left to right: [held] = inside a critical section; [cap] = the capture was seen in the current
   critical section and it has not been left since *)
Fixpoint pins_atomically_from (held cap:bool) (l:list string) : bool :=
  match l with
  | [] => false
  | s :: r =>
    if is_lock s then pins_atomically_from true cap r
    else if is_unlock s then pins_atomically_from false false r
    else if String.eqb s "capture" then pins_atomically_from held held r
    else if String.eqb s "pin" then cap && held
    else if String.eqb s "read" then false               (* read before registering *)
    else pins_atomically_from held cap r
  end.
Definition pins_atomically (l:list string) : bool := pins_atomically_from false false l.

(* the memstore copy must come from the same critical section as the file store it is merged with *)
Fixpoint copies_with_capture_from (held cap:bool) (l:list string) : bool :=
  match l with
  | [] => false
  | s :: r =>
    if is_lock s then copies_with_capture_from true cap r
    else if is_unlock s then copies_with_capture_from false false r
    else if String.eqb s "capture" then copies_with_capture_from held held r
    else if String.eqb s "copy_mem" then cap && held
    else copies_with_capture_from held cap r
  end.
Definition copies_with_capture (l:list string) : bool := copies_with_capture_from false false l.

Example shipped_structure_is_not_atomic :
  pins_atomically ["rlock"; "capture"; "copy_mem"; "runlock"; "lock"; "pin"; "unlock"; "read"] = false /\
  copies_with_capture ["rlock"; "capture"; "copy_mem"; "runlock"; "lock"; "pin"; "unlock"; "read"] = true.
Proof. split; reflexivity. Qed.
Example repaired_structure_is_atomic :
  pins_atomically ["lock"; "capture"; "copy_mem"; "pin"; "unlock"; "read"] = true.
Proof. reflexivity. Qed.
