(* Filter.v — HAVING, IN-subquery and FROM-subquery as relations between the results of two queries (C08).

   HAVING:        rows(Q HAVING f op c)            = the rows of rows(Q) whose value of f satisfies (op c)
   IN-subquery:   rows(Q WHERE d IN (SELECT d …))  = rows(Q WHERE d IN (<the distinct values the subquery returns>))
   FROM-subquery: rows(outer over (inner))         = rows(the same outer query over the materialised inner result)
   The correspondence runs both queries of each pair on the real database and checks the relation here.
   Definitions only. *)
From Coq Require Import QArith List Bool.
From Zeno Require Import Base Sort Expr DB.
Import ListNotations.

Inductive hcmp := HGt | HGe | HLt | HLe | HEq | HNe.
Definition hsat (c:hcmp) (x bound:Q) : bool :=
  match c with
  | HGt => negb (Qle_bool x bound)
  | HGe => Qle_bool bound x
  | HLt => negb (Qle_bool bound x)
  | HLe => Qle_bool x bound
  | HEq => Qeq_bool x bound
  | HNe => negb (Qeq_bool x bound)
  end.

(* the HAVING-free query's rows that satisfy the predicate on output field number idx *)
Definition having_spec (idx:nat) (c:hcmp) (bound:Q) (rows:list orow) : list orow :=
  filter (fun r => hsat c (nth idx (o_vals r) 0%Q) bound) rows.

Inductive frel :=
| RHaving (idx:nat) (c:hcmp) (bound:Q)     (* b = a with HAVING *)
| RSame                                     (* b must equal a as a set of rows: IN-subquery vs literal list *)
| ROrdered.                                 (* b must equal a row by row, in order: the same query answered over RPC and in-process (C20) *)

Record filter_case := {
  fc_rel : frel;
  fc_fields_same : bool;        (* the two results have the same field names (no helper column exposed) *)
  fc_err_a : bool; fc_err_b : bool;
  fc_a : list orow;             (* reference query *)
  fc_b : list orow              (* query under test *)
}.

Fixpoint rows_same_ordered (a b:list orow) : bool :=
  match a, b with
  | [], [] => true
  | x :: r, y :: s => (o_ts x =? o_ts y)%Z && key_eqb (o_key x) (o_key y) && vals_close (o_vals x) (o_vals y) && rows_same_ordered r s
  | _, _ => false
  end.

Definition filter_ok (c:filter_case) : bool :=
  if fc_err_a c || fc_err_b c then Bool.eqb (fc_err_a c) (fc_err_b c)
  else fc_fields_same c &&
       match fc_rel c with
       | RHaving idx cmp bound => rows_match (having_spec idx cmp bound (fc_a c)) (fc_b c)
       | RSame => rows_match (fc_a c) (fc_b c)
       | ROrdered => rows_same_ordered (fc_a c) (fc_b c)
       end.

Fixpoint filter_mm (cs:list filter_case) (i:Z) : list Z :=
  match cs with
  | [] => []
  | c :: t => (if filter_ok c then [] else [i]) ++ filter_mm t (i + 1)
  end.
Definition filter_mismatches (cs:list filter_case) : list Z := filter_mm cs 0.
