(* Alter.v — altering a table's definition (C15): fields keep their stored values as long as
   they keep their name and expression; added fields start empty; a new WHERE applies to points
   processed afterwards.  Specification level, on top of Model/DB.v.  Definitions only. *)
From Coq Require Import QArith.
From Zeno Require Import Base Sort Expr ExprSpec DB.

Inductive aop :=
| AIns (p:tpoint)
| AAlter (fields:list (Z * expr)) (w:option nat)   (* new field list (without _points) and the index of the new WHERE's oracle column *)
| AFlush
| AReopen.

(* a field of the current definition together with the number of accepted points that preceded its addition *)
Record afield := { af_name : Z; af_expr : expr; af_since : nat }.
Record astate := {
  a_fields : list afield;
  a_where : option nat;
  a_acc : list tpoint            (* accepted points in processing order *)
}.

(* core.Field.Equals: same name and same expression string *)
Definition same_field (n:Z) (e:expr) (f:afield) : bool := (af_name f =? n) && same_string (af_expr f) e.

Definition alter_fields (old:list afield) (now:nat) (new:list (Z * expr)) : list afield :=
  map (fun ne => match find (same_field (fst ne) (snd ne)) old with
                 | Some f => {| af_name := fst ne; af_expr := snd ne; af_since := af_since f |}
                 | None => {| af_name := fst ne; af_expr := snd ne; af_since := now |}
                 end) new.

Definition astep (s:astate) (o:aop) : astate :=
  match o with
  | AIns p => if flag (a_where s) p
              then {| a_fields := a_fields s; a_where := a_where s; a_acc := a_acc s ++ [p] |} else s
  | AAlter fs w => {| a_fields := alter_fields (a_fields s) (length (a_acc s)) fs; a_where := w; a_acc := a_acc s |}
  | AFlush | AReopen => s
  end.
Definition ainit (fs:list (Z * expr)) (w:option nat) : astate :=
  {| a_fields := map (fun ne => {| af_name := fst ne; af_expr := snd ne; af_since := 0 |}) fs; a_where := w; a_acc := [] |}.
Definition arun (fs:list (Z * expr)) (w:option nat) (ops:list aop) : astate := fold_left astep ops (ainit fs w).

(* the rows of SELECT * at native grouping: per (key, period) every current field is its declared
   aggregate over the accepted points of that group that were processed since the field was added *)
Definition pts_since (n:nat) (acc:list (nat * point)) : list point :=
  map snd (filter (fun ip => Nat.leb n (fst ip)) acc).

Fixpoint add_to_igroup (k:key) (t:Z) (ip:nat * point) (gs:list (key * Z * list (nat * point))) :=
  match gs with
  | [] => [(k, t, [ip])]
  | (k', t', ps) :: r => if key_eqb k k' && (t =? t') then (k', t', ps ++ [ip]) :: r
                         else (k', t', ps) :: add_to_igroup k t ip r
  end.
Fixpoint igroups (gb:option (list Z)) (res:Z) (i:nat) (acc:list tpoint) (gs:list (key * Z * list (nat * point))) :=
  match acc with
  | [] => gs
  | p :: r => igroups gb res (S i) r (add_to_igroup (project gb (tp_dims p)) (bucket res (tp_ts p)) (i, tp_pt p) gs)
  end.

Definition points_field : afield := {| af_name := 0; af_expr := EAgg SUM (EField 9); af_since := 0 |}.
Definition alter_rows (gb:option (list Z)) (res:Z) (s:astate) : list orow :=
  let fs := points_field :: a_fields s in
  flat_map (fun g => match g with (k, t, ips) =>
      if existsb (fun f => negb (is_constant (af_expr f)) && snd (ref (af_expr f) (pts_since (af_since f) ips))) fs
      then [{| o_ts := t; o_key := k; o_vals := map (fun f => fst (ref (af_expr f) (pts_since (af_since f) ips))) fs |}]
      else []
    end) (igroups gb res 0 (a_acc s) []).

Record alt_run := { ar_upto : nat; ar_err : bool; ar_rows : list orow }.
Record alt_case := {
  ac_fields : list (Z * expr); ac_where : option nat; ac_groupby : option (list Z); ac_res : Z;
  ac_ops : list aop; ac_runs : list alt_run }.

Definition alt_run_ok (c:alt_case) (r:alt_run) : bool :=
  negb (ar_err r) &&
  rows_match (alter_rows (ac_groupby c) (ac_res c) (arun (ac_fields c) (ac_where c) (firstn (ar_upto r) (ac_ops c)))) (ar_rows r).
Definition alt_case_ok (c:alt_case) : bool := forallb (alt_run_ok c) (ac_runs c).
Definition alt_mismatches (cs:list alt_case) : list Z := failing (map alt_case_ok cs).
