(* Alias.v — buffer-level model of the memstore snapshot a scan takes (rowStore.iterate:
   ms = rs.memStore.copy(), bytetree.Tree.Copy) and of the live tree being updated while
   the scan delivers rows.  A tree binds keys to buffer ids; the heap maps ids to sequence
   values.  The live store's inserts are modelled pessimistically: every update of an
   existing key writes its buffer in place (UpdateValue's third branch does; the other
   branches allocate, which can only reduce sharing).  Definitions only. *)
From Zeno Require Import Base.
Local Open Scope nat_scope.

Section A.
Variable K : Type.
Variable keqb : K -> K -> bool.
Variable S : Type.                          (* the value of a sequence buffer *)
Variable sempty : S.

Definition heap := list S.
Definition atree := list (K * nat).

Fixpoint abind (k:K) (t:atree) : option nat :=
  match t with [] => None | (k', i) :: r => if keqb k k' then Some i else abind k r end.
Fixpoint hset (i:nat) (v:S) (h:heap) : heap :=
  match i, h with
  | O, _ :: r => v :: r
  | Datatypes.S j, x :: r => x :: hset j v r
  | _, [] => []
  end.
Definition hget (i:nat) (h:heap) : S := nth i h sempty.

(* what a holder of tree t reads for key k from heap h *)
Definition aread (t:atree) (h:heap) (k:K) : option S :=
  match abind k t with Some i => Some (hget i h) | None => None end.

(* live insert: update in place when the key exists, else allocate a buffer and bind it *)
Definition ainsert (k:K) (f:S -> S) (th:atree * heap) : atree * heap :=
  let '(t, h) := th in
  match abind k t with
  | Some i => (t, hset i (f (hget i h)) h)
  | None => (t ++ [(k, length h)], h ++ [f sempty])
  end.
(* flush: the live memstore is replaced by an empty one (its buffers are left to the collector) *)
Definition aflush (th:atree * heap) : atree * heap := ([], snd th).

Inductive aop := AIns (k:K) (f:S -> S) | AFlush.
Definition astep (th:atree * heap) (o:aop) : atree * heap :=
  match o with AIns k f => ainsert k f th | AFlush => aflush th end.

(* Tree.Copy as shipped: new nodes, same data buffers *)
Definition copy_shared (th:atree * heap) : atree * heap := th.
(* Tree.Copy after the repair: every sequence is copied into a fresh buffer *)
Fixpoint copy_deep_from (t:atree) (h:heap) (acc:atree) (fresh:heap) (n:nat) : atree * heap :=
  match t with
  | [] => (acc, fresh)
  | (k, i) :: r => copy_deep_from r h (acc ++ [(k, n)]) (fresh ++ [hget i h]) (Datatypes.S n)
  end.
(* returns the snapshot tree and the heap extended with the copies *)
Definition copy_deep (th:atree * heap) : atree * heap :=
  let '(t, h) := th in
  let '(t', fresh) := copy_deep_from t h [] [] (length h) in (t', h ++ fresh).

Definition ids_below (n:nat) (t:atree) : Prop := forall k i, In (k, i) t -> i < n.
End A.
