(* Corr05.v — correspondence cases for the expr and encoding packages (C05):
   the harness prints inputs and the implementation's observed outputs; these
   checkers compare them with the model and with the property directly. *)
From Coq Require Import QArith Qabs.
From Zeno Require Import Base Expr ExprSpec Seq.

(* equal within relative tolerance 1e-9; float64 overflow (+-Inf, printed by the harness as +-10^400)
   is outside the model: two values beyond 1e300 of the same sign count as equal *)
Definition q_huge (a:Q) : bool := Qle_bool (inject_Z (10 ^ 300)) (Qabs a).
(* the harness prints a float64 NaN (Inf - Inf, 0 * Inf: float overflow, outside the model) as this marker *)
Definition q_nan : Q := 999999999999999999999 # 7.
Definition q_close (a b:Q) : bool :=
  Qeq_bool b q_nan
  || (q_huge a && q_huge b && Bool.eqb (Qle_bool 0 a) (Qle_bool 0 b))
  || Qle_bool (Qabs (a - b)) (Qabs b * (1 # 1000000000) + (1 # 1000000000)).
Definition qres_close (a b:Q * bool) : bool :=
  Bool.eqb (snd a) (snd b) && (negb (snd a) || q_close (fst a) (fst b)).

Fixpoint has_unary (e:expr) : bool :=
  match e with
  | EUnary _ _ => true
  | EField _ | EConst _ => false
  | EBounded e _ _ | EIf _ e | EShift e _ | EAgg _ e => has_unary e
  | EAvg v w => has_unary v || has_unary w
  | EBin _ l r => has_unary l || has_unary r
  end.

Record expr_case := {
  xc_e : expr; xc_A : list point; xc_B : list point; xc_C : list point;
  xc_stA : cell; xc_stB : cell; xc_stC : cell; xc_stABC : cell;   (* Update over each batch from an empty buffer *)
  xc_mAB : cell; xc_mBA : cell; xc_mAB_C : cell; xc_mA_BC : cell; (* Merge results *)
  xc_get : Q * bool;                                               (* Get on the merged state *)
  xc_intact : bool                                                 (* Merge left its operands' bytes unchanged *)
}.

Definition expr_case_ok (c:expr_case) : bool :=
  let e := xc_e c in
  valid e
  (* model = implementation *)
  && cell_eqb (st e (xc_A c)) (xc_stA c) && cell_eqb (st e (xc_B c)) (xc_stB c)
  && cell_eqb (st e (xc_C c)) (xc_stC c) && cell_eqb (st e (xc_A c ++ xc_B c ++ xc_C c)) (xc_stABC c)
  && cell_eqb (Expr.merge e (xc_stA c) (xc_stB c)) (xc_mAB c)
  && cell_eqb (Expr.merge e (xc_mAB c) (xc_stC c)) (xc_mAB_C c)
  (* the property, on the implementation's own outputs *)
  && cell_eqb (xc_mAB_C c) (xc_stABC c)          (* merging partial states = accumulating all points *)
  && cell_eqb (xc_mAB c) (xc_mBA c)              (* commutative *)
  && cell_eqb (xc_mAB_C c) (xc_mA_BC c)          (* associative *)
  (* the read-out of LN/LOG2/LOG10 is not modelled: only set-ness is compared for such expressions *)
  && (if has_unary e then Bool.eqb (snd (get e (xc_stABC c))) (snd (xc_get c))
      else qres_close (get e (xc_stABC c)) (xc_get c)
           && qres_close (ref e (xc_A c ++ xc_B c ++ xc_C c)) (xc_get c))   (* = the declared aggregate over the raw points *)
  && xc_intact c.
Definition expr_mismatches (cs:list expr_case) : list Z := failing (map expr_case_ok cs).

(* ---- sequences ---- *)
Definition cseq := seq cell.
Inductive seq_op :=
| OTrunc (s:cseq) (asOf until:Z)
| OUpdate (s:cseq) (ts tb:Z) (p:point)
| OMerge (a b:cseq) (tb:Z)
| OSubMerge (out inn:cseq) (inRes asOf until stride:Z) (sub:expr) (md:option conds).

Record seq_case := { qc_e : expr; qc_res : Z; qc_op : seq_op; qc_out : cseq; qc_intact : bool }.

Fixpoint strip_trailing (e:expr) (l:list cell) : list cell :=
  match l with
  | [] => []
  | c :: r => match strip_trailing e r with
              | [] => if cell_eqb c (empty e) then [] else [c]
              | r' => c :: r'
              end
  end.
Definition seq_eqb (e:expr) (a b:cseq) : bool :=
  match a, b with
  | None, None => true
  | Some (ua, ca), Some (ub, cb) => (ua =? ub) && list_eqb cell_eqb (strip_trailing e ca) (strip_trailing e cb)
  | None, Some (_, cb) => match strip_trailing e cb with [] => true | _ => false end
  | Some (_, ca), None => match strip_trailing e ca with [] => true | _ => false end
  end.

Definition the_sm (e sub:expr) : smfn :=
  match submergers e [sub] with Some f :: _ => f | _ => fun d _ _ _ => d end.

Definition run_seq_op (e:expr) (res:Z) (op:seq_op) : cseq :=
  match op with
  | OTrunc s asOf until => truncate cell s res asOf until
  | OUpdate s ts tb p => update_value cell (empty e) s ts res tb (fun c => update e c (p_vals p) (p_md p))
  | OMerge a b tb => merge cell (empty e) (Expr.merge e) a b res tb
  | OSubMerge out inn inRes asOf until stride sub md =>
      sub_merge cell (empty e) out inn res inRes (eshift e) asOf until stride
                (fun r rest => the_sm e sub r rest inRes md)
  end.

Definition seq_case_ok (c:seq_case) : bool :=
  seq_eqb (qc_e c) (run_seq_op (qc_e c) (qc_res c) (qc_op c)) (qc_out c) && qc_intact c.
Definition seq_mismatches (cs:list seq_case) : list Z := failing (map seq_case_ok cs).
