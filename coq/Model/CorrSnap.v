(* CorrSnap.v — a query racing with the application of ONE point (C18, stage arrsnap): the point carries arrays of
   values, so the row store applies it as many memstore updates; every result a concurrent memstore-inclusive query
   returns must be the table before the point or the table after it — the two prefixes of the stream between which
   the query started.  The two reference results are the implementation's own quiescent answers. *)
From Coq Require Import QArith.
From Zeno Require Import Base Sort Expr DB.

Record snap_case := {
  sn_before : list orow;          (* SELECT * before the point was inserted (quiescent) *)
  sn_after : list orow;           (* SELECT * after it was applied completely (quiescent) *)
  sn_during : list (list orow)    (* the results of the queries issued while it was being applied *)
}.

Definition snap_case_ok (c:snap_case) : bool :=
  forallb (fun obs => rows_match (sn_before c) obs || rows_match (sn_after c) obs) (sn_during c).
Definition snap_mismatches (cs:list snap_case) : list Z := failing (map snap_case_ok cs).
