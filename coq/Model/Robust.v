(* Robust.v — outcome classes of the client-input entry points (C16) and the structural facts
   that make them total: checked statement-kind assertions and recover() at the entry points
   that run user-supplied expressions.  Definitions only. *)
From Coq Require Import String.
From Zeno Require Import Base.
Local Open Scope string_scope.

Inductive outcome := OOk | OErr | OPanic | OCrash | OHang | ONone.
Definition bad (o:outcome) : bool := match o with OPanic | OCrash | OHang => true | _ => false end.

Inductive rob_case :=
| RobSQL (parse tablefor plan exec process:outcome)
| RobInsert (insert alive process:outcome).

(* a malformed SQL string: every stage returns a value or an error; an insert payload: accepted or rejected,
   and the valid point inserted afterwards is ingested (alive = ok) *)
Definition rob_case_ok (c:rob_case) : bool :=
  match c with
  | RobSQL p t pl ex pr => negb (bad p || bad t || bad pl || bad ex || bad pr)
  | RobInsert i a pr => negb (bad i || bad pr) && match a with OOk => true | _ => false end
  end.

(* ---- structural model: an entry point wraps an inner computation that may panic ---- *)
Inductive inner := IOk | IErr | IPanic.
Definition entry (has_recover:bool) (i:inner) : outcome :=
  match i with IOk => OOk | IErr => OErr | IPanic => if has_recover then OErr else OCrash end.

Fixpoint smem (x:string) (l:list string) : bool :=
  match l with [] => false | y :: r => String.eqb x y || smem x r end.

(* the entry points that evaluate client-supplied text or payloads *)
Definition required_recover_sites : list string :=
  ["sql.Parse"; "planner.Plan"; "zenodb.table.insert"; "zenodb.rowStore.safeUpdate"; "zenodb.iteration.safeOnValue"; "zenodb.DB.mapPartitionRequest"].
Definition sites_ok (recover_sites:list string) : bool := forallb (fun s => smem s recover_sites) required_recover_sites.
