(* Report.v — error propagation of a table scan under a deadline (C13): the file part, then the
   memstore part, each row followed by the guard's check; and what "the caller is told" means.
   Definitions only. *)
From Zeno Require Import Base.

Section S.
Variable R : Type.

(* deliver rows one by one; the deadline has passed once [k] rows have been delivered (k = 0: already expired
   when the first row returns).  Returns the delivered rows, whether the guard reported an error, and the count. *)
Fixpoint deliver (rows:list R) (n k:nat) : list R * bool * nat :=
  match rows with
  | [] => ([], false, n)
  | r :: rest =>
      let n' := S n in
      if Nat.leb k n' then ([r], true, n')               (* guard.ProceedAfter: deadline exceeded after this row *)
      else let '(d, e, m) := deliver rest n' k in (r :: d, e, m)
  end.

(* fileStore.iterate after the repair: the memstore walk's error is returned *)
Definition scan (file mem:list R) (k:option nat) : list R * bool :=
  match k with
  | None => (file ++ mem, false)
  | Some k =>
      let '(d1, e1, n1) := deliver file 0 k in
      if e1 then (d1, true)
      else let '(d2, e2, _) := deliver mem n1 k in (d1 ++ d2, e2)
  end.

(* as shipped: ms.tree.Walk's return value was dropped *)
Definition scan_legacy (file mem:list R) (k:option nat) : list R * bool :=
  match k with
  | None => (file ++ mem, false)
  | Some k =>
      let '(d1, e1, n1) := deliver file 0 k in
      if e1 then (d1, true)
      else let '(d2, _, _) := deliver mem n1 k in (d1 ++ d2, false)
  end.
End S.

(* ---- what an observed outcome must satisfy ---- *)
Inductive rep_case :=
| RepEmbedded (complete err:bool)                              (* DB.Query(...).Iterate *)
| RepCluster (complete err missing_listed:bool)                (* leader query: error or partition listed in the statistics *)
| RepHTTP (complete:bool) (status:Z).                          (* web API *)

Definition told (c:rep_case) : bool :=
  match c with
  | RepEmbedded _ err => err
  | RepCluster _ err missing => err || missing
  | RepHTTP _ status => negb (status =? 200)
  end.
Definition complete_of (c:rep_case) : bool :=
  match c with RepEmbedded c _ | RepCluster c _ _ | RepHTTP c _ => c end.
(* incomplete results are never presented as complete *)
Definition rep_case_ok (c:rep_case) : bool := complete_of c || told c.
Definition rep_mismatches (cs:list rep_case) : list Z := failing (map rep_case_ok cs).
