(* DB.v — specification-level model of a zenodb table and of query evaluation:
   the reference aggregator of the properties ("each accepted point contributes to
   exactly one (group key, period)"), windows, coarser grouping, filters.
   Definitions only.  Everything here is stated over the multiset of raw points,
   independently of memstore/filestore mechanics (those are Model/Store.v). *)
From Coq Require Import QArith Qabs.
From Zeno Require Import Base Sort Expr ExprSpec.

Definition key := list (Z * val).           (* name-sorted association list *)

Record tpoint := {
  tp_ts : Z;                                 (* ns since the zero time *)
  tp_dims : key;                             (* all dims of the point, name-sorted, nil kept as VNil *)
  tp_pt : point;                             (* numeric values + IF oracle column *)
  tp_flags : list bool                       (* oracle column: table WHEREs and query WHEREs, by index *)
}.

Record table := {
  t_fields : list (Z * expr);                (* name id, expression; _points first *)
  t_groupby : option (list Z);               (* None = group by all dims *)
  t_res : Z;
  t_ret : Z;                                 (* retention period *)
  t_where : option nat                       (* index into tp_flags *)
}.

Definition key_eqb (a b:key) : bool :=
  list_eqb (fun x y => (fst x =? fst y) && val_eqb (snd x) (snd y)) a b.

Definition is_nil (v:val) : bool := match v with VNil => true | _ => false end.
Fixpoint zmem (x:Z) (l:list Z) : bool := match l with [] => false | y::r => (x =? y) || zmem x r end.

(* table.doInsert's key reslice: all dims as they are, or the named group-by dims that are non-nil *)
Definition project (gb:option (list Z)) (dims:key) : key :=
  match gb with
  | None => dims
  | Some names => filter (fun d => zmem (fst d) names && negb (is_nil (snd d))) dims
  end.

Definition flag (i:option nat) (p:tpoint) : bool :=
  match i with None => true | Some n => nth n (tp_flags p) false end.

Definition accepted (T:table) (p:tpoint) : bool := flag (t_where T) p.

(* period end of the native period a timestamp falls into: the least multiple of res >= ts *)
Definition bucket (res ts:Z) : Z := ceil_mul ts res.

(* ---- queries ---- *)
Record query := {
  q_fields : option (list (Z * expr));       (* None = SELECT * (the table's fields) *)
  q_groupby : option (option (list Z));      (* None = no GROUP BY clause (keeps the table key); Some None = *; Some (Some l) = dims *)
  q_period : Z;                              (* 0 = table resolution *)
  q_asof : Z; q_until : Z;                   (* 0 = not given *)
  q_where : option nat;                      (* index into tp_flags: WHERE evaluated on the point's TABLE key *)
  q_now : Z;                                 (* database clock when the query is planned *)
  q_vis : option nat;                        (* disk-only query: number of points (a prefix) flushed so far; None = memstore included *)
  q_limit : option Z                         (* LIMIT n without ORDER BY: any n rows of the result *)
}.

(* planner: default window (asOf, until] of a table and the query's rounded bounds *)
Definition tbl_until (T:table) (now:Z) : Z := round_up now (t_res T).
Definition tbl_asof (T:table) (now:Z) : Z := round_up (tbl_until T now - t_ret T) (t_res T).
Definition q_until' (T:table) (q:query) : Z :=
  if q_until q =? 0 then tbl_until T (q_now q) else round_up (q_until q) (t_res T).
Definition q_asof0 (T:table) (q:query) : Z :=
  if q_asof q =? 0 then tbl_asof T (q_now q) else round_up (q_asof q) (t_res T).
(* resolutionFor: a period larger than the window is truncated to the window *)
Definition q_period' (T:table) (q:query) : Z :=
  let p := if q_period q =? 0 then t_res T else q_period q in
  let w := q_until' T q - q_asof0 T q in
  if w <? p then w else p.
(* group.GetAsOf: at least one period *)
Definition q_asof' (T:table) (q:query) : Z :=
  let u := q_until' T q in let a := q_asof0 T q in let p := q_period' T q in
  if u - a <? p then u - p else a.

Definition has_window (q:query) : bool := negb (q_asof q =? 0) || negb (q_until q =? 0).
(* planLocal's needsGroupBy: asOf/until changed, resolution (after truncation to the window) differs from
   the table's, explicit dims, or specific fields *)
Definition needs_group (T:table) (q:query) : bool :=
  has_window q || negb (q_period' T q =? t_res T)
  || match q_groupby q with Some (Some _) => true | _ => false end
  || match q_fields q with Some _ => true | None => false end.

(* planning errors: asOf before the table's asOf; period not a multiple of the resolution *)
Definition plan_error (T:table) (q:query) : bool :=
  (q_asof0 T q <? tbl_asof T (q_now q))
  || negb (Z.rem (q_period' T q) (t_res T) =? 0) || (q_period' T q <? t_res T).

(* out bucket (row timestamp) of a native period end t *)
Definition out_bucket (u p t:Z) : Z := u - ((u - t) / p) * p.

Definition q_key (T:table) (q:query) (p:tpoint) : key :=
  let tk := project (t_groupby T) (tp_dims p) in
  match q_groupby q with
  | None | Some None => tk
  | Some (Some names) => project (Some names) tk
  end.

Definition q_fields' (T:table) (q:query) : list (Z * expr) :=
  match q_fields q with None => t_fields T | Some fs => fs end.

(* the row a point contributes to, if any *)
Definition contributes (T:table) (q:query) (p:tpoint) : option (key * Z) :=
  if accepted T p && flag (q_where q) p then
    let t := bucket (t_res T) (tp_ts p) in
    if needs_group T q then
      if (q_asof' T q <? t) && (t <=? q_until' T q)
      then Some (q_key T q p, out_bucket (q_until' T q) (q_period' T q) t) else None
    else Some (q_key T q p, t)
  else None.

(* group points by (key, row timestamp), first-occurrence order *)
Fixpoint add_to_group (k:key) (t:Z) (pt:point) (gs:list (key * Z * list point)) : list (key * Z * list point) :=
  match gs with
  | [] => [(k, t, [pt])]
  | (k', t', ps) :: r => if key_eqb k k' && (t =? t') then (k', t', ps ++ [pt]) :: r
                         else (k', t', ps) :: add_to_group k t pt r
  end.
Definition groups (T:table) (q:query) (pts:list tpoint) : list (key * Z * list point) :=
  fold_left (fun gs p => match contributes T q p with
                         | Some (k, t) => add_to_group k t (tp_pt p) gs
                         | None => gs end) pts [].

Record orow := { o_ts : Z; o_key : key; o_vals : list Q }.

(* flatten: a row exists when at least one non-constant field has a value *)
Definition row_present (fs:list (Z * expr)) (ps:list point) : bool :=
  existsb (fun f => negb (is_constant (snd f)) && snd (ref (snd f) ps)) fs.
Definition spec_rows (T:table) (q:query) (pts:list tpoint) : list orow :=
  let fs := q_fields' T q in
  flat_map (fun g => match g with (k, t, ps) =>
      if row_present fs ps then [{| o_ts := t; o_key := k; o_vals := map (fun f => fst (ref (snd f) ps)) fs |}] else []
    end) (groups T q pts).

(* ---- comparison with observed rows: same (ts,key) set, values within tolerance ---- *)
(* equal within relative tolerance 1e-9; float64 overflow (+-Inf, printed by the harness as +-10^400)
   is outside the model: two values beyond 1e300 of the same sign count as equal *)
Definition q_huge (a:Q) : bool := Qle_bool (inject_Z (10 ^ 300)) (Qabs a).
(* the harness prints a float64 NaN (Inf - Inf, 0 * Inf: float overflow, outside the model) as this marker *)
Definition q_nan : Q := 999999999999999999999 # 7.
Definition q_close (a b:Q) : bool :=
  Qeq_bool b q_nan
  || (q_huge a && q_huge b && Bool.eqb (Qle_bool 0 a) (Qle_bool 0 b))
  || Qle_bool (Qabs (a - b)) (Qabs b * (1 # 1000000000) + (1 # 1000000000)).
Fixpoint vals_close (a b:list Q) : bool :=
  match a, b with [], [] => true | x::r, y::s => q_close x y && vals_close r s | _, _ => false end.
Definition find_row (t:Z) (k:key) (rows:list orow) : option orow :=
  find (fun r => (o_ts r =? t) && key_eqb (o_key r) k) rows.
Definition rows_match (expected observed:list orow) : bool :=
  Nat.eqb (length expected) (length observed)
  && forallb (fun e => match find_row (o_ts e) (o_key e) observed with
                       | Some o => vals_close (o_vals e) (o_vals o) | None => false end) expected
  && forallb (fun o => match find_row (o_ts o) (o_key o) expected with Some _ => true | None => false end) observed.

(* ---- correspondence case ---- *)
Record qrun := { qr_q : query; qr_err : bool; qr_rows : list orow }.
Record db_case := { dc_table : table; dc_points : list tpoint; dc_runs : list qrun }.

Definition visible (q:query) (pts:list tpoint) : list tpoint :=
  match q_vis q with None => pts | Some n => firstn n pts end.
(* LIMIT n (unordered): any n distinct rows of the full result, never more *)
Fixpoint distinct_rows (rows:list orow) : bool :=
  match rows with [] => true | r :: rest => match find_row (o_ts r) (o_key r) rest with Some _ => false | None => distinct_rows rest end end.
Definition rows_any (n:Z) (expected observed:list orow) : bool :=
  (Z.of_nat (length observed) =? Z.min (Z.max 0 n) (Z.of_nat (length expected)))
  && distinct_rows observed
  && forallb (fun o => match find_row (o_ts o) (o_key o) expected with
                       | Some e => vals_close (o_vals e) (o_vals o) | None => false end) observed.
Definition qrun_ok (T:table) (pts:list tpoint) (r:qrun) : bool :=
  if plan_error T (qr_q r) then qr_err r
  else negb (qr_err r) &&
       match q_limit (qr_q r) with
       | None => rows_match (spec_rows T (qr_q r) (visible (qr_q r) pts)) (qr_rows r)
       | Some n => rows_any n (spec_rows T (qr_q r) (visible (qr_q r) pts)) (qr_rows r)
       end.
Definition db_case_ok (c:db_case) : bool := forallb (qrun_ok (dc_table c) (dc_points c)) (dc_runs c).
Definition db_mismatches (cs:list db_case) : list Z := failing (map db_case_ok cs).
