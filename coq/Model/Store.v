(* Store.v — model of one column of a table's row store (row_store.go, bytetree):
   memstore and filestore as key -> sequence maps, inserts, flushes (merge of file
   and memory with truncation, raw pass-through of untouched file rows), and the
   merged view a query iterates over.  Generic in key and cell; definitions only.

   zenodb keeps one sequence per field and applies exactly these steps to each
   field independently (for o, ex := range bt.outExprs ...; rowMerger per column),
   so one column is modelled; the per-field independence is tied by the DB-level
   correspondence. *)
From Zeno Require Import Base Seq.

Section Store.
Variable K : Type.
Variable keqb : K -> K -> bool.
Variable cell : Type.
Variable cempty : cell.
Variable cmerge : cell -> cell -> cell.

Definition tree := list (K * seq cell).

(* a key that is absent reads as the empty sequence (Go: nil slice) *)
Fixpoint lookup (k:K) (t:tree) : seq cell :=
  match t with [] => None | (k', s) :: r => if keqb k k' then s else lookup k r end.
Fixpoint mem_key (k:K) (t:tree) : bool :=
  match t with [] => false | (k', _) :: r => keqb k k' || mem_key k r end.
(* bytetree.Update: update the existing node or add one *)
Fixpoint upsert (k:K) (f:seq cell -> seq cell) (t:tree) : tree :=
  match t with
  | [] => [(k, f None)]
  | (k', s) :: r => if keqb k k' then (k', f s) :: r else (k', s) :: upsert k f r
  end.

Record sstate := { s_mem : tree; s_file : tree }.
Definition sinit : sstate := {| s_mem := []; s_file := [] |}.

Inductive sop :=
| SInsert (k:K) (ts tb:Z) (f:cell -> cell)    (* an accepted point: key, timestamp, truncateBefore at processing time, its effect on one period *)
| SFlush (tb:Z) (raw:bool).                   (* raw = pass-through of file rows without memstore data allowed (9 of 10 flushes) *)

(* fileStore.iterate with a memstore: the row a reader (query or flush) sees for a key *)
Definition merged (res tb:Z) (st:sstate) (k:K) : seq cell :=
  merge cell cempty cmerge (lookup k (s_file st)) (lookup k (s_mem st)) res tb.

(* doWrite: truncate, drop keys whose sequence expired entirely *)
Definition written (res tb:Z) (s:seq cell) : seq cell := truncate cell s res tb 0.

Definition flush_file (res tb:Z) (raw:bool) (st:sstate) : tree :=
  flat_map (fun ks => let '(k, s) := ks in
              if raw && negb (mem_key k (s_mem st)) then [(k, s)]
              else match written res tb (merged res tb st k) with None => [] | w => [(k, w)] end)
           (s_file st)
  ++ flat_map (fun ks => let '(k, s) := ks in
              if mem_key k (s_file st) then []
              else match written res tb (merge cell cempty cmerge None s res tb) with None => [] | w => [(k, w)] end)
           (s_mem st).

Definition sstep (res:Z) (st:sstate) (o:sop) : sstate :=
  match o with
  | SInsert k ts tb f =>
      {| s_mem := upsert k (fun s => update_value cell cempty s ts res tb f) (s_mem st); s_file := s_file st |}
  | SFlush tb raw => {| s_mem := []; s_file := flush_file res tb raw st |}
  end.

Definition srun (res:Z) (ops:list sop) : sstate := fold_left (sstep res) ops sinit.

(* what a memstore-inclusive reader finds for key k at period end t (missing = empty cell) *)
Definition content (res tb:Z) (st:sstate) (k:K) (t:Z) : cell :=
  match den cell res (merged res tb st k) t with Some c => c | None => cempty end.

(* the reference: the effects of exactly the inserts of key k whose period is t, in order, on the empty cell *)
Fixpoint spec_cell (res:Z) (k:K) (t:Z) (ops:list sop) (acc:cell) : cell :=
  match ops with
  | [] => acc
  | SInsert k' ts _ f :: r =>
      if keqb k k' && (round_up ts res =? t) then spec_cell res k t r (f acc) else spec_cell res k t r acc
  | SFlush _ _ :: r => spec_cell res k t r acc
  end.
End Store.
