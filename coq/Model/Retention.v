(* Retention.v — the database clock, "too old when processed", truncating flushes (C14).
   Specification level, on top of Model/DB.v.  Definitions only.

   Virtual time: the clock is the largest timestamp of the points accepted so far
   (table.doInsert: clock.Advance(ts) after the too-old test of table.insert and the
   WHERE test); truncateBefore = clock - retention. *)
From Coq Require Import QArith.
From Zeno Require Import Base Sort Expr ExprSpec DB.

Inductive rop := RIns (p:tpoint) | RFlush.

Record rstate := {
  r_clock : Z;
  r_acc : list tpoint;        (* accepted points, in processing order *)
  r_dirty : bool;             (* the memstore holds data (a point with a numeric value since the last flush) *)
  r_flushes : Z;              (* data-carrying flushes so far (rowStore.flushCount) *)
  r_horizon : Z;              (* periods ending at or before this were removed from disk by a truncating flush *)
  r_disk : nat                (* number of accepted points that are on disk *)
}.
Definition rinit : rstate :=
  {| r_clock := 0; r_acc := []; r_dirty := false; r_flushes := 0; r_horizon := 0; r_disk := 0 |}.

Definition has_value (p:tpoint) : bool := match p_vals (tp_pt p) with [] => false | _ => true end.

(* every tenth data-carrying flush re-encodes every row and truncates (rs.flushCount%10 == 9) *)
Definition truncate_every : Z := 10.

Definition rstep (T:table) (s:rstate) (o:rop) : rstate :=
  match o with
  | RIns p =>
      if tp_ts p <? r_clock s - t_ret T then s                      (* too old when processed: ignored *)
      else if negb (flag (t_where T) p) then s                       (* filtered by WHERE *)
      else {| r_clock := Z.max (r_clock s) (tp_ts p); r_acc := r_acc s ++ [p];
              r_dirty := r_dirty s || has_value p; r_flushes := r_flushes s;
              r_horizon := r_horizon s; r_disk := r_disk s |}
  | RFlush =>
      if r_dirty s then
        let truncating := Z.rem (r_flushes s) truncate_every =? truncate_every - 1 in
        {| r_clock := r_clock s; r_acc := r_acc s; r_dirty := false; r_flushes := r_flushes s + 1;
           r_horizon := if truncating then Z.max (r_horizon s) (floor_mul (r_clock s - t_ret T) (t_res T)) else r_horizon s;
           r_disk := length (r_acc s) |}
      else s
  end.
Definition rrun (T:table) (ops:list rop) : rstate := fold_left (rstep T) ops rinit.

(* the table seen by queries: WHERE already applied by rstep *)
Definition open_table (T:table) : table :=
  {| t_fields := t_fields T; t_groupby := t_groupby T; t_res := t_res T; t_ret := t_ret T; t_where := None |}.

(* ---- what an observed result must satisfy ---- *)
(* the period (t - res, t] lies wholly inside the retention window (now - retention, now] *)
Definition live (T:table) (now t:Z) : bool := now - t_ret T + t_res T <=? t.

(* one-sided comparison for the raw (ungrouped, unranged) view: every live expected row is present with
   its value, every observed live row is expected; expired rows may or may not still be there, but
   rows at or below [absent_below] must be gone *)
Definition rows_live_match (T:table) (now absent_below:Z) (expected observed:list orow) : bool :=
  forallb (fun e => if live T now (o_ts e)
                    then match find_row (o_ts e) (o_key e) observed with
                         | Some o => vals_close (o_vals e) (o_vals o) | None => false end
                    else true) expected
  && forallb (fun o => if live T now (o_ts o)
                       then match find_row (o_ts o) (o_key o) expected with Some _ => true | None => false end
                       else absent_below <? o_ts o) observed
  && distinct_rows observed.

Record rrun_obs := {
  ro_q : query; ro_err : bool; ro_rows : list orow;
  ro_upto : nat                 (* number of operations of the history executed before this query *)
}.
Record ret_case := { rc_table : table; rc_ops : list rop; rc_runs : list rrun_obs }.

Definition ret_run_ok (T:table) (ops:list rop) (r:rrun_obs) : bool :=
  let s := rrun T (firstn (ro_upto r) ops) in
  let q := ro_q r in
  let T' := open_table T in
  let pts := match q_vis q with None => r_acc s | Some _ => firstn (r_disk s) (r_acc s) end in
  if plan_error T' q then ro_err r
  else negb (ro_err r) && (q_now q =? r_clock s) &&   (* the database clock is the newest accepted timestamp *)
       (if needs_group T' q
        then (* grouped / ranged: exactly the rows of the window, which never reaches below now - retention - resolution *)
             rows_match (spec_rows T' q pts) (ro_rows r)
             && forallb (fun o => q_now q - t_ret T - t_res T <? o_ts o) (ro_rows r)
        else rows_live_match T (r_clock s) (match q_vis q with None => 0 | Some _ => r_horizon s end)
                             (spec_rows T' q pts) (ro_rows r)).
Definition ret_case_ok (c:ret_case) : bool := forallb (ret_run_ok (rc_table c) (rc_ops c)) (rc_runs c).
Definition ret_mismatches (cs:list ret_case) : list Z := failing (map ret_case_ok cs).
