(* ExprSpec.v — the reference ("declared aggregate over exactly the points")
   semantics of an expression, independent of cells.  Definitions only. *)
From Coq Require Import QArith.
From Zeno Require Import Base Expr.

(* values the wrapped expression reports for the points that update the aggregate *)
Fixpoint upd_vals (w:expr) (pts:list point) : list Z :=
  match pts with
  | [] => []
  | p :: r => let '(v, u) := pval w (p_vals p) in if u then v :: upd_vals w r else upd_vals w r
  end.

Fixpoint zsum (l:list Z) : Z := match l with [] => 0 | x::r => x + zsum r end.
Fixpoint zmin_from (m:Z) (l:list Z) : Z := match l with [] => m | x::r => zmin_from (Z.min m x) r end.
Fixpoint zmax_from (m:Z) (l:list Z) : Z := match l with [] => m | x::r => zmax_from (Z.max m x) r end.

(* SUM / MIN / MAX / COUNT of a non-empty list of values; None for no values *)
Definition agg_spec (a:agg) (vs:list Z) : option Z :=
  match vs with
  | [] => None
  | v :: r => Some (match a with
                    | SUM => zsum vs
                    | MIN => zmin_from v r
                    | MAX => zmax_from v r
                    | COUNT => Z.of_nat (length vs)
                    end)
  end.

(* (value, weight) pairs of the points that update an AVG/WAVG *)
Fixpoint avg_pairs (v w:expr) (pts:list point) : list (Z * Z) :=
  match pts with
  | [] => []
  | p :: r => let '(vv, u) := pval v (p_vals p) in
              let '(wv, _) := pval w (p_vals p) in
              if u then (vv, wv) :: avg_pairs v w r else avg_pairs v w r
  end.
Definition avg_spec (ps:list (Z*Z)) : option (Z * Z) :=
  match ps with
  | [] => None
  | _ => Some (zsum (map snd ps), zsum (map (fun vw => fst vw * snd vw) ps))
  end.

(* the declared value of e over the multiset of points: (value, is set) *)
Fixpoint ref (e:expr) (pts:list point) : Q * bool :=
  match e with
  | EField _ => (0%Q, false)
  | EConst z => (inject_Z z, true)
  | EBounded e lo hi =>
      let '(v, s) := ref e pts in
      if s && Qle_bool (inject_Z lo) v && Qle_bool v (inject_Z hi) then (v, true) else (0%Q, false)
  | EIf c e => ref e (filter (fun p => nth c (p_md p) false) pts)
  | EShift e _ | EUnary _ e => ref e pts
  | EAgg a w => match agg_spec a (upd_vals w pts) with Some v => (inject_Z v, true) | None => (0%Q, false) end
  | EAvg v w => match avg_spec (avg_pairs v w pts) with
                | Some (cnt, tot) => (avg_calc cnt tot, true) | None => (0%Q, false) end
  | EBin o l r =>
      let '(lv, ls) := ref l pts in let '(rv, rs) := ref r pts in
      if negb ls && negb rs then (0%Q, false) else (calc o lv rv, true)
  end.
