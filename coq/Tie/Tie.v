(* Tie.v — the regenerated facts (Gen/Facts.v, translated from /repo's Go source
   on every run by srcfacts) coincide with the hand-written model.  A change to
   expr/aggregates.go, expr/calcs.go or expr/conds.go that alters a kernel breaks
   one of these lemmas, and with it every property theorem that imports Tie. *)
From Coq Require Import Lia QArith String.
From Zeno Require Import Base Expr Facts.

Local Open Scope Z_scope.

(* robust against harmless rewrites of a kernel (e.g. <= for <, swapped branches):
   case-split every comparison and let lia compare the values *)
Ltac split_cmp :=
  repeat match goal with
  | |- context [?a <? ?b] => destruct (Z.ltb_spec a b)
  | |- context [?a <=? ?b] => destruct (Z.leb_spec a b)
  | |- context [?a =? ?b] => destruct (Z.eqb_spec a b)
  end.
Ltac kernel :=
  intros; unfold agg_update, agg_merge;
  cbv beta delta [gen_update_SUM gen_merge_SUM gen_update_MIN gen_merge_MIN
                  gen_update_MAX gen_merge_MAX gen_update_COUNT gen_merge_COUNT];
  match goal with w : bool |- _ => destruct w end; cbn [negb]; split_cmp; lia.

Lemma tie_update_SUM : forall w c n, gen_update_SUM w c n = agg_update SUM w c n. Proof. kernel. Qed.
Lemma tie_merge_SUM : forall w c n, gen_merge_SUM w c n = agg_merge SUM w c n. Proof. kernel. Qed.
Lemma tie_update_MIN : forall w c n, gen_update_MIN w c n = agg_update MIN w c n. Proof. kernel. Qed.
Lemma tie_merge_MIN : forall w c n, gen_merge_MIN w c n = agg_merge MIN w c n. Proof. kernel. Qed.
Lemma tie_update_MAX : forall w c n, gen_update_MAX w c n = agg_update MAX w c n. Proof. kernel. Qed.
Lemma tie_merge_MAX : forall w c n, gen_merge_MAX w c n = agg_merge MAX w c n. Proof. kernel. Qed.
Lemma tie_update_COUNT : forall w c n, gen_update_COUNT w c n = agg_update COUNT w c n. Proof. kernel. Qed.
Lemma tie_merge_COUNT : forall w c n, gen_merge_COUNT w c n = agg_merge COUNT w c n. Proof. kernel. Qed.

Lemma tie_aggregates : gen_aggregates = ["SUM"; "MIN"; "MAX"; "COUNT"]%string.
Proof. reflexivity. Qed.
Lemma tie_no_unsupported : gen_unsupported = [].
Proof. reflexivity. Qed.

Lemma tie_maxfloat : Facts.maxfloat = Expr.maxfloat. Proof. reflexivity. Qed.

Ltac qkernel := intros; reflexivity.
Lemma tie_calc_ADD : forall l r, gen_calc_ADD l r = calc ADD l r. Proof. qkernel. Qed.
Lemma tie_calc_SUB : forall l r, gen_calc_SUB l r = calc SUB l r. Proof. qkernel. Qed.
Lemma tie_calc_MUL : forall l r, gen_calc_MUL l r = calc MUL l r. Proof. qkernel. Qed.
Lemma tie_calc_DIV : forall l r, gen_calc_DIV l r = calc DIV l r. Proof. qkernel. Qed.
Lemma tie_cond_LT : forall l r, gen_cond_LT l r = cond_op LT l r. Proof. qkernel. Qed.
Lemma tie_cond_LTE : forall l r, gen_cond_LTE l r = cond_op LTE l r. Proof. qkernel. Qed.
Lemma tie_cond_EQ : forall l r, gen_cond_EQ l r = cond_op EQ l r. Proof. qkernel. Qed.
Lemma tie_cond_NEQ : forall l r, gen_cond_NEQ l r = cond_op NEQ l r. Proof. qkernel. Qed.
Lemma tie_cond_GTE : forall l r, gen_cond_GTE l r = cond_op GTE l r. Proof. qkernel. Qed.
Lemma tie_cond_GT : forall l r, gen_cond_GT l r = cond_op GT l r. Proof. qkernel. Qed.
Lemma tie_cond_AND : forall l r, gen_cond_AND l r = cond_op AND l r. Proof. qkernel. Qed.
Lemma tie_cond_OR : forall l r, gen_cond_OR l r = cond_op OR l r. Proof. qkernel. Qed.
Lemma tie_binary_ops : gen_binary_ops = ["+"; "-"; "*"; "/"; "<"; "<="; "="; "<>"; ">="; ">"; "AND"; "OR"]%string.
Proof. reflexivity. Qed.

(* a single fact the property files import: every translated kernel is the model's *)
Definition kernels_tied : Prop :=
  (forall a w c n, match a with SUM => gen_update_SUM | MIN => gen_update_MIN | MAX => gen_update_MAX | COUNT => gen_update_COUNT end w c n
                   = agg_update a w c n) /\
  (forall a w c n, match a with SUM => gen_merge_SUM | MIN => gen_merge_MIN | MAX => gen_merge_MAX | COUNT => gen_merge_COUNT end w c n
                   = agg_merge a w c n).
Lemma kernels_tied_holds : kernels_tied.
Proof. split; intros [] w c n; kernel. Qed.

(* ---- C02: the steps of a flush / of the offset file / of submitting a point, as written in row_store.go and insert.go,
   are the ones the crash model assumes: temp write, sync, close, rename (the commit point), then the in-memory swap;
   one row-store submission per point (atomic = true in Model/Crash.v) ---- *)
Definition modelled_flush_steps : list string := ["write"; "sync"; "close"; "rename"; "swap_file"; "swap_mem"]%string.
Definition modelled_offsets_steps : list string := ["write"; "sync"; "close"; "rename"]%string.
Definition modelled_point_submissions : list string := ["once"]%string.
Lemma flush_steps_tied : gen_flush_steps = modelled_flush_steps.
Proof. reflexivity. Qed.
Lemma offsets_steps_tied : gen_offsets_steps = modelled_offsets_steps.
Proof. reflexivity. Qed.
Lemma point_submitted_once : gen_point_submissions = modelled_point_submissions.
Proof. reflexivity. Qed.
