(* TiePin.v — rowStore.iterate as written in row_store.go (Gen/Facts.v, gen_iterate_steps) captures the file store,
   copies the memstore and registers on the file inside one critical section of rs.mx: the structure for which
   Model/Pin.v is proved (atomic = true). *)
From Coq Require Import List String.
Import ListNotations.
From Zeno Require Import Facts PinSrc.

Lemma iterate_pins_atomically : pins_atomically gen_iterate_steps = true.
Proof. reflexivity. Qed.
Lemma iterate_copies_with_capture : copies_with_capture gen_iterate_steps = true.
Proof. reflexivity. Qed.

(* the remover looks a file's readers up under the key the scans register under: every fileStore.filename is the
   file's path inside the table directory, and removeOldFiles builds the same path from the directory entry
   (Model/Pin.v, removable: "no file with a registered reader") *)
Open Scope string_scope.
Definition reader_keys_agree : bool :=
  String.eqb gen_pin_key "fs.filename" &&
  forallb (String.eqb "dir_joined") gen_remover_key && negb (match gen_remover_key with [] => true | _ => false end) &&
  forallb (String.eqb "dir_joined") gen_filestore_names && negb (match gen_filestore_names with [] => true | _ => false end).
Lemma remover_sees_registrations : reader_keys_agree = true.
Proof. reflexivity. Qed.
