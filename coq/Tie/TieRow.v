(* TieRow.v — the row format Model/RowCodec.v transcribes is what fileStore.doWrite writes on this run, and the guard
   its round-trip theorem needs (a key shorter than 2^16 bytes) is the one table.doInsert and DB.InsertRaw enforce. *)
From Coq Require Import String List ZArith.
Import ListNotations.
Open Scope string_scope.
From Zeno Require Import Facts.

Definition row_format_as_modelled : Prop :=
  gen_row_writes = ["uint64(rowLength)"; "uint16(len(key))"; "bytes key"; "uint16(len(columns))"; "uint64(len(seq)) *"; "bytes seq *"].
Definition key_guard_as_modelled : Prop :=
  (0 <= gen_max_key_length < 2 ^ 16)%Z
  /\ gen_key_guards = ["doInsert: len(key) > maxKeyLength"; "InsertRaw: len(dims) > maxKeyLength"].

Lemma row_format_as_modelled_holds : row_format_as_modelled.
Proof. reflexivity. Qed.
Lemma key_guard_as_modelled_holds : key_guard_as_modelled.
Proof. split; [vm_compute; split; [discriminate|reflexivity]|reflexivity]. Qed.
