(* TieTree.v — the structure of bytetree.go that Model/Tree.v transcribes by hand, as the translator reads it from
   the source on this run: the branch chains of the edge loops of Tree.doUpdate and Tree.Remove (conditions and what
   each branch does), what follows the loops, who takes the key (the exact-match branch on a node without data; the
   split node when the key ends at the split point), and Walk's queue discipline. *)
From Coq Require Import String List Bool.
Import ListNotations.
Open Scope string_scope.
From Zeno Require Import Facts.

Definition tree_source_as_modelled : Prop :=
  (* upd_es: is_exact -> set_data | is_desc -> upd_n on the rest of the key | is_split -> split | next edge; then eapp *)
  gen_tree_update_branches = [("i == keyLength && keyLength == labelLength", "set");
                              ("i == labelLength && labelLength < keyLength", "descend");
                              ("i > 0", "split")]
  /\ gen_tree_update_after = "append"
  (* rem_es: is_exact -> found | is_desc -> rem_n | next edge (a partly matching edge is passed); then nil *)
  /\ gen_tree_remove_branches = [("i == keyLength && keyLength == labelLength", "found");
                                 ("i == labelLength && labelLength < keyLength", "descend")]
  /\ gen_tree_remove_after = "none"
  (* set_data: a node without data takes the key and counts as new *)
  /\ gen_tree_exact_takes_key = true /\ gen_tree_exact_reports_new = true
  (* split: a separate leaf unless the key ends at the split point, in which case the split node takes the key *)
  /\ gen_tree_split_leaf_when = "splitOn != len(key)" /\ gen_tree_split_else_takes_key = true
  (* bfs: first in, first out *)
  /\ gen_tree_walk_queue = ["take-first"; "drop-first"; "append-child"].

Lemma tree_source_as_modelled_holds : tree_source_as_modelled.
Proof. repeat split; reflexivity. Qed.
