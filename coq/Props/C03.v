(* C03 — query results do not depend on flush timing or on where data currently lives. *)
From Coq Require Import QArith Lia.
From Zeno Require Import Base Sort Expr ExprSpec ExprP Seq Store StoreExprP DB.
From Zeno Require Pin PinP PinSrc Facts TiePin.
From Zeno Require Tree TreeP.
From Zeno Require TieTree.
From Zeno Require RowCodec RowCodecP TieRow.
From Zeno Require CorrRow.
Local Open Scope Z_scope.

(* two histories with the same inserts in the same order, split between memory and disk by ANY flushes
   (timed, forced, raw pass-through or re-encoding/truncating), read the same for every key and period *)
Theorem C03_schedule_independent : forall e res H evs1 evs2 tbq k t,
  0 < res -> Forall (ev_ok res H) evs1 -> Forall (ev_ok res H) evs2 -> 0 <= tbq -> tbq + res <= H -> H <= t -> 0 < t ->
  map (fun x => match x with EIns k ts _ p => Some (k, ts, p) | EFlush _ _ => None end) (filter is_ins evs1)
  = map (fun x => match x with EIns k ts _ p => Some (k, ts, p) | EFlush _ _ => None end) (filter is_ins evs2) ->
  read e res tbq evs1 k t = read e res tbq evs2 k t.
Proof. exact flush_schedule_irrelevant. Qed.

(* immediately after a completed flush a disk-only reader equals the memstore-inclusive one *)
Theorem C03_disk_equals_mem_after_flush : forall e res H evs tb raw tbq k t,
  0 < res -> Forall (ev_ok res H) evs -> ev_ok res H (EFlush tb raw) ->
  0 <= tbq -> tbq + res <= H -> H <= t -> 0 < t ->
  let s := store_of e res (evs ++ [EFlush tb raw]) in
  proj1_sig (match den (scell e) res (merge (scell e) (sc_empty e) (sc_merge e) (lookup key key_eqb (scell e) k (s_file key (scell e) s)) None res tbq) t
             with Some c => c | None => sc_empty e end)
  = read e res tbq (evs ++ [EFlush tb raw]) k t.
Proof. exact disk_only_after_flush. Qed.

(* wherever the data is split, merging the parts gives the state of all points *)
Theorem C03_split_anywhere : forall e pts n,
  Expr.merge e (st e (firstn n pts)) (st e (skipn n pts)) = st e pts.
Proof. exact (fun e pts n => eq_trans (merge_hom e (firstn n pts) (skipn n pts)) (f_equal (st e) (firstn_skipn n pts))). Qed.

(* the reference answer is a function of the inserted points only *)
Theorem C03_reads_accumulated_state : forall e res H evs tbq k t,
  0 < res -> Forall (ev_ok res H) evs -> 0 <= tbq -> tbq + res <= H -> H <= t -> 0 < t ->
  read e res tbq evs k t = st e (points_of res k t evs).
Proof. exact store_reads_accumulated_state. Qed.

(* scans running while the row store flushes and removes old files (Model/Pin.v), with rowStore.iterate structured
   as row_store.go has it (translated step list): on every schedule of inserts, flushes, scan starts, scan
   continuations and removals of old files, every scan that finishes returned the points [0, n) applied when it
   captured its snapshot - however many flushes moved them to other files meanwhile, whichever files were deleted *)
Theorem C03_scans_unaffected_by_flushes_and_file_removal : forall ops sc from upto,
  In sc (Pin.p_scans (Pin.prun (PinSrc.pins_atomically Facts.gen_iterate_steps) ops)) ->
  Pin.ps_phase sc = Pin.Finished from upto -> from = 0%nat /\ upto = Pin.ps_n sc.
Proof. rewrite TiePin.iterate_pins_atomically. exact PinP.atomic_scans_return_their_snapshot. Qed.

(* ... and the remover's guard (Pin.removable) is the one in row_store.go: it looks readers up under the key scans
   register under (translated: gen_pin_key, gen_remover_key, gen_filestore_names) *)
Theorem C03_remover_sees_scan_registrations : TiePin.reader_keys_agree = true.
Proof. exact TiePin.remover_sees_registrations. Qed.

(* why the structure matters: registering in a critical section of its own (the code as shipped) has a schedule on
   which a scan returns none of the points flushed before it began *)
Theorem C03_separate_registration_refuted :
  forallb Pin.scan_ok (Pin.p_scans (Pin.prun false PinP.lost_file_schedule)) = false.
Proof. exact PinP.nonatomic_refuted. Qed.

Example C03_nonvacuous :
  let e := EAvg (EField 1) (EConst 1) in
  let p v := {| p_vals := [(1, v)]; p_md := [] |} in
  let k := [(11, VStr [97])] in
  let a := [EIns k 13 2 (p 5); EIns k 14 2 (p 7); EIns k 13 2 (p 9)] in
  let b := [EIns k 13 2 (p 5); EFlush 2 true; EIns k 14 2 (p 7); EFlush 2 false; EIns k 13 2 (p 9); EFlush 2 true] in
  Forall (ev_ok 2 6) a /\ Forall (ev_ok 2 6) b /\ read e 2 2 a k 14 = read e 2 2 b k 14 /\ read e 2 2 b k 14 = CAvg (Some (3, 21)).
Proof. split; [repeat constructor; cbn; lia|]. split; [repeat constructor; cbn; lia|]. vm_compute. auto. Qed.

(* what fileStore.iterate relies on when it merges a file with the memstore tree: Remove hands back exactly the
   key's data (once per context) and changes neither keys nor data, so the file row is merged with the right
   memstore row whatever the shape of the tree *)
Theorem C03_tree_remove : forall (D:Type) ctx key (t:Tree.tree D), TreeP.wf_tree t ->
  let '(t', o) := Tree.tremove ctx key t in
  TreeP.wf_tree t' /\ TreeP.content t' = TreeP.content t
  /\ o = (if Tree.tremoved ctx key t then None else Tree.tfind key t).
Proof. exact TreeP.tremove_spec. Qed.

(* fileStore.iterate over a file and the memstore tree (Remove every key read from the file, then Walk what is left,
   all in one fresh context): every key of the file is merged with exactly the memstore's data for it, and the Walk
   reports exactly the memstore's other keys, each once — whatever the keys and the shape of the tree *)
Theorem C03_tree_iterate_each_key_once : forall (D:Type) ctx (file_keys:list (list Z)) (t:Tree.tree D),
  ctx <> 0 -> TreeP.wf_tree t -> TreeP.unmarked ctx t -> NoDup file_keys ->
  let '(os, vs) := Tree.iterate_keys ctx file_keys t in
  os = map (fun k => (k, Tree.tfind k t)) file_keys
  /\ NoDup (map fst vs)
  /\ (forall k d, In (k, d) vs <-> (Tree.tfind k t = Some d /\ ~ In k file_keys)).
Proof. exact TreeP.iterate_each_key_once. Qed.
(* the structure of bytetree.go these theorems speak about is the one in /repo on this run *)
Theorem C03_tree_source_as_modelled : TieTree.tree_source_as_modelled.
Proof. exact TieTree.tree_source_as_modelled_holds. Qed.

(* what a flush writes for a row is what a scan of the file reads back (Model/RowCodec.v: rowLength, key length, key,
   column count, column lengths, columns), and the scan is left at the start of the next row — for every key shorter
   than 2^16 bytes, fewer than 2^16 columns and columns shorter than 2^64 bytes; the format is the one doWrite uses on this run *)
Theorem C03_row_written_is_row_read : forall key cols after, RowCodecP.fits key cols ->
  RowCodec.decode_row (RowCodec.encode_row key cols ++ after) = Some (key, cols, after).
Proof. exact RowCodecP.row_roundtrip. Qed.
Theorem C03_row_format_as_modelled : TieRow.row_format_as_modelled.
Proof. exact TieRow.row_format_as_modelled_holds. Qed.

(* non-vacuity: a file with three keys (one of them absent from memory, one the empty key) merged with a memstore tree of
   four keys — every key of either side comes out exactly once *)
Example C03_tree_iterate_nonvacuous :
  let add v := fun o : option Z => match o with Some c => c + v | None => v end in
  let t := TreeP.built [([97; 98; 99], add 1); ([97; 98], add 2); ([], add 4); ([98], add 8)] in
  TreeP.wf_tree t /\ TreeP.unmarked 7 t
  /\ Tree.iterate_keys 7 [[97; 98]; [120]; []] t
      = ([([97; 98], Some 2); ([120], None); ([], Some 4)], [([97; 98; 99], 1); ([98], 8)]).
Proof.
  split; [apply TreeP.built_wf|]. split; [|vm_compute; reflexivity].
  intros n Hn. vm_compute in Hn. repeat (destruct Hn as [Hn|Hn]; [subst n; reflexivity|]). destruct Hn.
Qed.
(* non-vacuity of the row format theorem: a row with an empty column, followed by the start of the next row *)
Example C03_row_nonvacuous :
  RowCodecP.fits [1; 2; 3] [[7; 8]; []; [9]]
  /\ RowCodec.decode_row (RowCodec.encode_row [1; 2; 3] [[7; 8]; []; [9]] ++ [42]) = Some ([1; 2; 3], [[7; 8]; []; [9]], [42]).
Proof. exact RowCodecP.row_roundtrip_nonvacuous. Qed.

(* a whole file: the rows a flush writes one after the other are the rows a scan reads, in order, to the end of the file
   (with the reader and the fuel the correspondence stage rowfile runs on real files) *)
Theorem C03_file_written_is_file_read : forall rows : list (list Z * list (list Z)),
  Forall (fun r => RowCodecP.fits (fst r) (snd r)) rows ->
  CorrRow.decode_all (S (length (RowCodecP.encode_rows rows))) (RowCodecP.encode_rows rows) = Some rows.
Proof. exact RowCodecP.file_roundtrip. Qed.

Print Assumptions C03_schedule_independent.
Print Assumptions C03_disk_equals_mem_after_flush.
Print Assumptions C03_split_anywhere.
Print Assumptions C03_reads_accumulated_state.
Print Assumptions C03_scans_unaffected_by_flushes_and_file_removal.
Print Assumptions C03_separate_registration_refuted.
Print Assumptions C03_remover_sees_scan_registrations.
Print Assumptions C03_tree_remove.
Print Assumptions C03_tree_iterate_each_key_once.
Print Assumptions C03_tree_source_as_modelled.
Print Assumptions C03_row_written_is_row_read.
Print Assumptions C03_row_format_as_modelled.
Print Assumptions C03_file_written_is_file_read.
