(* C11 — the distributed query plan is equivalent to the local plan. *)
From Coq Require Import QArith List Arith Bool Lia Sorting.Permutation.
From Zeno Require Import Base Sort Expr ExprSpec ExprP DB DBP Cluster ClusterP Plan PlanP.
Import ListNotations.

(* A query is pushed down whole only when every output group is confined to a single partition: whenever the
   planner's predicate (the model of pushdownAllowed, compared with the real planner's choice on every generated
   query) says yes, two points whose table rows end up in the same output group are routed to the same partition —
   for every interpretation of the group-by expressions that honours goexpr's one-to-one contract, every routing
   function that looks at the partition keys only, every nesting of FROM-subqueries. *)
Theorem C11_pushdown_only_if_confined :
  forall (value:Type) (absent:value) (eval:nat -> nat -> key value -> value) (tkey:key value -> key value) (q:pquery) (route:key value -> nat),
  pushdown_allowed q = true ->
  oto_sound value eval (pq_levels q) ->
  table_oto value tkey (pq_table_gb q) ->
  (forall p d, In p (pq_pk q) -> tkey d p = d p) ->
  route_respects value (pq_pk q) route ->
  forall d1 d2,
    (forall n, out_key value absent eval (pq_levels q) (tkey d1) n = out_key value absent eval (pq_levels q) (tkey d2) n) ->
    route d1 = route d2.
Proof. exact pushdown_only_if_confined. Qed.

Theorem C11_crosstab_not_pushed_down : forall q, pq_crosstab q = true -> pushdown_allowed q = false.
Proof. exact crosstab_not_pushed_down. Qed.
Theorem C11_limited_subquery_not_pushed_down : forall q, pq_subbad q = true -> pushdown_allowed q = false.
Proof. exact limited_subquery_not_pushed_down. Qed.
(* a FROM-subquery that filters by an IN-subquery of its own is never pushed down: each partition would evaluate that
   subquery on its own data only (only the outermost WHERE's subqueries are evaluated cluster-wide by the leader) *)
Theorem C11_nested_subquery_not_pushed_down : forall q, pq_nested_subq q = true -> pushdown_allowed q = false.
Proof. exact nested_subquery_not_pushed_down. Qed.
Theorem C11_unkeyed_pushdown_only_when_nothing_regroups : forall q, pq_pk q = [] -> pushdown_allowed q = true ->
  pq_table_gb q = None /\ forallb l_all (pq_levels q) = true.
Proof. exact unkeyed_pushdown_only_when_nothing_regroups. Qed.
Theorem C11_table_key_must_carry_partition_keys : forall q tparams k, pq_table_gb q = Some tparams -> In k (pq_pk q) ->
  memb k tparams = false -> pushdown_allowed q = false.
Proof. exact table_key_must_carry_partition_keys. Qed.

(* whole-query pushdown is sound when groups are confined: the partition that holds a group holds all of it, the others
   none of it, so the union of the partitions' answers is the local answer *)
Theorem C11_pushdown_sound : forall T q route pts k t p, confined T q route pts ->
  glookup k t (groups T q (routed_to route p pts)) = glookup k t (groups T q pts)
  \/ glookup k t (groups T q (routed_to route p pts)) = [].
Proof. exact pushdown_sound. Qed.
Theorem C11_pushdown_complete : forall T q route pts k t x, confined T q route pts ->
  In x pts -> contributes_to T q k t x = true ->
  glookup k t (groups T q (routed_to route (route x) pts)) = glookup k t (groups T q pts).
Proof. exact pushdown_complete. Qed.

(* partition-side pre-aggregation followed by leader-side grouping is sound for every split: the leader re-merges
   accumulator states, and merging the partitions' states is the state (hence the value) of all the points *)
Theorem C11_nonpushdown_sound : forall e parts all, Permutation all (concat parts) -> remerge e parts = st e all.
Proof. exact remerge_sound. Qed.
Theorem C11_nonpushdown_value : forall e parts all, Permutation all (concat parts) -> get e (remerge e parts) = ref e all.
Proof. exact remerge_value. Qed.

(* rejecting is right: there is a shape the predicate rejects whose groups really span partitions *)
Theorem C11_rejection_is_justified : exists (q:pquery) (eval:nat -> nat -> key nat -> nat) (route:key nat -> nat) (d1 d2:key nat),
  pushdown_allowed q = false /\ oto_sound nat eval (pq_levels q) /\ route_respects nat (pq_pk q) route /\
  (forall n, out_key nat 0%nat eval (pq_levels q) d1 n = out_key nat 0%nat eval (pq_levels q) d2 n) /\ route d1 <> route d2.
Proof. exact rejection_is_justified. Qed.

Print Assumptions C11_pushdown_only_if_confined.
Print Assumptions C11_crosstab_not_pushed_down.
Print Assumptions C11_limited_subquery_not_pushed_down.
Print Assumptions C11_nested_subquery_not_pushed_down.
Print Assumptions C11_unkeyed_pushdown_only_when_nothing_regroups.
Print Assumptions C11_table_key_must_carry_partition_keys.
Print Assumptions C11_pushdown_sound.
Print Assumptions C11_pushdown_complete.
Print Assumptions C11_nonpushdown_sound.
Print Assumptions C11_nonpushdown_value.
Print Assumptions C11_rejection_is_justified.
