(* C20 — data crossing the RPC boundary keeps its meaning. *)
From Coq Require Import String Lia QArith.
From Zeno Require Import Base Expr ExprSpec ExprP Codec CodecP Facts.
Local Open Scope string_scope.

(* every expression of the modelled grammar decodes to itself: same tree, hence same text, width,
   Update, Merge, Get and sub-mergers on all inputs *)
Theorem C20_roundtrip : forall e, decode (esize e) (encode e) = Some e.
Proof. exact roundtrip. Qed.
Theorem C20_decoded_behaves_like_original : forall e fuel e', (esize e <= fuel)%nat -> decode fuel (encode e) = Some e' ->
  forall pts, st e' pts = st e pts /\ get e' (st e' pts) = ref e pts /\ width e' = width e.
Proof.
  intros e fuel e' Hf H pts. rewrite (decode_encode e fuel Hf) in H. inversion H; subst.
  split; [reflexivity|]. split; [apply get_ref|reflexivity].
Qed.

(* on the codec table translated from expr/*.go on this run: every registered extension type restores, on
   decoding, every field its behaviour depends on (hand-written decoders rebuild the function fields) *)
Theorem C20_codec_table_complete : forall row, In row gen_codec ->
  forall f, In f (behaviour_fields (fst (snd row))) -> smem f (restored row) = true.
Proof. exact codec_every_type_restores_behaviour. Qed.
Theorem C20_codec_table_types : map (fun r => fst (snd r)) gen_codec =
  ["field"; "constant"; "bounded"; "aggregate"; "ifExpr"; "avg"; "binaryExpr"; "shift"; "unaryMathExpr"; "ptile"; "ptileOptimized"].
Proof. exact codec_table_types. Qed.

Print Assumptions C20_roundtrip.
Print Assumptions C20_decoded_behaves_like_original.
Print Assumptions C20_codec_table_complete.
Print Assumptions C20_codec_table_types.
