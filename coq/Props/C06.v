(* C06 — coarser grouping (fewer dims, longer period) re-aggregates without loss or overlap. *)
From Coq Require Import QArith.
From Zeno Require Import Base Sort Expr ExprSpec ExprP DB DBP.
Local Open Scope Z_scope.

(* a native period end t lies in exactly one output period (T-P, T], anchored at until *)
Theorem C06_out_period : forall u p t, 0 < p -> t <= u ->
  let T := out_bucket u p t in T - p < t <= T /\ T <= u /\ exists n, 0 <= n /\ T = u - n * p.
Proof. exact out_bucket_spec. Qed.
Theorem C06_periods_disjoint : forall u p t T n, 0 < p -> t <= u -> 0 <= n -> T = u - n * p -> T - p < t <= T ->
  T = out_bucket u p t.
Proof. exact out_bucket_unique. Qed.

(* every accepted in-window point contributes to exactly one output row; the row is built from exactly those points *)
Theorem C06_row_points_exact : forall T q pts k t,
  glookup k t (groups T q pts) = map tp_pt (filter (contributes_to T q k t) pts).
Proof. exact groups_lookup. Qed.
Theorem C06_one_row_per_key_period : forall T q pts, NoDup (map fst (groups T q pts)).
Proof. exact groups_distinct. Qed.

(* re-aggregating partial states (fine periods, several keys) = aggregating the raw points; ratios such as AVG
   are recomputed from their merged components *)
Theorem C06_reaggregation : forall e A B, get e (Expr.merge e (st e A) (st e B)) = ref e (A ++ B).
Proof. exact (fun e A B => eq_trans (f_equal (get e) (merge_hom e A B)) (get_ref e (A ++ B))). Qed.

Example C06_nonvacuous :
  let e := EAvg (EField 1) (EConst 1) in
  let p v := {| p_vals := [(1, v)]; p_md := [] |} in
  (* AVG over two fine periods holding {1,2,3} and {10}: 16/4, not the average of the averages (2+10)/2 *)
  Qeq_bool (fst (get e (Expr.merge e (st e [p 1; p 2; p 3]) (st e [p 10])))) (4 # 1) = true.
Proof. vm_compute. reflexivity. Qed.

Print Assumptions C06_out_period.
Print Assumptions C06_periods_disjoint.
Print Assumptions C06_row_points_exact.
Print Assumptions C06_one_row_per_key_period.
Print Assumptions C06_reaggregation.
