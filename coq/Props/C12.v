(* C12 — replication is exactly-once per partition across restarts and reconnects. *)
From Coq Require Import List Arith Bool Lia Sorting.Permutation.
From Zeno Require Import Repl ReplP.
From Zeno Require Offsets OffsetsP.
Import ListNotations.

(* For every history of inserts, leader reads, deliveries, joins, flushes, clean stops, kills, restarts, directory
   snapshots and restores, link cuts and leader restarts — under the one precondition the follower's start-up code
   must establish (run_ok: the EarliestOffset it announces is not after what the table persisted) — once all nodes
   are up and caught up every follower holds exactly the accepted entries routed to its partition (and passing the
   table's WHERE), each once, in WAL order. *)
Theorem C12_follower_content : forall parts ops, run_ok (init parts) ops = true ->
  let s := run (init parts) ops in quiescent s = true ->
  forall i f, nth_error (s_fols s) i = Some f -> content f = relevant (f_part f) (s_log s).
Proof. exact follower_content. Qed.

Theorem C12_exactly_once : forall parts ops, run_ok (init parts) ops = true ->
  let s := run (init parts) ops in quiescent s = true ->
  forall i f, nth_error (s_fols s) i = Some f ->
    NoDup (content f) /\
    (forall off, In off (content f) <-> (1 <= off <= length (s_log s) /\ relevant_b (f_part f) (nth (off - 1) (s_log s) dentry) = true)).
Proof. exact exactly_once. Qed.

(* redundant followers of one partition converge to identical contents *)
Theorem C12_redundant_converge : forall parts ops, run_ok (init parts) ops = true ->
  let s := run (init parts) ops in quiescent s = true ->
  forall i j f g, nth_error (s_fols s) i = Some f -> nth_error (s_fols s) j = Some g -> f_part f = f_part g ->
    content f = content g.
Proof. exact redundant_converge. Qed.

(* several leaders: per-source offsets make the leaders independent; the same holds for each source *)
Theorem C12_multi_leader : forall nsrc parts ms, mrun_ok (minit nsrc parts) ms = true ->
  forall s, In s (mrun (minit nsrc parts) ms) -> quiescent s = true ->
  forall i f, nth_error (s_fols s) i = Some f -> content f = relevant (f_part f) (s_log s).
Proof. exact multi_source. Qed.

(* the partitions together hold every accepted entry that passes the table's WHERE, once: with C10_union_is_all and
   C10_cluster_value_equals_standalone (re-merging any split gives the standalone value) cluster queries again equal
   a standalone database fed the same points *)
Theorem C12_partitions_cover : forall P log, (forall e, In e log -> e_part e < P) ->
  Permutation (concat (map (fun p => relevant p log) (seq 0 P))) (passing log).
Proof. exact partitions_cover. Qed.

(* the hypothesis "all nodes up and caught up" is reachable from every reachable state with the nodes up: the fair
   schedule [settle] gets there (and it is the schedule the correspondence check drives the model with) *)
Theorem C12_caught_up_is_reachable : forall parts ops, run_ok (init parts) ops = true -> let s := run (init parts) ops in
  s_lup s = true -> forallb quiet_f (s_fols s) = true -> quiescent (settle s) = true.
Proof. exact settle_quiescent. Qed.
Theorem C12_settled_content : forall parts ops, run_ok (init parts) ops = true ->
  let s := settle (run (init parts) ops) in quiescent s = true ->
  forall i f, nth_error (s_fols s) i = Some f -> content f = relevant (f_part f) (s_log s).
Proof. exact follower_content_settled. Qed.

(* the precondition is needed: a follower announcing a later EarliestOffset than its table persisted loses entries *)
Theorem C12_precondition_needed : exists parts ops,
  let s := run (init parts) ops in quiescent s = true /\
  exists f, nth_error (s_fols s) 0 = Some f /\ content f <> relevant (f_part f) (s_log s).
Proof. exact earliest_guard_needed. Qed.

(* non-vacuity *)
Theorem C12_nonvacuous : exists parts ops, run_ok (init parts) ops = true /\
  let s := settle (run (init parts) ops) in quiescent s = true /\ exists f, nth_error (s_fols s) 0 = Some f /\ 3 <= length (content f).
Proof. exact nonvacuous. Qed.

(* the per-source offsets a follower announces and a leader resumes from are combined by
   common.OffsetsBySource.Advance (Model/Offsets.v): source by source the later of the two offsets, so no offset ever moves
   backwards, whichever operand is nil, and the order of combination does not matter to any reader *)
Theorem C12_offsets_advance : forall s a b, OffsetsP.wf_obs b -> OffsetsP.nonneg a -> OffsetsP.nonneg b ->
  Offsets.olook s (Offsets.advance a b) = Offsets.off_max (Offsets.olook s a) (Offsets.olook s b).
Proof. exact OffsetsP.advance_read. Qed.
Theorem C12_offsets_never_move_backwards : forall s a b, OffsetsP.wf_obs b -> OffsetsP.nonneg a -> OffsetsP.nonneg b ->
  OffsetsP.off_le (Offsets.olook s a) (Offsets.olook s (Offsets.advance a b))
  /\ OffsetsP.off_le (Offsets.olook s b) (Offsets.olook s (Offsets.advance a b)).
Proof. exact OffsetsP.advance_ge. Qed.

Example C12_offsets_nonvacuous : OffsetsP.offsets_example_statement.
Proof. exact OffsetsP.offsets_example. Qed.

Print Assumptions C12_follower_content.
Print Assumptions C12_exactly_once.
Print Assumptions C12_redundant_converge.
Print Assumptions C12_multi_leader.
Print Assumptions C12_partitions_cover.
Print Assumptions C12_caught_up_is_reachable.
Print Assumptions C12_settled_content.
Print Assumptions C12_precondition_needed.
Print Assumptions C12_nonvacuous.
Print Assumptions C12_offsets_advance.
Print Assumptions C12_offsets_never_move_backwards.
