(* C02 — crash recovery applies every acknowledged insert exactly once. *)
From Coq Require Import List Arith Bool Lia.
From Zeno Require Import Crash CrashP Facts Tie.
From Zeno Require Offsets OffsetsP.
Import ListNotations.

(* Kill the process at any instant of any history of acknowledged inserts, WAL reads, row-store applications and
   flushes (data flushes and offsets-only flushes; a kill between the steps of a flush is a kill before or after its
   rename), any number of times; restart on the same directory and let ingestion catch up: the table reflects every
   row-store insert of every acknowledged entry that passes its WHERE exactly once, in order, and nothing else.
   (An insert in flight at the kill either reached the synced WAL — then it is an [Ack] of the history — or not.) *)
Theorem C02_crash_recovery_exactly_once : forall ops, let s := catch_up true (crun true cinit ops) in
  caught_up s = true /\ ccontent s = expected (c_wal s) /\ c_wal s = c_wal (crun true cinit ops).
Proof. exact crash_recovery_exactly_once. Qed.

Theorem C02_every_acked_insert_once : forall ops, let s := catch_up true (crun true cinit ops) in
  forall off i, count_occ pair_eq_dec (ccontent s) (off, i) =
    if (andb (andb (Nat.leb 1 off) (Nat.leb off (length (c_wal s))))
             (andb (c_pass (nth (off - 1) (c_wal s) dcentry))
                   (Nat.leb i (c_k (nth (off - 1) (c_wal s) dcentry)))))
    then 1 else 0.
Proof. exact every_acked_insert_once. Qed.

(* no kill point ever yields a table that lost or double-counted a point: while the process is up the table is exactly
   the entries up to the memstore offset, and the directory is always exactly the entries up to the persisted offset *)
Theorem C02_no_loss_no_double_at_any_time : forall ops, let s := crun true cinit ops in
  c_up s = true -> ccontent s = expected_upto (c_wal s) (c_moff s) /\ c_moff s <= length (c_wal s).
Proof. exact content_is_prefix. Qed.
Theorem C02_offsets_and_rows_in_lock_step : forall ops, let s := crun true cinit ops in
  c_file s = expected_upto (c_wal s) (Nat.max (c_foff s) (c_ofile s)) /\ Nat.max (c_foff s) (c_ofile s) <= length (c_wal s).
Proof. exact disk_is_prefix. Qed.

(* a clean Close/reopen is the special case with nothing in flight *)
Theorem C02_clean_close_special_case : forall ops, let s := crun true cinit ops in caught_up s = true ->
  let s' := cstep true (cstep true (cstep true s Flush) Crash) Open in
  caught_up s' = true /\ ccontent s' = expected (c_wal s') /\ c_mem s' = [].
Proof. exact clean_close_special_case. Qed.

(* the code as shipped sent the row-store inserts of one array-valued point one by one, so that a flush could record the
   point's offset between them: refuted (the repaired code is the model with atomic = true); histories without array
   values were never affected *)
Theorem C02_array_split_refuted : exists ops, let s := catch_up false (crun false cinit ops) in
  caught_up s = true /\ ccontent s <> expected (c_wal s).
Proof. exact array_split_refuted. Qed.
Theorem C02_scalar_histories_unaffected : forall ops, (forall p k, In (Ack p k) ops -> k = 0) ->
  crun false cinit ops = crun true cinit ops.
Proof. exact scalar_histories_unaffected. Qed.

(* tie to the source, re-read on every run: doProcessFlush and writeOffsets perform their durable steps in the order the
   model's atomic Flush stands for (temp write, sync, close, rename = commit, then the swap of the in-memory stores),
   and doInsert hands the row store ONE insert per point (the model with atomic = true) *)
Theorem C02_flush_steps_as_modelled : gen_flush_steps = modelled_flush_steps.
Proof. exact flush_steps_tied. Qed.
Theorem C02_offset_file_steps_as_modelled : gen_offsets_steps = modelled_offsets_steps.
Proof. exact offsets_steps_tied. Qed.
Theorem C02_point_submitted_atomically : gen_point_submissions = modelled_point_submissions.
Proof. exact point_submitted_once. Qed.

Theorem C02_nonvacuous : exists ops, let s := catch_up true (crun true cinit ops) in
  4 <= length (ccontent s) /\ In Crash ops /\ In Flush ops.
Proof. exact crash_nonvacuous. Qed.

(* the offsets a recovering table resumes from (newest file header advanced by the offset file, memstore offsets advanced by the file's) are combined by
   common.OffsetsBySource.Advance (Model/Offsets.v): source by source the later of the two offsets, so no offset ever moves
   backwards, whichever operand is nil, and the order of combination does not matter to any reader *)
Theorem C02_offsets_advance : forall s a b, OffsetsP.wf_obs b -> OffsetsP.nonneg a -> OffsetsP.nonneg b ->
  Offsets.olook s (Offsets.advance a b) = Offsets.off_max (Offsets.olook s a) (Offsets.olook s b).
Proof. exact OffsetsP.advance_read. Qed.
Theorem C02_offsets_never_move_backwards : forall s a b, OffsetsP.wf_obs b -> OffsetsP.nonneg a -> OffsetsP.nonneg b ->
  OffsetsP.off_le (Offsets.olook s a) (Offsets.olook s (Offsets.advance a b))
  /\ OffsetsP.off_le (Offsets.olook s b) (Offsets.olook s (Offsets.advance a b)).
Proof. exact OffsetsP.advance_ge. Qed.

Example C02_offsets_nonvacuous : OffsetsP.offsets_example_statement.
Proof. exact OffsetsP.offsets_example. Qed.

Print Assumptions C02_crash_recovery_exactly_once.
Print Assumptions C02_every_acked_insert_once.
Print Assumptions C02_no_loss_no_double_at_any_time.
Print Assumptions C02_offsets_and_rows_in_lock_step.
Print Assumptions C02_clean_close_special_case.
Print Assumptions C02_array_split_refuted.
Print Assumptions C02_scalar_histories_unaffected.
Print Assumptions C02_flush_steps_as_modelled.
Print Assumptions C02_offset_file_steps_as_modelled.
Print Assumptions C02_point_submitted_atomically.
Print Assumptions C02_nonvacuous.
Print Assumptions C02_offsets_advance.
Print Assumptions C02_offsets_never_move_backwards.
