(* C07 — ASOF/UNTIL return exactly the periods inside the requested time window. *)
From Coq Require Import QArith.
From Zeno Require Import Base Sort Expr ExprSpec Seq SeqP DB DBP.
Local Open Scope Z_scope.

(* a point contributes only if its native period lies in (asOf', until'], and then to the output period containing it *)
Theorem C07_inside_window : forall T q p k t, contributes T q p = Some (k, t) -> needs_group T q = true ->
  0 < q_period' T q -> bucket (t_res T) (tp_ts p) <= q_until' T q ->
  q_asof' T q < bucket (t_res T) (tp_ts p) <= q_until' T q /\
  t - q_period' T q < bucket (t_res T) (tp_ts p) <= t /\ t <= q_until' T q.
Proof. exact contributes_window. Qed.

(* no period that ends at or before asOf' or after until' contributes *)
Theorem C07_nothing_outside : forall T q p, needs_group T q = true ->
  (bucket (t_res T) (tp_ts p) <= q_asof' T q \/ q_until' T q < bucket (t_res T) (tp_ts p)) ->
  contributes T q p = None.
Proof. exact outside_window_no_contribution. Qed.

(* the mechanism: restricting a stored series keeps exactly the periods in (asOf, until], values unchanged *)
Theorem C07_truncate : forall (cell:Type) (s:seq cell) res asOf until t, 0 < res ->
  (asOf = 0 \/ res <= asOf) -> (until = 0 \/ res <= until) -> (forall u cs, s = Some (u, cs) -> res <= u) ->
  den cell res (truncate cell s res asOf until) t =
  if ((asOf =? 0) || (asOf <? t)) && ((until =? 0) || (t <=? until)) then den cell res s t else None.
Proof. exact truncate_den. Qed.

(* without a range the window is (now - retention, now], rounded to the resolution *)
Theorem C07_default_window : forall T q, q_asof q = 0 -> q_until q = 0 ->
  q_until' T q = round_up (q_now q) (t_res T) /\
  q_asof0 T q = round_up (round_up (q_now q) (t_res T) - t_ret T) (t_res T).
Proof. intros T q Ha Hu. unfold q_until', q_asof0, tbl_asof, tbl_until. rewrite Ha, Hu. cbn. split; reflexivity. Qed.

Example C07_nonvacuous :
  let T := {| t_fields := [(0, EAgg SUM (EField 9))]; t_groupby := None; t_res := 2; t_ret := 100; t_where := None |} in
  let q := {| q_fields := None; q_groupby := None; q_period := 0; q_asof := 5; q_until := 9; q_where := None; q_now := 20; q_vis := None; q_limit := None |} in
  let p ts := {| tp_ts := ts; tp_dims := []; tp_pt := {| p_vals := [(9, 1)]; p_md := [] |}; tp_flags := [] |} in
  map o_ts (spec_rows T q [p 3; p 6; p 7; p 8; p 10; p 11]) = [8; 10].
Proof. vm_compute. reflexivity. Qed.

Print Assumptions C07_inside_window.
Print Assumptions C07_nothing_outside.
Print Assumptions C07_truncate.
Print Assumptions C07_default_window.
