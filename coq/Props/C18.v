(* C18 — a query observes the table as of a single instant. *)
From Coq Require Import Lia.
From Zeno Require Import Base Alias AliasP.
From Zeno Require Pin PinP PinSrc Facts TiePin.
From Zeno Require Tree TreeP.
From Zeno Require TieTree.

(* whatever the live store does after a scan took its (deep-copied) memstore snapshot — inserts into
   existing periods (in-place writes), into new keys, flushes — every buffer the snapshot points to
   keeps the value it had when the snapshot was taken *)
Theorem C18_snapshot_stable : forall (K:Type) (keqb:K -> K -> bool) (S:Type) (sempty:S) (t:atree K) (h:heap S) ops,
  ids_below K (length h) t ->
  let '(ts, h1) := copy_deep K S sempty (t, h) in
  forall k i, In (k, i) ts ->
  hget S sempty i (snd (fold_left (astep K keqb S sempty) ops (t, h1))) = hget S sempty i h1.
Proof. exact deep_snapshot_stable. Qed.

(* the instant: the scan begun after the operations [pre] holds a snapshot of exactly the points inserted in [pre],
   and - with rowStore.iterate structured as row_store.go has it - whatever [post] does (inserts, flushes, removals
   of old files, other scans), if it finishes it returned exactly those points: none applied later, all applied before *)
Theorem C18_scan_reflects_the_prefix_at_its_start : forall pre post,
  let atomic := PinSrc.pins_atomically Facts.gen_iterate_steps in
  exists sc, nth_error (Pin.p_scans (Pin.prun atomic (pre ++ Pin.PBegin :: post))) (PinP.count_begin pre) = Some sc /\
             Pin.ps_n sc = PinP.count_ins pre /\
             forall from upto, Pin.ps_phase sc = Pin.Finished from upto -> from = 0%nat /\ upto = PinP.count_ins pre.
Proof.
  intros pre post atomic. destruct (PinP.snapshot_is_history_prefix atomic pre post) as [sc [E Hn]].
  exists sc. split; [exact E|]. split; [exact Hn|]. intros from upto Hp. rewrite <- Hn.
  unfold atomic in E. rewrite TiePin.iterate_pins_atomically in E.
  exact (PinP.atomic_scans_return_their_snapshot _ sc from upto (nth_error_In _ _ E) Hp).
Qed.

(* the memstore copy is taken in the critical section that captures the file store (same instant for both halves) *)
Theorem C18_memstore_copied_with_file_store : PinSrc.copies_with_capture Facts.gen_iterate_steps = true.
Proof. exact TiePin.iterate_copies_with_capture. Qed.

Example C18_nonvacuous :
  let t := [(1, 0%nat); (2, 1%nat)] in let h := [10; 20] in
  let '(ts, h1) := copy_deep Z Z 0 (t, h) in
  let later := fold_left (astep Z Z.eqb Z 0) [AIns Z Z 1 (fun v => v + 5); AFlush Z Z; AIns Z Z 3 (fun v => v + 1); AIns Z Z 2 (fun v => v * 2)] (t, h1) in
  ids_below Z (length h) t /\
  map (aread Z Z.eqb Z 0 ts (snd later)) [1; 2; 3] = [Some 10; Some 20; None] /\
  map (aread Z Z.eqb Z 0 t (snd later)) [1; 2] = [Some 15; Some 20].
Proof. split; [intros k i [H|[H|[]]]; inversion H; cbn; lia|]. vm_compute. auto. Qed.

(* the snapshot a scan takes of the memstore (Tree.Copy) holds exactly the keys and data the tree held at that
   moment, without removal marks, and a Walk of it reports each of them *)
Theorem C18_tree_copy : forall (D:Type) (t:Tree.tree D), TreeP.wf_tree t ->
  TreeP.wf_tree (Tree.tcopy t) /\ TreeP.content (Tree.tcopy t) = TreeP.content t
  /\ (forall key, Tree.tfind key (Tree.tcopy t) = Tree.tfind key t)
  /\ (forall ctx, TreeP.unmarked ctx (Tree.tcopy t)).
Proof. exact TreeP.tcopy_spec. Qed.
Theorem C18_tree_copy_walk : forall (D:Type) ctx keep (t:Tree.tree D), TreeP.wf_tree t ->
  forall k d, In (k, d) (snd (Tree.twalk ctx (fun _ _ => (true, keep)) (Tree.tcopy t))) <-> Tree.tfind k t = Some d.
Proof. exact TreeP.copy_walk. Qed.

Theorem C18_tree_source_as_modelled : TieTree.tree_source_as_modelled.
Proof. exact TieTree.tree_source_as_modelled_holds. Qed.

Example C18_tree_copy_nonvacuous :
  let add v := fun o : option Z => match o with Some c => c + v | None => v end in
  let t := fst (Tree.tremove 3 [97; 98] (TreeP.built [([97; 98; 99], add 1); ([97; 98], add 2); ([], add 4)])) in
  TreeP.wf_tree t
  /\ snd (Tree.twalk 3 (fun _ _ => (true, true)) t) = [([], 4); ([97; 98; 99], 1)]                       (* the live tree has a removal mark *)
  /\ snd (Tree.twalk 3 (fun _ _ => (true, true)) (Tree.tcopy t)) = [([97; 98], 2); ([], 4); ([97; 98; 99], 1)].  (* the copy has none *)
Proof.
  split; [|vm_compute; split; reflexivity].
  pose proof (@TreeP.tremove_spec Z 3 [97; 98] _ (TreeP.built_wf [([97; 98; 99], fun o : option Z => match o with Some c => c + 1 | None => 1 end);
    ([97; 98], fun o : option Z => match o with Some c => c + 2 | None => 2 end); ([], fun o : option Z => match o with Some c => c + 4 | None => 4 end)])) as S.
  destruct (Tree.tremove 3 [97; 98] _) as [t' o]. exact (proj1 S).
Qed.

Print Assumptions C18_snapshot_stable.
Print Assumptions C18_scan_reflects_the_prefix_at_its_start.
Print Assumptions C18_memstore_copied_with_file_store.
Print Assumptions C18_tree_copy.
Print Assumptions C18_tree_copy_walk.
Print Assumptions C18_tree_source_as_modelled.
