(* C14 — retention drops only expired data, and expired data stays gone. *)
From Coq Require Import QArith Lia.
From Zeno Require Import Base Sort Expr ExprSpec Seq SeqP Store StoreExprP DB Retention RetentionP Facts.
Local Open Scope Z_scope.

(* a point older than the retention period when it is processed is never stored *)
Theorem C14_too_old_ignored : forall T s p, tp_ts p < r_clock s - t_ret T -> rstep T s (RIns p) = s.
Proof. exact too_old_ignored. Qed.

(* the clock never goes back, so "too old" is final *)
Theorem C14_clock_monotone : forall T ops s, r_clock s <= r_clock (fold_left (rstep T) ops s).
Proof. exact rrun_clock_mono. Qed.

(* a period still inside the window is never dropped by inserts, flushes or truncation: above the
   truncation horizon the row store holds exactly the accumulated state of the period's points *)
Theorem C14_live_never_dropped : forall e res H evs tbq k t,
  0 < res -> Forall (ev_ok res H) evs -> 0 <= tbq -> tbq + res <= H -> H <= t -> 0 < t ->
  read e res tbq evs k t = st e (points_of res k t evs).
Proof. exact store_reads_accumulated_state. Qed.

(* the truncation applied when rows are rewritten removes exactly the wholly expired periods ... *)
Theorem C14_written_removes_expired : forall (cell:Type) (s:seq cell) res tb t, 0 < res -> res <= tb ->
  (forall u cs, s = Some (u, cs) -> res <= u) -> t <= tb -> den cell res (truncate cell s res tb 0) t = None.
Proof. exact written_removes_expired. Qed.
Theorem C14_written_keeps_live : forall (cell:Type) (s:seq cell) res tb t, 0 < res -> res <= tb ->
  (forall u cs, s = Some (u, cs) -> res <= u) -> tb < t -> den cell res (truncate cell s res tb 0) t = den cell res s t.
Proof. exact written_keeps_live. Qed.

(* ... it never reaches beyond clock - retention, and only grows *)
Theorem C14_horizon_bounded : forall T s o, 0 < t_res T -> horizon_ok T s -> horizon_ok T (rstep T s o).
Proof. exact rstep_horizon_ok. Qed.
Theorem C14_horizon_monotone : forall T s o, r_horizon s <= r_horizon (rstep T s o).
Proof. exact rstep_horizon_mono. Qed.

(* a truncating flush happens within ten data-carrying flushes *)
Theorem C14_truncating_within_ten : forall n, 0 <= n -> exists k, 0 <= k < truncate_every /\ Z.rem (n + k) truncate_every = truncate_every - 1.
Proof. exact truncating_within_ten. Qed.
(* and "ten" is the constant in /repo's row_store.go on this run *)
Theorem C14_truncate_every_is_source : gen_truncate_every = truncate_every /\ gen_truncate_rem = truncate_every - 1.
Proof. split; reflexivity. Qed.

(* expired data stays gone: a later point of a truncated period is too old (ignored) or sits exactly on the boundary *)
Theorem C14_no_resurrection : forall T s p, horizon_ok T s -> 0 < r_horizon s ->
  bucket (t_res T) (tp_ts p) <= r_horizon s -> 0 < t_res T ->
  tp_ts p < r_clock s - t_ret T \/ tp_ts p = r_clock s - t_ret T.
Proof. exact no_resurrection_clock. Qed.

Print Assumptions C14_too_old_ignored.
Print Assumptions C14_clock_monotone.
Print Assumptions C14_live_never_dropped.
Print Assumptions C14_written_removes_expired.
Print Assumptions C14_written_keeps_live.
Print Assumptions C14_horizon_bounded.
Print Assumptions C14_horizon_monotone.
Print Assumptions C14_truncating_within_ten.
Print Assumptions C14_truncate_every_is_source.
Print Assumptions C14_no_resurrection.
