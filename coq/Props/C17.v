(* C17 — concurrent queries on a table each get the result they would get alone. *)
From Zeno Require Import Base Coalesce CoalesceP.

(* every iteration served by a shared scan is delivered exactly the rows (projected to its own
   fields) and ends in exactly the status (running to the end / stopped early / failed) it would
   have alone, whatever the other iterations request, however early they stop and however they fail *)
Theorem C17_coalesced_is_solo : forall (V:Type) (its:list iter) rows i it, nth_error its i = Some it ->
  nth_error (coalesced V its rows) i = Some (solo V it rows).
Proof. exact coalesced_is_solo. Qed.

Example C17_nonvacuous :
  let a := {| it_fields := [0%nat; 2%nat]; it_stop := fun k => Nat.eqb k 2; it_fail := fun _ => false |} in
  let b := {| it_fields := [1%nat]; it_stop := fun _ => false; it_fail := fun k => Nat.eqb k 1 |} in
  let c := {| it_fields := [2%nat; 1%nat]; it_stop := fun _ => false; it_fail := fun _ => false |} in
  let rows := [[1; 2; 3]; [4; 5; 6]; [7; 8; 9]] in
  map (fun s => (length (is_rows Z s), is_status Z s)) (coalesced Z [a; b; c] rows) = [(2%nat, Done); (1%nat, Failed); (3%nat, Running)].
Proof. vm_compute. reflexivity. Qed.

Print Assumptions C17_coalesced_is_solo.
