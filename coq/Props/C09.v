(* C09 — ORDER BY sorts by the full key list; LIMIT/OFFSET slice that order.
   Only property theorems here, each closed by [exact]. *)
From Coq Require Import Sorting.Sorted Sorting.Permutation.
From Zeno Require Import Base Sort SortP.

(* orderedRows.Less (core/sort.go) is exactly the strict part of the lexicographic order *)
Theorem C09_less_is_lex : forall ks a b, comparable2 ks a b = true ->
  less ks a b = Some (is_lt (row_cmp ks a b)).
Proof. exact less_is_lex. Qed.

(* "non-decreasing under the lexicographic comparison" is a total preorder *)
Theorem C09_order_transitive : forall ks a b d, lex_le ks a b -> lex_le ks b d -> lex_le ks a d.
Proof. exact lex_le_trans. Qed.
Theorem C09_order_total : forall ks a b, lex_le ks a b \/ lex_le ks b a.
Proof. exact lex_le_total. Qed.

(* sorting with Less yields a sorted permutation, for every key list and every row list *)
Theorem C09_sorted : forall ks rows, comparable ks rows = true ->
  StronglySorted (lex_le ks) (sort_rows ks rows).
Proof. exact sort_rows_sorted. Qed.
Theorem C09_permutation : forall ks rows, Permutation rows (sort_rows ks rows).
Proof. exact sort_rows_perm. Qed.

(* core.Limit over core.Offset deliver exactly rows m .. m+n-1, for all n, m >= 0 *)
Theorem C09_limit_offset : forall (n m:nat) rows,
  limit_rows (Z.of_nat n) (offset_rows (Z.of_nat m) rows) = firstn n (skipn m rows).
Proof. exact limit_offset. Qed.
Theorem C09_never_more : forall (n m:nat) rows,
  (length (limit_rows (Z.of_nat n) (offset_rows (Z.of_nat m) rows)) <= n)%nat /\
  incl (limit_rows (Z.of_nat n) (offset_rows (Z.of_nat m) rows)) rows.
Proof. exact never_more. Qed.

(* planner.addOrderLimitOffset = slice of the sorted result (LIMIT 0 => no rows) *)
Theorem C09_pipeline : forall ks off lim rows, 0 <= off -> (forall n, lim = Some n -> 0 <= n) ->
  order_limit_offset ks off lim rows =
  slice_spec off lim (match ks with [] => rows | _ => sort_rows ks rows end).
Proof. exact pipeline_spec. Qed.

(* the executable oracle applied to the implementation's output decides the property *)
Theorem C09_oracle_sound : forall c, sort_case_ok c = true ->
  StronglySorted (lex_le (sc_keys c)) (sc_sorted c) /\
  Permutation (sc_in c) (sc_sorted c) /\
  (sc_keys c = [] -> sc_sorted c = sc_in c) /\
  sc_out c = slice_spec (sc_off c) (sc_lim c) (sc_sorted c).
Proof. exact sort_case_ok_sound. Qed.

(* non-vacuity: a concrete comparable row set with ties, nil and mixed directions *)
Example C09_nonvacuous :
  let r t x d := {| r_ts := t; r_vals := [(1, x)]; r_key := d |} in
  let rows := [r 3 5 [(7, VStr [97])]; r 1 5 []; r 2 4 [(7, VStr [98])]; r 1 5 [(7, VStr [97])]] in
  let ks := [OKey 1 true; OKey 7 false; OTime true] in
  comparable ks rows = true /\
  map r_ts (sort_rows ks rows) = [1; 3; 1; 2] /\
  map r_ts (order_limit_offset ks 1 (Some 2) rows) = [3; 1].
Proof. vm_compute. auto. Qed.

Print Assumptions C09_less_is_lex.
Print Assumptions C09_order_transitive.
Print Assumptions C09_order_total.
Print Assumptions C09_sorted.
Print Assumptions C09_permutation.
Print Assumptions C09_limit_offset.
Print Assumptions C09_never_more.
Print Assumptions C09_pipeline.
Print Assumptions C09_oracle_sound.
