(* C13 — incomplete results are never presented as complete. *)
From Coq Require Import Lia.
From Zeno Require Import Base Report ReportP.

(* a table scan (file part, then memstore part, the deadline guard checked after every row) that reports no
   error has delivered every row; equivalently, any omission comes with an error — for every deadline,
   including one that is already expired and one that strikes inside the memstore part *)
Theorem C13_scan_no_error_complete : forall (R:Type) (file mem:list R) k d,
  scan R file mem k = (d, false) -> d = file ++ mem.
Proof. exact scan_no_error_complete. Qed.
Theorem C13_scan_omission_is_reported : forall (R:Type) (file mem:list R) k,
  fst (scan R file mem k) <> file ++ mem -> snd (scan R file mem k) = true.
Proof. exact scan_omission_is_reported. Qed.

(* the observed-outcome predicate: complete, or the caller is told (error / missing partition listed / non-200) *)
Theorem C13_outcome_ok_iff : forall c, rep_case_ok c = true <-> complete_of c = true \/ told c = true.
Proof. intros c. unfold rep_case_ok. apply Bool.orb_true_iff. Qed.

Print Assumptions C13_scan_no_error_complete.
Print Assumptions C13_scan_omission_is_reported.
Print Assumptions C13_outcome_ok_iff.
