(* C19 — data-disclosing endpoints refuse callers without valid credentials. *)
From Coq Require Import String Lia.
From Zeno Require Import Base Auth AuthP Facts.
Local Open Scope string_scope.

(* every RPC handler that reaches stored data or query traffic (query, follow, remote-query-handler
   registration) calls authorize first and returns on failure — checked on the table translated from
   rpc/server/rpc_server.go on this run *)
Theorem C19_rpc_guarded : forall h, In h gen_rpc_handlers -> rpc_discloses h = true -> rpc_guarded h = true.
Proof. exact rpc_every_disclosing_handler_guarded. Qed.

(* with a password configured, a caller that does not present it is refused *)
Theorem C19_rpc_refuses : forall pw presented, pw <> "" -> ~ In pw presented -> authorize pw presented = false.
Proof. exact authorize_refuses. Qed.
Theorem C19_rpc_accepts_password : forall pw presented, In pw presented -> authorize pw presented = true.
Proof. exact authorize_accepts. Qed.

(* every web route that serves query or cached results authenticates first — checked on the table
   translated from web/*.go on this run *)
Theorem C19_web_routes_guarded : forall r, In r gen_web_routes -> web_serves_data r = true -> web_guarded r = true.
Proof. exact web_every_data_route_guarded. Qed.

(* when web authentication is configured a request is served only with the static token or an
   unexpired, verified session *)
Theorem C19_web_served_only_if : forall c header ck now, w_oauth c = true -> authenticate c header ck now = true ->
  (w_password c <> "" /\ header = w_password c)
  \/ (exists e, ck = CSession e InOrg /\ (now <= e)%Z).
Proof. exact authenticate_only_if. Qed.

(* an absent, forged, expired or unverified session cookie is not accepted *)
Theorem C19_web_expired_or_forged_refused : forall c ck now, w_oauth c = true ->
  (ck = CAbsent \/ ck = CUndecodable \/ (exists e o, ck = CSession e o /\ (e < now)%Z)
   \/ (exists e, ck = CSession e NotInOrg) \/ (exists e, ck = CSession e OrgError)) ->
  authenticate c "" ck now = false.
Proof. exact expired_or_forged_refused. Qed.

(* the tables are the expected ones (non-vacuity): three disclosing RPC handlers, four data routes *)
Theorem C19_tables_nonvacuous :
  map fst (filter rpc_discloses gen_rpc_handlers) = ["Query"; "Follow"; "HandleRemoteQueries"] /\
  map fst (filter web_serves_data gen_web_routes) = ["/async"; "/immediate"; "/run"; "/cached/{permalink}"].
Proof. exact tables_nonvacuous. Qed.

Print Assumptions C19_rpc_guarded.
Print Assumptions C19_rpc_refuses.
Print Assumptions C19_rpc_accepts_password.
Print Assumptions C19_web_routes_guarded.
Print Assumptions C19_web_served_only_if.
Print Assumptions C19_web_expired_or_forged_refused.
Print Assumptions C19_tables_nonvacuous.
