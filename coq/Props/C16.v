(* C16 — malformed client input yields an error, never a crash or a stalled pipeline. *)
From Coq Require Import String.
From Zeno Require Import Base Robust Facts.
Local Open Scope string_scope.

(* an entry point that recovers turns every inner outcome (value, error, panic) into a value or an error *)
Theorem C16_entry_total : forall i, entry true i = OOk \/ entry true i = OErr.
Proof. intros []; cbn; auto. Qed.
Theorem C16_entry_never_bad : forall i, bad (entry true i) = false.
Proof. intros []; reflexivity. Qed.
(* ... and without recover a panic inside is a crash: the recover is what the property rests on *)
Theorem C16_unrecovered_panic_is_crash : entry false IPanic = OCrash.
Proof. reflexivity. Qed.

(* every entry point that evaluates client-supplied SQL, dimension expressions or payloads recovers —
   checked on the list of recover() sites translated from the source on this run *)
Theorem C16_entry_points_recover : sites_ok gen_recover_sites = true.
Proof. vm_compute. reflexivity. Qed.
Theorem C16_each_required_site_recovers : forall s, In s required_recover_sites -> smem s gen_recover_sites = true.
Proof.
  intros s Hin. pose proof C16_entry_points_recover as H. unfold sites_ok in H. rewrite forallb_forall in H. exact (H s Hin).
Qed.

(* the statement kind is checked, not asserted: INSERT/UPDATE/DELETE/UNION/SET/DDL reach an error branch *)
Theorem C16_statement_kind_checked : gen_unchecked_select_assertions = 0%Z.
Proof. reflexivity. Qed.

Print Assumptions C16_entry_total.
Print Assumptions C16_entry_never_bad.
Print Assumptions C16_unrecovered_panic_is_crash.
Print Assumptions C16_entry_points_recover.
Print Assumptions C16_each_required_site_recovers.
Print Assumptions C16_statement_kind_checked.
