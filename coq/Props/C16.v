(* C16 — malformed client input yields an error, never a crash or a stalled pipeline. *)
From Coq Require Import String.
From Zeno Require Import Base Robust Facts.
From Zeno Require RowCodec RowCodecP TieRow.
Local Open Scope string_scope.

(* an entry point that recovers turns every inner outcome (value, error, panic) into a value or an error *)
Theorem C16_entry_total : forall i, entry true i = OOk \/ entry true i = OErr.
Proof. intros []; cbn; auto. Qed.
Theorem C16_entry_never_bad : forall i, bad (entry true i) = false.
Proof. intros []; reflexivity. Qed.
(* ... and without recover a panic inside is a crash: the recover is what the property rests on *)
Theorem C16_unrecovered_panic_is_crash : entry false IPanic = OCrash.
Proof. reflexivity. Qed.

(* every entry point that evaluates client-supplied SQL, dimension expressions or payloads recovers —
   checked on the list of recover() sites translated from the source on this run *)
Theorem C16_entry_points_recover : sites_ok gen_recover_sites = true.
Proof. vm_compute. reflexivity. Qed.
Theorem C16_each_required_site_recovers : forall s, In s required_recover_sites -> smem s gen_recover_sites = true.
Proof.
  intros s Hin. pose proof C16_entry_points_recover as H. unfold sites_ok in H. rewrite forallb_forall in H. exact (H s Hin).
Qed.

(* the statement kind is checked, not asserted: INSERT/UPDATE/DELETE/UNION/SET/DDL reach an error branch *)
Theorem C16_statement_kind_checked : gen_unchecked_select_assertions = 0%Z.
Proof. reflexivity. Qed.

(* a key of 2^16 bytes or more cannot be held by the row format (its length is written in 16 bits: the file becomes
   unreadable) — so such a point must be refused, and it is: the guards the translator finds in table.doInsert and
   DB.InsertRaw on this run keep every stored key below the bound the round-trip theorem needs *)
Theorem C16_long_key_unrepresentable : exists key cols, RowCodec.zlen key = 2 ^ 16 /\ RowCodec.decode_row (RowCodec.encode_row key cols) = None.
Proof. exact RowCodecP.long_key_refuted. Qed.
Theorem C16_long_keys_refused : TieRow.key_guard_as_modelled.
Proof. exact TieRow.key_guard_as_modelled_holds. Qed.

Print Assumptions C16_entry_total.
Print Assumptions C16_entry_never_bad.
Print Assumptions C16_unrecovered_panic_is_crash.
Print Assumptions C16_entry_points_recover.
Print Assumptions C16_each_required_site_recovers.
Print Assumptions C16_statement_kind_checked.
Print Assumptions C16_long_key_unrepresentable.
Print Assumptions C16_long_keys_refused.
