(* C05 — combining partial aggregates equals aggregating the raw points directly.
   Only property theorems here, each closed by [exact]. *)
From Coq Require Import QArith Sorting.Permutation.
From Zeno Require Import Base Expr ExprSpec Seq ExprP SeqP Tie.

Local Open Scope Z_scope.

(* merging two partial states = accumulating all underlying points into one state;
   for every expression tree of the modelled grammar and all point lists *)
Theorem C05_merge_hom : forall e A B, Expr.merge e (st e A) (st e B) = st e (A ++ B).
Proof. exact merge_hom. Qed.

Theorem C05_split3 : forall e A B C,
  Expr.merge e (st e A) (Expr.merge e (st e B) (st e C)) = st e (A ++ B ++ C).
Proof. exact merge_split3. Qed.

(* commutative and associative, on all well-shaped states (not only reachable ones) *)
Theorem C05_merge_comm : forall e x y, shaped e x = true -> shaped e y = true ->
  Expr.merge e x y = Expr.merge e y x.
Proof. exact merge_comm. Qed.
Theorem C05_merge_assoc : forall e x y z, shaped e x = true -> shaped e y = true -> shaped e z = true ->
  Expr.merge e (Expr.merge e x y) z = Expr.merge e x (Expr.merge e y z).
Proof. exact merge_assoc. Qed.
Theorem C05_merge_unit : forall e x, shaped e x = true ->
  Expr.merge e x (empty e) = x /\ Expr.merge e (empty e) x = x.
Proof. exact (fun e x H => conj (merge_empty_r e x H) (merge_empty_l e x H)). Qed.

(* arrival order of the points is irrelevant *)
Theorem C05_order_irrelevant : forall e A A', Permutation A A' -> st e A = st e A'.
Proof. exact order_irrelevant. Qed.

(* the value read from the accumulated state is the declared aggregate over exactly the points *)
Theorem C05_get_is_declared_aggregate : forall e pts, get e (st e pts) = ref e pts.
Proof. exact get_ref. Qed.

(* restricting a stored series to a time range keeps exactly the periods in (asOf, until], values unchanged *)
Theorem C05_truncate : forall (cell:Type) (s:seq cell) res asOf until t, 0 < res ->
  (asOf = 0 \/ res <= asOf) -> (until = 0 \/ res <= until) -> (forall u cs, s = Some (u, cs) -> res <= u) ->
  den cell res (truncate cell s res asOf until) t =
  if ((asOf =? 0) || (asOf <? t)) && ((until =? 0) || (t <=? until)) then den cell res s t else None.
Proof. exact truncate_den. Qed.

(* the kernels the theorems above are about are the ones in /repo's expr/aggregates.go now *)
Theorem C05_kernels_are_the_source : kernels_tied.
Proof. exact kernels_tied_holds. Qed.

(* non-vacuity: a concrete tree with every node kind, three batches, non-trivial state *)
Example C05_nonvacuous :
  let e := EBin DIV (EIf 0 (EAgg SUM (EBounded (EField 1) 0 10))) (EBin ADD (EAvg (EField 1) (EField 2)) (EAgg MIN (EField 2))) in
  let p a b c := {| p_vals := [(1, a); (2, b)]; p_md := [c] |} in
  let A := [p 3 2 true; p 20 1 true] in let B := [p 5 4 false] in let C := [p 7 (-1) true] in
  valid e = true /\
  st e (A ++ B ++ C) = CBin (CAgg (Some 10)) (CBin (CAvg (Some (6, 39))) (CAgg (Some (-1)))) /\
  Expr.merge e (st e A) (Expr.merge e (st e B) (st e C)) = st e (A ++ B ++ C).
Proof. vm_compute. auto. Qed.

Print Assumptions C05_merge_hom.
Print Assumptions C05_split3.
Print Assumptions C05_merge_comm.
Print Assumptions C05_merge_assoc.
Print Assumptions C05_merge_unit.
Print Assumptions C05_order_irrelevant.
Print Assumptions C05_get_is_declared_aggregate.
Print Assumptions C05_truncate.
Print Assumptions C05_kernels_are_the_source.
