(* C15 — altering a table keeps the stored values of every field it retains. *)
From Coq Require Import QArith Lia.
From Zeno Require Import Base Sort Expr ExprSpec Store StoreExprP DB Alter AlterP.
Local Open Scope Z_scope.

(* a field that keeps its name and expression keeps aggregating from the same point on: its values are
   untouched by the alteration (permutations, insertions, deletions of other fields) *)
Theorem C15_retained_field_keeps_history : forall old now new n e f,
  In (n, e) new -> find (same_field n e) old = Some f ->
  In {| af_name := n; af_expr := e; af_since := af_since f |} (alter_fields old now new).
Proof. exact alter_keeps_since. Qed.

(* an added field starts empty and is filled only by points processed afterwards *)
Theorem C15_added_field_starts_empty : forall old now new n e,
  In (n, e) new -> find (same_field n e) old = None ->
  In {| af_name := n; af_expr := e; af_since := now |} (alter_fields old now new).
Proof. exact alter_new_since. Qed.
Theorem C15_field_sees_points_since_added : forall n acc p,
  In p (pts_since n acc) <-> exists i, (n <= i)%nat /\ In (i, p) acc.
Proof. exact pts_since_spec. Qed.

(* the new definition has exactly the new fields in the new order *)
Theorem C15_new_definition : forall old now new, map (fun f => (af_name f, af_expr f)) (alter_fields old now new) = new.
Proof. exact alter_fields_names. Qed.

(* a new WHERE applies only to points processed after the change; accepted points are never lost *)
Theorem C15_where_from_then_on : forall s fs w p,
  a_acc (astep (astep s (AAlter fs w)) (AIns p)) = if flag w p then a_acc s ++ [p] else a_acc s.
Proof. exact where_from_then_on. Qed.
Theorem C15_accepted_points_kept : forall s o, exists l, a_acc (astep s o) = a_acc s ++ l.
Proof. exact astep_acc_extends. Qed.

(* in memory or on disk, across any later flushes: each retained column is stored by the row store exactly as
   if it were alone (the store refinement is per column) *)
Theorem C15_column_across_flushes : forall e res H evs tbq k t,
  0 < res -> Forall (ev_ok res H) evs -> 0 <= tbq -> tbq + res <= H -> H <= t -> 0 < t ->
  read e res tbq evs k t = st e (points_of res k t evs).
Proof. exact store_reads_accumulated_state. Qed.

Example C15_nonvacuous :
  let f1 := (1, EAgg SUM (EField 1)) in let f2 := (2, EAgg MAX (EField 1)) in let f3 := (3, EAgg COUNT (EField 1)) in
  let p ts v := {| tp_ts := ts; tp_dims := []; tp_pt := {| p_vals := [(9, 1); (1, v)]; p_md := [] |}; tp_flags := [true; Z.ltb v 10] |} in
  let ops := [AIns (p 3 5); AFlush; AAlter [f3; f1] (Some 1%nat); AIns (p 3 7); AIns (p 4 50); AReopen; AAlter [f2; f1; f3] (Some 1%nat); AIns (p 3 2)] in
  map o_vals (alter_rows None 2 (arun [f1; f2] None ops)) = [[3%Q; 2%Q; 14%Q; 2%Q]].
Proof. vm_compute. reflexivity. Qed.

Print Assumptions C15_retained_field_keeps_history.
Print Assumptions C15_added_field_starts_empty.
Print Assumptions C15_field_sees_points_since_added.
Print Assumptions C15_new_definition.
Print Assumptions C15_where_from_then_on.
Print Assumptions C15_accepted_points_kept.
Print Assumptions C15_column_across_flushes.
