(* C08 — WHERE, HAVING and IN-subquery filters keep exactly the matching rows. *)
From Coq Require Import QArith.
From Coq Require Import List.
From Zeno Require Import Base Sort Expr ExprSpec DB DBP Filter FilterP.
Local Open Scope Z_scope.

(* a query with WHERE returns what the same query returns when only the matching points had been inserted *)
Theorem C08_where : forall T q pts,
  spec_rows T q pts = spec_rows T (without_where q) (filter (flag (q_where q)) pts).
Proof. exact spec_rows_where. Qed.

Theorem C08_where_groups : forall T q pts,
  groups T q pts = groups T (without_where q) (filter (flag (q_where q)) pts).
Proof. exact groups_where. Qed.

(* HAVING: the specification the real database is compared with (rows of the HAVING-free query filtered on the output
   value) keeps exactly the rows that satisfy the predicate, in the order of the HAVING-free result, and complementary
   predicates split the result without loss or overlap *)
Theorem C08_having_exact : forall idx c bound rows r,
  In r (having_spec idx c bound rows) <-> In r rows /\ hsat c (nth idx (o_vals r) 0%Q) bound = true.
Proof. exact having_exact. Qed.
Theorem C08_having_is_a_subsequence : forall idx c bound rows,
  exists keep, having_spec idx c bound rows = map snd (filter fst (combine keep rows)) /\ length keep = length rows.
Proof. exact having_subsequence. Qed.
Theorem C08_having_idempotent : forall idx c bound rows,
  having_spec idx c bound (having_spec idx c bound rows) = having_spec idx c bound rows.
Proof. exact having_idempotent. Qed.
Theorem C08_having_partition : forall idx bound rows,
  (length (having_spec idx HGt bound rows) + length (having_spec idx HLe bound rows) = length rows)%nat.
Proof. exact having_partition. Qed.

Example C08_nonvacuous :
  let T := {| t_fields := [(0, EAgg SUM (EField 9))]; t_groupby := None; t_res := 2; t_ret := 100; t_where := None |} in
  let q := {| q_fields := None; q_groupby := None; q_period := 0; q_asof := 0; q_until := 0; q_where := Some 0%nat; q_now := 20; q_vis := None; q_limit := None |} in
  let p ts w := {| tp_ts := ts; tp_dims := [(11, VBool w)]; tp_pt := {| p_vals := [(9, 1)]; p_md := [] |}; tp_flags := [w] |} in
  map o_ts (spec_rows T q [p 3 true; p 6 false; p 7 true]) = [4; 8].
Proof. vm_compute. reflexivity. Qed.

Print Assumptions C08_where.
Print Assumptions C08_where_groups.
Print Assumptions C08_having_exact.
Print Assumptions C08_having_is_a_subsequence.
Print Assumptions C08_having_idempotent.
Print Assumptions C08_having_partition.
