(* C04 — queries are read-only: running any query never changes stored data. *)
From Coq Require Import QArith Lia.
From Zeno Require Import Base Sort Expr ExprSpec ExprP Seq SeqP Store StoreExprP DB.
Local Open Scope Z_scope.

(* in the row-store model a reader is a function of the state: what any probe finds after an arbitrary
   sequence of reads (with any bounds) is what it finds before them, before and after the next flush *)
Theorem C04_reads_do_not_change_state : forall e res evs (reads:list (Z * key * Z)) tbq k t,
  let st := store_of e res evs in
  let st' := fold_left (fun s r => let _ := content key key_eqb (scell e) (sc_empty e) (sc_merge e) res (fst (fst r)) s (snd (fst r)) (snd r) in s) reads st in
  content key key_eqb (scell e) (sc_empty e) (sc_merge e) res tbq st' k t
  = content key key_eqb (scell e) (sc_empty e) (sc_merge e) res tbq st k t.
Proof.
  intros e res evs reads tbq k t st st'. unfold st'.
  assert (E : forall s, fold_left (fun s r => let _ := content key key_eqb (scell e) (sc_empty e) (sc_merge e) res (fst (fst r)) s (snd (fst r)) (snd r) in s) reads s = s).
  { induction reads as [|r rs IH]; intros s; [reflexivity|apply IH]. }
  rewrite E. reflexivity.
Qed.

(* restricting a series to a query's time range yields exactly the periods inside it with unchanged values;
   the original series is an argument, not a result: at value level it cannot change *)
Theorem C04_truncate_values : forall (cell:Type) (s:seq cell) res asOf until t, 0 < res ->
  (asOf = 0 \/ res <= asOf) -> (until = 0 \/ res <= until) -> (forall u cs, s = Some (u, cs) -> res <= u) ->
  den cell res (truncate cell s res asOf until) t =
  if ((asOf =? 0) || (asOf <? t)) && ((until =? 0) || (t <=? until)) then den cell res s t else None.
Proof. exact truncate_den. Qed.

(* a probe after any flush placement reads the same (from the store refinement) *)
Theorem C04_probe_same_after_flush : forall e res H evs tb raw tbq k t,
  0 < res -> Forall (ev_ok res H) evs -> ev_ok res H (EFlush tb raw) -> 0 <= tbq -> tbq + res <= H -> H <= t -> 0 < t ->
  read e res tbq (evs ++ [EFlush tb raw]) k t = read e res tbq evs k t.
Proof.
  intros e res H evs tb raw tbq k t Hr Hok Hf Hq HqH Ht H0.
  rewrite (store_reads_accumulated_state e res H (evs ++ [EFlush tb raw]) tbq k t), (store_reads_accumulated_state e res H evs tbq k t); auto.
  - f_equal. clear Hok. induction evs as [|x r IH]; [reflexivity|].
    destruct x as [k' ts tb' p|tb' raw']; cbn [app points_of]; [|exact IH].
    destruct (key_eqb k k' && (round_up ts res =? t)); rewrite IH; reflexivity.
  - apply Forall_app. split; [exact Hok|constructor; [exact Hf|constructor]].
Qed.

Print Assumptions C04_reads_do_not_change_state.
Print Assumptions C04_truncate_values.
Print Assumptions C04_probe_same_after_flush.
