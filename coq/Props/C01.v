(* C01 — each ingested point is aggregated exactly once into the right group and period. *)
From Coq Require Import QArith Lia.
From Zeno Require Import Base Sort Expr ExprSpec ExprP DB DBP Tie Store StoreExprP.
From Zeno Require Tree TreeP.
From Zeno Require TieTree.
From Zeno Require TreeStoreP.
Local Open Scope Z_scope.

(* a point with timestamp ts is counted in the period ending at the least multiple of the resolution >= ts, and in no other *)
Theorem C01_bucket : forall res ts, 0 < res ->
  let b := bucket res ts in
  ts <= b < ts + res /\ (exists k, b = k * res) /\
  (forall b', (exists k', b' = k' * res) -> ts <= b' -> b <= b').
Proof. exact bucket_spec. Qed.
Theorem C01_bucket_unique : forall res ts b, 0 < res -> (exists k, b = k * res) -> ts <= b < ts + res -> b = bucket res ts.
Proof. exact bucket_unique. Qed.

(* exactly one row per (group key, period) *)
Theorem C01_one_row_per_group_period : forall T q pts, NoDup (map fst (groups T q pts)).
Proof. exact groups_distinct. Qed.

(* the points aggregated into row (k,t) are exactly the accepted points with that key and period, each once, in order *)
Theorem C01_row_points_exact : forall T q pts k t,
  glookup k t (groups T q pts) = map tp_pt (filter (contributes_to T q k t) pts).
Proof. exact groups_lookup. Qed.

(* every field of the row equals its declared aggregate over exactly those points *)
Theorem C01_field_is_declared_aggregate : forall e pts, get e (st e pts) = ref e pts.
Proof. exact get_ref. Qed.

(* the row store (memstore + filestore, inserts, flushes with merge/truncation/raw pass-through) refines that
   reference for EVERY interleaving of inserts and flushes: above the truncation horizon H, what a
   memstore-inclusive reader finds for key k and period t is the state accumulated from exactly the
   inserted points of key k whose period ends at t, and it reads as their declared aggregate *)
Theorem C01_store_state : forall e res H evs tbq k t,
  0 < res -> Forall (ev_ok res H) evs -> 0 <= tbq -> tbq + res <= H -> H <= t -> 0 < t ->
  read e res tbq evs k t = st e (points_of res k t evs).
Proof. exact store_reads_accumulated_state. Qed.
Theorem C01_store_value : forall e res H evs tbq k t,
  0 < res -> Forall (ev_ok res H) evs -> 0 <= tbq -> tbq + res <= H -> H <= t -> 0 < t ->
  get e (read e res tbq evs k t) = ref e (points_of res k t evs).
Proof. exact store_reads_declared_aggregate. Qed.

(* the kernels are those of /repo's expr/aggregates.go on this run *)
Theorem C01_kernels_are_the_source : kernels_tied.
Proof. exact kernels_tied_holds. Qed.

Example C01_nonvacuous :
  let T := {| t_fields := [(0, EAgg SUM (EField 9)); (1, EAgg MAX (EField 1))]; t_groupby := Some [11];
              t_res := 2; t_ret := 100; t_where := Some 0%nat |} in
  let q := {| q_fields := None; q_groupby := None; q_period := 0; q_asof := 0; q_until := 0; q_where := None; q_now := 20; q_vis := None; q_limit := None |} in
  let p ts d v w := {| tp_ts := ts; tp_dims := [(11, VStr [d]); (12, VInt 5)];
                       tp_pt := {| p_vals := [(9, 1); (1, v)]; p_md := [] |}; tp_flags := [w] |} in
  map (fun r => (o_ts r, o_vals r)) (spec_rows T q [p 3 97 5 true; p 4 97 9 true; p 4 98 1 true; p 5 97 2 false; p 5 97 7 true])
  = [(4, [2%Q; 9%Q]); (4, [1%Q; 1%Q]); (6, [1%Q; 7%Q])].
Proof. vm_compute. reflexivity. Qed.

Example C01_store_nonvacuous :
  let e := EAgg SUM (EField 1) in
  let p v := {| p_vals := [(1, v)]; p_md := [] |} in
  let k := [(11, VStr [97])] in
  let evs := [EIns k 13 2 (p 5); EFlush 2 true; EIns k 14 2 (p 7); EIns k 11 4 (p 1); EFlush 4 false; EIns k 13 4 (p 100)] in
  Forall (ev_ok 2 6) evs /\ read e 2 4 evs k 14 = CAgg (Some 112) /\ read e 2 4 evs k 12 = CAgg (Some 1).
Proof. split; [repeat constructor; cbn; lia|]. vm_compute. auto. Qed.

(* the memstore's radix tree (bytetree.Tree, Model/Tree.v) is a finite map whatever the keys: after any sequence of
   Updates from the empty tree every key reads as what its own Updates accumulated, in order (nil to start with),
   a key that was never updated is absent, and Length is the number of keys; a Walk reports every key once *)
Theorem C01_tree_is_a_map : forall (D:Type) (ups:list (list Z * (option D -> D))) key,
  Tree.tfind key (TreeP.built ups) = TreeP.spec_data key ups None.
Proof. exact TreeP.built_find. Qed.
Theorem C01_tree_update : forall (D:Type) (f:option D -> D) key (t:Tree.tree D), TreeP.wf_tree t ->
  TreeP.wf_tree (Tree.tupdate f key t)
  /\ (forall key', Tree.tfind key' (Tree.tupdate f key t)
                   = if list_eqb Z.eqb key' key then Some (f (Tree.tfind key t)) else Tree.tfind key' t).
Proof. exact TreeP.tupdate_map. Qed.
Theorem C01_tree_walk_each_key_once : forall (D:Type) ctx keep (t:Tree.tree D), TreeP.wf_tree t -> TreeP.unmarked ctx t ->
  let vs := snd (Tree.twalk ctx (fun _ _ => (true, keep)) t) in
  Permutation.Permutation vs (map (@TreeP.kd_of D) (TreeP.content t)) /\ NoDup (map fst vs)
  /\ (forall k d, In (k, d) vs <-> Tree.tfind k t = Some d).
Proof. exact TreeP.twalk_all. Qed.
(* the tree as shipped is refuted (repaired in /repo, e89d368): "abc", "abd", then "ab" reported the empty key *)
Theorem C01_shipped_tree_refuted :
  exists ups, let t := TreeP.shipped_built ups in
    In [97; 98] (map fst ups) /\ ~ In [] (map fst ups)
    /\ snd (Tree.twalk 0 (fun _ _ => (true, true)) t) = [([], 2); ([97; 98; 99], 1); ([97; 98; 100], 1)]
    /\ Tree.t_len t = 2.
Proof. exact TreeP.shipped_update_refuted. Qed.

(* the structure of bytetree.go the tree theorems speak about (branch chains of the edge loops of Tree.doUpdate and
   Tree.Remove, who takes the key, Walk's queue) is the one the translator reads from /repo on this run *)
Theorem C01_tree_source_as_modelled : TieTree.tree_source_as_modelled.
Proof. exact TieTree.tree_source_as_modelled_holds. Qed.

(* the memstore of the row-store model (Model/Store.v, an association list, over which C01_store_state / C01_store_value and
   the C03 theorems are proved) is refined by the radix tree: for every sequence of inserts the tree built by Tree.Update
   is well formed and reads, key by key, as the association list built by upsert *)
Theorem C01_memstore_is_the_radix_tree : forall (cell:Type) (ins:list (list Z * (Seq.seq cell -> Seq.seq cell))),
  let t := fold_left (fun t u => Tree.tupdate (TreeStoreP.lift cell (snd u)) (fst u) t) ins Tree.tnew in
  let m := fold_left (fun m u => Store.upsert (list Z) TreeStoreP.kqb cell (fst u) (snd u) m) ins [] in
  TreeP.wf_tree t /\ TreeStoreP.refines cell t m.
Proof. exact TreeStoreP.memstore_refines. Qed.

(* non-vacuity of the tree theorems: a tree built from keys that are prefixes of each other, the empty key included,
   is well formed (as every built tree is), and reads and walks as the theorems say *)
Example C01_tree_nonvacuous :
  let add v := fun o : option Z => match o with Some c => c + v | None => v end in
  let ups := [([97; 98; 99], add 1); ([97; 98; 100], add 2); ([97; 98], add 4); ([], add 8); ([98], add 16); ([97; 98], add 32)] in
  let t := TreeP.built ups in
  TreeP.wf_tree t
  /\ Tree.tfind [97; 98] t = Some 36 /\ Tree.tfind [] t = Some 8 /\ Tree.tfind [97] t = None
  /\ Tree.t_len t = 5
  /\ snd (Tree.twalk 0 (fun _ _ => (true, true)) t) = [([97; 98], 36); ([], 8); ([97; 98; 99], 1); ([97; 98; 100], 2); ([98], 16)].
Proof. split; [apply TreeP.built_wf|]. vm_compute. repeat split; reflexivity. Qed.

Print Assumptions C01_bucket.
Print Assumptions C01_bucket_unique.
Print Assumptions C01_one_row_per_group_period.
Print Assumptions C01_row_points_exact.
Print Assumptions C01_field_is_declared_aggregate.
Print Assumptions C01_kernels_are_the_source.
Print Assumptions C01_store_state.
Print Assumptions C01_store_value.
Print Assumptions C01_tree_is_a_map.
Print Assumptions C01_tree_update.
Print Assumptions C01_tree_walk_each_key_once.
Print Assumptions C01_shipped_tree_refuted.
Print Assumptions C01_tree_source_as_modelled.
Print Assumptions C01_memstore_is_the_radix_tree.
