(* C10 — a partitioned cluster answers every query like a standalone database. *)
From Coq Require Import QArith Lia Sorting.Permutation.
From Zeno Require Import Base Sort Expr ExprSpec ExprP DB DBP Cluster ClusterP.
Local Open Scope Z_scope.

(* every accepted point is applied by exactly one partition, whatever the partition keys, the number of
   partitions and the hash function *)
Theorem C10_exactly_one_partition : forall (hash:key -> Z) keys P dims, 0 < P ->
  exists! p, 0 <= p < P /\ leader_offers hash keys P dims p = true.
Proof. exact exactly_one_partition. Qed.
Theorem C10_leader_follower_agree : forall (hash:key -> Z) keys P dims p,
  leader_offers hash keys P dims p = follower_accepts hash keys P dims p.
Proof. exact leader_follower_agree. Qed.
Theorem C10_routing_by_key_values : forall (hash:key -> Z) keys P d1 d2,
  part_input keys d1 = part_input keys d2 -> partition_for hash keys P d1 = partition_for hash keys P d2.
Proof. exact same_key_values_same_partition. Qed.

(* the union of what the partitions hold is everything: re-merging the partitions' partial states gives the state,
   and hence the value, of all points — for every split *)
Theorem C10_union_is_all : forall e parts all, Permutation all (concat parts) -> remerge e parts = st e all.
Proof. exact remerge_sound. Qed.
Theorem C10_cluster_value_equals_standalone : forall e parts all, Permutation all (concat parts) ->
  get e (remerge e parts) = ref e all.
Proof. exact remerge_value. Qed.

(* when output groups are confined to partitions, the partition that holds a group holds all of it, the others
   none of it: the union of the partitions' rows is the standalone result *)
Theorem C10_pushdown_union : forall T q route pts k t p, confined T q route pts ->
  glookup k t (groups T q (routed_to route p pts)) = glookup k t (groups T q pts)
  \/ glookup k t (groups T q (routed_to route p pts)) = [].
Proof. exact pushdown_sound. Qed.
Theorem C10_pushdown_nothing_lost : forall T q route pts k t x, confined T q route pts ->
  In x pts -> contributes_to T q k t x = true ->
  glookup k t (groups T q (routed_to route (route x) pts)) = glookup k t (groups T q pts).
Proof. exact pushdown_complete. Qed.

Print Assumptions C10_exactly_one_partition.
Print Assumptions C10_leader_follower_agree.
Print Assumptions C10_routing_by_key_values.
Print Assumptions C10_union_is_all.
Print Assumptions C10_cluster_value_equals_standalone.
Print Assumptions C10_pushdown_union.
Print Assumptions C10_pushdown_nothing_lost.
