(* CoalesceP.v — every iteration served by a shared scan receives exactly what it receives alone (C17) *)
From Coq Require Import Lia.
From Zeno Require Import Base Coalesce.

Section P.
Variable V : Type.

Lemma deliver_not_running : forall (it:iter) (s:istate V) r, is_status V s <> Running -> deliver V it s r = s.
Proof. intros it s r H. unfold deliver. destruct (is_status V s); congruence. Qed.

Lemma fold_deliver_not_running : forall (it:iter) rows (s:istate V), is_status V s <> Running ->
  fold_left (deliver V it) rows s = s.
Proof.
  intros it. induction rows as [|r rows IH]; intros s H; cbn [fold_left]; auto.
  rewrite deliver_not_running by exact H. apply IH. exact H.
Qed.

Lemma any_running_false : forall (ss:list (istate V)), any_running V ss = false ->
  forall s, In s ss -> is_status V s <> Running.
Proof.
  intros ss H s Hin. unfold any_running in H.
  assert (existsb (fun s0 => match is_status V s0 with Running => true | _ => false end) ss = false) as H' by exact H.
  rewrite <- Bool.not_true_iff_false in H'. intros E. apply H'. apply existsb_exists. exists s. split; auto. rewrite E. reflexivity.
Qed.

(* invariant: position-wise, the shared scan's state for iteration i is the solo fold over the rows so far *)
Lemma coscan_pointwise : forall (its:list iter) rows (ss:list (istate V)), length ss = length its ->
  forall i it s, nth_error its i = Some it -> nth_error ss i = Some s ->
  nth_error (coscan V its ss rows) i = Some (fold_left (deliver V it) rows s).
Proof.
  intros its. induction rows as [|r rows IH]; intros ss Hlen i it s Hit Hs; cbn [coscan fold_left]; auto.
  destruct (any_running V ss) eqn:E.
  - apply IH.
    + unfold costep. rewrite map_length, combine_length. lia.
    + exact Hit.
    + unfold costep. rewrite nth_error_map.
      assert (nth_error (combine its ss) i = Some (it, s)) as ->.
      { clear - Hit Hs. revert ss i Hit Hs. induction its as [|a its IH]; intros ss i Hit Hs; destruct i; destruct ss; cbn in *; try discriminate.
        - inversion Hit; inversion Hs; subst; reflexivity.
        - apply IH; assumption. }
      reflexivity.
  - rewrite Hs. f_equal. symmetry.
    assert (is_status V s <> Running) as Hn by (apply (any_running_false ss E); eapply nth_error_In; eauto).
    rewrite deliver_not_running by exact Hn. apply fold_deliver_not_running. exact Hn.
Qed.

Theorem coalesced_is_solo : forall (its:list iter) rows i it, nth_error its i = Some it ->
  nth_error (coalesced V its rows) i = Some (solo V it rows).
Proof.
  intros its rows i it Hit. unfold coalesced, solo.
  apply coscan_pointwise; [rewrite map_length; reflexivity|exact Hit|].
  rewrite nth_error_map, Hit. reflexivity.
Qed.
End P.
