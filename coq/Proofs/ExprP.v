(* ExprP.v — the algebraic core (C05, C01): partial aggregation states form a
   commutative monoid under Merge, accumulation is a monoid homomorphism from
   lists of points, and Get of the accumulated state is the declared aggregate. *)
From Coq Require Import Lia QArith Sorting.Permutation.
From Zeno Require Import Base Expr ExprSpec.

Local Open Scope Z_scope.

(* ---------- shapes ---------- *)
Lemma shaped_empty : forall e, shaped e (empty e) = true.
Proof. induction e as [n|k|e IHe lo hi|a w IHw|v IHv w IHw|o l IHl r IHr|cid e IHe|e IHe off|f e IHe]; simpl; auto. rewrite IHl, IHr. reflexivity. Qed.

Lemma shaped_update : forall e c p md, shaped e c = true -> shaped e (update e c p md) = true.
Proof.
  induction e as [n|k|e IHe lo hi|a w IHw|v IHv w IHw|o l IHl r IHr|cid e IHe|e IHe off|f e IHe]; intros c p md H; simpl in *; auto.
  - destruct c; try discriminate. destruct (pval w p) as [v u]. destruct u; reflexivity.
  - destruct c; try discriminate. destruct (pval v p) as [vv u]. destruct (pval w p) as [wv u2].
    destruct s as [[cnt tot]|]; destruct u; reflexivity.
  - destruct c; try discriminate. apply andb_prop in H. destruct H as [H1 H2].
    simpl. rewrite IHl, IHr; auto.
  - destruct (nth cid md false); auto.
Qed.

Lemma shaped_merge : forall e x y, shaped e x = true -> shaped e y = true -> shaped e (merge e x y) = true.
Proof.
  induction e as [n|k|e IHe lo hi|a w IHw|v IHv w IHw|o l IHl r IHr|cid e IHe|e IHe off|f e IHe]; intros x y Hx Hy; simpl in *; auto.
  - destruct x, y; try discriminate. reflexivity.
  - destruct x, y; try discriminate. reflexivity.
  - destruct x, y; try discriminate. apply andb_prop in Hx. apply andb_prop in Hy.
    destruct Hx, Hy. simpl. rewrite IHl, IHr; auto.
Qed.

(* ---------- kernel laws ---------- *)
Lemma agg_merge_comm : forall a x y, agg_merge a true x y = agg_merge a true y x.
Proof. intros [] x y; simpl; try lia; destruct (Z.ltb_spec y x); destruct (Z.ltb_spec x y); lia. Qed.
Lemma agg_merge_assoc : forall a x y z,
  agg_merge a true (agg_merge a true x y) z = agg_merge a true x (agg_merge a true y z).
Proof.
  intros [] x y z; simpl; try lia.
  - destruct (Z.ltb_spec y x); destruct (Z.ltb_spec z y); destruct (Z.ltb_spec z x);
      try destruct (Z.ltb_spec y x); try destruct (Z.ltb_spec z x); lia.
  - destruct (Z.ltb_spec x y); destruct (Z.ltb_spec y z); destruct (Z.ltb_spec x z);
      try destruct (Z.ltb_spec x y); try destruct (Z.ltb_spec x z); lia.
Qed.
(* merging in a state that absorbed one more value = absorbing the value after the merge *)
Lemma agg_merge_update : forall a x y v,
  agg_merge a true x (agg_update a true y v) = agg_update a true (agg_merge a true x y) v.
Proof.
  intros [] x y v; simpl; try lia.
  - destruct (Z.ltb_spec v y); destruct (Z.ltb_spec y x); destruct (Z.ltb_spec v x);
      try destruct (Z.ltb_spec v y); try destruct (Z.ltb_spec v x); lia.
  - destruct (Z.ltb_spec y v); destruct (Z.ltb_spec x y); destruct (Z.ltb_spec x v);
      try destruct (Z.ltb_spec y v); try destruct (Z.ltb_spec x v); lia.
Qed.
Lemma agg_merge_update0 : forall a x v,
  agg_merge a true x (agg_update a false 0 v) = agg_update a true x v.
Proof. intros [] x v; simpl; try lia; reflexivity. Qed.
Lemma agg_update_comm : forall a s x v1 v2,
  agg_update a true (agg_update a s x v1) v2 = agg_update a true (agg_update a s x v2) v1.
Proof.
  intros [] s x v1 v2; simpl; try lia; destruct s; simpl.
  - destruct (Z.ltb_spec v1 x); destruct (Z.ltb_spec v2 x);
      try destruct (Z.ltb_spec v2 v1); try destruct (Z.ltb_spec v1 v2);
      try destruct (Z.ltb_spec v2 x); try destruct (Z.ltb_spec v1 x); lia.
  - destruct (Z.ltb_spec v2 v1); destruct (Z.ltb_spec v1 v2); lia.
  - destruct (Z.ltb_spec x v1); destruct (Z.ltb_spec x v2);
      try destruct (Z.ltb_spec v1 v2); try destruct (Z.ltb_spec v2 v1);
      try destruct (Z.ltb_spec x v2); try destruct (Z.ltb_spec x v1); lia.
  - destruct (Z.ltb_spec v1 v2); destruct (Z.ltb_spec v2 v1); lia.
Qed.

(* ---------- Merge is a commutative monoid on well-shaped cells ---------- *)
Lemma merge_empty_r : forall e x, shaped e x = true -> merge e x (empty e) = x.
Proof.
  induction e as [n|k|e IHe lo hi|a w IHw|v IHv w IHw|o l IHl r IHr|cid e IHe|e IHe off|f e IHe]; intros x H; simpl in *; auto; try (destruct x; try discriminate; reflexivity).
  - destruct x; try discriminate. destruct s; reflexivity.
  - destruct x; try discriminate. destruct s as [[? ?]|]; reflexivity.
  - destruct x; try discriminate. apply andb_prop in H. destruct H. rewrite IHl, IHr; auto.
Qed.
Lemma merge_empty_l : forall e y, shaped e y = true -> merge e (empty e) y = y.
Proof.
  induction e as [n|k|e IHe lo hi|a w IHw|v IHv w IHw|o l IHl r IHr|cid e IHe|e IHe off|f e IHe]; intros y H; simpl in *; auto; try (destruct y; try discriminate; reflexivity).
  - destruct y; try discriminate. apply andb_prop in H. destruct H. rewrite IHl, IHr; auto.
Qed.

Lemma merge_comm : forall e x y, shaped e x = true -> shaped e y = true -> merge e x y = merge e y x.
Proof.
  induction e as [n|k|e IHe lo hi|a w IHw|v IHv w IHw|o l IHl r IHr|cid e IHe|e IHe off|f e IHe]; intros x y Hx Hy; simpl in *; auto.
  - destruct x, y; try discriminate. destruct s, s0; auto. rewrite agg_merge_comm. reflexivity.
  - destruct x, y; try discriminate. destruct s as [[? ?]|], s0 as [[? ?]|]; auto. do 2 f_equal. f_equal; lia.
  - destruct x, y; try discriminate. apply andb_prop in Hx. apply andb_prop in Hy. destruct Hx, Hy.
    rewrite (IHl x1 y1), (IHr x2 y2); auto.
Qed.

Lemma merge_assoc : forall e x y z, shaped e x = true -> shaped e y = true -> shaped e z = true ->
  merge e (merge e x y) z = merge e x (merge e y z).
Proof.
  induction e as [n|k|e IHe lo hi|a w IHw|v IHv w IHw|o l IHl r IHr|cid e IHe|e IHe off|f e IHe]; intros x y z Hx Hy Hz; simpl in *; auto.
  - destruct x, y, z; try discriminate. destruct s, s0, s1; auto. rewrite agg_merge_assoc. reflexivity.
  - destruct x, y, z; try discriminate.
    destruct s as [[? ?]|], s0 as [[? ?]|], s1 as [[? ?]|]; auto. do 2 f_equal. f_equal; lia.
  - destruct x, y, z; try discriminate.
    apply andb_prop in Hx. apply andb_prop in Hy. apply andb_prop in Hz. destruct Hx, Hy, Hz.
    rewrite IHl, IHr; auto.
Qed.

(* ---------- the homomorphism ---------- *)
Lemma merge_update : forall e x y p md, shaped e x = true -> shaped e y = true ->
  merge e x (update e y p md) = update e (merge e x y) p md.
Proof.
  induction e as [n|k|e IHe lo hi|a w IHw|v IHv w IHw|o l IHl r IHr|cid e IHe|e IHe off|f e IHe]; intros x y p md Hx Hy; simpl in *; auto.
  - (* EAgg *)
    destruct x, y; try discriminate. destruct (pval w p) as [v u]. destruct u; [|reflexivity].
    destruct s as [vx|], s0 as [vy|]; simpl; try reflexivity.
    + rewrite agg_merge_update. reflexivity.
    + rewrite agg_merge_update0. reflexivity.
  - (* EAvg *)
    destruct x, y; try discriminate. destruct (pval v p) as [vv u]. destruct (pval w p) as [wv u2].
    destruct s as [[cx tx]|], s0 as [[cy ty]|]; destruct u; simpl; try reflexivity; do 2 f_equal; f_equal; lia.
  - (* EBin *)
    destruct x, y; try discriminate. apply andb_prop in Hx. apply andb_prop in Hy. destruct Hx, Hy.
    simpl. rewrite IHl, IHr; auto.
  - (* EIf *)
    destruct (nth cid md false); auto.
Qed.

Definition run (e:expr) (pts:list point) (c:cell) : cell :=
  fold_left (fun c p => update e c (p_vals p) (p_md p)) pts c.

Lemma shaped_run : forall e pts c, shaped e c = true -> shaped e (run e pts c) = true.
Proof.
  intros e. induction pts as [|p pts IH]; intros c H; simpl; auto.
  apply IH. apply shaped_update. exact H.
Qed.
Lemma shaped_st : forall e pts, shaped e (st e pts) = true.
Proof. intros. apply shaped_run. apply shaped_empty. Qed.

Lemma merge_run : forall e pts x y, shaped e x = true -> shaped e y = true ->
  merge e x (run e pts y) = run e pts (merge e x y).
Proof.
  intros e. induction pts as [|p pts IH]; intros x y Hx Hy; simpl; auto.
  rewrite IH; auto using shaped_update. rewrite merge_update; auto.
Qed.

Theorem merge_hom : forall e A B, merge e (st e A) (st e B) = st e (A ++ B).
Proof.
  intros e A B. unfold st at 2. fold (run e B (empty e)).
  rewrite merge_run; auto using shaped_st, shaped_empty.
  rewrite merge_empty_r by apply shaped_st.
  unfold st, run. rewrite fold_left_app. reflexivity.
Qed.

Theorem merge_split3 : forall e A B C,
  merge e (st e A) (merge e (st e B) (st e C)) = st e (A ++ B ++ C).
Proof. intros. rewrite !merge_hom. reflexivity. Qed.

(* ---------- order of points is irrelevant ---------- *)
Lemma update_comm : forall e c p1 m1 p2 m2, shaped e c = true ->
  update e (update e c p1 m1) p2 m2 = update e (update e c p2 m2) p1 m1.
Proof.
  induction e as [n|k|e IHe lo hi|a w IHw|v IHv w IHw|o l IHl r IHr|cid e IHe|e IHe off|f e IHe]; intros c p1 m1 p2 m2 H; simpl in *; auto.
  - destruct c; try discriminate.
    destruct (pval w p1) as [v1 u1] eqn:E1; destruct (pval w p2) as [v2 u2] eqn:E2.
    destruct u1, u2; simpl; try reflexivity.
    + destruct s as [x|]; simpl.
      * rewrite (agg_update_comm a true x v1 v2). reflexivity.
      * rewrite (agg_update_comm a false 0 v1 v2). reflexivity.
  - destruct c; try discriminate.
    destruct (pval v p1) as [v1 u1] eqn:E1; destruct (pval w p1) as [w1 x1] eqn:E2;
    destruct (pval v p2) as [v2 u2] eqn:E3; destruct (pval w p2) as [w2 x2] eqn:E4.
    destruct s as [[cnt tot]|]; destruct u1, u2; simpl; try reflexivity; do 2 f_equal; f_equal; lia.
  - destruct c; try discriminate. apply andb_prop in H. destruct H. simpl.
    rewrite (IHl c1), (IHr c2); auto.
  - destruct (nth cid m1 false), (nth cid m2 false); auto.
Qed.

Lemma run_update_swap : forall e pts c p, shaped e c = true ->
  run e pts (update e c (p_vals p) (p_md p)) = update e (run e pts c) (p_vals p) (p_md p).
Proof.
  intros e. induction pts as [|q pts IH]; intros c p H; simpl; auto.
  rewrite <- IH by (apply shaped_update; auto). f_equal. apply update_comm. exact H.
Qed.

Theorem order_irrelevant : forall e A A', Permutation A A' -> st e A = st e A'.
Proof.
  intros e A A' HP. unfold st. fold (run e A (empty e)). fold (run e A' (empty e)).
  assert (G : forall c, shaped e c = true -> run e A c = run e A' c).
  { induction HP; intros c Hc; simpl; auto.
    - apply IHHP. apply shaped_update. exact Hc.
    - f_equal. apply update_comm. exact Hc.
    - rewrite IHHP1; auto. }
  apply G. apply shaped_empty.
Qed.

(* ---------- Get of the accumulated state = the declared aggregate over the points ---------- *)
Lemma run_bin : forall o l r pts a b,
  run (EBin o l r) pts (CBin a b) = CBin (run l pts a) (run r pts b).
Proof. intros o l r. induction pts as [|p pts IH]; intros a b; simpl; auto. Qed.

Lemma run_if : forall cid e pts c,
  run (EIf cid e) pts c = run e (filter (fun p => nth cid (p_md p) false) pts) c.
Proof.
  intros cid e. induction pts as [|p pts IH]; intros c; simpl; auto.
  destruct (nth cid (p_md p) false); simpl; apply IH.
Qed.

Definition agg_step (a:agg) (s:option Z) (v:Z) : option Z :=
  Some (agg_update a (match s with Some _ => true | None => false end) (match s with Some x => x | None => 0 end) v).

Lemma run_agg : forall a w pts s,
  run (EAgg a w) pts (CAgg s) = CAgg (fold_left (agg_step a) (upd_vals w pts) s).
Proof.
  intros a w. induction pts as [|p pts IH]; intros s; simpl; auto.
  destruct (pval w (p_vals p)) as [v u]. destruct u; simpl; apply IH.
Qed.

Lemma fold_agg_some : forall a r x,
  fold_left (agg_step a) r (Some x) = Some (fold_left (agg_update a true) r x).
Proof. intros a. induction r as [|v r IH]; intros x; [reflexivity|]. cbn [fold_left]. replace (agg_step a (Some x) v) with (Some (agg_update a true x v)) by reflexivity. apply IH. Qed.

Lemma fold_sum : forall r x, fold_left (agg_update SUM true) r x = x + zsum r.
Proof. induction r as [|v r IH]; intros x; simpl; [lia|]. rewrite IH. lia. Qed.
Lemma fold_count : forall r x, fold_left (agg_update COUNT true) r x = x + Z.of_nat (length r).
Proof. induction r as [|v r IH]; intros x; [simpl; lia|]. cbn [fold_left length agg_update]. rewrite IH. lia. Qed.
Lemma fold_min : forall r x, fold_left (agg_update MIN true) r x = zmin_from x r.
Proof.
  induction r as [|v r IH]; intros x; simpl; auto. rewrite IH. f_equal.
  destruct (Z.ltb_spec v x); lia.
Qed.
Lemma fold_max : forall r x, fold_left (agg_update MAX true) r x = zmax_from x r.
Proof.
  induction r as [|v r IH]; intros x; simpl; auto. rewrite IH. f_equal.
  destruct (Z.ltb_spec x v); lia.
Qed.

Lemma fold_agg_spec : forall a vs, fold_left (agg_step a) vs None = agg_spec a vs.
Proof.
  intros a [|v r]; [reflexivity|]. cbn [fold_left]. replace (agg_step a None v) with (Some (agg_update a false 0 v)) by reflexivity. rewrite fold_agg_some. unfold agg_spec. f_equal.
  destruct a; cbn [agg_update negb].
  - rewrite fold_sum. simpl. lia.
  - apply fold_min.
  - apply fold_max.
  - rewrite fold_count. cbn [length]. lia.
Qed.

Definition avg_step (s:option (Z*Z)) (vw:Z*Z) : option (Z*Z) :=
  let '(cnt, tot) := match s with Some ct => ct | None => (0, 0) end in
  Some (cnt + snd vw, tot + fst vw * snd vw).

Lemma run_avg : forall v w pts s,
  run (EAvg v w) pts (CAvg s) = CAvg (fold_left avg_step (avg_pairs v w pts) s).
Proof.
  intros v w. induction pts as [|p pts IH]; intros s; simpl; auto.
  destruct (pval v (p_vals p)) as [vv u]. destruct (pval w (p_vals p)) as [wv u2].
  destruct u; simpl.
  - rewrite <- IH. destruct s as [[cnt tot]|]; reflexivity.
  - destruct s as [[cnt tot]|]; apply IH.
Qed.

Lemma fold_avg_some : forall ps cnt tot,
  fold_left avg_step ps (Some (cnt, tot)) =
  Some (cnt + zsum (map snd ps), tot + zsum (map (fun vw => fst vw * snd vw) ps)).
Proof.
  induction ps as [|[vv wv] ps IH]; intros cnt tot; simpl.
  - do 2 f_equal; lia.
  - replace (avg_step (Some (cnt, tot)) (vv, wv)) with (Some (cnt + wv, tot + vv * wv)) by reflexivity.
    rewrite IH. do 2 f_equal; lia.
Qed.

Lemma fold_avg_spec : forall ps, fold_left avg_step ps None = avg_spec ps.
Proof.
  intros [|[vv wv] ps]; [reflexivity|]. cbn [fold_left]. replace (avg_step None (vv, wv)) with (Some (0 + wv, 0 + vv * wv)) by reflexivity. rewrite fold_avg_some.
  unfold avg_spec. cbn [map zsum fst snd]. do 2 f_equal; lia.
Qed.

Theorem get_ref : forall e pts, get e (st e pts) = ref e pts.
Proof.
  unfold st.
  induction e as [n|k|e IHe lo hi|a w IHw|v IHv w IHw|o l IHl r IHr|cid e IHe|e IHe off|f e IHe]; intros pts.
  - reflexivity.
  - reflexivity.
  - cbn [get ref empty]. change (fold_left _ pts (empty e)) with (run (EBounded e lo hi) pts (empty e)).
    replace (run (EBounded e lo hi) pts (empty e)) with (run e pts (empty e)) by reflexivity.
    unfold run. rewrite IHe. reflexivity.
  - cbn [empty]. change (fold_left _ pts (CAgg None)) with (run (EAgg a w) pts (CAgg None)).
    rewrite run_agg, fold_agg_spec. cbn [get ref]. destruct (agg_spec a (upd_vals w pts)); reflexivity.
  - cbn [empty]. change (fold_left _ pts (CAvg None)) with (run (EAvg v w) pts (CAvg None)).
    rewrite run_avg, fold_avg_spec. cbn [get ref]. destruct (avg_spec (avg_pairs v w pts)) as [[cnt tot]|]; reflexivity.
  - cbn [empty]. change (fold_left _ pts (CBin (empty l) (empty r))) with (run (EBin o l r) pts (CBin (empty l) (empty r))).
    rewrite run_bin. cbn [get ref]. unfold run. rewrite IHl, IHr. reflexivity.
  - cbn [empty]. change (fold_left _ pts (empty e)) with (run (EIf cid e) pts (empty e)).
    rewrite run_if. cbn [get ref]. unfold run. rewrite IHe. reflexivity.
  - cbn [get ref empty]. change (fold_left _ pts (empty e)) with (run (EShift e off) pts (empty e)).
    replace (run (EShift e off) pts (empty e)) with (run e pts (empty e)) by reflexivity.
    unfold run. rewrite IHe. reflexivity.
  - cbn [get ref empty]. change (fold_left _ pts (empty e)) with (run (EUnary f e) pts (empty e)).
    replace (run (EUnary f e) pts (empty e)) with (run e pts (empty e)) by reflexivity.
    unfold run. rewrite IHe. reflexivity.
Qed.
