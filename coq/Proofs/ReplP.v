(* ReplP.v — proofs about the replication (follow) protocol model of Model/Repl.v.

   Main result: at every quiescent state reachable under [run_ok], every follower holds exactly the
   relevant entries of the leader's WAL, each once, in order.  The proof is by an inductive invariant
   ([inv]) over [run]; see the section "The invariant" below. *)
From Coq Require Import List Arith Bool Lia Sorting.Permutation.
From Zeno Require Import Repl.
Import ListNotations.

(* ------------------------------------------------------------------------------------------------ *)
(** * upd *)

Lemma length_upd {A} (l:list A) i x : length (upd l i x) = length l.
Proof. revert i; induction l as [|a l IH]; intros [|i]; cbn; auto. Qed.

Lemma nth_upd_same {A} (l:list A) i x d : i < length l -> nth i (upd l i x) d = x.
Proof.
  revert i; induction l as [|a l IH]; intros [|i] H; cbn in *; try lia; auto.
  apply IH; lia.
Qed.

Lemma nth_upd_other {A} (l:list A) i j x d : i <> j -> nth j (upd l i x) d = nth j l d.
Proof.
  revert i j; induction l as [|a l IH]; intros [|i] [|j] H; cbn; auto; try congruence.
Qed.

Lemma upd_oob {A} (l:list A) i x : length l <= i -> upd l i x = l.
Proof.
  revert i; induction l as [|a l IH]; intros [|i] H; cbn in *; auto; try lia.
  f_equal; apply IH; lia.
Qed.

Lemma upd_nth_id {A} (l:list A) i d : upd l i (nth i l d) = l.
Proof. revert i; induction l as [|a l IH]; intros [|i]; cbn; auto. f_equal; auto. Qed.

Lemma map_upd {A B} (g:A->B) (l:list A) i x d :
  g x = g (nth i l d) -> map g (upd l i x) = map g l.
Proof.
  revert i; induction l as [|a l IH]; intros [|i] H; cbn in *; auto; f_equal; auto.
Qed.

Lemma Forall_upd {A} (P:A->Prop) (l:list A) i x : Forall P l -> P x -> Forall P (upd l i x).
Proof.
  intros Hl Hx; revert i; induction Hl as [|a l Ha Hl IH]; intros [|i]; cbn; auto.
Qed.

(* ------------------------------------------------------------------------------------------------ *)
(** * rel_from / rel_upto / relevant *)

(* offset o (1-based) designates an entry of the log that partition p must hold *)
Definition relo (p:nat) (log:list entry) (o:nat) : Prop :=
  1 <= o <= length log /\ relevant_b p (nth (o - 1) log dentry) = true.

Lemma rel_from_app p a b k : rel_from p (a ++ b) k = rel_from p a k ++ rel_from p b (k + length a).
Proof.
  revert k; induction a as [|e a IH]; intros k; cbn.
  - f_equal; lia.
  - rewrite IH. replace (S k + length a) with (k + S (length a)) by lia.
    destruct (relevant_b p e); reflexivity.
Qed.

Lemma firstn_S_nth {A} (l:list A) n d : n < length l -> firstn (S n) l = firstn n l ++ [nth n l d].
Proof.
  revert n; induction l as [|a l IH]; intros n H; cbn in *; try lia.
  destruct n as [|n]; cbn; auto. f_equal. apply IH; lia.
Qed.

Lemma rel_upto_S p log n : n < length log ->
  rel_upto p log (S n) = rel_upto p log n ++ (if relevant_b p (nth n log dentry) then [S n] else []).
Proof.
  intros H. unfold rel_upto. rewrite (firstn_S_nth log n dentry H), rel_from_app.
  rewrite firstn_length_le by lia. cbn. destruct (relevant_b p (nth n log dentry)); reflexivity.
Qed.

Lemma rel_upto_app p log l2 n : n <= length log -> rel_upto p (log ++ l2) n = rel_upto p log n.
Proof.
  intros H. unfold rel_upto. rewrite firstn_app. replace (n - length log) with 0 by lia.
  cbn. rewrite app_nil_r. reflexivity.
Qed.

Lemma rel_upto_all p log : rel_upto p log (length log) = relevant p log.
Proof. unfold rel_upto, relevant. rewrite firstn_all. reflexivity. Qed.

Lemma rel_upto_skip p log a b : a <= b -> b <= length log ->
  (forall o, a < o <= b -> relo p log o -> False) -> rel_upto p log b = rel_upto p log a.
Proof.
  induction b as [|b IH]; intros Hab Hb Hno.
  - replace a with 0 by lia. reflexivity.
  - destruct (Nat.eq_dec a (S b)) as [->|Hne]; [reflexivity|].
    rewrite rel_upto_S by lia.
    destruct (relevant_b p (nth b log dentry)) eqn:Hr.
    + exfalso. apply (Hno (S b)); [lia|]. split; [lia|].
      replace (S b - 1) with b by lia. exact Hr.
    + rewrite app_nil_r. apply IH; try lia. intros o Ho. apply Hno. lia.
Qed.

Lemma In_rel_from p l k o :
  In o (rel_from p l k) <-> (k <= o < k + length l /\ relevant_b p (nth (o - k) l dentry) = true).
Proof.
  revert k; induction l as [|e l IH]; intros k; cbn [rel_from length].
  - split; [intros []|intros [H _]; lia].
  - assert (Hnth : S k <= o -> nth (o - k) (e :: l) dentry = nth (o - S k) l dentry).
    { intros H. replace (o - k) with (S (o - S k)) by lia. reflexivity. }
    destruct (relevant_b p e) eqn:He.
    + split.
      * intros [<-|H].
        -- split; [lia|]. rewrite Nat.sub_diag. exact He.
        -- apply IH in H. destruct H as [H1 H2]. split; [lia|]. rewrite Hnth by lia. exact H2.
      * intros [H1 H2]. destruct (Nat.eq_dec k o) as [->|Hne]; [left; reflexivity|].
        right. apply IH. split; [lia|]. rewrite <- Hnth by lia. exact H2.
    + split.
      * intros H. apply IH in H. destruct H as [H1 H2]. split; [lia|]. rewrite Hnth by lia. exact H2.
      * intros [H1 H2]. destruct (Nat.eq_dec k o) as [->|Hne].
        -- rewrite Nat.sub_diag in H2. cbn in H2. congruence.
        -- apply IH. split; [lia|]. rewrite <- Hnth by lia. exact H2.
Qed.

Lemma In_relevant p log o : In o (relevant p log) <-> relo p log o.
Proof.
  unfold relevant, relo. rewrite In_rel_from. split; intros [H1 H2]; (split; [lia|exact H2]).
Qed.

Lemma NoDup_rel_from p l k : NoDup (rel_from p l k).
Proof.
  revert k; induction l as [|e l IH]; intros k; cbn.
  - constructor.
  - destruct (relevant_b p e); [|apply IH].
    constructor; [|apply IH]. intros H. apply In_rel_from in H. lia.
Qed.

Lemma relo_app p log e o : o <= length log -> (relo p (log ++ [e]) o <-> relo p log o).
Proof.
  intros Ho. unfold relo. rewrite app_length. cbn.
  split; intros [H1 H2].
  - split; [lia|]. rewrite app_nth1 in H2 by lia. exact H2.
  - split; [lia|]. rewrite app_nth1 by lia. exact H2.
Qed.

Lemma relo_le p log o : relo p log o -> 1 <= o <= length log.
Proof. intros [H _]; exact H. Qed.

(* ------------------------------------------------------------------------------------------------ *)
(** * The invariant *)

(* (A) the follower's own state is consistent with the log *)
Definition finv (log:list entry) (fo:fol) : Prop :=
  f_file fo = rel_upto (f_part fo) log (f_foff fo) /\
  f_file fo ++ f_mem fo = rel_upto (f_part fo) log (f_moff fo) /\
  f_foff fo <= f_moff fo /\
  f_moff fo = f_deliv fo /\
  f_deliv fo <= length log /\
  (f_up fo = true -> f_earliest fo <= f_deliv fo) /\
  (forall fl k, In (fl, k) (f_snaps fo) -> fl = rel_upto (f_part fo) log k /\ k <= length log).

(* (B) the leader's view of a live (joined, not failed) follower:
   - the follower process is up,
   - every relevant offset after what was delivered and up to the spec is queued,
   - every relevant offset already passed by the reader is covered by the spec,
   - in front of a queued offset h, every relevant undelivered offset below h is queued earlier
     (the queue need not be sorted: the reader may restart behind the spec and resubmit extras). *)
Definition linv (log:list entry) (cur:nat) (fo:fol) (l:lfol) : Prop :=
  l_joined l = true -> l_failed l = false ->
  f_up fo = true /\
  l_spec l <= length log /\
  (forall q, In q (l_queue l) -> q <= length log) /\
  (forall o, relo (f_part fo) log o -> f_deliv fo < o -> o <= l_spec l -> In o (l_queue l)) /\
  (forall o, relo (f_part fo) log o -> o <= cur -> o <= l_spec l) /\
  (forall q1 h q2 o, l_queue l = q1 ++ h :: q2 -> relo (f_part fo) log o -> f_deliv fo < o -> o < h -> In o q1).

Definition pinv log cur fo l : Prop := finv log fo /\ linv log cur fo l.

Definition invc (log:list entry) (cur:nat) (lf:list lfol) (fols:list fol) : Prop :=
  length lf = length fols /\
  cur <= length log /\
  forall i, i < length fols -> pinv log cur (nth i fols dfol) (nth i lf dlfol).

Definition inv (s:sys) : Prop := invc (s_log s) (s_cursor s) (s_lf s) (s_fols s).

(** generic facts about the invariant *)

Lemma linv_not_joined log cur fo l : l_joined l = false -> linv log cur fo l.
Proof. intros H Hj; congruence. Qed.

Lemma linv_failed log cur fo l : l_failed l = true -> linv log cur fo l.
Proof. intros H _ Hf; congruence. Qed.

Lemma linv_down log cur fo fo' l : f_up fo = false -> linv log cur fo l -> linv log cur fo' l.
Proof.
  intros Hd H Hj Hf. destruct (H Hj Hf) as [Hup _]. congruence.
Qed.

Lemma linv_cursor log cur cur' fo l :
  (l_joined l = true -> cur' <= l_spec l) -> linv log cur fo l -> linv log cur' fo l.
Proof.
  intros Hc H Hj Hf. destruct (H Hj Hf) as (H1 & H2 & H3 & H4 & H5 & H6).
  repeat split; auto. intros o Ho Hle. specialize (Hc Hj). lia.
Qed.

(* the follower changed only in fields (B) does not look at *)
Lemma linv_same log cur fo fo' l :
  f_part fo' = f_part fo -> f_up fo' = f_up fo -> f_deliv fo' = f_deliv fo ->
  linv log cur fo l -> linv log cur fo' l.
Proof.
  intros Hp Hu Hd H Hj Hf. destruct (H Hj Hf) as (H1 & H2 & H3 & H4 & H5 & H6).
  rewrite Hp, Hu, Hd. repeat split; auto.
Qed.

Lemma invc_upd log cur lf fols f fo' l' :
  invc log cur lf fols -> pinv log cur fo' l' -> invc log cur (upd lf f l') (upd fols f fo').
Proof.
  intros (Hlen & Hcur & Hall) Hp. split; [|split]; auto.
  - rewrite !length_upd; exact Hlen.
  - intros i Hi. rewrite length_upd in Hi.
    destruct (Nat.eq_dec f i) as [->|Hne].
    + rewrite !nth_upd_same by lia. exact Hp.
    + rewrite !nth_upd_other by exact Hne. apply Hall; exact Hi.
Qed.

Lemma invc_upd_f log cur lf fols f fo' :
  invc log cur lf fols -> pinv log cur fo' (nth f lf dlfol) -> invc log cur lf (upd fols f fo').
Proof.
  intros H Hp. rewrite <- (upd_nth_id lf f dlfol) at 1. apply invc_upd; assumption.
Qed.

Lemma invc_nth log cur lf fols i :
  invc log cur lf fols -> i < length fols -> pinv log cur (nth i fols dfol) (nth i lf dlfol).
Proof. intros (_ & _ & H); apply H. Qed.

(** the log grows *)

Lemma finv_log_app log e fo : finv log fo -> finv (log ++ [e]) fo.
Proof.
  intros (H1 & H2 & H3 & H4 & H5 & H6 & H7). unfold finv. rewrite app_length; cbn.
  rewrite !rel_upto_app by lia. repeat split; auto; try lia.
  - destruct (H7 fl k H) as [Ha Hb]. rewrite rel_upto_app by lia. exact Ha.
  - destruct (H7 fl k H) as [Ha Hb]. lia.
Qed.

Lemma linv_log_app log e cur fo l : cur <= length log -> linv log cur fo l -> linv (log ++ [e]) cur fo l.
Proof.
  intros Hcur H Hj Hf. destruct (H Hj Hf) as (H1 & H2 & H3 & H4 & H5 & H6).
  rewrite app_length; cbn. split; [exact H1|]. split; [lia|]. split; [|split; [|split]].
  - intros q Hq. specialize (H3 q Hq). lia.
  - intros o Ho Hd Hs. apply H4; auto. apply (relo_app _ _ e); [lia|exact Ho].
  - intros o Ho Hc. apply H5; auto. apply (relo_app _ _ e); [lia|exact Ho].
  - intros q1 h q2 o Hq Ho Hd Hh. apply (H6 q1 h q2 o); auto.
    assert (h <= length log) by (apply H3; rewrite Hq; apply in_elt).
    apply (relo_app _ _ e); [lia|exact Ho].
Qed.

Lemma invc_log_app log e cur lf fols : invc log cur lf fols -> invc (log ++ [e]) cur lf fols.
Proof.
  intros (Hlen & Hcur & Hall). split; [exact Hlen|]. split; [rewrite app_length; lia|].
  intros i Hi. destruct (Hall i Hi) as [Ha Hb]. split.
  - apply finv_log_app; exact Ha.
  - apply linv_log_app; assumption.
Qed.

(* ------------------------------------------------------------------------------------------------ *)
(** * Leader-side helpers *)

Lemma length_lread_all e off fs extra ls : length (lread_all e off fs extra ls) = length ls.
Proof.
  revert fs extra; induction ls as [|l ls IH]; intros [|f fs] extra; cbn; auto.
Qed.

Lemma nth_lread_all e off fs extra ls i : length ls = length fs -> i < length ls ->
  exists b, nth i (lread_all e off fs extra ls) dlfol = lread_one e off (f_part (nth i fs dfol)) b (nth i ls dlfol).
Proof.
  revert fs extra i; induction ls as [|l ls IH]; intros [|f fs] extra i Hlen Hi; cbn in *; try lia.
  destruct i as [|i].
  - eexists; reflexivity.
  - apply IH; lia.
Qed.

Lemma min_spec_le_c ls c : min_spec ls c <= c.
Proof.
  unfold min_spec. revert c; induction ls as [|l ls IH]; intros c; cbn; auto.
  destruct (l_joined l); [|apply IH].
  etransitivity; [apply IH|]. apply Nat.le_min_l.
Qed.

Lemma min_spec_le_spec ls c l : In l ls -> l_joined l = true -> min_spec ls c <= l_spec l.
Proof.
  unfold min_spec. revert c; induction ls as [|a ls IH]; intros c Hin Hj; cbn; [destruct Hin|].
  destruct Hin as [->|Hin]; [|apply IH; assumption].
  rewrite Hj. etransitivity; [apply (min_spec_le_c ls)|]. apply Nat.le_min_r.
Qed.

Lemma min_spec_nth ls c i : i < length ls -> l_joined (nth i ls dlfol) = true ->
  min_spec ls c <= l_spec (nth i ls dlfol).
Proof. intros Hi Hj. apply min_spec_le_spec; [apply nth_In; exact Hi|exact Hj]. Qed.

(* where does a split of an extended queue fall *)
Lemma app_split_tail {A} (q Z q1 q2:list A) h : q ++ Z = q1 ++ h :: q2 ->
  (exists r, q = q1 ++ h :: r) \/ (exists r, q1 = q ++ r /\ In h Z).
Proof.
  revert q1; induction q as [|a q IH]; intros q1 H; cbn in *.
  - right. exists q1. split; [reflexivity|]. rewrite H. apply in_elt.
  - destruct q1 as [|b q1]; cbn in *.
    + injection H as -> _. left. exists q. reflexivity.
    + injection H as -> H. destruct (IH _ H) as [[r ->]|[r [-> Hin]]].
      * left. exists r. reflexivity.
      * right. exists r. split; [reflexivity|exact Hin].
Qed.

(* the reader processes the entry at offset S cur *)
Lemma linv_lread log cur fo b l : cur < length log ->
  linv log cur fo l -> linv log (S cur) fo (lread_one (nth cur log dentry) (S cur) (f_part fo) b l).
Proof.
  intros Hcur H. destruct l as [j fl sp q]. unfold lread_one. cbn [l_joined l_failed l_spec l_queue].
  destruct j; [|apply linv_not_joined; reflexivity].
  intros _ Hfl. cbn [l_failed] in Hfl. subst fl.
  destruct (H eq_refl eq_refl) as (H1 & H2 & H3 & H4 & H5 & H6). cbn [l_joined l_failed l_spec l_queue] in *.
  set (e := nth cur log dentry) in *.
  set (mine := Nat.eqb (e_part e) (f_part fo)) in *.
  set (off := S cur) in *.
  assert (Hrel : forall o, o = off -> relo (f_part fo) log o -> mine = true /\ e_pass e = true).
  { intros o -> [_ Hr]. unfold off in Hr. replace (S cur - 1) with cur in Hr by lia.
    fold e in Hr. unfold relevant_b in Hr. apply andb_prop in Hr. exact Hr. }
  clearbody mine.
  set (incl := mine && e_pass e && Nat.ltb sp off) in *.
  set (Z := (if incl then [off] else []) ++ (if b then [off] else [])).
  assert (HZ : (if b && negb false then (if incl && negb false then q ++ [off] else q) ++ [off]
                else (if incl && negb false then q ++ [off] else q)) = q ++ Z).
  { unfold Z. destruct incl, b; cbn; rewrite <- ?app_assoc, ?app_nil_r; reflexivity. }
  rewrite HZ. clear HZ.
  assert (HZoff : forall z, In z Z -> z = off).
  { unfold Z. intros z Hz. destruct incl, b; cbn in Hz; intuition. }
  assert (HZin : incl = true -> In off Z).
  { unfold Z. intros ->. cbn. left; reflexivity. }
  set (sp' := if mine && Nat.ltb sp off then off else sp).
  assert (Hsp' : sp <= sp' /\ (sp' = sp \/ (sp' = off /\ mine = true /\ sp < off))).
  { unfold sp'. destruct mine; cbn [andb]; [|lia]. destruct (Nat.ltb_spec sp off); lia. }
  assert (Hsp'' : mine = true -> off <= sp').
  { unfold sp'. intros ->. cbn [andb]. destruct (Nat.ltb_spec sp off); lia. }
  split; [exact H1|]. split; [unfold off in *; lia|]. split; [|split; [|split]].
  - intros z Hz. apply in_app_or in Hz. destruct Hz as [Hz|Hz]; [apply H3; exact Hz|].
    apply HZoff in Hz. unfold off in *; lia.
  - intros o Ho Hd Hs. apply in_or_app.
    destruct (le_lt_dec o sp) as [Hle|Hgt]; [left; apply H4; assumption|].
    destruct Hsp' as [_ [Heq|(Heq & Hm & Hlt)]]; [lia|].
    destruct (le_lt_dec o cur) as [Hlc|Hgc]; [specialize (H5 o Ho Hlc); lia|].
    assert (Hoo : o = off) by (unfold off in *; lia).
    destruct (Hrel o Hoo Ho) as [_ Hpass]. right. subst o. apply HZin.
    unfold incl. rewrite Hm, Hpass. cbn [andb]. apply Nat.ltb_lt. exact Hlt.
  - intros o Ho Hle. destruct (le_lt_dec o cur) as [Hlc|Hgc]; [specialize (H5 o Ho Hlc); lia|].
    assert (Hoo : o = off) by (unfold off in *; lia).
    destruct (Hrel o Hoo Ho) as [Hm _]. specialize (Hsp'' Hm). lia.
  - intros q1 h q2 o Hq Ho Hd Hh. apply app_split_tail in Hq.
    destruct Hq as [[r Hq]|[r [-> Hin]]].
    + apply (H6 q1 h r o); assumption.
    + apply HZoff in Hin. subst h. apply in_or_app. left.
      assert (Hlc : o <= cur) by (unfold off in *; lia).
      apply H4; auto.
Qed.

(* one queued offset goes through the follower's callback *)
Lemma pinv_deliver log cur fo sp h t :
  pinv log cur fo {| l_joined := true; l_failed := false; l_spec := sp; l_queue := h :: t |} ->
  pinv log cur (callback log fo h) {| l_joined := true; l_failed := false; l_spec := sp; l_queue := t |}.
Proof.
  intros [(A1 & A2 & A3 & A4 & A5 & A6 & A7) HB].
  destruct (HB eq_refl eq_refl) as (B1 & B2 & B3 & B4 & B5 & B6). cbn [l_joined l_failed l_spec l_queue] in *.
  assert (Hh : h <= length log) by (apply B3; left; reflexivity).
  assert (Hno : forall o, relo (f_part fo) log o -> f_deliv fo < o -> o < h -> False).
  { intros o Ho Hd Hlt. apply (B6 [] h t o eq_refl Ho Hd Hlt). }
  destruct fo as [p up lk dv mem moff file foff ear snaps]. unfold callback.
  cbn [f_part f_up f_link f_deliv f_mem f_moff f_file f_foff f_earliest f_snaps] in *.
  destruct (Nat.ltb_spec dv h) as [Hlt|Hge];
    cbn [f_part f_up f_link f_deliv f_mem f_moff f_file f_foff f_earliest f_snaps].
  - (* a new offset *)
    split.
    + unfold finv. cbn [f_part f_up f_link f_deliv f_mem f_moff f_file f_foff f_earliest f_snaps].
      split; [exact A1|]. split; [|split; [lia|]; split; [reflexivity|]; split; [lia|]; split; [lia|exact A7]].
      destruct h as [|h']; [lia|]. rewrite rel_upto_S by lia.
      replace (S h' - 1) with h' by lia.
      rewrite (rel_upto_skip p log dv h') by (try lia; intros o Ho1 Ho2; apply (Hno o Ho2); lia).
      subst moff. rewrite <- A2.
      destruct (relevant_b p (nth h' log dentry)); [rewrite app_assoc|rewrite app_nil_r]; reflexivity.
    + intros _ _. cbn [f_part f_up f_link f_deliv f_mem f_moff f_file f_foff f_earliest f_snaps l_joined l_failed l_spec l_queue].
      split; [exact B1|]. split; [exact B2|]. split; [|split; [|split]].
      * intros q Hq. apply B3. right; exact Hq.
      * intros o Ho Hd Hs. destruct (B4 o Ho ltac:(lia) Hs) as [Heq|Hin]; [lia|exact Hin].
      * exact B5.
      * intros q1 h' q2 o Hq Ho Hd Hlt'.
        assert (Hin : In o (h :: q1)).
        { apply (B6 (h :: q1) h' q2 o); [rewrite Hq; reflexivity|exact Ho|lia|exact Hlt']. }
        destruct Hin as [Heq|Hin]; [lia|exact Hin].
  - (* a duplicate: dropped *)
    split.
    + unfold finv. cbn [f_part f_up f_link f_deliv f_mem f_moff f_file f_foff f_earliest f_snaps].
      split; [exact A1|]. split; [exact A2|]. split; [lia|]. split; [exact A4|]. split; [lia|]. split; [lia|exact A7].
    + intros _ _. cbn [f_part f_up f_link f_deliv f_mem f_moff f_file f_foff f_earliest f_snaps l_joined l_failed l_spec l_queue].
      split; [exact B1|]. split; [exact B2|]. split; [|split; [|split]].
      * intros q Hq. apply B3. right; exact Hq.
      * intros o Ho Hd Hs. destruct (B4 o Ho Hd Hs) as [Heq|Hin]; [lia|exact Hin].
      * exact B5.
      * intros q1 h' q2 o Hq Ho Hd Hlt'.
        assert (Hin : In o (h :: q1)).
        { apply (B6 (h :: q1) h' q2 o); [rewrite Hq; reflexivity|exact Ho|exact Hd|exact Hlt']. }
        destruct Hin as [Heq|Hin]; [lia|exact Hin].
Qed.

(* ------------------------------------------------------------------------------------------------ *)
(** * Follower-side helpers *)

Ltac fol_simpl := cbn [f_part f_up f_link f_deliv f_mem f_moff f_file f_foff f_earliest f_snaps] in *.

Lemma finv_flush log fo : finv log fo -> finv log (flush fo).
Proof.
  intros (A1 & A2 & A3 & A4 & A5 & A6 & A7). destruct fo as [p up lk dv mem moff file foff ear snaps].
  unfold flush, finv. fol_simpl.
  split; [exact A2|]. split; [rewrite app_nil_r; exact A2|]. split; [lia|]. split; [exact A4|].
  split; [exact A5|]. split; [exact A6|exact A7].
Qed.

Lemma finv_down log fo : finv log fo -> finv log (down fo).
Proof.
  intros (A1 & A2 & A3 & A4 & A5 & A6 & A7). destruct fo as [p up lk dv mem moff file foff ear snaps].
  unfold down, finv. fol_simpl.
  split; [exact A1|]. split; [rewrite app_nil_r; exact A1|]. split; [lia|]. split; [reflexivity|].
  split; [lia|]. split; [discriminate|exact A7].
Qed.

Lemma finv_start log fo x : x <= f_foff fo -> finv log fo -> finv log (start fo x).
Proof.
  intros Hx (A1 & A2 & A3 & A4 & A5 & A6 & A7). destruct fo as [p up lk dv mem moff file foff ear snaps].
  unfold start, finv. fol_simpl.
  split; [exact A1|]. split; [rewrite app_nil_r; exact A1|]. split; [lia|]. split; [reflexivity|].
  split; [lia|]. split; [intros _; exact Hx|exact A7].
Qed.

Lemma finv_snap log fo : finv log fo -> finv log (snap fo).
Proof.
  intros (A1 & A2 & A3 & A4 & A5 & A6 & A7). destruct fo as [p up lk dv mem moff file foff ear snaps].
  unfold snap, finv. fol_simpl.
  split; [exact A1|]. split; [exact A2|]. split; [exact A3|]. split; [exact A4|].
  split; [exact A5|]. split; [exact A6|].
  intros fl k Hin. apply in_app_or in Hin. destruct Hin as [Hin|[Heq|[]]]; [apply A7; exact Hin|].
  injection Heq as <- <-. split; [exact A1|lia].
Qed.

Lemma finv_restore log fo k : finv log fo -> finv log (restore fo k).
Proof.
  intros HA. unfold restore. destruct (nth_error (f_snaps fo) k) as [[fl n]|] eqn:E; [|exact HA].
  destruct HA as (A1 & A2 & A3 & A4 & A5 & A6 & A7).
  apply nth_error_In in E. destruct (A7 fl n E) as [Hfl Hn].
  destruct fo as [p up lk dv mem moff file foff ear snaps]. unfold finv. fol_simpl.
  split; [exact Hfl|]. split; [rewrite app_nil_r; exact Hfl|]. split; [lia|]. split; [reflexivity|].
  split; [exact Hn|]. split; [discriminate|exact A7].
Qed.

Lemma finv_set_link log fo b : finv log fo -> finv log (set_link fo b).
Proof. intros H; exact H. Qed.

Lemma f_part_restore fo k : f_part (restore fo k) = f_part fo.
Proof. unfold restore. destruct (nth_error (f_snaps fo) k) as [[fl n]|]; reflexivity. Qed.

Lemma f_part_callback log fo h : f_part (callback log fo h) = f_part fo.
Proof. unfold callback. destruct (Nat.ltb (f_deliv fo) h); reflexivity. Qed.

(* ------------------------------------------------------------------------------------------------ *)
(** * Every step preserves the invariant *)

Lemma invc_upd_l log cur lf fols f l' :
  invc log cur lf fols -> pinv log cur (nth f fols dfol) l' -> invc log cur (upd lf f l') fols.
Proof.
  intros H Hp. rewrite <- (upd_nth_id fols f dfol) at 1. apply invc_upd; assumption.
Qed.

Lemma nth_map_const {A B} (l:list A) (d:B) i : nth i (map (fun _ => d) l) d = d.
Proof. revert i; induction l as [|a l IH]; intros [|i]; cbn; auto. Qed.

Lemma invc_reset log lf fols (H : exists cur, invc log cur lf fols) :
  invc log 0 (map (fun _ => dlfol) lf) fols.
Proof.
  destruct H as [cur (Hlen & Hcur & Hall)]. split; [rewrite map_length; exact Hlen|]. split; [lia|].
  intros i Hi. rewrite nth_map_const. destruct (Hall i Hi) as [Ha _]. split; [exact Ha|].
  apply linv_not_joined. reflexivity.
Qed.

Lemma invc_join log cur lf fols f c :
  invc log cur lf fols -> f < length fols -> f_up (nth f fols dfol) = true ->
  let fo := nth f fols dfol in
  let l := {| l_joined := true; l_failed := false; l_spec := Nat.max (f_deliv fo) (f_earliest fo); l_queue := [] |} in
  invc log (min_spec (upd lf f l) c) (upd lf f l) fols.
Proof.
  intros (Hlen & Hcur & Hall) Hf Hup fo l.
  destruct (Hall f Hf) as [HA _]. fold fo in HA.
  assert (HA' := HA). destruct HA' as (A1 & A2 & A3 & A4 & A5 & A6 & A7).
  specialize (A6 Hup).
  assert (Hspec : l_spec l = f_deliv fo) by (cbn; lia).
  assert (Hlenu : length (upd lf f l) = length fols) by (rewrite length_upd; exact Hlen).
  assert (Hmin : forall i, i < length fols -> l_joined (nth i (upd lf f l) dlfol) = true ->
                 min_spec (upd lf f l) c <= l_spec (nth i (upd lf f l) dlfol)).
  { intros i Hi Hj. apply min_spec_nth; [lia|exact Hj]. }
  assert (Hminf : min_spec (upd lf f l) c <= f_deliv fo).
  { rewrite <- Hspec. specialize (Hmin f Hf). rewrite nth_upd_same in Hmin by lia. apply Hmin. reflexivity. }
  split; [exact Hlenu|]. split; [lia|].
  intros i Hi. destruct (Nat.eq_dec f i) as [<-|Hne].
  - rewrite nth_upd_same by lia. split; [exact HA|]. intros _ _. fold fo.
    split; [exact Hup|]. split; [lia|]. split; [intros q []|]. split; [|split].
    + intros o _ Hd Hs. lia.
    + intros o _ Ho. lia.
    + intros q1 h q2 o Hq. cbn in Hq. destruct q1; discriminate.
  - destruct (Hall i Hi) as [Ha Hb]. specialize (Hmin i Hi).
    rewrite nth_upd_other in * by exact Hne. split; [exact Ha|].
    apply (linv_cursor log cur); assumption.
Qed.

Lemma step_inv s o : inv s -> step_ok s o = true -> inv (step s o).
Proof.
  destruct s as [log lup cur lf fols]. unfold inv.
  intros H Hok. assert (Hlen : length lf = length fols) by apply H.
  destruct o as [p w|extra|f|f c|f|f|f|f x|f|f k|f|f| |];
    unfold step, set_fols, set_lf, mark_failed; cbn [s_log s_lup s_cursor s_lf s_fols] in *.
  - (* Ins *)
    destruct lup; cbn [s_log s_lup s_cursor s_lf s_fols]; [apply invc_log_app|]; exact H.
  - (* LRead *)
    destruct (lup && Nat.ltb cur (length log)) eqn:E; cbn [s_log s_lup s_cursor s_lf s_fols]; [|exact H].
    apply andb_prop in E. destruct E as [_ E]. apply Nat.ltb_lt in E.
    destruct H as (_ & Hcur & Hall).
    split; [rewrite length_lread_all; exact Hlen|]. split; [lia|].
    intros i Hi.
    destruct (nth_lread_all (nth cur log dentry) (S cur) fols extra lf i Hlen ltac:(lia)) as [b Hb].
    rewrite Hb. destruct (Hall i Hi) as [Ha Hl]. split; [exact Ha|]. apply linv_lread; assumption.
  - (* Deliver *)
    destruct (lup && l_joined (nth f lf dlfol) && negb (l_failed (nth f lf dlfol)) && Nat.ltb f (length fols)) eqn:E;
      cbn [s_log s_lup s_cursor s_lf s_fols]; [|exact H].
    apply andb_prop in E. destruct E as [E Ef]. apply Nat.ltb_lt in Ef.
    apply andb_prop in E. destruct E as [E Efl]. apply negb_true_iff in Efl.
    apply andb_prop in E. destruct E as [_ Ej].
    assert (Hp := invc_nth _ _ _ _ f H Ef).
    destruct (nth f lf dlfol) as [j fl sp q] eqn:El. cbn [l_joined l_failed l_spec l_queue] in *. subst j fl.
    destruct q as [|h t]; cbn [s_log s_lup s_cursor s_lf s_fols]; [exact H|].
    destruct (f_up (nth f fols dfol) && f_link (nth f fols dfol)); cbn [s_log s_lup s_cursor s_lf s_fols].
    + apply invc_upd; [exact H|]. apply pinv_deliver. exact Hp.
    + apply invc_upd_l; [exact H|]. split; [apply Hp|]. apply linv_failed. reflexivity.
  - (* Join *)
    destruct (lup && f_up (nth f fols dfol) && Nat.ltb f (length fols)) eqn:E;
      cbn [s_log s_lup s_cursor s_lf s_fols]; [|exact H].
    apply andb_prop in E. destruct E as [E Ef]. apply Nat.ltb_lt in Ef.
    apply andb_prop in E. destruct E as [_ Eup].
    apply (invc_join log cur); assumption.
  - (* Flush *)
    destruct (f_up (nth f fols dfol) && Nat.ltb f (length fols)) eqn:E;
      cbn [s_log s_lup s_cursor s_lf s_fols]; [|exact H].
    apply andb_prop in E. destruct E as [_ Ef]. apply Nat.ltb_lt in Ef.
    destruct (invc_nth _ _ _ _ f H Ef) as [Ha Hl].
    apply invc_upd_f; [exact H|]. split; [apply finv_flush; exact Ha|].
    apply (linv_same log cur (nth f fols dfol)); auto.
  - (* Stop *)
    destruct (f_up (nth f fols dfol) && Nat.ltb f (length fols)) eqn:E;
      cbn [s_log s_lup s_cursor s_lf s_fols]; [|exact H].
    apply andb_prop in E. destruct E as [_ Ef]. apply Nat.ltb_lt in Ef.
    destruct (invc_nth _ _ _ _ f H Ef) as [Ha Hl].
    apply invc_upd; [exact H|]. split; [apply finv_down, finv_flush; exact Ha|].
    apply linv_failed. reflexivity.
  - (* Kill *)
    destruct (f_up (nth f fols dfol) && Nat.ltb f (length fols)) eqn:E;
      cbn [s_log s_lup s_cursor s_lf s_fols]; [|exact H].
    apply andb_prop in E. destruct E as [_ Ef]. apply Nat.ltb_lt in Ef.
    destruct (invc_nth _ _ _ _ f H Ef) as [Ha Hl].
    apply invc_upd; [exact H|]. split; [apply finv_down; exact Ha|].
    apply linv_failed. reflexivity.
  - (* Start *)
    cbn [step_ok s_fols] in Hok. apply Nat.leb_le in Hok.
    destruct (negb (f_up (nth f fols dfol)) && Nat.ltb f (length fols)) eqn:E;
      cbn [s_log s_lup s_cursor s_lf s_fols]; [|exact H].
    apply andb_prop in E. destruct E as [Eup Ef]. apply Nat.ltb_lt in Ef. apply negb_true_iff in Eup.
    destruct (invc_nth _ _ _ _ f H Ef) as [Ha Hl].
    apply invc_upd_f; [exact H|]. split; [apply finv_start; assumption|].
    apply (linv_down log cur (nth f fols dfol)); assumption.
  - (* Snap *)
    destruct (Nat.ltb f (length fols)) eqn:Ef; cbn [s_log s_lup s_cursor s_lf s_fols]; [|exact H].
    apply Nat.ltb_lt in Ef. destruct (invc_nth _ _ _ _ f H Ef) as [Ha Hl].
    apply invc_upd_f; [exact H|]. split; [apply finv_snap; exact Ha|].
    apply (linv_same log cur (nth f fols dfol)); auto.
  - (* Restore *)
    destruct (negb (f_up (nth f fols dfol)) && Nat.ltb f (length fols)) eqn:E;
      cbn [s_log s_lup s_cursor s_lf s_fols]; [|exact H].
    apply andb_prop in E. destruct E as [Eup Ef]. apply Nat.ltb_lt in Ef. apply negb_true_iff in Eup.
    destruct (invc_nth _ _ _ _ f H Ef) as [Ha Hl].
    apply invc_upd_f; [exact H|]. split; [apply finv_restore; exact Ha|].
    apply (linv_down log cur (nth f fols dfol)); assumption.
  - (* Cut *)
    destruct (Nat.ltb f (length fols)) eqn:Ef; cbn [s_log s_lup s_cursor s_lf s_fols]; [|exact H].
    apply Nat.ltb_lt in Ef. destruct (invc_nth _ _ _ _ f H Ef) as [Ha Hl].
    apply invc_upd_f; [exact H|]. split; [exact Ha|].
    apply (linv_same log cur (nth f fols dfol)); auto.
  - (* Uncut *)
    destruct (Nat.ltb f (length fols)) eqn:Ef; cbn [s_log s_lup s_cursor s_lf s_fols]; [|exact H].
    apply Nat.ltb_lt in Ef. destruct (invc_nth _ _ _ _ f H Ef) as [Ha Hl].
    apply invc_upd_f; [exact H|]. split; [exact Ha|].
    apply (linv_same log cur (nth f fols dfol)); auto.
  - (* LStop *) apply invc_reset. exists cur. exact H.
  - (* LStart *) apply invc_reset. exists cur. exact H.
Qed.

(* ------------------------------------------------------------------------------------------------ *)
(** * Reachable states *)

Lemma inv_init parts : inv (init parts).
Proof.
  unfold inv, init; cbn [s_log s_lup s_cursor s_lf s_fols].
  split; [rewrite !map_length; reflexivity|]. split; [cbn; lia|].
  intros i Hi. rewrite nth_map_const. split; [|apply linv_not_joined; reflexivity].
  assert (Hin : In (nth i (map init_fol parts) dfol) (map init_fol parts)) by (apply nth_In; exact Hi).
  apply in_map_iff in Hin. destruct Hin as [p [<- _]].
  unfold finv, init_fol; cbn. repeat split; auto; contradiction.
Qed.

Lemma run_inv ops : forall s, inv s -> run_ok s ops = true -> inv (run s ops).
Proof.
  induction ops as [|o ops IH]; intros s Hs Hok; [exact Hs|].
  change (run s (o :: ops)) with (run (step s o) ops). cbn [run_ok] in Hok.
  apply andb_prop in Hok. destruct Hok as [Ho Hok].
  apply IH; [apply step_inv; assumption|exact Hok].
Qed.

Lemma run_app s a b : run s (a ++ b) = run (run s a) b.
Proof. unfold run. apply fold_left_app. Qed.

Lemma run_ok_app a : forall s b, run_ok s (a ++ b) = run_ok s a && run_ok (run s a) b.
Proof.
  induction a as [|o a IH]; intros s b; cbn; [reflexivity|].
  rewrite IH, andb_assoc. reflexivity.
Qed.

(* at a quiescent state satisfying the invariant every follower holds exactly the relevant entries *)
Lemma inv_quiescent_content s : inv s -> quiescent s = true ->
  forall i f, nth_error (s_fols s) i = Some f -> content f = relevant (f_part f) (s_log s).
Proof.
  destruct s as [log lup cur lf fols]. unfold inv, quiescent; cbn [s_log s_lup s_cursor s_lf s_fols].
  intros (Hlen & Hcur & Hall) Hq i f Hi.
  apply andb_prop in Hq. destruct Hq as [Hq _].
  apply andb_prop in Hq. destruct Hq as [Hq Hql].
  apply andb_prop in Hq. destruct Hq as [_ Hc]. apply Nat.eqb_eq in Hc. subst cur.
  assert (Hil : i < length fols) by (apply nth_error_Some; congruence).
  apply (nth_error_nth _ _ dfol) in Hi.
  destruct (Hall i Hil) as [HA HB]. rewrite Hi in *.
  assert (Hl : quiet_l (nth i lf dlfol) = true).
  { rewrite forallb_forall in Hql. apply Hql. apply nth_In. lia. }
  unfold quiet_l in Hl. apply andb_prop in Hl. destruct Hl as [Hl Hqe].
  apply andb_prop in Hl. destruct Hl as [Hj Hf]. apply negb_true_iff in Hf.
  destruct (HB Hj Hf) as (B1 & B2 & B3 & B4 & B5 & B6).
  destruct (l_queue (nth i lf dlfol)) as [|h t]; [|discriminate].
  destruct HA as (A1 & A2 & A3 & A4 & A5 & A6 & A7).
  unfold content. rewrite A2, A4, <- rel_upto_all.
  symmetry. apply rel_upto_skip; [exact A5|lia|].
  intros o Ho Hr. apply (B4 o Hr); [lia|]. apply B5; [exact Hr|lia].
Qed.

(* ------------------------------------------------------------------------------------------------ *)
(** * The theorems *)

Theorem follower_content : forall parts ops, run_ok (init parts) ops = true ->
  let s := run (init parts) ops in quiescent s = true ->
  forall i f, nth_error (s_fols s) i = Some f -> content f = relevant (f_part f) (s_log s).
Proof.
  intros parts ops Hok s Hq. apply inv_quiescent_content; [|exact Hq].
  apply run_inv; [apply inv_init|exact Hok].
Qed.

Theorem exactly_once : forall parts ops, run_ok (init parts) ops = true ->
  let s := run (init parts) ops in quiescent s = true ->
  forall i f, nth_error (s_fols s) i = Some f ->
    NoDup (content f) /\
    (forall off, In off (content f) <->
       (1 <= off <= length (s_log s) /\ relevant_b (f_part f) (nth (off - 1) (s_log s) dentry) = true)).
Proof.
  intros parts ops Hok s Hq i f Hi.
  rewrite (follower_content parts ops Hok Hq i f Hi). split.
  - apply NoDup_rel_from.
  - intros off. apply In_relevant.
Qed.

Theorem redundant_converge : forall parts ops, run_ok (init parts) ops = true ->
  let s := run (init parts) ops in quiescent s = true ->
  forall i j f g, nth_error (s_fols s) i = Some f -> nth_error (s_fols s) j = Some g -> f_part f = f_part g ->
    content f = content g.
Proof.
  intros parts ops Hok s Hq i j f g Hi Hj Hp.
  rewrite (follower_content parts ops Hok Hq i f Hi), (follower_content parts ops Hok Hq j g Hj), Hp.
  reflexivity.
Qed.

(** followers never change partition *)

Lemma step_parts s o : map f_part (s_fols (step s o)) = map f_part (s_fols s).
Proof.
  destruct s as [log lup cur lf fols].
  destruct o; unfold step, set_fols, set_lf, mark_failed; cbn [s_log s_lup s_cursor s_lf s_fols];
    repeat (match goal with
            | |- context [if ?c then _ else _] => destruct c
            | |- context [match ?q with [] => _ | _ :: _ => _ end] => destruct q
            end; cbn [s_log s_lup s_cursor s_lf s_fols]);
    try reflexivity;
    apply (map_upd f_part _ _ _ dfol);
    try reflexivity; try apply f_part_callback; try apply f_part_restore.
Qed.

Lemma run_parts ops : forall s, map f_part (s_fols (run s ops)) = map f_part (s_fols s).
Proof.
  induction ops as [|o ops IH]; intros s; [reflexivity|].
  change (run s (o :: ops)) with (run (step s o) ops).
  rewrite IH. apply step_parts.
Qed.

Theorem parts_stable : forall parts ops, map f_part (s_fols (run (init parts) ops)) = parts.
Proof.
  intros parts ops. rewrite run_parts. cbn. rewrite map_map. cbn. apply map_id.
Qed.

(** several leaders *)

Lemma mstep_inv ss m : Forall inv ss ->
  match m with
  | OnSource i o => step_ok (nth i ss dsys) o
  | OnFollower o => forallb (fun s => step_ok s o) ss
  end = true -> Forall inv (mstep ss m).
Proof.
  intros Hss Hok. destruct m as [i o|o]; cbn [mstep].
  - destruct (Nat.ltb_spec i (length ss)) as [Hi|Hi]; [|exact Hss].
    apply Forall_upd; [exact Hss|]. apply step_inv; [|exact Hok].
    rewrite Forall_forall in Hss. apply Hss. apply nth_In. exact Hi.
  - rewrite Forall_forall in *. rewrite forallb_forall in Hok.
    intros s' Hin. apply in_map_iff in Hin. destruct Hin as [s0 [<- Hin]].
    apply step_inv; [apply Hss|apply Hok]; exact Hin.
Qed.

Lemma mrun_inv ms : forall ss, Forall inv ss -> mrun_ok ss ms = true -> Forall inv (mrun ss ms).
Proof.
  induction ms as [|m ms IH]; intros ss Hss Hok; cbn in *; [exact Hss|].
  apply andb_prop in Hok. destruct Hok as [Hm Hok].
  apply IH; [apply mstep_inv; assumption|exact Hok].
Qed.

Theorem multi_source : forall nsrc parts ms, mrun_ok (minit nsrc parts) ms = true ->
  forall s, In s (mrun (minit nsrc parts) ms) -> quiescent s = true ->
  forall i f, nth_error (s_fols s) i = Some f -> content f = relevant (f_part f) (s_log s).
Proof.
  intros nsrc parts ms Hok s Hin Hq. apply inv_quiescent_content; [|exact Hq].
  assert (H : Forall inv (mrun (minit nsrc parts) ms)).
  { apply mrun_inv; [|exact Hok]. apply Forall_forall. intros s0 Hs0.
    apply repeat_spec in Hs0. subst s0. apply inv_init. }
  rewrite Forall_forall in H. apply H. exact Hin.
Qed.

(* ------------------------------------------------------------------------------------------------ *)
(** * The partitions together hold every entry that passes WHERE, once *)

Fixpoint pass_from (l:list entry) (off:nat) : list nat :=
  match l with
  | [] => []
  | e :: t => if e_pass e then off :: pass_from t (S off) else pass_from t (S off)
  end.
(* offsets (1-based, ascending) of the entries with e_pass = true *)
Definition passing (log:list entry) : list nat := pass_from log 1.

Lemma concat_map_nil {A B} (l:list A) : concat (map (fun _ => @nil B) l) = [].
Proof. induction l as [|a l IH]; cbn; auto. Qed.

Lemma concat_map_app_perm {A B} (a b : A -> list B) l :
  Permutation (concat (map (fun x => a x ++ b x) l)) (concat (map a l) ++ concat (map b l)).
Proof.
  induction l as [|x l IH]; cbn; [constructor|].
  rewrite <- !app_assoc. apply Permutation_app_head.
  rewrite IH. rewrite !app_assoc. apply Permutation_app_tail. apply Permutation_app_comm.
Qed.

Lemma concat_map_single n (w:bool) (k:nat) len : forall a,
  concat (map (fun p => if Nat.eqb n p && w then [k] else []) (seq a len)) =
  if w && Nat.leb a n && Nat.ltb n (a + len) then [k] else [].
Proof.
  induction len as [|len IH]; intros a.
  - cbn [seq map concat]. destruct w; cbn [andb]; [|reflexivity].
    destruct (Nat.leb_spec a n), (Nat.ltb_spec n (a + 0)); cbn [andb]; try reflexivity; lia.
  - cbn [seq map concat]. rewrite IH.
    destruct w; cbn [andb]; [|rewrite andb_false_r; reflexivity].
    rewrite andb_true_r.
    destruct (Nat.eqb_spec n a), (Nat.leb_spec (S a) n), (Nat.ltb_spec n (S a + len)),
      (Nat.leb_spec a n), (Nat.ltb_spec n (a + S len)); cbn [andb app]; try reflexivity; lia.
Qed.

Lemma partitions_cover_from P l : forall k, (forall e, In e l -> e_part e < P) ->
  Permutation (concat (map (fun p => rel_from p l k) (seq 0 P))) (pass_from l k).
Proof.
  induction l as [|e l IH]; intros k Hp.
  - cbn [rel_from pass_from]. rewrite concat_map_nil. constructor.
  - rewrite (map_ext (fun p => rel_from p (e :: l) k)
                     (fun p => (if Nat.eqb (e_part e) p && e_pass e then [k] else []) ++ rel_from p l (S k))).
    2:{ intros p. cbn [rel_from]. unfold relevant_b. destruct (Nat.eqb (e_part e) p && e_pass e); reflexivity. }
    rewrite concat_map_app_perm, concat_map_single.
    rewrite IH by (intros e' He'; apply Hp; right; exact He').
    assert (He : e_part e < P) by (apply Hp; left; reflexivity).
    cbn [pass_from Nat.leb]. rewrite andb_true_r.
    destruct (Nat.ltb_spec (e_part e) (0 + P)) as [_|Hge]; [|cbn in Hge; lia].
    rewrite andb_true_r. destruct (e_pass e); reflexivity.
Qed.

Theorem partitions_cover : forall P log, (forall e, In e log -> e_part e < P) ->
  Permutation (concat (map (fun p => relevant p log) (seq 0 P))) (passing log).
Proof. intros P log H. apply partitions_cover_from. exact H. Qed.

(* ------------------------------------------------------------------------------------------------ *)
(** * settle is a run of harmless operations *)

Definition benign (o:op) : bool := match o with Start _ _ => false | _ => true end.

Lemma run_ok_benign ops : forallb benign ops = true -> forall s, run_ok s ops = true.
Proof.
  induction ops as [|o ops IH]; intros H s; cbn in *; [reflexivity|].
  apply andb_prop in H. destruct H as [Ho H]. rewrite (IH H).
  destruct o; try discriminate; reflexivity.
Qed.

Lemma benign_joins fs : forall ls i, forallb benign (joins fs ls i) = true.
Proof.
  induction fs as [|f fs IH]; intros [|l ls] i; cbn [joins]; try reflexivity.
  rewrite forallb_app, IH, andb_true_r.
  destruct (f_up f && f_link f && (negb (l_joined l) || l_failed l)); reflexivity.
Qed.

Lemma benign_repeat o n : benign o = true -> forallb benign (repeat o n) = true.
Proof. intros H; induction n as [|n IH]; cbn; [reflexivity|]. rewrite H, IH. reflexivity. Qed.

Lemma benign_deliver_all ls : forall i, forallb benign (deliver_all ls i) = true.
Proof.
  induction ls as [|l ls IH]; intros i; cbn [deliver_all]; [reflexivity|].
  rewrite forallb_app, IH, benign_repeat; reflexivity.
Qed.

Definition settle_ops (s:sys) : list op :=
  let o1 := joins (s_fols s) (s_lf s) 0 in
  let s1 := run s o1 in
  let o2 := repeat (LRead []) (length (s_log s1) - s_cursor s1) in
  let s2 := run s1 o2 in
  o1 ++ o2 ++ deliver_all (s_lf s2) 0.

Lemma settle_run s : settle s = run s (settle_ops s).
Proof. unfold settle, settle_ops. cbv zeta. rewrite !run_app. reflexivity. Qed.

Lemma settle_ops_ok s : forall s', run_ok s' (settle_ops s) = true.
Proof.
  apply run_ok_benign. unfold settle_ops. cbv zeta.
  rewrite !forallb_app, benign_joins, benign_repeat, benign_deliver_all; reflexivity.
Qed.

Lemma settle_is_run : forall s, exists ops, settle s = run s ops /\ forall s', run_ok s' ops = true.
Proof. intros s. exists (settle_ops s). split; [apply settle_run|apply settle_ops_ok]. Qed.

Lemma settle_inv s : inv s -> inv (settle s).
Proof. intros H. rewrite settle_run. apply run_inv; [exact H|apply settle_ops_ok]. Qed.

(* the main theorem applies to settled states *)
Corollary follower_content_settled : forall parts ops, run_ok (init parts) ops = true ->
  let s := settle (run (init parts) ops) in quiescent s = true ->
  forall i f, nth_error (s_fols s) i = Some f -> content f = relevant (f_part f) (s_log s).
Proof.
  intros parts ops Hok s Hq. apply inv_quiescent_content; [|exact Hq].
  apply settle_inv, run_inv; [apply inv_init|exact Hok].
Qed.

(* ------------------------------------------------------------------------------------------------ *)
(** * The precondition matters; the theorem is not vacuous *)

Theorem earliest_guard_needed : exists parts ops,
  let s := run (init parts) ops in quiescent s = true /\
  exists f, nth_error (s_fols s) 0 = Some f /\ content f <> relevant (f_part f) (s_log s).
Proof.
  exists [0], [Join 0 0; Ins 0 true; LRead []; Deliver 0; Kill 0; Start 0 1; Join 0 0; LRead []].
  cbv zeta. split; [vm_compute; reflexivity|].
  eexists. split; [vm_compute; reflexivity|]. vm_compute. discriminate.
Qed.

Definition nonvacuous_ops : list op :=
  [Join 0 0; Join 1 5; Ins 0 true; Ins 1 true; Ins 0 true; Ins 0 false; LRead [false; true]; LRead [];
   Deliver 0; Flush 0; Snap 0; Ins 0 true; LRead []; LRead [true]; Deliver 0; Deliver 0; Kill 0;
   Restore 0 0; Start 0 0; Cut 1; Ins 1 true; LRead []; LRead []; Deliver 1; LStop; LStart;
   Ins 0 true; Ins 1 true; Uncut 1].

Example nonvacuous : exists parts ops, run_ok (init parts) ops = true /\
  let s := settle (run (init parts) ops) in quiescent s = true /\
  exists f, nth_error (s_fols s) 0 = Some f /\ 3 <= length (content f).
Proof.
  exists [0; 1], nonvacuous_ops. split; [vm_compute; reflexivity|].
  cbv zeta. split; [vm_compute; reflexivity|].
  eexists. split; [vm_compute; reflexivity|]. vm_compute. repeat constructor.
Qed.

(* ------------------------------------------------------------------------------------------------ *)
(** * settle reaches quiescence when the leader and all followers are up and connected *)

Definition goodl (l:lfol) : Prop := l_joined l = true /\ l_failed l = false.

Lemma upd_app_mid {A} (pre:list A) a t x : upd (pre ++ a :: t) (length pre) x = pre ++ x :: t.
Proof. induction pre as [|b pre IH]; cbn; [reflexivity|]. f_equal; exact IH. Qed.

Lemma upd_upd {A} (l:list A) i x y : upd (upd l i x) i y = upd l i y.
Proof. revert i; induction l as [|a l IH]; intros [|i]; cbn; auto. f_equal; auto. Qed.

Lemma forallb_upd {A} (p:A->bool) (l:list A) i x :
  forallb p l = true -> p x = true -> forallb p (upd l i x) = true.
Proof.
  revert i; induction l as [|a l IH]; intros [|i] Hl Hx; cbn in *; auto;
    apply andb_prop in Hl; destruct Hl as [Ha Hl].
  - rewrite Hx, Hl; reflexivity.
  - rewrite Ha, IH; auto.
Qed.

Lemma run_cons s o ops : run s (o :: ops) = run (step s o) ops.
Proof. reflexivity. Qed.

Lemma step_join_eq s i c :
  s_lup s = true -> f_up (nth i (s_fols s) dfol) = true -> i < length (s_fols s) ->
  step s (Join i c) =
  let fo := nth i (s_fols s) dfol in
  let l := {| l_joined := true; l_failed := false; l_spec := Nat.max (f_deliv fo) (f_earliest fo); l_queue := [] |} in
  let ls := upd (s_lf s) i l in
  {| s_log := s_log s; s_lup := true; s_cursor := min_spec ls c; s_lf := ls; s_fols := s_fols s |}.
Proof.
  intros Hup Hf Hi. apply Nat.ltb_lt in Hi. unfold step. rewrite Hup, Hf, Hi. reflexivity.
Qed.

Lemma step_lread_eq s extra : s_lup s = true -> s_cursor s < length (s_log s) ->
  step s (LRead extra) =
  {| s_log := s_log s; s_lup := true; s_cursor := S (s_cursor s);
     s_lf := lread_all (nth (s_cursor s) (s_log s) dentry) (S (s_cursor s)) (s_fols s) extra (s_lf s);
     s_fols := s_fols s |}.
Proof.
  intros Hup Hc. apply Nat.ltb_lt in Hc. unfold step. rewrite Hup, Hc. reflexivity.
Qed.

Lemma step_deliver_eq s i sp h t :
  s_lup s = true ->
  nth i (s_lf s) dlfol = {| l_joined := true; l_failed := false; l_spec := sp; l_queue := h :: t |} ->
  i < length (s_fols s) -> quiet_f (nth i (s_fols s) dfol) = true ->
  step s (Deliver i) =
  {| s_log := s_log s; s_lup := s_lup s; s_cursor := s_cursor s;
     s_lf := upd (s_lf s) i {| l_joined := true; l_failed := false; l_spec := sp; l_queue := t |};
     s_fols := upd (s_fols s) i (callback (s_log s) (nth i (s_fols s) dfol) h) |}.
Proof.
  intros Hup Hl Hi Hq. apply Nat.ltb_lt in Hi. unfold quiet_f in Hq. unfold step.
  rewrite Hl. cbn [l_joined l_failed l_spec l_queue]. rewrite Hup at 1. rewrite Hi, Hq. reflexivity.
Qed.

Lemma quiet_f_callback log fo h : quiet_f (callback log fo h) = quiet_f fo.
Proof. unfold callback, quiet_f. destruct (Nat.ltb (f_deliv fo) h); reflexivity. Qed.

(** phase 1: every follower that is not (or no longer) served joins *)
Lemma joins_phase : forall fs ls pf pl s,
  s_lup s = true -> s_fols s = pf ++ fs -> s_lf s = pl ++ ls ->
  length pf = length pl -> length fs = length ls -> forallb quiet_f fs = true ->
  let s' := run s (joins fs ls (length pf)) in
  s_lup s' = true /\ s_fols s' = s_fols s /\ s_log s' = s_log s /\
  exists ls', s_lf s' = pl ++ ls' /\ length ls' = length ls /\ Forall goodl ls'.
Proof.
  induction fs as [|f ft IH]; intros [|l lt] pf pl s Hup Hf Hl Hlen Hlen2 Hq; cbn [joins length] in *;
    try discriminate.
  - cbn. repeat split; auto. exists []. repeat split; auto.
  - apply andb_prop in Hq. destruct Hq as [Hqf Hq].
    assert (Hqf' := Hqf). unfold quiet_f in Hqf'. rewrite Hqf'. cbn [andb].
    apply andb_prop in Hqf'. destruct Hqf' as [Hfup _].
    rewrite run_app.
    assert (Hi : length pf < length (s_fols s)) by (rewrite Hf, app_length; cbn; lia).
    assert (Hnf : nth (length pf) (s_fols s) dfol = f) by (rewrite Hf; apply nth_middle).
    (* the state after the optional Join *)
    assert (H1 : exists s1 l1, run s (if negb (l_joined l) || l_failed l then [Join (length pf) 0] else []) = s1 /\
                 s_lup s1 = true /\ s_fols s1 = s_fols s /\ s_log s1 = s_log s /\
                 s_lf s1 = pl ++ l1 :: lt /\ goodl l1).
    { destruct (negb (l_joined l) || l_failed l) eqn:Ec.
      - exists (step s (Join (length pf) 0)),
          {| l_joined := true; l_failed := false; l_spec := Nat.max (f_deliv f) (f_earliest f); l_queue := [] |}.
        split; [reflexivity|].
        rewrite step_join_eq by (rewrite ?Hnf; auto). cbv zeta. cbn [s_log s_lup s_cursor s_lf s_fols].
        rewrite Hnf. split; [reflexivity|]. split; [reflexivity|]. split; [reflexivity|].
        split; [rewrite Hl, Hlen; apply upd_app_mid|split; reflexivity].
      - exists s, l. apply orb_false_elim in Ec. destruct Ec as [Ej Efl]. apply negb_false_iff in Ej.
        repeat split; auto. }
    destruct H1 as (s1 & l1 & -> & Hup1 & Hf1 & Hlog1 & Hl1 & Hg1).
    replace (S (length pf)) with (length (pf ++ [f])) by (rewrite app_length; cbn; lia).
    destruct (IH lt (pf ++ [f]) (pl ++ [l1]) s1) as (R1 & R2 & R3 & ls' & R4 & R5 & R6); auto.
    + rewrite Hf1, Hf, <- app_assoc. reflexivity.
    + rewrite Hl1, <- app_assoc. reflexivity.
    + rewrite !app_length; cbn; lia.
    + split; [exact R1|]. split; [congruence|]. split; [congruence|].
      exists (l1 :: ls'). split; [rewrite R4, <- app_assoc; reflexivity|].
      split; [cbn; lia|]. constructor; assumption.
Qed.

(** phase 2: the reader consumes the rest of the WAL *)
Lemma goodl_lread_all e off : forall ls fs extra, Forall goodl ls -> Forall goodl (lread_all e off fs extra ls).
Proof.
  induction ls as [|l ls IH]; intros [|f fs] extra H; cbn [lread_all]; auto.
  inversion H as [|? ? Hl Hls]; subst. constructor; [|apply IH; exact Hls].
  destruct Hl as [Hj Hfl]. unfold lread_one. rewrite Hj. split; cbn; auto.
Qed.

Lemma lreads_phase : forall n s,
  s_lup s = true -> s_cursor s + n <= length (s_log s) -> Forall goodl (s_lf s) ->
  let s' := run s (repeat (LRead []) n) in
  s_lup s' = true /\ s_fols s' = s_fols s /\ s_log s' = s_log s /\ s_cursor s' = s_cursor s + n /\
  length (s_lf s') = length (s_lf s) /\ Forall goodl (s_lf s').
Proof.
  induction n as [|n IH]; intros s Hup Hc Hg; cbn [repeat].
  - cbn. repeat split; auto.
  - rewrite run_cons, step_lread_eq by (auto; lia).
    match goal with |- context [run ?x _] => set (s1 := x) end.
    destruct (IH s1) as (R1 & R2 & R3 & R4 & R5 & R6); subst s1; cbn [s_log s_lup s_cursor s_lf s_fols] in *; auto.
    + lia.
    + apply goodl_lread_all; exact Hg.
    + repeat split; auto; try lia. rewrite R5. apply length_lread_all.
Qed.

(** phase 3: the queues are drained *)
Lemma delivers_phase : forall q sp s i,
  s_lup s = true -> i < length (s_fols s) -> length (s_lf s) = length (s_fols s) ->
  forallb quiet_f (s_fols s) = true ->
  nth i (s_lf s) dlfol = {| l_joined := true; l_failed := false; l_spec := sp; l_queue := q |} ->
  let s' := run s (repeat (Deliver i) (length q)) in
  s_lup s' = true /\ s_log s' = s_log s /\ s_cursor s' = s_cursor s /\
  s_lf s' = upd (s_lf s) i {| l_joined := true; l_failed := false; l_spec := sp; l_queue := [] |} /\
  length (s_fols s') = length (s_fols s) /\ forallb quiet_f (s_fols s') = true.
Proof.
  induction q as [|h t IH]; intros sp s i Hup Hi Hlen Hq Hl; cbn [length repeat].
  - cbn. repeat split; auto. rewrite <- Hl, upd_nth_id. reflexivity.
  - assert (Hqi : quiet_f (nth i (s_fols s) dfol) = true).
    { rewrite forallb_forall in Hq. apply Hq. apply nth_In. exact Hi. }
    rewrite run_cons, (step_deliver_eq s i sp h t) by auto.
    match goal with |- context [run ?x _] => set (s1 := x) end.
    destruct (IH sp s1 i) as (R1 & R2 & R3 & R4 & R5 & R6); subst s1; cbn [s_log s_lup s_cursor s_lf s_fols] in *; auto.
    + rewrite length_upd. exact Hi.
    + rewrite !length_upd. exact Hlen.
    + apply forallb_upd; [exact Hq|]. rewrite quiet_f_callback. exact Hqi.
    + apply nth_upd_same. lia.
    + repeat split; auto.
      * rewrite R4. apply upd_upd.
      * rewrite R5. apply length_upd.
Qed.

Lemma deliver_all_phase : forall ls pl s,
  s_lup s = true -> length (s_lf s) = length (s_fols s) -> forallb quiet_f (s_fols s) = true ->
  s_lf s = pl ++ ls -> forallb quiet_l pl = true -> Forall goodl ls ->
  let s' := run s (deliver_all ls (length pl)) in
  s_lup s' = true /\ s_log s' = s_log s /\ s_cursor s' = s_cursor s /\
  forallb quiet_l (s_lf s') = true /\ forallb quiet_f (s_fols s') = true.
Proof.
  induction ls as [|l lt IH]; intros pl s Hup Hlen Hq Hl Hpl Hg; cbn [deliver_all].
  - cbn. repeat split; auto. rewrite Hl, app_nil_r. exact Hpl.
  - rewrite run_app. inversion Hg as [|? ? Hgl Hglt]; subst.
    destruct l as [j fl sp q]. destruct Hgl as [Hj Hfl]. cbn [l_joined l_failed l_queue] in *. subst j fl.
    assert (Hi : length pl < length (s_fols s)) by (rewrite <- Hlen, Hl, app_length; cbn; lia).
    destruct (delivers_phase q sp s (length pl)) as (R1 & R2 & R3 & R4 & R5 & R6); auto.
    { rewrite Hl. apply nth_middle. }
    match goal with |- context [run (run ?x ?y) _] => set (s1 := run x y) in * end.
    rewrite Hl, upd_app_mid in R4.
    replace (S (length pl)) with (length (pl ++ [{| l_joined := true; l_failed := false; l_spec := sp; l_queue := [] |}]))
      by (rewrite app_length; cbn; lia).
    destruct (IH (pl ++ [{| l_joined := true; l_failed := false; l_spec := sp; l_queue := [] |}]) s1)
      as (T1 & T2 & T3 & T4 & T5); auto.
    + rewrite R4, R5, <- Hlen, Hl, !app_length. reflexivity.
    + rewrite R4, <- app_assoc. reflexivity.
    + rewrite forallb_app, Hpl. reflexivity.
    + repeat split; auto; congruence.
Qed.

Lemma settle_quiescent_inv s : inv s -> s_lup s = true -> forallb quiet_f (s_fols s) = true ->
  quiescent (settle s) = true.
Proof.
  intros Hinv Hup Hq. unfold settle. cbv zeta.
  assert (Hlen : length (s_lf s) = length (s_fols s)) by apply Hinv.
  (* phase 1 *)
  destruct (joins_phase (s_fols s) (s_lf s) [] [] s) as (J1 & J2 & J3 & ls1 & J4 & J5 & J6); auto.
  cbn [length app] in *.
  assert (Hinv1 : inv (run s (joins (s_fols s) (s_lf s) 0))).
  { apply run_inv; [exact Hinv|]. apply run_ok_benign, benign_joins. }
  set (s1 := run s (joins (s_fols s) (s_lf s) 0)) in *.
  assert (Hc1 : s_cursor s1 <= length (s_log s1)) by apply Hinv1.
  (* phase 2 *)
  destruct (lreads_phase (length (s_log s1) - s_cursor s1) s1) as (L1 & L2 & L3 & L4 & L5 & L6); auto.
  { lia. }
  { rewrite J4. exact J6. }
  set (s2 := run s1 (repeat (LRead []) (length (s_log s1) - s_cursor s1))) in *.
  (* phase 3 *)
  destruct (deliver_all_phase (s_lf s2) [] s2) as (D1 & D2 & D3 & D4 & D5); auto.
  { rewrite L5, L2, J2, J4, J5. exact Hlen. }
  { rewrite L2, J2. exact Hq. }
  cbn [length] in *. unfold quiescent. rewrite D1, D2, D3, D4, D5, L3, L4.
  replace (s_cursor s1 + (length (s_log s1) - s_cursor s1)) with (length (s_log s1)) by lia.
  rewrite Nat.eqb_refl. reflexivity.
Qed.

Theorem settle_quiescent : forall parts ops, run_ok (init parts) ops = true ->
  let s := run (init parts) ops in
  s_lup s = true -> forallb quiet_f (s_fols s) = true -> quiescent (settle s) = true.
Proof.
  intros parts ops Hok s Hup Hq. apply settle_quiescent_inv; auto.
  apply run_inv; [apply inv_init|exact Hok].
Qed.

(* ------------------------------------------------------------------------------------------------ *)
Print Assumptions follower_content.
Print Assumptions exactly_once.
Print Assumptions redundant_converge.
Print Assumptions partitions_cover.
Print Assumptions parts_stable.
Print Assumptions multi_source.
Print Assumptions earliest_guard_needed.
Print Assumptions nonvacuous.
Print Assumptions settle_is_run.
Print Assumptions follower_content_settled.
Print Assumptions settle_quiescent.
