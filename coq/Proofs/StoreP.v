(* StoreP.v — the row store refines the reference aggregator: whatever the flush schedule,
   a memstore-inclusive reader finds, for every key and period above the truncation horizon,
   exactly the effects of the inserts of that key and period, each once, in order. *)
From Coq Require Import Lia.
From Zeno Require Import Base BaseP Seq SeqP SeqMergeP Store.
Open Scope Z_scope.

(* ---------- rounding / truncation facts not specific to the store ---------- *)

(* a truncation bound rounded up on any grid stays below every period end at or above bound + res *)
Lemma ruu_below : forall res tb u t, 0 < res -> tb + res <= t -> 0 < t -> round_until_up tb res u < t.
Proof.
  intros res tb u t Hr Ht H0. unfold round_until_up, round_up, ceil_mul, is_zero.
  destruct (Z.eqb_spec tb 0) as [->|N]; [assumption|].
  destruct (Z.eqb_spec u 0) as [_|Nu].
  - pose proof (Z.div_mod (- tb) res ltac:(lia)). pose proof (Z.mod_pos_bound (- tb) res Hr). lia.
  - pose proof (Z.div_mod (u - tb) res ltac:(lia)). pose proof (Z.mod_pos_bound (u - tb) res Hr). lia.
Qed.

(* a bound strictly inside the first period rounds down to the zero time on a grid anchored at a
   multiple of res: Truncate then removes nothing *)
Lemma rud_small : forall res asOf k, 0 < res -> 0 < asOf < res -> round_until_down asOf res (k * res) = 0.
Proof.
  intros res asOf k Hr Ha. unfold round_until_down, round_down, floor_mul, cdiv, is_zero.
  destruct (Z.eqb_spec asOf 0); [lia|].
  destruct (Z.eqb_spec (k * res) 0) as [E|N].
  - rewrite Z.div_small by lia. reflexivity.
  - replace (- (k * res - asOf)) with (asOf + (- k) * res) by lia.
    rewrite Z.div_add by lia. rewrite Z.div_small by lia. lia.
Qed.

Section TruncAbove.
Variable cell : Type.

(* doWrite's truncation keeps every period strictly above the bound, for any bound >= 0
   ([truncate_den] covers bound = 0 and bound >= res; a bound in (0, res) truncates nothing) *)
Lemma truncate_den_above : forall res (s:seq cell) asOf t, 0 < res -> 0 <= asOf -> aligned cell res s ->
  asOf < t -> den cell res (truncate cell s res asOf 0) t = den cell res s t.
Proof.
  intros res s asOf t Hr Ha Hal Ht.
  destruct (Z.eq_dec asOf 0) as [E0|N0]; [|destruct (Z_lt_le_dec asOf res) as [Hs|Hb]].
  - rewrite truncate_den; try assumption; try (left; assumption); try (left; reflexivity).
    + subst asOf. reflexivity.
    + intros u cs ->. destruct Hal as [k [Hk ->]]. nia.
  - destruct s as [[u cs]|]; [|reflexivity].
    destruct Hal as [k [Hk ->]]. unfold truncate. cbv zeta.
    rewrite (rud_small res asOf k) by lia. reflexivity.
  - rewrite truncate_den; try assumption; try (right; assumption); try (left; reflexivity).
    + destruct (Z.ltb_spec asOf t); [|lia]. rewrite orb_true_r. reflexivity.
    + intros u cs ->. destruct Hal as [k [Hk ->]]. nia.
Qed.
End TruncAbove.

Section SP.
Variable K : Type.
Variable keqb : K -> K -> bool.
Hypothesis keqb_eq : forall a b, keqb a b = true <-> a = b.
Variable cell : Type.
Variable cempty : cell.
Variable cmerge : cell -> cell -> cell.
Hypothesis cmerge_empty_l : forall x, cmerge cempty x = x.
Hypothesis cmerge_empty_r : forall x, cmerge x cempty = x.
Hypothesis cmerge_comm : forall x y, cmerge x y = cmerge y x.

(* side conditions of one operation: positive timestamp, truncation bound below the horizon H,
   and the insert's effect on a period commutes with merging earlier state in
   (for zenodb's expressions this is lemma merge_update of Proofs/ExprP.v).
   Outside Store.v's section the constructors carry K and cell as explicit parameters, hence the
   two leading wildcards in the patterns. *)
Definition op_ok (res H:Z) (o:sop K cell) : Prop :=
  match o with
  | SInsert _ _ _ ts tb f => 0 < ts /\ 0 <= tb /\ tb + res <= H /\ (forall x y, cmerge x (f y) = f (cmerge x y))
  | SFlush _ _ tb _ => 0 <= tb /\ tb + res <= H
  end.

(* local abbreviations *)
Notation lk := (lookup K keqb cell).
Notation mk := (mem_key K keqb cell).
Notation dd := (dend cell cempty).
Notation al := (aligned cell).
Notation mrg := (merge cell cempty cmerge).
Notation step := (sstep K keqb cell cempty cmerge).
Notation sp := (spec_cell K keqb cell).

Lemma keqb_refl : forall k, keqb k k = true.
Proof. intros k. apply keqb_eq. reflexivity. Qed.

(* ---------- trees ---------- *)
Lemma lookup_absent : forall k (t:tree K cell), mk k t = false -> lk k t = None.
Proof.
  intros k t. induction t as [|[k' s] r IH]; cbn [mem_key lookup]; [reflexivity|].
  intros H. apply orb_false_iff in H. destruct H as [H1 H2]. rewrite H1. auto.
Qed.

Lemma lookup_app : forall k (a b:tree K cell), lk k (a ++ b) = if mk k a then lk k a else lk k b.
Proof.
  intros k a b. induction a as [|[k' s] r IH]; cbn [app mem_key lookup]; [reflexivity|].
  destruct (keqb k k'); cbn [orb]; [reflexivity|exact IH].
Qed.

Lemma mem_key_app : forall k (a b:tree K cell), mk k (a ++ b) = mk k a || mk k b.
Proof.
  intros k a b. induction a as [|[k' s] r IH]; cbn [app mem_key]; [reflexivity|].
  rewrite IH. apply orb_assoc.
Qed.

Lemma lookup_upsert : forall k k' g (t:tree K cell),
  lk k (upsert K keqb cell k' g t) = if keqb k k' then g (lk k t) else lk k t.
Proof.
  intros k k' g t. induction t as [|[k2 s] r IH]; cbn [upsert lookup].
  - reflexivity.
  - destruct (keqb k' k2) eqn:E12; cbn [lookup].
    + apply keqb_eq in E12. subst k2. destruct (keqb k k'); reflexivity.
    + rewrite IH. destruct (keqb k k2) eqn:E2; [|reflexivity].
      destruct (keqb k k') eqn:E1; [|reflexivity].
      apply keqb_eq in E1. apply keqb_eq in E2. subst. rewrite keqb_refl in E12. discriminate.
Qed.

(* keys of a tree are pairwise distinct *)
Fixpoint uniq (t:tree K cell) : Prop :=
  match t with [] => True | (k, _) :: r => mk k r = false /\ uniq r end.

Lemma mem_key_upsert : forall k k' g (t:tree K cell),
  mk k (upsert K keqb cell k' g t) = keqb k k' || mk k t.
Proof.
  intros k k' g t. induction t as [|[k2 s] r IH]; cbn [upsert mem_key].
  - reflexivity.
  - destruct (keqb k' k2) eqn:E12; cbn [mem_key].
    + apply keqb_eq in E12. subst k2. destruct (keqb k k'); reflexivity.
    + rewrite IH. destruct (keqb k k2); destruct (keqb k k'); reflexivity.
Qed.

Lemma uniq_upsert : forall k' g (t:tree K cell), uniq t -> uniq (upsert K keqb cell k' g t).
Proof.
  intros k' g t. induction t as [|[k2 s] r IH]; cbn [upsert uniq].
  - intros _. split; [reflexivity|exact I].
  - intros [H1 H2]. destruct (keqb k' k2) eqn:E12; cbn [uniq].
    + split; assumption.
    + split; [|auto]. rewrite mem_key_upsert, H1.
      destruct (keqb k2 k') eqn:E21; [|reflexivity].
      apply keqb_eq in E21. subst. rewrite keqb_refl in E12. discriminate.
Qed.

(* ---------- the two passes of a flush, abstracted from the state ---------- *)
Section Passes.
Variable c : K -> bool.                 (* pass the file row through untouched *)
Variable w1 : K -> seq cell.            (* the row written for a key of the file *)
Variable d : K -> bool.                 (* the key was already handled by the first pass *)
Variable w2 : seq cell -> seq cell.     (* the row written for a memstore-only key *)
Hypothesis w2_none : w2 None = None.

Definition pass1 (ks:K * seq cell) : tree K cell :=
  let '(k, s) := ks in if c k then [(k, s)] else match w1 k with None => [] | w => [(k, w)] end.
Definition pass2 (ks:K * seq cell) : tree K cell :=
  let '(k, s) := ks in if d k then [] else match w2 s with None => [] | w => [(k, w)] end.

Lemma pass1_eq : forall k s,
  pass1 (k, s) = if c k then [(k, s)] else match w1 k with None => [] | w => [(k, w)] end.
Proof. reflexivity. Qed.
Lemma pass2_eq : forall k s,
  pass2 (k, s) = if d k then [] else match w2 s with None => [] | w => [(k, w)] end.
Proof. reflexivity. Qed.

Lemma pass1_key : forall k k' s, keqb k k' = false -> mk k (pass1 (k', s)) = false.
Proof.
  intros k k' s E. unfold pass1. destruct (c k'); cbn [mem_key]; [rewrite E; reflexivity|].
  destruct (w1 k'); cbn [mem_key]; [rewrite E|]; reflexivity.
Qed.

Lemma pass1_mem : forall k (t:tree K cell), mk k t = false -> mk k (flat_map pass1 t) = false.
Proof.
  intros k t. induction t as [|[k' s] r IH]; cbn [flat_map mem_key]; [reflexivity|].
  intros H. apply orb_false_iff in H. destruct H as [H1 H2].
  rewrite mem_key_app, (pass1_key k k' s H1), IH by assumption. reflexivity.
Qed.

Lemma pass1_lookup : forall k (t:tree K cell),
  lk k (flat_map pass1 t) = if mk k t then (if c k then lk k t else w1 k) else None.
Proof.
  intros k t. induction t as [|[k' s] r IH]; cbn [flat_map mem_key lookup]; [reflexivity|].
  rewrite lookup_app. destruct (keqb k k') eqn:E; cbn [orb].
  - apply keqb_eq in E. subst k'. rewrite pass1_eq.
    destruct (c k) eqn:Ec.
    + cbn [mem_key lookup]. rewrite keqb_refl. reflexivity.
    + destruct (w1 k) as [p|] eqn:Ew.
      * cbn [mem_key lookup]. rewrite keqb_refl. reflexivity.
      * cbn [mem_key]. rewrite IH. destruct (mk k r); reflexivity.
  - rewrite (pass1_key k k' s E). exact IH.
Qed.

Lemma pass2_key : forall k k' s, keqb k k' = false -> mk k (pass2 (k', s)) = false.
Proof.
  intros k k' s E. unfold pass2. destruct (d k'); [reflexivity|].
  destruct (w2 s); cbn [mem_key]; [rewrite E|]; reflexivity.
Qed.

Lemma pass2_lookup : forall k (t:tree K cell), uniq t ->
  lk k (flat_map pass2 t) = if d k then None else w2 (lk k t).
Proof.
  intros k t. induction t as [|[k' s] r IH]; cbn [flat_map lookup uniq].
  - intros _. rewrite w2_none. destruct (d k); reflexivity.
  - intros [U1 U2]. rewrite lookup_app. destruct (keqb k k') eqn:E.
    + apply keqb_eq in E. subst k'. rewrite pass2_eq. destruct (d k) eqn:Ed.
      * cbn [mem_key]. rewrite IH by assumption. rewrite ?Ed. reflexivity.
      * destruct (w2 s) as [p|] eqn:Ew.
        -- cbn [mem_key lookup]. rewrite keqb_refl. reflexivity.
        -- cbn [mem_key]. rewrite IH by assumption. rewrite ?Ed.
           rewrite (lookup_absent k r U1). exact w2_none.
    + rewrite (pass2_key k k' s E). apply IH. assumption.
Qed.
End Passes.

Lemma flush_file_passes : forall res tb raw (st:sstate K cell),
  flush_file K keqb cell cempty cmerge res tb raw st =
  flat_map (pass1 (fun k => raw && negb (mk k (s_mem K cell st)))
                  (fun k => written cell res tb (merged K keqb cell cempty cmerge res tb st k)))
           (s_file K cell st)
  ++ flat_map (pass2 (fun k => mk k (s_file K cell st))
                     (fun s => written cell res tb (mrg None s res tb)))
              (s_mem K cell st).
Proof. reflexivity. Qed.

(* the row a flush leaves on disk for a key *)
Lemma lookup_flush : forall res tb raw (st:sstate K cell) k, uniq (s_mem K cell st) ->
  lk k (flush_file K keqb cell cempty cmerge res tb raw st) =
  if mk k (s_file K cell st)
  then (if raw && negb (mk k (s_mem K cell st)) then lk k (s_file K cell st)
        else written cell res tb (merged K keqb cell cempty cmerge res tb st k))
  else written cell res tb (lk k (s_mem K cell st)).
Proof.
  intros res tb raw st k U. rewrite flush_file_passes, lookup_app.
  rewrite pass2_lookup by (reflexivity || assumption). rewrite pass1_lookup.
  destruct (mk k (s_file K cell st)) eqn:Ef.
  - match goal with |- (if ?b then ?x else None) = ?x => destruct b eqn:Eb; [reflexivity|] end.
    apply lookup_absent in Eb. rewrite pass1_lookup, Ef in Eb. symmetry. exact Eb.
  - rewrite pass1_mem by assumption. reflexivity.
Qed.

(* ---------- the invariant ---------- *)
Definition all_aligned (res:Z) (t:tree K cell) : Prop := forall k, al res (lk k t).
Definition wf (res:Z) (st:sstate K cell) : Prop :=
  all_aligned res (s_mem K cell st) /\ all_aligned res (s_file K cell st) /\ uniq (s_mem K cell st).

(* the combined view of a key and period: disk merged with memory *)
Definition view (res:Z) (st:sstate K cell) (k:K) (t:Z) : cell :=
  cmerge (dd res (lk k (s_file K cell st)) t) (dd res (lk k (s_mem K cell st)) t).

Lemma merged_view : forall res tb st k t, 0 < res -> wf res st -> 0 <= tb -> tb + res <= t -> 0 < t ->
  dd res (merged K keqb cell cempty cmerge res tb st k) t = view res st k t.
Proof.
  intros res tb st k t Hr [Wm [Wf _]] Htb Ht H0. unfold merged, view.
  apply merge_den; try assumption; [apply Wf|apply Wm|]. apply ruu_below; assumption.
Qed.

Lemma written_dd : forall res tb s t, 0 < res -> 0 <= tb -> al res s -> tb < t ->
  dd res (written cell res tb s) t = dd res s t.
Proof.
  intros res tb s t Hr Htb Ha Ht. unfold dend, written. rewrite truncate_den_above by assumption. reflexivity.
Qed.

Lemma written_aligned : forall res tb s, al res s -> al res (written cell res tb s).
Proof. intros. unfold written. apply truncate_aligned. assumption. Qed.

Lemma merged_aligned : forall res tb st k, 0 < res -> wf res st ->
  al res (merged K keqb cell cempty cmerge res tb st k).
Proof. intros res tb st k Hr [Wm [Wf _]]. unfold merged. apply merge_aligned; [assumption|apply Wf|apply Wm]. Qed.

Lemma wf_init : forall res, wf res (sinit K cell).
Proof. intros res. split; [|split]; try exact I; intros k; exact I. Qed.

Lemma wf_step : forall res H st o, 0 < res -> op_ok res H o -> wf res st -> wf res (step res st o).
Proof.
  intros res H st o Hr Hok W. pose proof W as [Wm [Wf U]]. destruct o as [k' ts tb f|tb raw]; cbn [sstep].
  - destruct Hok as [Hts _]. split; [|split]; cbn [s_mem s_file].
    + intros k. rewrite lookup_upsert. destruct (keqb k k'); [|apply Wm].
      apply update_value_aligned; try assumption. apply Wm.
    + exact Wf.
    + apply uniq_upsert. exact U.
  - split; [|split]; cbn [s_mem s_file].
    + intros k. exact I.
    + intros k. rewrite lookup_flush by assumption.
      destruct (mk k (s_file K cell st)).
      * destruct (raw && negb (mk k (s_mem K cell st))); [apply Wf|].
        apply written_aligned. apply merged_aligned; assumption.
      * apply written_aligned. apply Wm.
    + exact I.
Qed.

(* one step transforms the combined view the way the reference does *)
Lemma view_step : forall res H st o k t, 0 < res -> op_ok res H o -> wf res st -> H <= t -> 0 < t ->
  view res (step res st o) k t = sp res k t [o] (view res st k t).
Proof.
  intros res H st o k t Hr Hok W Ht H0. pose proof W as [Wm [Wf U]].
  destruct o as [k' ts tb f|tb raw]; cbn [sstep spec_cell]; unfold view; cbn [s_mem s_file].
  - destruct Hok as [Hts [Htb [HtbH Hf]]]. rewrite lookup_upsert.
    destruct (keqb k k'); cbn [andb]; [|reflexivity].
    rewrite update_value_den; try assumption; [|apply Wm|apply ruu_below; lia].
    rewrite (Z.eqb_sym t). destruct (round_up ts res =? t); [apply Hf|reflexivity].
  - destruct Hok as [Htb HtbH]. cbn [lookup]. rewrite dend_none, cmerge_empty_r.
    rewrite lookup_flush by assumption.
    destruct (mk k (s_file K cell st)) eqn:Ef.
    + destruct raw; cbn [andb]; [destruct (mk k (s_mem K cell st)) eqn:Em; cbn [negb]|].
      * rewrite written_dd; try assumption; try lia; [|apply merged_aligned; assumption].
        apply merged_view; try assumption; lia.
      * rewrite (lookup_absent _ _ Em), dend_none, cmerge_empty_r. reflexivity.
      * rewrite written_dd; try assumption; try lia; [|apply merged_aligned; assumption].
        apply merged_view; try assumption; lia.
    + rewrite (lookup_absent _ _ Ef), dend_none, cmerge_empty_l.
      apply written_dd; try assumption; try lia. apply Wm.
Qed.

Definition run_from (res:Z) (st:sstate K cell) (ops:list (sop K cell)) : sstate K cell :=
  fold_left (step res) ops st.

Lemma wf_run : forall res H ops st, 0 < res -> Forall (op_ok res H) ops -> wf res st -> wf res (run_from res st ops).
Proof.
  intros res H ops. induction ops as [|o r IH]; intros st Hr Hok W; [exact W|].
  inversion Hok; subst. cbn [run_from fold_left]. apply IH; try assumption. eapply wf_step; eassumption.
Qed.

Lemma view_run : forall res H ops st k t, 0 < res -> Forall (op_ok res H) ops -> wf res st -> H <= t -> 0 < t ->
  view res (run_from res st ops) k t = sp res k t ops (view res st k t).
Proof.
  intros res H ops. induction ops as [|o r IH]; intros st k t Hr Hok W Ht H0; [reflexivity|].
  inversion Hok as [|o' r' Ho Hr']; subst. cbn [run_from fold_left].
  change (fold_left (step res) r (step res st o)) with (run_from res (step res st o) r).
  rewrite IH; try assumption; [|eapply wf_step; eassumption].
  rewrite (view_step res H) by assumption.
  destruct o as [k' ts tb f|tb raw]; cbn [spec_cell]; [|reflexivity].
  destruct (keqb k k' && (round_up ts res =? t)); reflexivity.
Qed.

Theorem store_content : forall res H ops tbq k t,
  0 < res -> Forall (op_ok res H) ops -> 0 <= tbq -> tbq + res <= H -> H <= t -> 0 < t ->
  content K keqb cell cempty cmerge res tbq (srun K keqb cell cempty cmerge res ops) k t
  = spec_cell K keqb cell res k t ops cempty.
Proof.
  intros res H ops tbq k t Hr Hok Hq HqH Ht H0.
  change (srun K keqb cell cempty cmerge res ops) with (run_from res (sinit K cell) ops).
  change (content K keqb cell cempty cmerge res tbq (run_from res (sinit K cell) ops) k t)
    with (dd res (merged K keqb cell cempty cmerge res tbq (run_from res (sinit K cell) ops) k) t).
  rewrite merged_view; try assumption; try lia; [|eapply wf_run; try eassumption; apply wf_init].
  rewrite (view_run res H) by (assumption || apply wf_init).
  f_equal. unfold view. cbn [sinit s_mem s_file lookup]. rewrite dend_none. apply cmerge_empty_l.
Qed.

(* ---------- corollaries ---------- *)
(* flush timing / data location is invisible: two operation lists with the same inserts in the same order *)
Definition inserts_of (ops:list (sop K cell)) :=
  filter (fun o => match o with SInsert _ _ _ _ _ _ => true | SFlush _ _ _ _ => false end) ops.

Lemma spec_cell_inserts : forall res k t ops acc,
  sp res k t ops acc = sp res k t (inserts_of ops) acc.
Proof.
  intros res k t ops. induction ops as [|o r IH]; intros acc; [reflexivity|].
  destruct o as [k' ts tb f|tb raw]; cbn [inserts_of filter spec_cell]; [|apply IH].
  destruct (keqb k k' && (round_up ts res =? t)); apply IH.
Qed.

Corollary schedule_independent : forall res H ops1 ops2 tbq k t,
  0 < res -> Forall (op_ok res H) ops1 -> Forall (op_ok res H) ops2 -> 0 <= tbq -> tbq + res <= H -> H <= t -> 0 < t ->
  spec_cell K keqb cell res k t (inserts_of ops1) cempty = spec_cell K keqb cell res k t (inserts_of ops2) cempty ->
  content K keqb cell cempty cmerge res tbq (srun K keqb cell cempty cmerge res ops1) k t =
  content K keqb cell cempty cmerge res tbq (srun K keqb cell cempty cmerge res ops2) k t.
Proof.
  intros res H ops1 ops2 tbq k t Hr Hok1 Hok2 Hq HqH Ht H0 E.
  rewrite (store_content res H ops1), (store_content res H ops2) by assumption.
  rewrite (spec_cell_inserts res k t ops1), (spec_cell_inserts res k t ops2). exact E.
Qed.

(* in particular: the same inserts in the same order, flushes placed anywhere *)
Corollary schedule_independent_same_inserts : forall res H ops1 ops2 tbq k t,
  0 < res -> Forall (op_ok res H) ops1 -> Forall (op_ok res H) ops2 -> 0 <= tbq -> tbq + res <= H -> H <= t -> 0 < t ->
  inserts_of ops1 = inserts_of ops2 ->
  content K keqb cell cempty cmerge res tbq (srun K keqb cell cempty cmerge res ops1) k t =
  content K keqb cell cempty cmerge res tbq (srun K keqb cell cempty cmerge res ops2) k t.
Proof.
  intros res H ops1 ops2 tbq k t Hr Hok1 Hok2 Hq HqH Ht H0 E.
  apply (schedule_independent res H); try assumption. rewrite E. reflexivity.
Qed.

(* immediately after a flush a disk-only reader sees what a memstore-inclusive reader sees
   (the memstore is empty then, so this holds for every key, period and bound; the side conditions
   are kept for uniformity with the other statements and are not used) *)
Corollary disk_equals_mem_after_flush : forall res H ops tb raw tbq k t,
  0 < res -> Forall (op_ok res H) ops -> op_ok res H (SFlush K cell tb raw) ->
  0 <= tbq -> tbq + res <= H -> H <= t -> 0 < t ->
  let st := srun K keqb cell cempty cmerge res (ops ++ [SFlush K cell tb raw]) in
  (match den cell res (merge cell cempty cmerge (lookup K keqb cell k (s_file K cell st)) None res tbq) t
   with Some c => c | None => cempty end)
  = content K keqb cell cempty cmerge res tbq st k t.
Proof.
  intros res H ops tb raw tbq k t _ _ _ _ _ _ _ st.
  unfold content, merged. replace (s_mem K cell st) with (@nil (K * seq cell)); [reflexivity|].
  unfold st, srun. rewrite fold_left_app. reflexivity.
Qed.

(* hence the disk-only reader after a flush finds exactly the reference value *)
Corollary disk_content_after_flush : forall res H ops tb raw tbq k t,
  0 < res -> Forall (op_ok res H) ops -> op_ok res H (SFlush K cell tb raw) ->
  0 <= tbq -> tbq + res <= H -> H <= t -> 0 < t ->
  let st := srun K keqb cell cempty cmerge res (ops ++ [SFlush K cell tb raw]) in
  (match den cell res (merge cell cempty cmerge (lookup K keqb cell k (s_file K cell st)) None res tbq) t
   with Some c => c | None => cempty end)
  = spec_cell K keqb cell res k t ops cempty.
Proof.
  intros res H ops tb raw tbq k t Hr Hok Hfl Hq HqH Ht H0 st.
  unfold st. rewrite (disk_equals_mem_after_flush res H) by assumption.
  assert (Hall : Forall (op_ok res H) (ops ++ [SFlush K cell tb raw]))
    by (apply Forall_app; split; [assumption|constructor; [assumption|constructor]]).
  rewrite (store_content res H) by assumption.
  rewrite spec_cell_inserts. symmetry. rewrite spec_cell_inserts.
  unfold inserts_of. rewrite filter_app. cbn [filter]. rewrite app_nil_r. reflexivity.
Qed.
End SP.

Print Assumptions store_content.
Print Assumptions schedule_independent.
Print Assumptions disk_equals_mem_after_flush.
Print Assumptions disk_content_after_flush.
