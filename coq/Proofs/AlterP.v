(* AlterP.v — facts about the alteration model (C15) *)
From Coq Require Import Lia QArith.
From Zeno Require Import Base Sort Expr ExprSpec DB Alter.

(* accepted points are never lost by an alteration, a flush or a restart *)
Lemma astep_acc_extends : forall s o, exists l, a_acc (astep s o) = a_acc s ++ l.
Proof.
  intros s [p|fs w| |]; cbn [astep].
  - destruct (flag (a_where s) p); [exists [p]|exists []; rewrite app_nil_r]; reflexivity.
  - exists []. rewrite app_nil_r. reflexivity.
  - exists []. rewrite app_nil_r. reflexivity.
  - exists []. rewrite app_nil_r. reflexivity.
Qed.

(* a field that keeps its name and expression keeps the point from which it aggregates *)
Lemma alter_keeps_since : forall old now new n e f,
  In (n, e) new -> find (same_field n e) old = Some f ->
  In {| af_name := n; af_expr := e; af_since := af_since f |} (alter_fields old now new).
Proof.
  intros old now new n e f Hin Hf. unfold alter_fields. apply in_map_iff. exists (n, e). cbn [fst snd]. rewrite Hf. auto.
Qed.

(* a field that is new (no field of that name and expression in the previous definition) starts empty:
   it aggregates only points accepted from now on *)
Lemma alter_new_since : forall old now new n e,
  In (n, e) new -> find (same_field n e) old = None ->
  In {| af_name := n; af_expr := e; af_since := now |} (alter_fields old now new).
Proof.
  intros old now new n e Hin Hf. unfold alter_fields. apply in_map_iff. exists (n, e). cbn [fst snd]. rewrite Hf. auto.
Qed.

(* the new definition has exactly the new fields, in the new order *)
Lemma alter_fields_names : forall old now new, map (fun f => (af_name f, af_expr f)) (alter_fields old now new) = new.
Proof.
  intros old now. unfold alter_fields. induction new as [|[n e] new IH]; [reflexivity|]. cbn [map fst snd]. rewrite IH.
  destruct (find (same_field n e) old); reflexivity.
Qed.

(* points contributing to a field: exactly those processed since it was added *)
Lemma pts_since_spec : forall n acc p, In p (pts_since n acc) <-> exists i, (n <= i)%nat /\ In (i, p) acc.
Proof.
  intros n acc p. unfold pts_since. rewrite in_map_iff. split.
  - intros [[i q] [E H]]. cbn in E. subst q. apply filter_In in H. destruct H as [H1 H2]. cbn in H2.
    apply Nat.leb_le in H2. exists i. split; assumption.
  - intros [i [Hi H]]. exists (i, p). split; [reflexivity|]. apply filter_In. split; [exact H|]. cbn. apply Nat.leb_le. exact Hi.
Qed.
Lemma pts_since_zero : forall acc, pts_since 0 acc = map snd acc.
Proof.
  intros acc. unfold pts_since. f_equal. induction acc as [|x acc IH]; [reflexivity|].
  cbn [filter]. cbn [Nat.leb]. f_equal. exact IH.
Qed.

(* a new WHERE judges only the points processed after the change *)
Lemma where_from_then_on : forall s fs w p,
  a_acc (astep (astep s (AAlter fs w)) (AIns p)) = if flag w p then a_acc s ++ [p] else a_acc s.
Proof. intros s fs w p. cbn [astep a_where a_acc]. destruct (flag w p); reflexivity. Qed.
