(* CrashP.v — proofs about Model/Crash.v: whatever kills, reopenings and flushes happen, the table of the fixed code
   (atomic = true) always holds a prefix of the acknowledged inserts, each exactly once, and after catching up holds all
   of them; the code as shipped (atomic = false) does not, because of array inserts split around a flush. *)
From Coq Require Import List Arith Bool Lia.
From Zeno Require Import Crash.
Import ListNotations.

#[local] Arguments items : simpl never.
#[local] Arguments expected_upto : simpl never.
#[local] Arguments expected : simpl never.
#[local] Arguments Nat.ltb : simpl never.

(* ------------------------------------------------------------------------------------------------------------ *)
(* expand_from / expected_upto                                                                                    *)

Definition sub_of (off:nat) (e:centry) : list (nat * nat) :=
  if c_pass e then map (fun i => (off, i)) (seq 0 (S (c_k e))) else [].

Lemma expand_from_cons : forall e t b, expand_from (e :: t) b = sub_of b e ++ expand_from t (S b).
Proof. reflexivity. Qed.

Lemma expand_from_app : forall l1 l2 b,
  expand_from (l1 ++ l2) b = expand_from l1 b ++ expand_from l2 (length l1 + b).
Proof.
  induction l1 as [|e t IH]; intros l2 b.
  - reflexivity.
  - rewrite <- app_comm_cons. rewrite !expand_from_cons. rewrite IH.
    rewrite app_assoc. cbn [length]. rewrite Nat.add_succ_r. reflexivity.
Qed.

Lemma firstn_S_nth_c : forall (l:list centry) n, n < length l ->
  firstn (S n) l = firstn n l ++ [nth n l dcentry].
Proof.
  induction l as [|e t IH]; intros n Hn.
  - cbn in Hn. lia.
  - destruct n as [|n].
    + reflexivity.
    + cbn [length] in Hn. change (firstn (S (S n)) (e :: t)) with (e :: firstn (S n) t).
      rewrite IH by lia. reflexivity.
Qed.

Lemma expected_upto_S : forall wal n, n < length wal ->
  expected_upto wal (S n) = expected_upto wal n ++ sub_of (S n) (nth n wal dcentry).
Proof.
  intros wal n Hn. unfold expected_upto.
  rewrite firstn_S_nth_c by exact Hn.
  rewrite expand_from_app.
  rewrite firstn_length_le by lia.
  rewrite expand_from_cons. cbn [expand_from]. rewrite app_nil_r.
  rewrite Nat.add_1_r. reflexivity.
Qed.

Lemma expected_upto_app : forall wal l n, n <= length wal ->
  expected_upto (wal ++ l) n = expected_upto wal n.
Proof.
  intros wal l n Hn. unfold expected_upto.
  rewrite firstn_app.
  replace (n - length wal) with 0 by lia.
  cbn [firstn]. rewrite app_nil_r. reflexivity.
Qed.

Lemma expected_upto_all : forall wal, expected_upto wal (length wal) = expected wal.
Proof. intros wal. unfold expected_upto, expected. rewrite firstn_all. reflexivity. Qed.

(* ------------------------------------------------------------------------------------------------------------ *)
(* the items read and not yet applied                                                                             *)

Definition item_of (off:nat) (e:centry) : pitem :=
  if c_pass e then PIns off (seq 0 (S (c_k e))) else PSkip off.

Lemma items_true_item : forall off e, items true off e = [item_of off e].
Proof. intros off e. unfold items, item_of. destruct (c_pass e); reflexivity. Qed.

Definition pend_of (wal:list centry) (a b:nat) : list pitem :=
  flat_map (fun i => items true (S i) (nth i wal dcentry)) (seq a (b - a)).

#[local] Arguments pend_of : simpl never.

Lemma pend_of_nil : forall wal a, pend_of wal a a = [].
Proof. intros wal a. unfold pend_of. rewrite Nat.sub_diag. reflexivity. Qed.

Lemma pend_of_snoc : forall wal a b, a <= b ->
  pend_of wal a (S b) = pend_of wal a b ++ items true (S b) (nth b wal dcentry).
Proof.
  intros wal a b Hab. unfold pend_of.
  replace (S b - a) with (S (b - a)) by lia.
  rewrite seq_S. rewrite flat_map_app. cbn [flat_map]. rewrite app_nil_r.
  replace (a + (b - a)) with b by lia. reflexivity.
Qed.

Lemma pend_of_head : forall wal a b, a < b ->
  pend_of wal a b = items true (S a) (nth a wal dcentry) ++ pend_of wal (S a) b.
Proof.
  intros wal a b Hab. unfold pend_of.
  replace (b - a) with (S (b - S a)) by lia.
  cbn [seq flat_map]. reflexivity.
Qed.

Lemma flat_map_seq_ext : forall (f g:nat -> list pitem) n a,
  (forall i, a <= i < a + n -> f i = g i) -> flat_map f (seq a n) = flat_map g (seq a n).
Proof.
  intros f g. induction n as [|n IH]; intros a H.
  - reflexivity.
  - cbn [seq flat_map]. rewrite H by lia. rewrite (IH (S a)).
    + reflexivity.
    + intros i Hi. apply H. lia.
Qed.

Lemma pend_of_app_wal : forall wal l a b, b <= length wal ->
  pend_of (wal ++ l) a b = pend_of wal a b.
Proof.
  intros wal l a b Hb. unfold pend_of.
  apply flat_map_seq_ext. intros i Hi.
  rewrite app_nth1 by lia. reflexivity.
Qed.

(* ------------------------------------------------------------------------------------------------------------ *)
(* the invariant of the fixed code                                                                                *)

Definition cP (s:cstate) : nat := Nat.max (c_foff s) (c_ofile s).

Definition cinv (s:cstate) : Prop :=
  cP s <= length (c_wal s) /\
  c_file s = expected_upto (c_wal s) (cP s) /\
  (c_up s = true ->
     cP s <= c_moff s /\ c_moff s <= c_rpos s /\ c_rpos s <= length (c_wal s) /\
     c_file s ++ c_mem s = expected_upto (c_wal s) (c_moff s) /\
     c_pend s = pend_of (c_wal s) (c_moff s) (c_rpos s) /\
     (c_changed s = false -> c_moff s = cP s)).

Lemma cinv_init : cinv cinit.
Proof.
  unfold cinv, cP. cbn.
  split; [lia|]. split; [reflexivity|]. intros _.
  repeat split; try lia.
Qed.

Lemma cinv_step : forall s o, cinv s -> cinv (cstep true s o).
Proof.
  intros s o H.
  destruct s as [wal file foff ofile up rpos pend mem moff changed].
  unfold cinv, cP in *. cbn in H. destruct H as (H1 & H2 & H3).
  destruct o as [p k | | | | | ].
  - (* Ack *)
    cbn. rewrite app_length. cbn [length].
    split; [lia|]. split; [rewrite expected_upto_app by lia; exact H2|].
    intros Hup. destruct (H3 Hup) as (A & B & C & D & E & F).
    split; [lia|]. split; [lia|]. split; [lia|].
    split; [rewrite expected_upto_app by lia; exact D|].
    split; [rewrite pend_of_app_wal by lia; exact E|]. exact F.
  - (* Read *)
    destruct up; cbn.
    + destruct (H3 eq_refl) as (A & B & C & D & E & F).
      destruct (Nat.ltb_spec rpos (length wal)) as [Hlt|Hge]; cbn.
      * split; [lia|]. split; [exact H2|]. intros _.
        split; [lia|]. split; [lia|]. split; [lia|]. split; [exact D|].
        split; [rewrite pend_of_snoc by lia; rewrite E; reflexivity|]. exact F.
      * split; [lia|]. split; [exact H2|]. intros _.
        split; [lia|]. split; [lia|]. split; [lia|]. split; [exact D|].
        split; [exact E|]. exact F.
    + split; [lia|]. split; [exact H2|]. intros Hf. discriminate Hf.
  - (* Apply *)
    destruct up; cbn.
    + destruct (H3 eq_refl) as (A & B & C & D & E & F).
      destruct pend as [|it t]; cbn.
      * split; [lia|]. split; [exact H2|]. intros _.
        split; [lia|]. split; [lia|]. split; [lia|]. split; [exact D|].
        split; [exact E|]. exact F.
      * destruct (Nat.eq_dec moff rpos) as [Heq|Hne].
        { subst rpos. rewrite pend_of_nil in E. discriminate E. }
        rewrite pend_of_head in E by lia. rewrite items_true_item in E.
        cbn [app] in E. injection E as E1 E2. subst it t.
        pose proof (expected_upto_S wal moff ltac:(lia)) as HS.
        unfold sub_of in HS. unfold item_of.
        destruct (c_pass (nth moff wal dcentry)); cbn.
        -- split; [lia|]. split; [exact H2|]. intros _.
           split; [lia|]. split; [lia|]. split; [lia|].
           split; [rewrite HS; rewrite app_assoc; rewrite D; reflexivity|].
           split; [reflexivity|]. intros Hf. discriminate Hf.
        -- split; [lia|]. split; [exact H2|]. intros _.
           split; [lia|]. split; [lia|]. split; [lia|].
           split; [rewrite HS; rewrite app_nil_r; exact D|].
           split; [reflexivity|]. intros Hf. discriminate Hf.
    + split; [lia|]. split; [exact H2|]. intros Hf. discriminate Hf.
  - (* Flush *)
    destruct up; cbn.
    + destruct (H3 eq_refl) as (A & B & C & D & E & F).
      destruct mem as [|m mem']; cbn.
      * rewrite app_nil_r in D.
        destruct changed; cbn.
        -- replace (Nat.max foff moff) with moff by lia.
           split; [lia|]. split; [exact D|]. intros _.
           split; [lia|]. split; [lia|]. split; [lia|].
           split; [rewrite app_nil_r; exact D|]. split; [exact E|]. intros _. reflexivity.
        -- split; [lia|]. split; [exact H2|]. intros _.
           split; [lia|]. split; [lia|]. split; [lia|].
           split; [rewrite app_nil_r; exact D|]. split; [exact E|]. exact F.
      * replace (Nat.max moff ofile) with moff by lia.
        split; [lia|]. split; [exact D|]. intros _.
        split; [lia|]. split; [lia|]. split; [lia|].
        split; [rewrite app_nil_r; exact D|]. split; [exact E|]. intros _. reflexivity.
    + split; [lia|]. split; [exact H2|]. intros Hf. discriminate Hf.
  - (* Crash *)
    cbn. split; [lia|]. split; [exact H2|]. intros Hf. discriminate Hf.
  - (* Open *)
    destruct up; cbn.
    + split; [lia|]. split; [exact H2|]. exact H3.
    + split; [lia|]. split; [exact H2|]. intros _.
      split; [lia|]. split; [lia|]. split; [lia|].
      split; [rewrite app_nil_r; exact H2|]. split; [rewrite pend_of_nil; reflexivity|].
      intros _. reflexivity.
Qed.

Lemma crun_nil : forall a s, crun a s [] = s.
Proof. reflexivity. Qed.

Lemma crun_cons : forall a s o ops, crun a s (o :: ops) = crun a (cstep a s o) ops.
Proof. reflexivity. Qed.

Lemma cinv_run : forall ops s, cinv s -> cinv (crun true s ops).
Proof.
  induction ops as [|o ops IH]; intros s H.
  - exact H.
  - rewrite crun_cons. apply IH. apply cinv_step. exact H.
Qed.

Lemma cinv_reach : forall ops, cinv (crun true cinit ops).
Proof. intros ops. apply cinv_run. apply cinv_init. Qed.

(* at every reachable state of the fixed code, while the process is up, the table reflects exactly the entries up to
   the memstore offset *)
Theorem content_is_prefix : forall ops, let s := crun true cinit ops in
  c_up s = true -> ccontent s = expected_upto (c_wal s) (c_moff s) /\ c_moff s <= length (c_wal s).
Proof.
  intros ops s Hup.
  pose proof (cinv_reach ops) as H. fold s in H.
  destruct H as (H1 & H2 & H3). destruct (H3 Hup) as (A & B & C & D & E & F).
  split; [exact D | lia].
Qed.

(* what is on disk is always a prefix too *)
Theorem disk_is_prefix : forall ops, let s := crun true cinit ops in
  c_file s = expected_upto (c_wal s) (Nat.max (c_foff s) (c_ofile s)) /\
  Nat.max (c_foff s) (c_ofile s) <= length (c_wal s).
Proof.
  intros ops s.
  pose proof (cinv_reach ops) as H. fold s in H.
  destruct H as (H1 & H2 & H3). unfold cP in *.
  split; [exact H2 | exact H1].
Qed.

(* ------------------------------------------------------------------------------------------------------------ *)
(* catching up                                                                                                    *)

Lemma apply_facts : forall s, c_up s = true ->
  c_up (cstep true s Apply) = true /\ c_wal (cstep true s Apply) = c_wal s /\
  c_rpos (cstep true s Apply) = c_rpos s /\
  length (c_pend (cstep true s Apply)) = pred (length (c_pend s)).
Proof.
  intros s Hup.
  destruct s as [wal file foff ofile up rpos pend mem moff changed].
  cbn in Hup. subst up. cbn.
  destruct pend as [|[off subs|off] t]; cbn; repeat split; reflexivity.
Qed.

Lemma apply_all : forall n s, cinv s -> c_up s = true -> length (c_pend s) = n ->
  cinv (crun true s (repeat Apply n)) /\
  c_up (crun true s (repeat Apply n)) = true /\
  c_pend (crun true s (repeat Apply n)) = [] /\
  c_wal (crun true s (repeat Apply n)) = c_wal s /\
  c_rpos (crun true s (repeat Apply n)) = c_rpos s.
Proof.
  induction n as [|n IH]; intros s Hi Hu Hl.
  - cbn [repeat]. rewrite crun_nil. apply length_zero_iff_nil in Hl.
    split; [exact Hi|]. split; [exact Hu|]. split; [exact Hl|]. split; reflexivity.
  - cbn [repeat]. rewrite !crun_cons.
    destruct (apply_facts s Hu) as (U & W & R & L).
    assert (Hl' : length (c_pend (cstep true s Apply)) = n) by lia.
    destruct (IH (cstep true s Apply) (cinv_step s Apply Hi) U Hl') as (I1 & U1 & P1 & W1 & R1).
    unfold crun in *.
    split; [exact I1|]. split; [exact U1|]. split; [exact P1|].
    split; [rewrite W1; exact W | rewrite R1; exact R].
Qed.

Lemma read_facts : forall s, c_up s = true -> c_rpos s < length (c_wal s) ->
  c_up (cstep true s Read) = true /\ c_wal (cstep true s Read) = c_wal s /\
  c_rpos (cstep true s Read) = S (c_rpos s).
Proof.
  intros s Hup Hlt.
  destruct s as [wal file foff ofile up rpos pend mem moff changed].
  cbn in Hup, Hlt. subst up. cbn.
  destruct (Nat.ltb_spec rpos (length wal)) as [_|Hge]; [|lia].
  cbn. repeat split; reflexivity.
Qed.

Lemma open_facts : forall s,
  c_up (cstep true s Open) = true /\ c_wal (cstep true s Open) = c_wal s.
Proof.
  intros s.
  destruct s as [wal file foff ofile up rpos pend mem moff changed].
  cbn. destruct up; cbn; split; reflexivity.
Qed.

Local Notation round st :=
  (crun true (cstep true st Read) (repeat Apply (length (c_pend (cstep true st Read))))).

Lemma catch_loop : forall n a s, cinv s -> c_up s = true -> c_pend s = [] ->
  length (c_wal s) - c_rpos s = n ->
  cinv (fold_left (fun st (_:nat) => round st) (seq a n) s) /\
  c_up (fold_left (fun st (_:nat) => round st) (seq a n) s) = true /\
  c_pend (fold_left (fun st (_:nat) => round st) (seq a n) s) = [] /\
  c_rpos (fold_left (fun st (_:nat) => round st) (seq a n) s) =
    length (c_wal (fold_left (fun st (_:nat) => round st) (seq a n) s)) /\
  c_wal (fold_left (fun st (_:nat) => round st) (seq a n) s) = c_wal s.
Proof.
  induction n as [|n IH]; intros a s Hi Hu Hp Hn.
  - cbn [seq fold_left].
    destruct Hi as (H1 & H2 & H3). destruct (H3 Hu) as (A & B & C & D & E & F).
    split; [split; [exact H1|split; [exact H2|exact H3]]|].
    split; [exact Hu|]. split; [exact Hp|]. split; [lia|reflexivity].
  - cbn [seq fold_left].
    assert (Hlt : c_rpos s < length (c_wal s)) by lia.
    destruct (read_facts s Hu Hlt) as (U & W & R).
    destruct (apply_all (length (c_pend (cstep true s Read))) (cstep true s Read)
                (cinv_step s Read Hi) U eq_refl) as (I1 & U1 & P1 & W1 & R1).
    assert (Hn' : length (c_wal (round s)) - c_rpos (round s) = n).
    { rewrite W1, R1, W, R. lia. }
    destruct (IH (S a) (round s) I1 U1 P1 Hn') as (I2 & U2 & P2 & R2 & W2).
    split; [exact I2|]. split; [exact U2|]. split; [exact P2|]. split; [exact R2|].
    rewrite W2, W1. exact W.
Qed.

Lemma catch_up_correct : forall s, cinv s ->
  caught_up (catch_up true s) = true /\
  ccontent (catch_up true s) = expected (c_wal (catch_up true s)) /\
  c_wal (catch_up true s) = c_wal s.
Proof.
  intros s Hi.
  unfold catch_up. cbv zeta.
  destruct (open_facts s) as (U1 & W1).
  pose proof (cinv_step s Open Hi) as I1.
  set (s1 := cstep true s Open) in *.
  destruct (apply_all (length (c_pend s1)) s1 I1 U1 eq_refl) as (I2 & U2 & P2 & W2 & R2).
  set (s2 := crun true s1 (repeat Apply (length (c_pend s1)))) in *.
  destruct (catch_loop (length (c_wal s2) - c_rpos s2) 0 s2 I2 U2 P2 eq_refl) as (I3 & U3 & P3 & R3 & W3).
  set (s3 := fold_left (fun st (_:nat) => round st) (seq 0 (length (c_wal s2) - c_rpos s2)) s2) in *.
  split.
  - unfold caught_up. rewrite U3, P3, R3, Nat.eqb_refl. reflexivity.
  - split.
    + destruct I3 as (H1 & H2 & H3). destruct (H3 U3) as (A & B & C & D & E & F).
      assert (Hm : c_moff s3 = c_rpos s3).
      { destruct (Nat.eq_dec (c_moff s3) (c_rpos s3)) as [Heq|Hne]; [exact Heq|].
        rewrite P3 in E. rewrite pend_of_head in E by lia. rewrite items_true_item in E.
        cbn [app] in E. discriminate E. }
      unfold ccontent. rewrite D, Hm, R3. apply expected_upto_all.
    + rewrite W3, W2. exact W1.
Qed.

(* main: kill the process at any instant of any history (any number of times), restart, let ingestion catch up:
   every acknowledged insert is reflected exactly once *)
Theorem crash_recovery_exactly_once : forall ops, let s := catch_up true (crun true cinit ops) in
  caught_up s = true /\ ccontent s = expected (c_wal s) /\ c_wal s = c_wal (crun true cinit ops).
Proof.
  intros ops s. subst s.
  destruct (catch_up_correct (crun true cinit ops) (cinv_reach ops)) as (A & B & C).
  split; [exact A|]. split; [exact B|exact C].
Qed.

(* ------------------------------------------------------------------------------------------------------------ *)
(* multiplicities                                                                                                 *)

Definition pair_eq_dec : forall x y : nat * nat, {x = y} + {x <> y}.
Proof. decide equality; apply Nat.eq_dec. Defined.

Lemma count_occ_map_seq : forall n a b off i,
  count_occ pair_eq_dec (map (fun j => (b, j)) (seq a n)) (off, i) =
  if (off =? b) && (a <=? i) && (i <? a + n) then 1 else 0.
Proof.
  induction n as [|n IH]; intros a b off i.
  - cbn [seq map count_occ].
    destruct (Nat.eqb_spec off b), (Nat.leb_spec a i), (Nat.ltb_spec i (a + 0)); cbn; lia.
  - cbn [seq map count_occ].
    destruct (pair_eq_dec (b, a) (off, i)) as [e|ne].
    + injection e as e1 e2. subst off i. rewrite IH.
      destruct (Nat.eqb_spec b b), (Nat.leb_spec (S a) a), (Nat.leb_spec a a),
               (Nat.ltb_spec a (S a + n)), (Nat.ltb_spec a (a + S n)); cbn; lia.
    + assert (Hd : off <> b \/ a <> i).
      { destruct (Nat.eq_dec off b) as [e1|n1]; [|left; exact n1].
        destruct (Nat.eq_dec a i) as [e2|n2]; [|right; exact n2].
        exfalso. apply ne. subst. reflexivity. }
      rewrite IH.
      destruct (Nat.eqb_spec off b), (Nat.leb_spec (S a) i), (Nat.leb_spec a i),
               (Nat.ltb_spec i (S a + n)), (Nat.ltb_spec i (a + S n)); cbn; lia.
Qed.

Lemma count_occ_sub_of : forall b e off i,
  count_occ pair_eq_dec (sub_of b e) (off, i) =
  if (off =? b) && (c_pass e && (i <=? c_k e)) then 1 else 0.
Proof.
  intros b e off i. unfold sub_of.
  destruct (c_pass e).
  - rewrite count_occ_map_seq.
    destruct (Nat.eqb_spec off b), (Nat.leb_spec 0 i), (Nat.ltb_spec i (0 + S (c_k e))),
             (Nat.leb_spec i (c_k e)); cbn; lia.
  - cbn. rewrite andb_false_r. reflexivity.
Qed.

Lemma count_occ_expand : forall l b off i,
  count_occ pair_eq_dec (expand_from l b) (off, i) =
  if (b <=? off) && (off <? b + length l) &&
     (c_pass (nth (off - b) l dcentry) && (i <=? c_k (nth (off - b) l dcentry)))
  then 1 else 0.
Proof.
  induction l as [|e t IH]; intros b off i.
  - cbn [expand_from count_occ length].
    destruct (Nat.leb_spec b off), (Nat.ltb_spec off (b + 0)); cbn; try reflexivity; lia.
  - rewrite expand_from_cons, count_occ_app, IH, count_occ_sub_of. cbn [length].
    destruct (lt_eq_lt_dec off b) as [[Hlt|Heq]|Hgt].
    + replace (off =? b) with false by (symmetry; apply Nat.eqb_neq; lia).
      replace (b <=? off) with false by (symmetry; apply Nat.leb_gt; lia).
      replace (S b <=? off) with false by (symmetry; apply Nat.leb_gt; lia).
      reflexivity.
    + subst off.
      rewrite Nat.eqb_refl, Nat.leb_refl.
      replace (S b <=? b) with false by (symmetry; apply Nat.leb_gt; lia).
      replace (b <? b + S (length t)) with true by (symmetry; apply Nat.ltb_lt; lia).
      rewrite Nat.sub_diag. cbn [nth andb]. rewrite Nat.add_0_r. reflexivity.
    + replace (off =? b) with false by (symmetry; apply Nat.eqb_neq; lia).
      replace (b <=? off) with true by (symmetry; apply Nat.leb_le; lia).
      replace (S b <=? off) with true by (symmetry; apply Nat.leb_le; lia).
      replace (b + S (length t)) with (S b + length t) by lia.
      replace (off - b) with (S (off - S b)) by lia.
      cbn [nth andb plus]. reflexivity.
Qed.

Theorem every_acked_insert_once : forall ops, let s := catch_up true (crun true cinit ops) in
  forall off i, count_occ pair_eq_dec (ccontent s) (off, i) =
    if (andb (andb (Nat.leb 1 off) (Nat.leb off (length (c_wal s))))
             (andb (c_pass (nth (off - 1) (c_wal s) dcentry))
                   (Nat.leb i (c_k (nth (off - 1) (c_wal s) dcentry)))))
    then 1 else 0.
Proof.
  intros ops s off i.
  destruct (crash_recovery_exactly_once ops) as (_ & B & _). fold s in B.
  rewrite B. unfold expected. rewrite count_occ_expand. reflexivity.
Qed.

(* ------------------------------------------------------------------------------------------------------------ *)
(* clean close                                                                                                    *)

Lemma clean_close_inv : forall s, cinv s -> caught_up s = true ->
  let s' := cstep true (cstep true (cstep true s Flush) Crash) Open in
  caught_up s' = true /\ ccontent s' = expected (c_wal s') /\ c_mem s' = [].
Proof.
  intros s Hi Hc.
  destruct s as [wal file foff ofile up rpos pend mem moff changed].
  unfold cinv, cP, caught_up, ccontent in *. cbn in Hi, Hc.
  destruct Hi as (H1 & H2 & H3).
  destruct up; [|discriminate Hc]. cbn in Hc.
  destruct (Nat.eqb_spec rpos (length wal)) as [Hr|Hr]; [|discriminate Hc]. cbn in Hc.
  destruct pend as [|it t]; [|discriminate Hc].
  destruct (H3 eq_refl) as (A & B & C & D & E & F).
  assert (Hm : moff = rpos).
  { destruct (Nat.eq_dec moff rpos) as [Heq|Hne]; [exact Heq|].
    rewrite pend_of_head in E by lia. rewrite items_true_item in E.
    cbn [app] in E. discriminate E. }
  subst rpos. subst moff.
  rewrite expected_upto_all in D.
  destruct mem as [|m mem']; cbn.
  - rewrite app_nil_r in D.
    destruct changed; cbn.
    + replace (Nat.max foff (length wal)) with (length wal) by lia.
      rewrite Nat.eqb_refl. cbn. rewrite app_nil_r. repeat split. exact D.
    + rewrite (F eq_refl). rewrite Nat.eqb_refl. cbn. rewrite app_nil_r. repeat split. exact D.
  - replace (Nat.max (length wal) ofile) with (length wal) by lia.
    rewrite Nat.eqb_refl. cbn. rewrite app_nil_r. repeat split. exact D.
Qed.

Theorem clean_close_special_case : forall ops, let s := crun true cinit ops in caught_up s = true ->
  let s' := cstep true (cstep true (cstep true s Flush) Crash) Open in
  caught_up s' = true /\ ccontent s' = expected (c_wal s') /\ c_mem s' = [].
Proof.
  intros ops s Hc. apply clean_close_inv; [apply cinv_reach | exact Hc].
Qed.

(* ------------------------------------------------------------------------------------------------------------ *)
(* the code as shipped                                                                                            *)

Theorem array_split_refuted : exists ops, let s := catch_up false (crun false cinit ops) in
  caught_up s = true /\ ccontent s <> expected (c_wal s).
Proof.
  exists [Ack true 1; Read; Apply; Flush; Crash]. cbv zeta.
  split.
  - vm_compute. reflexivity.
  - vm_compute. intros H. discriminate H.
Qed.

Lemma items_scalar : forall off e, c_k e = 0 -> items false off e = items true off e.
Proof.
  intros off e H. unfold items. rewrite H. destruct (c_pass e); reflexivity.
Qed.

Definition scalar_wal (l:list centry) : Prop := Forall (fun e => c_k e = 0) l.

Lemma scalar_nth : forall l n, scalar_wal l -> c_k (nth n l dcentry) = 0.
Proof.
  induction l as [|e t IH]; intros n H.
  - destruct n; reflexivity.
  - inversion H as [|x y Hx Hy]; subst. destruct n as [|n]; cbn [nth].
    + exact Hx.
    + apply IH. exact Hy.
Qed.

Lemma step_scalar : forall s o, scalar_wal (c_wal s) -> cstep false s o = cstep true s o.
Proof.
  intros s o H. destruct o; try reflexivity.
  cbn [cstep]. rewrite items_scalar by (apply scalar_nth; exact H). reflexivity.
Qed.

Lemma step_wal : forall a s o,
  c_wal (cstep a s o) = match o with Ack p k => c_wal s ++ [{| c_pass := p; c_k := k |}] | _ => c_wal s end.
Proof.
  intros a s o.
  destruct s as [wal file foff ofile up rpos pend mem moff changed].
  destruct o as [p k | | | | | ]; cbn.
  - reflexivity.
  - destruct up; cbn; [destruct (rpos <? length wal); cbn|]; reflexivity.
  - destruct up; cbn; [destruct pend as [|[off subs|off] t]; cbn|]; reflexivity.
  - destruct up; cbn; [destruct mem; cbn|]; reflexivity.
  - reflexivity.
  - destruct up; cbn; reflexivity.
Qed.

Lemma run_scalar : forall ops s, scalar_wal (c_wal s) -> (forall p k, In (Ack p k) ops -> k = 0) ->
  crun false s ops = crun true s ops.
Proof.
  induction ops as [|o ops IH]; intros s Hs Hk.
  - reflexivity.
  - rewrite !crun_cons. rewrite step_scalar by exact Hs.
    apply IH.
    + rewrite step_wal. destruct o as [p k | | | | | ]; try exact Hs.
      apply Forall_app. split; [exact Hs|].
      constructor; [|constructor]. cbn. apply (Hk p k). left. reflexivity.
    + intros p k Hin. apply (Hk p k). right. exact Hin.
Qed.

Theorem scalar_histories_unaffected : forall ops, (forall p k, In (Ack p k) ops -> k = 0) ->
  crun false cinit ops = crun true cinit ops.
Proof.
  intros ops Hk. apply run_scalar; [constructor | exact Hk].
Qed.

(* ------------------------------------------------------------------------------------------------------------ *)
(* non-vacuity                                                                                                    *)

Definition sample_history : list cop :=
  [Ack true 2; Ack false 0; Read; Apply; Flush;      (* array entry applied, data flush *)
   Read; Apply; Flush;                               (* skipped entry, offsets-only flush *)
   Crash; Open;                                      (* first kill and reopening *)
   Ack true 0; Read; Apply; Ack true 1; Read;        (* memstore and pending work lost by the second kill *)
   Crash; Open; Ack false 3].

Example sample_history_content :
  ccontent (catch_up true (crun true cinit sample_history)) = [(1,0); (1,1); (1,2); (3,0); (4,0); (4,1)] /\
  c_ofile (crun true cinit sample_history) = 2 /\ c_foff (crun true cinit sample_history) = 1.
Proof. vm_compute. repeat split. Qed.

Example crash_nonvacuous : exists ops, let s := catch_up true (crun true cinit ops) in
  4 <= length (ccontent s) /\ In Crash ops /\ In Flush ops.
Proof.
  exists sample_history. cbv zeta.
  split; [vm_compute; lia|].
  split; unfold sample_history; simpl; tauto.
Qed.

Print Assumptions content_is_prefix.
Print Assumptions disk_is_prefix.
Print Assumptions crash_recovery_exactly_once.
Print Assumptions every_acked_insert_once.
Print Assumptions clean_close_special_case.
Print Assumptions array_split_refuted.
Print Assumptions scalar_histories_unaffected.
Print Assumptions crash_nonvacuous.
