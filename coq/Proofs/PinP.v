(* PinP.v — proofs about Model/Pin.v: with capture and registration in one critical section every scan
   returns exactly the points applied before it began, whatever flushes and removals run meanwhile;
   with the two separated there is a schedule that loses a file's worth of points. *)
From Coq Require Import List Arith Bool Lia.
Import ListNotations.
From Zeno Require Import Pin.

Lemma mem_true_iff x l : mem x l = true <-> In x l.
Proof.
  unfold mem. rewrite existsb_exists. split.
  - intros [y [Hin Heq]]. apply Nat.eqb_eq in Heq. subst. exact Hin.
  - intros Hin. exists x. split; [exact Hin|apply Nat.eqb_refl].
Qed.

Lemma nth_error_set_nth_same {A} (l:list A) i x y : nth_error l i = Some y -> nth_error (set_nth i x l) i = Some x.
Proof. revert i; induction l as [|a l IH]; intros [|i] H; cbn in *; try discriminate; auto. Qed.

Lemma nth_error_set_nth_other {A} (l:list A) i j x : i <> j -> nth_error (set_nth i x l) j = nth_error l j.
Proof.
  revert i j; induction l as [|a l IH]; intros [|i] [|j] H; cbn; auto; try congruence.
Qed.

Lemma length_set_nth {A} (l:list A) i x : length (set_nth i x l) = length l.
Proof. revert i; induction l as [|a l IH]; intros [|i]; cbn; auto. Qed.

Lemma In_set_nth {A} (l:list A) i x z : In z (set_nth i x l) -> z = x \/ In z l.
Proof.
  revert i; induction l as [|a l IH]; intros [|i] H; cbn in *; auto.
  - destruct H as [H|H]; auto.
  - destruct H as [H|H]; auto. destruct (IH _ H); auto.
Qed.

(* ---------- the invariant of the atomic protocol ---------- *)
Definition scan_inv (s:pstate) (sc:pscan) : Prop :=
  match ps_phase sc with
  | Captured => False
  | Pinned => match ps_file sc with Some f => In (pf_id f) (p_disk s) | None => True end
  | Finished from upto => from = 0 /\ upto = ps_n sc
  end.

Definition pinv (s:pstate) : Prop :=
  (match p_cur s with Some f => In (pf_id f) (p_disk s) | None => True end) /\
  Forall (scan_inv s) (p_scans s).

Lemma pinv_init : pinv pinit.
Proof. split; cbn; auto. Qed.

Lemma scan_inv_disk s s' sc :
  (forall d, In d (p_disk s) -> In d (p_disk s')) -> scan_inv s sc -> scan_inv s' sc.
Proof.
  unfold scan_inv. intros Hd H. destruct (ps_phase sc); auto. destruct (ps_file sc); auto.
Qed.

Lemma pinned_in_ids s sc f : In sc (p_scans s) -> ps_phase sc = Pinned -> ps_file sc = Some f -> In (pf_id f) (pinned_ids s).
Proof.
  intros Hin Hp Hf. unfold pinned_ids. apply in_flat_map. exists sc. split; [exact Hin|]. rewrite Hp, Hf. left. reflexivity.
Qed.

Lemma pstep_atomic_inv s o : pinv s -> pinv (pstep true s o).
Proof.
  intros [Hc Hs]. destruct o as [| |ids| |i|i]; cbn [pstep].
  - (* insert *) split; cbn; [exact Hc|]. eapply Forall_impl; [|exact Hs]. intros sc. apply scan_inv_disk. auto.
  - (* flush *)
    destruct (Nat.ltb _ _); [|split; assumption].
    split; cbn.
    + apply in_or_app. right. left. reflexivity.
    + eapply Forall_impl; [|exact Hs]. intros sc. apply scan_inv_disk. cbn. intros d Hd. apply in_or_app. left. exact Hd.
  - (* remove *)
    destruct (forallb (removable s) ids) eqn:Hr; [|split; assumption].
    rewrite forallb_forall in Hr.
    assert (Hkeep: forall d, In d (p_disk s) -> mem d ids = false -> In d (filter (fun d0 => negb (mem d0 ids)) (p_disk s))).
    { intros d Hd Hm. apply filter_In. split; [exact Hd|]. rewrite Hm. reflexivity. }
    split; cbn.
    + destruct (p_cur s) as [f|] eqn:Ecur; [|exact I]. apply Hkeep; [exact Hc|].
      destruct (mem (pf_id f) ids) eqn:Hm; [|reflexivity]. apply mem_true_iff in Hm. specialize (Hr _ Hm).
      unfold removable in Hr. rewrite Ecur in Hr. cbn in Hr. rewrite Nat.eqb_refl in Hr. discriminate.
    + rewrite Forall_forall in *. intros sc Hin. specialize (Hs sc Hin). unfold scan_inv in *.
      destruct (ps_phase sc) eqn:Hp; auto. destruct (ps_file sc) as [f|] eqn:Hf; auto.
      cbn. apply Hkeep; [exact Hs|].
      destruct (mem (pf_id f) ids) eqn:Hm; [|reflexivity]. apply mem_true_iff in Hm. specialize (Hr _ Hm).
      unfold removable in Hr. apply andb_true_iff in Hr. destruct Hr as [_ Hr].
      assert (Hpin: mem (pf_id f) (pinned_ids s) = true) by (apply mem_true_iff; eapply pinned_in_ids; eauto).
      rewrite Hpin in Hr. discriminate.
  - (* begin *)
    split; cbn; [exact Hc|]. apply Forall_app. split.
    + eapply Forall_impl; [|exact Hs]. intros sc. apply scan_inv_disk. auto.
    + constructor; [|constructor]. unfold scan_inv. cbn. destruct (p_cur s); auto.
  - (* pin: no scan is in phase Captured *)
    destruct (nth_error (p_scans s) i) as [sc|] eqn:E; [|split; assumption].
    destruct (ps_phase sc) eqn:Hp; try (split; assumption).
    exfalso. rewrite Forall_forall in Hs. specialize (Hs sc (nth_error_In _ _ E)). unfold scan_inv in Hs. rewrite Hp in Hs. exact Hs.
  - (* read *)
    destruct (nth_error (p_scans s) i) as [sc|] eqn:E; [|split; assumption].
    destruct (ps_phase sc) eqn:Hp; try (split; assumption).
    split; cbn; [exact Hc|].
    rewrite Forall_forall in *. intros z Hz. apply In_set_nth in Hz. destruct Hz as [->|Hz].
    + unfold scan_inv. cbn. split; [|reflexivity].
      specialize (Hs sc (nth_error_In _ _ E)). unfold scan_inv in Hs. rewrite Hp in Hs.
      destruct (ps_file sc) as [f|]; [|reflexivity].
      apply mem_true_iff in Hs. rewrite Hs. reflexivity.
    + specialize (Hs z Hz). revert Hs. apply scan_inv_disk. auto.
Qed.

Lemma prun_atomic_inv_from ops s : pinv s -> pinv (fold_left (pstep true) ops s).
Proof. revert s; induction ops as [|o ops IH]; intros s H; cbn; [exact H|]. apply IH. apply pstep_atomic_inv. exact H. Qed.

Lemma prun_atomic_inv ops : pinv (prun true ops).
Proof. apply prun_atomic_inv_from. apply pinv_init. Qed.

(* every finished scan of every schedule returned the points [0, ps_n) *)
Theorem atomic_scans_return_their_snapshot ops sc from upto :
  In sc (p_scans (prun true ops)) -> ps_phase sc = Finished from upto -> from = 0 /\ upto = ps_n sc.
Proof.
  intros Hin Hp. destruct (prun_atomic_inv ops) as [_ Hs]. rewrite Forall_forall in Hs. specialize (Hs sc Hin).
  unfold scan_inv in Hs. rewrite Hp in Hs. exact Hs.
Qed.

Theorem atomic_all_scans_ok ops : forallb scan_ok (p_scans (prun true ops)) = true.
Proof.
  apply forallb_forall. intros sc Hin. unfold scan_ok. destruct (ps_phase sc) eqn:Hp; auto.
  destruct (atomic_scans_return_their_snapshot ops sc _ _ Hin Hp) as [-> ->]. rewrite !Nat.eqb_refl. reflexivity.
Qed.

(* a file with a registered reader is never deleted *)
Theorem pinned_file_stays ops sc f :
  In sc (p_scans (prun true ops)) -> ps_phase sc = Pinned -> ps_file sc = Some f -> In (pf_id f) (p_disk (prun true ops)).
Proof.
  intros Hin Hp Hf. destruct (prun_atomic_inv ops) as [_ Hs]. rewrite Forall_forall in Hs. specialize (Hs sc Hin).
  unfold scan_inv in Hs. rewrite Hp, Hf in Hs. exact Hs.
Qed.

(* ---------- ps_n is the number of points applied before the scan began ---------- *)
Definition count_ins (ops:list pop) : nat := length (filter (fun o => match o with PInsert => true | _ => false end) ops).
Definition count_begin (ops:list pop) : nat := length (filter (fun o => match o with PBegin => true | _ => false end) ops).

Lemma pstep_n atomic s o : p_n (pstep atomic s o) = match o with PInsert => S (p_n s) | _ => p_n s end.
Proof.
  destruct o as [| |ids| |i|i]; cbn [pstep]; auto.
  - destruct (Nat.ltb _ _); reflexivity.
  - destruct (forallb _ _); reflexivity.
  - destruct (nth_error _ _) as [sc|]; auto. destruct (ps_phase sc); reflexivity.
  - destruct (nth_error _ _) as [sc|]; auto. destruct (ps_phase sc); reflexivity.
Qed.

Lemma pstep_scans_len atomic s o :
  length (p_scans (pstep atomic s o)) = match o with PBegin => S (length (p_scans s)) | _ => length (p_scans s) end.
Proof.
  destruct o as [| |ids| |i|i]; cbn [pstep]; auto.
  - destruct (Nat.ltb _ _); reflexivity.
  - destruct (forallb _ _); reflexivity.
  - cbn. rewrite app_length. cbn. lia.
  - destruct (nth_error _ _) as [sc|]; auto. destruct (ps_phase sc); cbn; auto. apply length_set_nth.
  - destruct (nth_error _ _) as [sc|]; auto. destruct (ps_phase sc); cbn; auto. apply length_set_nth.
Qed.

(* a step never changes the snapshot size or the file of an existing scan *)
Lemma pstep_keeps_snapshot atomic s o j sc :
  nth_error (p_scans s) j = Some sc ->
  exists sc', nth_error (p_scans (pstep atomic s o)) j = Some sc' /\ ps_n sc' = ps_n sc /\ ps_file sc' = ps_file sc.
Proof.
  intros E. destruct o as [| |ids| |i|i]; cbn [pstep].
  - exists sc; auto.
  - destruct (Nat.ltb _ _); exists sc; auto.
  - destruct (forallb _ _); exists sc; auto.
  - exists sc. cbn. split; auto. rewrite nth_error_app1; [exact E|]. apply nth_error_Some. congruence.
  - destruct (nth_error (p_scans s) i) as [sci|] eqn:Ei; [|exists sc; auto].
    destruct (ps_phase sci); try (exists sc; auto; fail). cbn.
    destruct (Nat.eq_dec i j) as [->|Hne].
    + rewrite E in Ei. inversion Ei; subst. eexists. split; [eapply nth_error_set_nth_same; exact E|]. auto.
    + exists sc. rewrite nth_error_set_nth_other by exact Hne. auto.
  - destruct (nth_error (p_scans s) i) as [sci|] eqn:Ei; [|exists sc; auto].
    destruct (ps_phase sci); try (exists sc; auto; fail). cbn.
    destruct (Nat.eq_dec i j) as [->|Hne].
    + rewrite E in Ei. inversion Ei; subst. eexists. split; [eapply nth_error_set_nth_same; exact E|]. auto.
    + exists sc. rewrite nth_error_set_nth_other by exact Hne. auto.
Qed.

Lemma run_keeps_snapshot atomic ops s j sc :
  nth_error (p_scans s) j = Some sc ->
  exists sc', nth_error (p_scans (fold_left (pstep atomic) ops s)) j = Some sc' /\ ps_n sc' = ps_n sc /\ ps_file sc' = ps_file sc.
Proof.
  revert s sc; induction ops as [|o ops IH]; intros s sc E; cbn.
  - exists sc; auto.
  - destruct (pstep_keeps_snapshot atomic s o j sc E) as [sc1 [E1 [Hn Hf]]].
    destruct (IH _ _ E1) as [sc2 [E2 [Hn2 Hf2]]]. exists sc2. repeat split; congruence.
Qed.

Lemma run_counts atomic ops s :
  p_n (fold_left (pstep atomic) ops s) = p_n s + count_ins ops /\
  length (p_scans (fold_left (pstep atomic) ops s)) = length (p_scans s) + count_begin ops.
Proof.
  revert s; induction ops as [|o ops IH]; intros s; cbn [fold_left].
  - unfold count_ins, count_begin. cbn. lia.
  - destruct (IH (pstep atomic s o)) as [H1 H2]. rewrite H1, H2, pstep_n, pstep_scans_len.
    unfold count_ins, count_begin. destruct o; cbn; lia.
Qed.

(* the scan begun after [pre] has a snapshot of exactly the points inserted in [pre] *)
Theorem snapshot_is_history_prefix atomic pre post :
  exists sc, nth_error (p_scans (prun atomic (pre ++ PBegin :: post))) (count_begin pre) = Some sc /\ ps_n sc = count_ins pre.
Proof.
  unfold prun. rewrite fold_left_app. cbn [fold_left].
  set (s := fold_left (pstep atomic) pre pinit).
  destruct (run_counts atomic pre pinit) as [Hn Hl]. fold s in Hn, Hl. cbn in Hn, Hl.
  assert (E: nth_error (p_scans (pstep atomic s PBegin)) (count_begin pre)
             = Some {| ps_file := p_cur s; ps_n := p_n s; ps_phase := if atomic then Pinned else Captured |}).
  { cbn. rewrite nth_error_app2 by lia. rewrite Hl, Nat.sub_diag. reflexivity. }
  destruct (run_keeps_snapshot atomic post _ _ _ E) as [sc [E2 [Hn2 _]]].
  exists sc. split; [exact E2|]. rewrite Hn2. cbn. exact Hn.
Qed.

(* ---------- the shipped structure (capture, unlock, lock, pin) loses data on some schedule ---------- *)
Definition lost_file_schedule : list pop :=
  [PInsert; PInsert; PFlush;            (* file 0 holds points 0 and 1 *)
   PBegin;                              (* the scan captures file 0 and an empty memstore copy ... *)
   PInsert; PFlush; PInsert; PFlush;    (* ... two flushes later file 0 is old ... *)
   PRemove [0];                         (* ... nobody is registered on it: deleted *)
   PPin 0; PRead 0].                    (* the scan registers too late and finds no file: "no file store yet" *)

Theorem nonatomic_refuted : forallb scan_ok (p_scans (prun false lost_file_schedule)) = false.
Proof. vm_compute. reflexivity. Qed.

Theorem nonatomic_loses_whole_file :
  map ps_phase (p_scans (prun false lost_file_schedule)) = [Finished 2 2] /\
  map ps_phase (p_scans (prun true lost_file_schedule)) = [Finished 0 2].
Proof. vm_compute. split; reflexivity. Qed.
