(* CodecP.v — decode (encode e) = e for every expression; the translated codec table restores every
   behaviour-relevant field (C20) *)
From Coq Require Import String Lia.
From Zeno Require Import Base Expr Codec Facts.
Local Open Scope string_scope.

Lemma agg_name_roundtrip : forall a, agg_of_name (agg_name a) = Some a.
Proof. intros []; reflexivity. Qed.
Lemma op_name_roundtrip : forall o, op_of_name (op_name o) = Some o.
Proof. intros []; reflexivity. Qed.

Theorem decode_encode : forall e fuel, (esize e <= fuel)%nat -> decode fuel (encode e) = Some e.
Proof.
  induction e as [n|k|e IHe lo hi|a w IHw|v IHv w IHw|o l IHl r IHr|cid e IHe|e IHe off|f e IHe];
    intros fuel H; (destruct fuel as [|fuel]; [cbn in H; lia|]); cbn [encode decode wfield String.eqb Ascii.eqb Bool.eqb]; cbn in H.
  - reflexivity.
  - reflexivity.
  - rewrite IHe by lia. reflexivity.
  - cbn. rewrite agg_name_roundtrip, IHw by lia. reflexivity.
  - cbn. rewrite IHv, IHw by lia. reflexivity.
  - cbn. rewrite op_name_roundtrip, IHl, IHr by lia. reflexivity.
  - cbn. rewrite IHe by lia. reflexivity.
  - cbn. rewrite IHe by lia. reflexivity.
  - cbn. rewrite IHe by lia. reflexivity.
Qed.

Corollary roundtrip : forall e, decode (esize e) (encode e) = Some e.
Proof. intros e. apply decode_encode. lia. Qed.

Lemma codec_table_complete : codec_table_ok gen_codec = true.
Proof. vm_compute. reflexivity. Qed.

Lemma codec_every_type_restores_behaviour : forall row, In row gen_codec ->
  forall f, In f (behaviour_fields (fst (snd row))) -> smem f (restored row) = true.
Proof.
  intros row Hin f Hf. pose proof codec_table_complete as T. unfold codec_table_ok in T. rewrite forallb_forall in T.
  specialize (T row Hin). unfold codec_row_ok in T. rewrite forallb_forall in T. exact (T f Hf).
Qed.

Lemma codec_table_types : map (fun r => fst (snd r)) gen_codec =
  ["field"; "constant"; "bounded"; "aggregate"; "ifExpr"; "avg"; "binaryExpr"; "shift"; "unaryMathExpr"; "ptile"; "ptileOptimized"].
Proof. reflexivity. Qed.
