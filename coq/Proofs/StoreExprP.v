(* StoreExprP.v — the generic store refinement (StoreP.v) instantiated with zenodb's
   expression states: cells are the well-shaped states of an expression e, merging is
   Expr.merge, an insert applies Expr.update.  Result: for every flush schedule, what a
   memstore-inclusive reader finds for (key, period) reads, through Expr.get, as the declared
   aggregate of exactly the points of that key and period. *)
From Coq Require Import Lia QArith Eqdep_dec.
From Zeno Require Import Base Sort SortP Expr ExprSpec ExprP Seq Store StoreP DB DBP.
Local Open Scope Z_scope.

Section SE.
Variable e : expr.

Definition scell := { c : cell | shaped e c = true }.
Definition sc_empty : scell := exist _ (empty e) (shaped_empty e).
Definition sc_merge (x y:scell) : scell :=
  exist _ (Expr.merge e (proj1_sig x) (proj1_sig y)) (shaped_merge e _ _ (proj2_sig x) (proj2_sig y)).
Definition sc_update (p:point) (x:scell) : scell :=
  exist _ (update e (proj1_sig x) (p_vals p) (p_md p)) (shaped_update e _ _ _ (proj2_sig x)).

Lemma sc_eq : forall x y:scell, proj1_sig x = proj1_sig y -> x = y.
Proof.
  intros [x px] [y py] H. cbn in H. subst y. f_equal. apply UIP_dec. apply Bool.bool_dec.
Qed.

Lemma sc_merge_empty_l : forall x, sc_merge sc_empty x = x.
Proof. intros x. apply sc_eq. cbn. apply merge_empty_l. exact (proj2_sig x). Qed.
Lemma sc_merge_empty_r : forall x, sc_merge x sc_empty = x.
Proof. intros x. apply sc_eq. cbn. apply merge_empty_r. exact (proj2_sig x). Qed.
Lemma sc_merge_comm : forall x y, sc_merge x y = sc_merge y x.
Proof. intros x y. apply sc_eq. cbn. apply merge_comm; [exact (proj2_sig x)|exact (proj2_sig y)]. Qed.
Lemma sc_merge_update : forall p x y, sc_merge x (sc_update p y) = sc_update p (sc_merge x y).
Proof. intros p x y. apply sc_eq. cbn. apply merge_update; [exact (proj2_sig x)|exact (proj2_sig y)]. Qed.

(* table-level events: an accepted point (with the truncateBefore in force when it is processed) or a flush *)
Inductive ev := EIns (k:key) (ts tb:Z) (p:point) | EFlush (tb:Z) (raw:bool).
Definition to_sop (x:ev) : sop key scell :=
  match x with
  | EIns k ts tb p => SInsert key scell k ts tb (sc_update p)
  | EFlush tb raw => SFlush key scell tb raw
  end.
Definition ev_ok (res H:Z) (x:ev) : Prop :=
  match x with
  | EIns _ ts tb _ => 0 < ts /\ 0 <= tb /\ tb + res <= H
  | EFlush tb _ => 0 <= tb /\ tb + res <= H
  end.

(* the points of key k whose native period ends at t, in arrival order *)
Fixpoint points_of (res:Z) (k:key) (t:Z) (evs:list ev) : list point :=
  match evs with
  | [] => []
  | EIns k' ts _ p :: r => if key_eqb k k' && (round_up ts res =? t) then p :: points_of res k t r else points_of res k t r
  | EFlush _ _ :: r => points_of res k t r
  end.

Lemma ev_ok_op_ok : forall res H evs, Forall (ev_ok res H) evs ->
  Forall (op_ok key scell sc_merge res H) (map to_sop evs).
Proof.
  intros res H evs F. induction F as [|x r Hx _ IH]; cbn [map]; constructor; auto.
  destruct x as [k ts tb p|tb raw]; cbn in *; [|exact Hx].
  destruct Hx as [A [B C]]. repeat split; auto. intros a b. apply sc_merge_update.
Qed.

Lemma spec_cell_points : forall res k t evs acc,
  proj1_sig (spec_cell key key_eqb scell res k t (map to_sop evs) acc) = run e (points_of res k t evs) (proj1_sig acc).
Proof.
  intros res k t. induction evs as [|x r IH]; intros acc; [reflexivity|].
  destruct x as [k' ts tb p|tb raw]; cbn [map to_sop spec_cell points_of]; [|apply IH].
  destruct (key_eqb k k' && (round_up ts res =? t)); rewrite IH; reflexivity.
Qed.

Definition store_of (res:Z) (evs:list ev) : sstate key scell :=
  srun key key_eqb scell sc_empty sc_merge res (map to_sop evs).
Definition read (res tbq:Z) (evs:list ev) (k:key) (t:Z) : cell :=
  proj1_sig (content key key_eqb scell sc_empty sc_merge res tbq (store_of res evs) k t).

(* the state a reader finds is the state accumulated from exactly the points of (k, t) *)
Theorem store_reads_accumulated_state : forall res H evs tbq k t,
  0 < res -> Forall (ev_ok res H) evs -> 0 <= tbq -> tbq + res <= H -> H <= t -> 0 < t ->
  read res tbq evs k t = st e (points_of res k t evs).
Proof.
  intros res H evs tbq k t Hr Hok Hq HqH Ht H0. unfold read, store_of.
  rewrite (store_content key key_eqb key_eqb_eq scell sc_empty sc_merge sc_merge_empty_l sc_merge_empty_r sc_merge_comm
             res H (map to_sop evs) tbq k t Hr (ev_ok_op_ok res H evs Hok) Hq HqH Ht H0).
  rewrite spec_cell_points. reflexivity.
Qed.

(* ... and its value is the declared aggregate over exactly those points, whatever the flush schedule *)
Theorem store_reads_declared_aggregate : forall res H evs tbq k t,
  0 < res -> Forall (ev_ok res H) evs -> 0 <= tbq -> tbq + res <= H -> H <= t -> 0 < t ->
  get e (read res tbq evs k t) = ref e (points_of res k t evs).
Proof. intros. erewrite store_reads_accumulated_state by eassumption. apply get_ref. Qed.

Definition is_ins (x:ev) : bool := match x with EIns _ _ _ _ => true | EFlush _ _ => false end.
Lemma points_of_inserts : forall res k t evs, points_of res k t evs = points_of res k t (filter is_ins evs).
Proof.
  intros res k t. induction evs as [|x r IH]; [reflexivity|].
  destruct x as [k' ts tb p|tb raw]; cbn [filter is_ins points_of]; [|exact IH].
  destruct (key_eqb k k' && (round_up ts res =? t)); rewrite IH; reflexivity.
Qed.

(* two histories with the same inserts in the same order, split by any flushes, read the same *)
Theorem flush_schedule_irrelevant : forall res H evs1 evs2 tbq k t,
  0 < res -> Forall (ev_ok res H) evs1 -> Forall (ev_ok res H) evs2 -> 0 <= tbq -> tbq + res <= H -> H <= t -> 0 < t ->
  map (fun x => match x with EIns k ts _ p => Some (k, ts, p) | EFlush _ _ => None end) (filter is_ins evs1)
  = map (fun x => match x with EIns k ts _ p => Some (k, ts, p) | EFlush _ _ => None end) (filter is_ins evs2) ->
  read res tbq evs1 k t = read res tbq evs2 k t.
Proof.
  intros res H evs1 evs2 tbq k t Hr H1 H2 Hq HqH Ht H0 E.
  rewrite (store_reads_accumulated_state res H evs1 tbq k t), (store_reads_accumulated_state res H evs2 tbq k t); auto.
  f_equal. rewrite (points_of_inserts res k t evs1), (points_of_inserts res k t evs2).
  revert E. generalize (filter is_ins evs1) as a, (filter is_ins evs2) as b.
  induction a as [|x a IH]; intros b E; destruct b as [|y b]; cbn [map] in E; try discriminate; [reflexivity|].
  inversion E as [[E1 E2]].
  destruct x as [k1 ts1 tb1 p1|]; destruct y as [k2 ts2 tb2 p2|]; try discriminate.
  - inversion E1; subst. cbn [points_of]. rewrite (IH b E2). reflexivity.
  - cbn [points_of]. apply IH. exact E2.
Qed.

(* immediately after a flush a disk-only reader finds what a memstore-inclusive reader finds *)
Theorem disk_only_after_flush : forall res H evs tb raw tbq k t,
  0 < res -> Forall (ev_ok res H) evs -> ev_ok res H (EFlush tb raw) ->
  0 <= tbq -> tbq + res <= H -> H <= t -> 0 < t ->
  let s := store_of res (evs ++ [EFlush tb raw]) in
  proj1_sig (match den scell res (merge scell sc_empty sc_merge (lookup key key_eqb scell k (s_file key scell s)) None res tbq) t
             with Some c => c | None => sc_empty end)
  = read res tbq (evs ++ [EFlush tb raw]) k t.
Proof.
  intros res H evs tb raw tbq k t Hr Hok Hf Hq HqH Ht H0 s. unfold read, s, store_of. rewrite map_app. cbn [map to_sop].
  f_equal.
  apply (disk_equals_mem_after_flush key key_eqb scell sc_empty sc_merge
           res H (map to_sop evs) tb raw tbq k t Hr (ev_ok_op_ok res H evs Hok)); auto.
Qed.
End SE.
