(* PlanP.v — proofs about the planner's pushdown decision (Model/Plan.v, C11). *)
From Coq Require Import List Arith Bool Lia.
From Zeno Require Import Plan.
Import ListNotations.

(* ---------- membership / carried ---------- *)

Lemma memb_In : forall x l, memb x l = true <-> In x l.
Proof.
  intros x l. unfold memb. rewrite existsb_exists. split.
  - intros [y [Hin Heq]]. apply Nat.eqb_eq in Heq. subst y. exact Hin.
  - intros Hin. exists x. split; [exact Hin | apply Nat.eqb_refl].
Qed.

Lemma memb_carried : forall k pall pp gb, memb k (carried pall pp gb) = true ->
  exists n ps, In (n, ps) gb /\ pall || memb n pp = true /\ In k ps.
Proof.
  intros k pall pp gb H. apply memb_In in H. unfold carried in H. apply in_flat_map in H.
  destruct H as [[n ps] [Hin Hk]]. simpl in Hk.
  destruct (pall || memb n pp) eqn:E.
  - exists n, ps. split; [exact Hin | split; [exact E | exact Hk]].
  - destruct Hk.
Qed.

Lemma memb_map_fst : forall n ps (gb:list (nat * list nat)), In (n, ps) gb -> memb n (map fst gb) = true.
Proof.
  intros n ps gb Hin. apply memb_In. apply in_map_iff. exists (n, ps). split; [reflexivity | exact Hin].
Qed.

(* ---------- the walk, unfolded ---------- *)

Lemma pd_walk_one : forall pall pp b tgb pk,
  pd_walk pall pp [b] tgb pk =
    (match tgb with
     | None => true
     | Some tparams => negb (match pk with [] => true | _ => false end) && forallb (fun k => memb k tparams) pk
     end) &&
    (if l_all b && pall then true
     else negb (match pk with [] => true | _ => false end) &&
          forallb (fun k => memb k (if l_all b then pp else carried pall pp (l_gb b))) pk).
Proof. reflexivity. Qed.

Lemma pd_walk_cons2 : forall pall pp l l2 rest tgb pk,
  pd_walk pall pp (l :: l2 :: rest) tgb pk =
    if l_all l then pd_walk pall pp (l2 :: rest) tgb pk
    else pd_walk false (carried pall pp (l_gb l)) (l2 :: rest) tgb pk.
Proof. reflexivity. Qed.

(* the table check is part of every accepted walk *)
Lemma walk_table_check : forall ls pall pp tp pk,
  pd_walk pall pp ls (Some tp) pk = true -> forallb (fun k => memb k tp) pk = true.
Proof.
  induction ls as [|l rest IH]; intros pall pp tp pk H.
  - simpl in H. discriminate H.
  - destruct rest as [|l2 rest].
    + rewrite pd_walk_one in H. apply andb_true_iff in H. destruct H as [H1 _].
      apply andb_true_iff in H1. destruct H1 as [_ H1]. exact H1.
    + rewrite pd_walk_cons2 in H. destruct (l_all l); eapply IH; exact H.
Qed.

(* no partition keys: only the pass-through shape is accepted *)
Lemma walk_unkeyed : forall ls pall pp tgb,
  pd_walk pall pp ls tgb [] = true -> tgb = None /\ forallb l_all ls = true /\ pall = true.
Proof.
  induction ls as [|l rest IH]; intros pall pp tgb H.
  - simpl in H. discriminate H.
  - destruct rest as [|l2 rest].
    + rewrite pd_walk_one in H. apply andb_true_iff in H. destruct H as [H1 H2].
      destruct tgb as [tp|].
      * simpl in H1. discriminate H1.
      * destruct (l_all l) eqn:El; destruct pall; simpl in H2; try discriminate H2.
        split; [reflexivity | split; [| reflexivity]].
        simpl. rewrite El. reflexivity.
    + rewrite pd_walk_cons2 in H. destruct (l_all l) eqn:El.
      * apply IH in H. destruct H as (A & B & C).
        split; [exact A | split; [| exact C]].
        change (forallb l_all (l :: l2 :: rest)) with (l_all l && forallb l_all (l2 :: rest)).
        rewrite El, B. reflexivity.
      * apply IH in H. destruct H as (_ & _ & C). discriminate C.
Qed.

(* ---------- semantics ---------- *)
Section SemP.
Variable value : Type.
Variable absent : value.
Variable eval : nat -> nat -> key value -> value.

Lemma out_key_cons : forall l rest k,
  out_key value absent eval (l :: rest) k = level_out value absent eval (length rest) l (out_key value absent eval rest k).
Proof. reflexivity. Qed.

Lemma out_key_all : forall ls k, forallb l_all ls = true -> out_key value absent eval ls k = k.
Proof.
  induction ls as [|l rest IH]; intros k H.
  - reflexivity.
  - simpl in H. apply andb_true_iff in H. destruct H as [Hl Hr].
    rewrite out_key_cons. unfold level_out. rewrite Hl. apply IH. exact Hr.
Qed.

(* one named level: what the consumer sees determines every carried parameter of the level's input *)
Lemma level_view : forall d l pall pp (k1 k2:key value),
  l_all l = false ->
  (forall n ps p (a b:key value), In (n, ps) (l_gb l) -> In p ps -> eval d n a = eval d n b -> a p = b p) ->
  (forall n, pall || memb n pp = true ->
     level_out value absent eval d l k1 n = level_out value absent eval d l k2 n) ->
  forall p, memb p (carried pall pp (l_gb l)) = true -> k1 p = k2 p.
Proof.
  intros d l pall pp k1 k2 El Hs Hv p Hp.
  apply memb_carried in Hp. destruct Hp as (n & ps & Hin & Hc & Hk).
  specialize (Hv n Hc). unfold level_out in Hv. rewrite El in Hv. cbv beta iota in Hv.
  rewrite (memb_map_fst n ps (l_gb l) Hin) in Hv.
  exact (Hs n ps p k1 k2 Hin Hk Hv).
Qed.

(* the walk invariant: if the consumer's view of the output keys agrees, the table keys agree on the partition keys *)
Lemma walk_confined : forall ls pall pp tgb pk,
  pd_walk pall pp ls tgb pk = true ->
  oto_sound value eval ls ->
  forall t1 t2 : key value,
    (forall n, pall || memb n pp = true ->
       out_key value absent eval ls t1 n = out_key value absent eval ls t2 n) ->
    forall p, In p pk -> t1 p = t2 p.
Proof.
  induction ls as [|l rest IH]; intros pall pp tgb pk Hw Hs t1 t2 Hv p Hp.
  - simpl in Hw. discriminate Hw.
  - destruct Hs as [Hs1 Hs2].
    assert (HA : l_all l = true -> forall n, pall || memb n pp = true ->
                 out_key value absent eval rest t1 n = out_key value absent eval rest t2 n).
    { intros El n Hn. specialize (Hv n Hn).
      rewrite (out_key_cons l rest t1), (out_key_cons l rest t2) in Hv.
      unfold level_out in Hv. rewrite El in Hv. exact Hv. }
    assert (HB : l_all l = false -> forall n, memb n (carried pall pp (l_gb l)) = true ->
                 out_key value absent eval rest t1 n = out_key value absent eval rest t2 n).
    { intros El. apply (level_view (length rest) l pall pp _ _ El Hs1).
      intros n Hn. specialize (Hv n Hn).
      rewrite (out_key_cons l rest t1), (out_key_cons l rest t2) in Hv. exact Hv. }
    clear Hv. destruct rest as [|l2 rest].
    + rewrite pd_walk_one in Hw. apply andb_true_iff in Hw. destruct Hw as [_ Hw].
      simpl in HA, HB.
      destruct (l_all l) eqn:El.
      * destruct pall; simpl in Hw.
        -- apply HA; reflexivity.
        -- apply andb_true_iff in Hw. destruct Hw as [_ Hw].
           rewrite forallb_forall in Hw.
           apply HA; [reflexivity | exact (Hw p Hp)].
      * simpl in Hw. apply andb_true_iff in Hw. destruct Hw as [_ Hw].
        rewrite forallb_forall in Hw.
        apply HB; [reflexivity | exact (Hw p Hp)].
    + rewrite pd_walk_cons2 in Hw. destruct (l_all l) eqn:El.
      * exact (IH pall pp tgb pk Hw Hs2 t1 t2 (HA eq_refl) p Hp).
      * apply (IH false (carried pall pp (l_gb l)) tgb pk Hw Hs2 t1 t2); [| exact Hp].
        intros n Hn. apply HB; [reflexivity | exact Hn].
Qed.

End SemP.

(* ---------- the theorems ---------- *)

Theorem pushdown_only_if_confined :
  forall (value:Type) (absent:value) (eval:nat -> nat -> key value -> value) (tkey:key value -> key value) (q:pquery) (route:key value -> nat),
  pushdown_allowed q = true ->
  oto_sound value eval (pq_levels q) ->
  table_oto value tkey (pq_table_gb q) ->
  (forall p d, In p (pq_pk q) -> tkey d p = d p) ->
  route_respects value (pq_pk q) route ->
  forall d1 d2,
    (forall n, out_key value absent eval (pq_levels q) (tkey d1) n = out_key value absent eval (pq_levels q) (tkey d2) n) ->
    route d1 = route d2.
Proof.
  intros value absent eval tkey q route Hpd Hs Ht Hk Hr d1 d2 Hv.
  unfold pushdown_allowed in Hpd. apply andb_true_iff in Hpd. destruct Hpd as [_ Hw].
  destruct (pq_pk q) as [|k0 pk0] eqn:Epk.
  - apply walk_unkeyed in Hw. destruct Hw as (Htg & Hall & _).
    rewrite Htg in Ht. simpl in Ht. simpl in Hr.
    apply Hr. intros n. specialize (Hv n).
    rewrite (out_key_all value absent eval _ (tkey d1) Hall) in Hv.
    rewrite (out_key_all value absent eval _ (tkey d2) Hall) in Hv.
    rewrite (Ht d1 n), (Ht d2 n) in Hv. exact Hv.
  - simpl in Hr. apply Hr. intros p Hp.
    rewrite <- (Hk p d1 Hp), <- (Hk p d2 Hp).
    apply (walk_confined value absent eval (pq_levels q) true [] (pq_table_gb q) (k0 :: pk0) Hw Hs (tkey d1) (tkey d2)); [| exact Hp].
    intros n _. apply Hv.
Qed.

Theorem crosstab_not_pushed_down : forall q, pq_crosstab q = true -> pushdown_allowed q = false.
Proof. intros q H. unfold pushdown_allowed. rewrite H. reflexivity. Qed.

Theorem limited_subquery_not_pushed_down : forall q, pq_subbad q = true -> pushdown_allowed q = false.
Proof. intros q H. unfold pushdown_allowed. rewrite H. destruct (pq_crosstab q); reflexivity. Qed.

Theorem nested_subquery_not_pushed_down : forall q, pq_nested_subq q = true -> pushdown_allowed q = false.
Proof. intros q H. unfold pushdown_allowed. rewrite H. destruct (pq_crosstab q); destruct (pq_subbad q); reflexivity. Qed.

Theorem unkeyed_pushdown_only_when_nothing_regroups : forall q, pq_pk q = [] -> pushdown_allowed q = true ->
  pq_table_gb q = None /\ forallb l_all (pq_levels q) = true.
Proof.
  intros q Hpk Hpd. unfold pushdown_allowed in Hpd. apply andb_true_iff in Hpd. destruct Hpd as [_ Hw].
  rewrite Hpk in Hw. apply walk_unkeyed in Hw. destruct Hw as (A & B & _). split; [exact A | exact B].
Qed.

Theorem table_key_must_carry_partition_keys : forall q tparams k, pq_table_gb q = Some tparams -> In k (pq_pk q) -> memb k tparams = false ->
  pushdown_allowed q = false.
Proof.
  intros q tparams k Htg Hin Hm.
  destruct (pushdown_allowed q) eqn:Hpd; [| reflexivity].
  unfold pushdown_allowed in Hpd. apply andb_true_iff in Hpd. destruct Hpd as [_ Hw].
  rewrite Htg in Hw. apply walk_table_check in Hw.
  rewrite forallb_forall in Hw. specialize (Hw k Hin). simpl in Hw.
  rewrite Hm in Hw. discriminate Hw.
Qed.

Theorem rejection_is_justified : exists (q:pquery) (eval:nat -> nat -> key nat -> nat) (route:key nat -> nat) (d1 d2:key nat),
  pushdown_allowed q = false /\ oto_sound nat eval (pq_levels q) /\ route_respects nat (pq_pk q) route /\
  (forall n, out_key nat 0 eval (pq_levels q) d1 n = out_key nat 0 eval (pq_levels q) d2 n) /\ route d1 <> route d2.
Proof.
  exists {| pq_crosstab := false; pq_subbad := false; pq_nested_subq := false;
            pq_levels := [{| l_all := false; l_gb := [(2, [2])] |}];
            pq_table_gb := None; pq_pk := [1] |}.
  exists (fun (_ n:nat) (k:key nat) => k n).
  exists (fun d:key nat => d 1).
  exists (fun _:nat => 0).
  exists (fun n:nat => if Nat.eqb n 1 then 1 else 0).
  split; [vm_compute; reflexivity |].
  split.
  { simpl. split; [| exact I].
    intros n ps p k1 k2 Hin Hp He.
    destruct Hin as [Hin | []]. inversion Hin; subst n ps.
    destruct Hp as [Hp | []]. subst p. exact He. }
  split.
  { simpl. intros d1 d2 H. apply H. left. reflexivity. }
  split.
  { intros n. destruct n as [|[|[|n]]]; reflexivity. }
  cbv. discriminate.
Qed.

Example pushdown_examples :
  pushdown_allowed {| pq_crosstab := false; pq_subbad := false; pq_nested_subq := false; pq_levels := [{| l_all := false; l_gb := [(1,[1]); (2,[2])] |}]; pq_table_gb := None; pq_pk := [1] |} = true /\
  pushdown_allowed {| pq_crosstab := false; pq_subbad := false; pq_nested_subq := false; pq_levels := [{| l_all := false; l_gb := [(2,[2])] |}]; pq_table_gb := None; pq_pk := [1] |} = false /\
  pushdown_allowed {| pq_crosstab := false; pq_subbad := false; pq_nested_subq := false; pq_levels := [{| l_all := false; l_gb := [(5,[5])] |}; {| l_all := false; l_gb := [(5,[1]); (6,[2])] |}]; pq_table_gb := Some [1;2]; pq_pk := [1] |} = true /\
  pushdown_allowed {| pq_crosstab := false; pq_subbad := false; pq_nested_subq := false; pq_levels := [{| l_all := false; l_gb := [(6,[6])] |}; {| l_all := false; l_gb := [(5,[1]); (6,[2])] |}]; pq_table_gb := Some [1;2]; pq_pk := [1] |} = false.
Proof. vm_compute. repeat split; reflexivity. Qed.

Print Assumptions pushdown_only_if_confined.
Print Assumptions crosstab_not_pushed_down.
Print Assumptions limited_subquery_not_pushed_down.
Print Assumptions unkeyed_pushdown_only_when_nothing_regroups.
Print Assumptions table_key_must_carry_partition_keys.
Print Assumptions rejection_is_justified.
Print Assumptions pushdown_examples.
Print Assumptions nested_subquery_not_pushed_down.
