(* RetentionP.v — the clock, "too old", truncation horizon (C14) *)
From Coq Require Import Lia QArith.
From Zeno Require Import Base Sort Expr ExprSpec Seq SeqP DB Retention.
Local Open Scope Z_scope.
Ltac Zify.zify_post_hook ::= Z.div_mod_to_equations.

Lemma rstep_clock_mono : forall T s o, r_clock s <= r_clock (rstep T s o).
Proof.
  intros T s [p|]; cbn [rstep].
  - destruct (tp_ts p <? r_clock s - t_ret T); [lia|]. destruct (negb (flag (t_where T) p)); cbn [r_clock]; lia.
  - destruct (r_dirty s); cbn [r_clock]; lia.
Qed.

Lemma rrun_clock_mono : forall T ops s, r_clock s <= r_clock (fold_left (rstep T) ops s).
Proof.
  intros T. induction ops as [|o ops IH]; intros s; cbn [fold_left]; [lia|].
  pose proof (rstep_clock_mono T s o). specialize (IH (rstep T s o)). lia.
Qed.

(* a point older than the retention period when it is processed is never stored *)
Lemma too_old_ignored : forall T s p, tp_ts p < r_clock s - t_ret T -> rstep T s (RIns p) = s.
Proof. intros T s p H. cbn [rstep]. apply Z.ltb_lt in H. rewrite H. reflexivity. Qed.

(* accepted points are never dropped from the reference again *)
Lemma rstep_acc_prefix : forall T s o, exists l, r_acc (rstep T s o) = r_acc s ++ l.
Proof.
  intros T s [p|]; cbn [rstep].
  - destruct (tp_ts p <? r_clock s - t_ret T); [exists []; rewrite app_nil_r; reflexivity|].
    destruct (negb (flag (t_where T) p)); [exists []; rewrite app_nil_r; reflexivity|exists [p]; reflexivity].
  - destruct (r_dirty s); exists []; rewrite app_nil_r; reflexivity.
Qed.

(* every accepted point was inside the window when processed, hence never older than the final clock
   minus retention by more than the clock moved afterwards *)
Definition acc_ok (T:table) (s:rstate) : Prop := forall p, In p (r_acc s) -> tp_ts p <= r_clock s.
Lemma rstep_acc_ok : forall T s o, acc_ok T s -> acc_ok T (rstep T s o).
Proof.
  intros T s [p|] H; cbn [rstep].
  - destruct (tp_ts p <? r_clock s - t_ret T); [exact H|]. destruct (negb (flag (t_where T) p)); [exact H|].
    intros q Hq. cbn [r_acc r_clock] in *. apply in_app_or in Hq. destruct Hq as [Hq|[<-|[]]]; [specialize (H q Hq)|]; lia.
  - destruct (r_dirty s); exact H.
Qed.

(* the truncation horizon never exceeds clock - retention: only wholly expired periods are removed *)
Definition horizon_ok (T:table) (s:rstate) : Prop := r_horizon s <= Z.max 0 (r_clock s - t_ret T).
Lemma rstep_horizon_ok : forall T s o, 0 < t_res T -> horizon_ok T s -> horizon_ok T (rstep T s o).
Proof.
  intros T s [p|] Hr H; unfold horizon_ok in *; cbn [rstep].
  - destruct (tp_ts p <? r_clock s - t_ret T); [exact H|]. destruct (negb (flag (t_where T) p)); [exact H|].
    cbn [r_horizon r_clock]. lia.
  - destruct (r_dirty s); [|exact H]. cbn [r_horizon r_clock].
    destruct (Z.rem (r_flushes s) truncate_every =? truncate_every - 1); [|exact H].
    unfold floor_mul. pose proof (Z.div_mod (r_clock s - t_ret T) (t_res T) ltac:(lia)).
    pose proof (Z.mod_pos_bound (r_clock s - t_ret T) (t_res T) Hr). lia.
Qed.
Lemma rstep_horizon_mono : forall T s o, r_horizon s <= r_horizon (rstep T s o).
Proof.
  intros T s [p|]; cbn [rstep].
  - destruct (tp_ts p <? r_clock s - t_ret T); [lia|]. destruct (negb (flag (t_where T) p)); cbn [r_horizon]; lia.
  - destruct (r_dirty s); [|lia]. cbn [r_horizon]. destruct (Z.rem (r_flushes s) truncate_every =? truncate_every - 1); lia.
Qed.

(* among any ten consecutive data-carrying flushes one is truncating *)
Lemma truncating_within_ten : forall n, 0 <= n -> exists k, 0 <= k < truncate_every /\ Z.rem (n + k) truncate_every = truncate_every - 1.
Proof.
  intros n Hn. unfold truncate_every. exists (9 - Z.rem n 10).
  pose proof (Z.rem_bound_pos n 10 Hn ltac:(lia)). split; [lia|].
  rewrite Z.rem_mod_nonneg by lia. rewrite Z.rem_mod_nonneg in * by lia.
  pose proof (Z.div_mod n 10 ltac:(lia)).
  replace (n + (9 - n mod 10)) with (9 + (n / 10) * 10) by lia. rewrite Z.mod_add by lia. reflexivity.
Qed.

(* once expired and truncated, a period stays away: a later point of that period is either too old
   (ignored) or, if accepted on the boundary, lands in a period that UpdateValue refuses to store *)
Lemma no_resurrection_clock : forall T s p, horizon_ok T s -> 0 < r_horizon s ->
  bucket (t_res T) (tp_ts p) <= r_horizon s -> 0 < t_res T ->
  tp_ts p < r_clock s - t_ret T \/ tp_ts p = r_clock s - t_ret T.
Proof.
  intros T s p H Hpos Hb Hr. unfold horizon_ok in H. unfold bucket, ceil_mul in Hb.
  pose proof (Z.div_mod (- tp_ts p) (t_res T) ltac:(lia)). pose proof (Z.mod_pos_bound (- tp_ts p) (t_res T) Hr). lia.
Qed.

(* the write path of a truncating flush removes exactly the periods at or before truncateBefore *)
Lemma written_removes_expired : forall (cell:Type) (s:seq cell) res tb t, 0 < res -> res <= tb ->
  (forall u cs, s = Some (u, cs) -> res <= u) -> t <= tb ->
  den cell res (truncate cell s res tb 0) t = None.
Proof.
  intros cell s res tb t Hr Htb Hs Ht.
  rewrite (truncate_den cell s res tb 0 t Hr (or_intror Htb) (or_introl eq_refl) Hs).
  destruct (Z.eqb_spec tb 0); [lia|]. destruct (Z.ltb_spec tb t); [lia|]. reflexivity.
Qed.
Lemma written_keeps_live : forall (cell:Type) (s:seq cell) res tb t, 0 < res -> res <= tb ->
  (forall u cs, s = Some (u, cs) -> res <= u) -> tb < t ->
  den cell res (truncate cell s res tb 0) t = den cell res s t.
Proof.
  intros cell s res tb t Hr Htb Hs Ht.
  rewrite (truncate_den cell s res tb 0 t Hr (or_intror Htb) (or_introl eq_refl) Hs).
  destruct (Z.eqb_spec tb 0); [lia|]. destruct (Z.ltb_spec tb t); [|lia]. reflexivity.
Qed.
