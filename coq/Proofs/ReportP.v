(* ReportP.v — a scan that omits rows reports an error (C13) *)
From Coq Require Import Lia.
From Zeno Require Import Base Report.

Section P.
Variable R : Type.

Lemma deliver_complete : forall (rows:list R) n k d e m, deliver R rows n k = (d, e, m) ->
  e = false -> d = rows /\ m = (n + length rows)%nat.
Proof.
  induction rows as [|r rest IH]; intros n k d e m H He; cbn [deliver] in H.
  - inversion H; subst. split; [reflexivity|cbn; lia].
  - destruct (Nat.leb k (S n)); [inversion H; subst; discriminate|].
    destruct (deliver R rest (S n) k) as [[d' e'] m'] eqn:E. inversion H as [[Hd He' Hm]].
    subst e'. subst m'. destruct (IH (S n) k d' e m E He) as [-> ->]. split; [reflexivity|cbn; lia].
Qed.

(* if the scan reports no error it delivered every row of the file and of the memstore *)
Theorem scan_no_error_complete : forall (file mem:list R) k d, scan R file mem k = (d, false) -> d = file ++ mem.
Proof.
  intros file mem [k|] d H; cbn [scan] in H; [|inversion H; reflexivity].
  destruct (deliver R file 0 k) as [[d1 e1] n1] eqn:E1. destruct e1; [inversion H|].
  destruct (deliver R mem n1 k) as [[d2 e2] n2] eqn:E2. inversion H; subst.
  destruct (deliver_complete file 0 k d1 false n1 E1 eq_refl) as [-> _].
  destruct (deliver_complete mem n1 k d2 false n2 E2 eq_refl) as [-> _]. reflexivity.
Qed.

Corollary scan_omission_is_reported : forall (file mem:list R) k,
  fst (scan R file mem k) <> file ++ mem -> snd (scan R file mem k) = true.
Proof.
  intros file mem k H. destruct (scan R file mem k) as [d e] eqn:E. cbn [fst snd] in *.
  destruct e; [reflexivity|]. exfalso. apply H. apply (scan_no_error_complete file mem k d E).
Qed.
End P.

(* the shipped scan dropped the memstore walk's error: rows omitted, nil error *)
Example legacy_scan_refuted : scan_legacy nat [1; 2]%nat [3; 4; 5]%nat (Some 3%nat) = ([1; 2; 3]%nat, false).
Proof. reflexivity. Qed.
Example repaired_scan_reports : scan nat [1; 2]%nat [3; 4; 5]%nat (Some 3%nat) = ([1; 2; 3]%nat, true).
Proof. reflexivity. Qed.
