(* AuthP.v — access decisions (C19) *)
From Coq Require Import String Lia.
From Zeno Require Import Base Auth Facts.
Local Open Scope string_scope.

Lemma authorize_refuses : forall pw presented, pw <> "" -> ~ In pw presented -> authorize pw presented = false.
Proof.
  intros pw presented Hne Hnot. unfold authorize.
  destruct (String.eqb_spec pw ""); [contradiction|].
  apply Bool.not_true_iff_false. intros H. apply existsb_exists in H. destruct H as [x [Hin Hx]].
  apply String.eqb_eq in Hx. subst. contradiction.
Qed.
Lemma authorize_accepts : forall pw presented, In pw presented -> authorize pw presented = true.
Proof.
  intros pw presented Hin. unfold authorize. destruct (String.eqb pw ""); [reflexivity|].
  apply existsb_exists. exists pw. split; [exact Hin|apply String.eqb_refl].
Qed.

(* with OAuth configured, a request is served only with the static token or an unexpired, verified session *)
Lemma authenticate_only_if : forall c header ck now, w_oauth c = true -> authenticate c header ck now = true ->
  (w_password c <> "" /\ header = w_password c)
  \/ (exists e, ck = CSession e InOrg /\ (now <= e)%Z).
Proof.
  intros c header ck now Ho H. unfold authenticate in H. rewrite Ho in H. cbn [negb] in H.
  destruct (String.eqb_spec (w_password c) "") as [E|E]; cbn [negb andb] in H.
  - destruct ck as [| |e [| |]]; try discriminate. right. exists e. split; [reflexivity|].
    destruct (Z.ltb_spec e now); [discriminate|lia].
  - destruct (String.eqb_spec header "") as [E2|E2]; cbn [negb] in H.
    + destruct ck as [| |e [| |]]; try discriminate. right. exists e. split; [reflexivity|].
      destruct (Z.ltb_spec e now); [discriminate|lia].
    + left. split; [exact E|]. apply String.eqb_eq. exact H.
Qed.

(* an expired or forged cookie (without the static token) is never accepted *)
Lemma expired_or_forged_refused : forall c ck now, w_oauth c = true ->
  (ck = CAbsent \/ ck = CUndecodable \/ (exists e o, ck = CSession e o /\ (e < now)%Z)
   \/ (exists e, ck = CSession e NotInOrg) \/ (exists e, ck = CSession e OrgError)) ->
  authenticate c "" ck now = false.
Proof.
  intros c ck now Ho H. unfold authenticate. rewrite Ho. cbn [negb].
  rewrite (proj2 (String.eqb_eq "" "") eq_refl). cbn [negb]. rewrite Bool.andb_false_r.
  destruct H as [->|[->|[[e [o [-> He]]]|[[e ->]|[e ->]]]]]; try reflexivity.
  destruct o; try reflexivity. apply Z.ltb_lt in He. rewrite He. reflexivity.
Qed.

(* the guard tables translated from the source on this run satisfy: every disclosing handler is guarded *)
Lemma rpc_table_guarded : rpc_table_ok gen_rpc_handlers = true.
Proof. vm_compute. reflexivity. Qed.
Lemma web_table_guarded : web_table_ok gen_web_routes = true.
Proof. vm_compute. reflexivity. Qed.

Lemma rpc_every_disclosing_handler_guarded : forall h, In h gen_rpc_handlers -> rpc_discloses h = true -> rpc_guarded h = true.
Proof.
  intros h Hin Hd. pose proof rpc_table_guarded as T. unfold rpc_table_ok in T. rewrite forallb_forall in T.
  specialize (T h Hin). rewrite Hd in T. exact T.
Qed.
Lemma web_every_data_route_guarded : forall r, In r gen_web_routes -> web_serves_data r = true -> web_guarded r = true.
Proof.
  intros r Hin Hd. pose proof web_table_guarded as T. unfold web_table_ok in T. rewrite forallb_forall in T.
  specialize (T r Hin). rewrite Hd in T. exact T.
Qed.

(* the tables are not vacuous: the disclosing handlers and data routes are present *)
Lemma tables_nonvacuous :
  map fst (filter rpc_discloses gen_rpc_handlers) = ["Query"; "Follow"; "HandleRemoteQueries"] /\
  map fst (filter web_serves_data gen_web_routes) = ["/async"; "/immediate"; "/run"; "/cached/{permalink}"].
Proof. vm_compute. auto. Qed.
