(* AliasP.v — a deep-copied snapshot is immune to later updates of the live tree (C18);
   the shipped shallow copy is not. *)
From Coq Require Import Lia.
From Zeno Require Import Base Alias.
Local Open Scope nat_scope.

Section P.
Variable K : Type.
Variable keqb : K -> K -> bool.
Variable S : Type.
Variable sempty : S.

Notation heap := (heap S).
Notation atree := (atree K).

Lemma hset_length : forall i v (h:heap), length (hset S i v h) = length h.
Proof. induction i as [|i IH]; intros v [|x h]; cbn; auto. Qed.

Lemma hget_hset_other : forall i j v (h:heap), i <> j -> hget S sempty j (hset S i v h) = hget S sempty j h.
Proof.
  unfold hget. induction i as [|i IH]; intros j v [|x h] Hn; cbn; auto.
  - destruct j; [lia|reflexivity].
  - destruct j; [reflexivity|]. cbn. apply IH. lia.
Qed.

Lemma hget_app_l : forall j (h h2:heap), j < length h -> hget S sempty j (h ++ h2) = hget S sempty j h.
Proof. intros. unfold hget. apply app_nth1. assumption. Qed.

Lemma abind_in : forall k (t:atree) i, abind K keqb k t = Some i -> exists k', In (k', i) t.
Proof.
  intros k. induction t as [|[k' j] t IH]; intros i H; cbn in H; [discriminate|].
  destruct (keqb k k'); [inversion H; subst; exists k'; left; reflexivity|].
  destruct (IH i H) as [k2 Hin]. exists k2. right. exact Hin.
Qed.

(* a region [lo, hi) of the heap that the live tree never points into keeps its contents and
   the live tree keeps not pointing into it *)
Definition avoids (lo hi:nat) (t:atree) : Prop := forall k i, In (k, i) t -> i < lo \/ hi <= i.

Lemma astep_frame : forall lo hi (t:atree) (h:heap) o, avoids lo hi t -> hi <= length h ->
  let '(t', h') := astep K keqb S sempty (t, h) o in
  avoids lo hi t' /\ hi <= length h' /\ (forall j, lo <= j < hi -> hget S sempty j h' = hget S sempty j h).
Proof.
  intros lo hi t h o Hav Hlen. destruct o as [k f|]; cbn [astep ainsert aflush snd].
  - destruct (abind K keqb k t) as [i|] eqn:E.
    + split; [exact Hav|]. split; [rewrite hset_length; exact Hlen|].
      intros j Hj. apply hget_hset_other. destruct (abind_in k t i E) as [k' Hin].
      destruct (Hav k' i Hin); lia.
    + split.
      * intros k' i Hin. apply in_app_or in Hin. destruct Hin as [Hin|[Hin|[]]]; [exact (Hav k' i Hin)|].
        inversion Hin; subst. right. exact Hlen.
      * split; [rewrite app_length; cbn; lia|]. intros j Hj. apply hget_app_l. lia.
  - split; [intros k i []|]. split; [exact Hlen|]. intros; reflexivity.
Qed.

Lemma arun_frame : forall lo hi ops (t:atree) (h:heap), avoids lo hi t -> hi <= length h ->
  forall j, lo <= j < hi ->
  hget S sempty j (snd (fold_left (astep K keqb S sempty) ops (t, h))) = hget S sempty j h.
Proof.
  intros lo hi. induction ops as [|o ops IH]; intros t h Hav Hlen j Hj; cbn [fold_left]; [reflexivity|].
  pose proof (astep_frame lo hi t h o Hav Hlen) as F.
  destruct (astep K keqb S sempty (t, h) o) as [t' h'] eqn:E. destruct F as [F1 [F2 F3]].
  rewrite (IH t' h' F1 F2 j Hj). apply F3. exact Hj.
Qed.

(* the deep copy: snapshot ids lie in [length h, length h + length t), contents equal the originals *)
Lemma copy_deep_from_spec : forall (t:atree) (h:heap) acc fresh n,
  let '(t', fr) := copy_deep_from K S sempty t h acc fresh n in
  length fr = length fresh + length t /\
  (forall k i, In (k, i) t' -> In (k, i) acc \/ (n <= i < n + length t)) /\
  (exists rest, fr = fresh ++ rest).
Proof.
  induction t as [|[k i] t IH]; intros h acc fresh n; cbn [copy_deep_from].
  - split; [cbn; lia|]. split; [intros; left; assumption|exists []; rewrite app_nil_r; reflexivity].
  - specialize (IH h (acc ++ [(k, n)]) (fresh ++ [hget S sempty i h]) (Datatypes.S n)).
    destruct (copy_deep_from K S sempty t h (acc ++ [(k, n)]) (fresh ++ [hget S sempty i h]) (Datatypes.S n)) as [t' fr].
    destruct IH as [L [I [rest R]]]. split; [rewrite L, app_length; cbn; lia|]. split.
    + intros k' i' Hin. destruct (I k' i' Hin) as [Ha|Hb].
      * apply in_app_or in Ha. destruct Ha as [Ha|[Ha|[]]]; [left; exact Ha|]. inversion Ha; subst. right. cbn. lia.
      * right. cbn. lia.
    + exists ([hget S sempty i h] ++ rest). rewrite R, <- app_assoc. reflexivity.
Qed.

(* THE THEOREM: whatever the live store does after the snapshot (inserts into existing or new keys,
   flushes), every buffer of a deep-copied snapshot keeps the value it had when the snapshot was taken *)
Theorem deep_snapshot_stable : forall (t:atree) (h:heap) ops,
  ids_below K (length h) t ->
  let '(ts, h1) := copy_deep K S sempty (t, h) in
  forall k i, In (k, i) ts ->
  hget S sempty i (snd (fold_left (astep K keqb S sempty) ops (t, h1))) = hget S sempty i h1.
Proof.
  intros t h ops Hb. unfold copy_deep.
  pose proof (copy_deep_from_spec t h [] [] (length h)) as Sp.
  destruct (copy_deep_from K S sempty t h [] [] (length h)) as [ts fresh]. destruct Sp as [L [I _]].
  intros k i Hin. destruct (I k i Hin) as [[]|Hr].
  apply (arun_frame (length h) (length h + length t)).
  - intros k' i' Hin'. left. exact (Hb k' i' Hin').
  - rewrite app_length, L. cbn. lia.
  - exact Hr.
Qed.
End P.

(* the shipped shallow copy shares buffers: an insert after the snapshot is visible through it *)
Example shallow_snapshot_refuted :
  let th := ([(1%Z, 0%nat)], [10%Z]) in
  let '(ts, h1) := copy_shared Z Z th in
  aread Z Z.eqb Z 0%Z ts (snd (astep Z Z.eqb Z 0%Z (fst th, h1) (AIns Z Z 1%Z (fun v => (v + 5)%Z)))) 1%Z = Some 15%Z
  /\ aread Z Z.eqb Z 0%Z ts h1 1%Z = Some 10%Z.
Proof. vm_compute. auto. Qed.
