(* RowCodecP.v — reading back a row written by doWrite gives the row, for every key shorter than 2^16 bytes, fewer
   than 2^16 columns and columns shorter than 2^64 bytes; beyond the first bound the format cannot hold the key (the
   witness is a key of 65536 bytes: the file is unreadable) — the guard the code lacked before /repo 7f0b5d0. *)
From Coq Require Import Lia.
From Zeno Require Import Base BaseP RowCodec.

Lemma pow256_pos k : 0 < 256 ^ Z.of_nat k.
Proof. apply Z.pow_pos_nonneg; lia. Qed.

Lemma dec_enc n : forall x r acc, 0 <= x -> dec_be n (enc_be n x ++ r) acc = Some (acc * 256 ^ Z.of_nat n + x mod 256 ^ Z.of_nat n, r).
Proof.
  induction n as [|k IH]; intros x r acc Hx.
  - simpl. rewrite Z.mod_1_r. f_equal. f_equal. lia.
  - cbn [enc_be dec_be app]. rewrite IH by exact Hx. f_equal. f_equal.
    replace (Z.of_nat (S k)) with (Z.of_nat k + 1) by lia.
    rewrite Z.pow_add_r by lia. rewrite Z.pow_1_r.
    pose proof (pow256_pos k) as P.
    rewrite (Z.rem_mul_r x (256 ^ Z.of_nat k) 256) by lia. ring.
Qed.

Lemma dec_enc_small n x r : 0 <= x < 256 ^ Z.of_nat n -> dec_be n (enc_be n x ++ r) 0 = Some (x, r).
Proof. intros H. rewrite dec_enc by lia. rewrite Z.mod_small by exact H. f_equal. Qed.

Lemma zlen_nonneg {A} (l:list A) : 0 <= zlen l.
Proof. unfold zlen. lia. Qed.
Lemma zlen_app {A} (a b:list A) : zlen (a ++ b) = zlen a + zlen b.
Proof. unfold zlen. rewrite app_length. lia. Qed.
Lemma firstz_app_exact {A} (a b:list A) : firstz (zlen a) (a ++ b) = a.
Proof. rewrite firstz_firstn. unfold zlen. rewrite Nat2Z.id. induction a; simpl; [reflexivity|f_equal; assumption]. Qed.
Lemma skipz_app_exact {A} (a b:list A) : skipz (zlen a) (a ++ b) = b.
Proof. rewrite skipz_skipn. unfold zlen. rewrite Nat2Z.id. induction a; simpl; auto. Qed.
Lemma zlen_enc n x : zlen (enc_be n x) = Z.of_nat n.
Proof. unfold zlen. f_equal. induction n; simpl; auto. Qed.

Lemma read_lengths_enc (cols:list (list Z)) r :
  Forall (fun c => zlen c < 256 ^ 8) cols ->
  read_lengths (length cols) (flat_map (fun c => enc_be 8 (zlen c)) cols ++ r) = Some (map zlen cols, r).
Proof.
  induction cols as [|c cols IH]; intros H; [reflexivity|]. inversion H; subst.
  cbn [length read_lengths flat_map map]. rewrite <- app_assoc.
  rewrite (dec_enc_small 8) by (split; [apply zlen_nonneg|exact H2]). rewrite IH by assumption. reflexivity.
Qed.

Lemma read_cols_concat (cols:list (list Z)) r : read_cols (map zlen cols) (concat cols ++ r) = Some (cols, r).
Proof.
  induction cols as [|c cols IH]; [reflexivity|]. cbn [map read_cols concat]. rewrite <- app_assoc.
  replace (zlen (c ++ concat cols ++ r) <? zlen c) with false by (symmetry; apply Z.ltb_ge; rewrite zlen_app; pose proof (zlen_nonneg (concat cols ++ r)); lia).
  rewrite skipz_app_exact, firstz_app_exact, IH. reflexivity.
Qed.

Lemma row_length_eq key cols :
  zlen (enc_be 2 (zlen key) ++ key ++ enc_be 2 (zlen cols) ++ flat_map (fun c => enc_be 8 (zlen c)) cols ++ concat cols)
  = 2 + zlen key + 2 + fold_right (fun c acc => 8 + zlen c + acc) 0 cols.
Proof.
  rewrite !zlen_app, !zlen_enc.
  assert (zlen (flat_map (fun c => enc_be 8 (zlen c)) cols) + zlen (concat cols) = fold_right (fun c acc => 8 + zlen c + acc) 0 cols) as E.
  { induction cols as [|c cols IH]; [reflexivity|]. cbn [flat_map concat fold_right]. rewrite !zlen_app, zlen_enc. lia. }
  lia.
Qed.

Lemma cols_len_nonneg (cols:list (list Z)) : 0 <= fold_right (fun c acc => 8 + zlen c + acc) 0 cols.
Proof. induction cols as [|c cols IH]; cbn [fold_right]; [lia|]. pose proof (zlen_nonneg c). lia. Qed.

Definition fits (key:list Z) (cols:list (list Z)) : Prop :=
  zlen key < 2 ^ 16 /\ zlen cols < 2 ^ 16 /\ Forall (fun c => zlen c < 256 ^ 8) cols
  /\ 8 + 2 + zlen key + 2 + fold_right (fun c acc => 8 + zlen c + acc) 0 cols < 256 ^ 8.

(* what fileStore.iterate reads is what doWrite wrote, and it leaves the rest of the file where the next row starts *)
Theorem row_roundtrip key cols after : fits key cols -> decode_row (encode_row key cols ++ after) = Some (key, cols, after).
Proof.
  intros [Hk [Hc [Hcs Hr]]]. unfold decode_row, encode_row.
  set (body := enc_be 2 (zlen key) ++ key ++ enc_be 2 (zlen cols) ++ flat_map (fun c => enc_be 8 (zlen c)) cols ++ concat cols).
  set (rl := 8 + 2 + zlen key + 2 + fold_right (fun c acc => 8 + zlen c + acc) 0 cols).
  assert (zlen body = rl - 8) as Eb by (unfold body, rl; rewrite row_length_eq; lia).
  assert (0 <= rl) as Hrl0.
  { unfold rl. pose proof (zlen_nonneg key). pose proof (cols_len_nonneg cols). lia. }
  replace ((enc_be 8 rl ++ body) ++ after) with (enc_be 8 rl ++ (body ++ after)) by (rewrite app_assoc; reflexivity).
  rewrite (dec_enc_small 8) by (split; [exact Hrl0|exact Hr]).
  replace (zlen (body ++ after) <? rl - 8) with false by (symmetry; apply Z.ltb_ge; rewrite zlen_app, Eb; pose proof (zlen_nonneg after); lia).
  rewrite <- Eb, firstz_app_exact, skipz_app_exact. unfold body.
  rewrite (dec_enc_small 2) by (split; [apply zlen_nonneg|exact Hk]).
  replace (zlen (key ++ enc_be 2 (zlen cols) ++ flat_map (fun c => enc_be 8 (zlen c)) cols ++ concat cols) <? zlen key) with false
    by (symmetry; apply Z.ltb_ge; rewrite zlen_app; match goal with |- _ <= _ + zlen ?l => pose proof (zlen_nonneg l) end; lia).
  rewrite firstz_app_exact, skipz_app_exact.
  rewrite (dec_enc_small 2) by (split; [apply zlen_nonneg|exact Hc]).
  unfold zlen at 1. rewrite Nat2Z.id.
  rewrite read_lengths_enc by exact Hcs.
  rewrite <- (app_nil_r (concat cols)), read_cols_concat. reflexivity.
Qed.

(* without the bound on the key the format cannot hold the row: a key of 2^16 bytes is written with length 0 *)
Theorem long_key_refuted : exists key cols, zlen key = 2 ^ 16 /\ decode_row (encode_row key cols) = None.
Proof. exists (repeat 5 (Z.to_nat 65536)), [[7]]. split; vm_compute; reflexivity. Qed.

Example row_roundtrip_nonvacuous : fits [1; 2; 3] [[7; 8]; []; [9]] /\ decode_row (encode_row [1; 2; 3] [[7; 8]; []; [9]] ++ [42]) = Some ([1; 2; 3], [[7; 8]; []; [9]], [42]).
Proof.
  split; [|vm_compute; reflexivity]. unfold fits.
  split; [vm_compute; reflexivity|]. split; [vm_compute; reflexivity|]. split; [|vm_compute; reflexivity].
  constructor; [vm_compute; reflexivity|]. constructor; [vm_compute; reflexivity|]. constructor; [vm_compute; reflexivity|constructor].
Qed.

(* ---- a whole file: the rows written one after the other are the rows read, in order, to the end of the file ---- *)
From Zeno Require Import CorrRow.

Definition encode_rows (rows:list (list Z * list (list Z))) : list Z := flat_map (fun r => encode_row (fst r) (snd r)) rows.

Lemma encode_row_cons key cols : exists b rest, encode_row key cols = b :: rest.
Proof. unfold encode_row. cbn [enc_be app]. eexists. eexists. reflexivity. Qed.

Lemma decode_all_rows : forall rows fuel, (length rows < fuel)%nat -> Forall (fun r => fits (fst r) (snd r)) rows ->
  decode_all fuel (encode_rows rows) = Some rows.
Proof.
  induction rows as [|[key cols] rows IH]; intros fuel Hf Hfit.
  - destruct fuel as [|f]; [inversion Hf|]. reflexivity.
  - destruct fuel as [|f]; [inversion Hf|]. inversion Hfit; subst. cbn [fst snd] in *.
    cbn [decode_all encode_rows flat_map fst snd].
    destruct (encode_row_cons key cols) as [b [rest E]].
    assert (encode_row key cols ++ flat_map (fun r => encode_row (fst r) (snd r)) rows = b :: rest ++ flat_map (fun r => encode_row (fst r) (snd r)) rows) as E2 by (rewrite E; reflexivity).
    rewrite E2. rewrite <- E2. rewrite row_roundtrip by assumption.
    fold (encode_rows rows). rewrite IH; [reflexivity| simpl in Hf; lia | assumption].
Qed.

Lemma encode_rows_length rows : (length rows <= length (encode_rows rows))%nat.
Proof.
  induction rows as [|[key cols] rows IH]; [simpl; lia|]. cbn [encode_rows flat_map fst snd]. rewrite app_length.
  destruct (encode_row_cons key cols) as [b [rest E]]. rewrite E. fold (encode_rows rows). simpl. lia.
Qed.

(* with the fuel the correspondence stage uses *)
Theorem file_roundtrip rows : Forall (fun r => fits (fst r) (snd r)) rows ->
  decode_all (S (length (encode_rows rows))) (encode_rows rows) = Some rows.
Proof. intros H. apply decode_all_rows; [pose proof (encode_rows_length rows); lia|exact H]. Qed.
