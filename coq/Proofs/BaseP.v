(* BaseP.v — lemmas about the Z-indexed list operations of Model/Base.v *)
From Coq Require Import Lia.
From Zeno Require Import Base.

Lemma firstz_firstn {A} : forall (l:list A) n, firstz n l = firstn (Z.to_nat n) l.
Proof.
  induction l as [|x l IH]; intros n; cbn [firstz]; [rewrite firstn_nil; reflexivity|].
  destruct (Z.ltb_spec 0 n).
  - rewrite IH. replace (Z.to_nat n) with (S (Z.to_nat (n - 1))) by lia. reflexivity.
  - replace (Z.to_nat n) with O by lia. reflexivity.
Qed.
Lemma skipz_skipn {A} : forall (l:list A) n, skipz n l = skipn (Z.to_nat n) l.
Proof.
  induction l as [|x l IH]; intros n; cbn [skipz]; [rewrite skipn_nil; reflexivity|].
  destruct (Z.ltb_spec 0 n).
  - rewrite IH. replace (Z.to_nat n) with (S (Z.to_nat (n - 1))) by lia. reflexivity.
  - replace (Z.to_nat n) with O by lia. reflexivity.
Qed.
Lemma nthz_nthc {A} : forall (l:list A) i, 0 <= i -> nthz i l = nthc (Z.to_nat i) l.
Proof.
  induction l as [|x l IH]; intros i Hi; cbn [nthz].
  - destruct (Z.to_nat i); reflexivity.
  - destruct (Z.eqb_spec i 0) as [->|N]; [reflexivity|].
    destruct (Z.ltb_spec i 0); [lia|]. rewrite IH by lia.
    replace (Z.to_nat i) with (S (Z.to_nat (i - 1))) by lia. reflexivity.
Qed.
