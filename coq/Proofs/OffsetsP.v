(* OffsetsP.v — OffsetsBySource is a pointwise join: Advance takes, source by source, the later of the two offsets, never
   moves an offset backwards, and is commutative, associative and idempotent as far as any reader can tell; LimitAge
   raises every offset to at least the limit and adds no source. *)
From Coq Require Import Lia.
From Zeno Require Import Base Offsets.

Lemma off_after_irrefl a : off_after a a = false.
Proof. unfold off_after. destruct a as [x y]; simpl. rewrite Z.ltb_irrefl, Z.eqb_refl, Z.ltb_irrefl. reflexivity. Qed.

Definition off_le (a b:off) : Prop := fst a < fst b \/ (fst a = fst b /\ snd a <= snd b).

Lemma off_after_spec a b : off_after a b = true <-> ~ off_le a b.
Proof.
  unfold off_after, off_le. destruct a as [x y], b as [u v]; simpl.
  rewrite orb_true_iff, andb_true_iff, Z.ltb_lt, Z.ltb_lt, Z.eqb_eq. lia.
Qed.
Lemma off_after_false a b : off_after a b = false <-> off_le a b.
Proof. rewrite <- Bool.not_true_iff_false, off_after_spec. unfold off_le. destruct a, b; simpl. lia. Qed.

Lemma off_le_refl a : off_le a a.
Proof. unfold off_le. lia. Qed.
Lemma off_le_trans a b c : off_le a b -> off_le b c -> off_le a c.
Proof. unfold off_le. lia. Qed.
Lemma off_le_antisym a b : off_le a b -> off_le b a -> a = b.
Proof. unfold off_le. destruct a, b; simpl. intros. f_equal; lia. Qed.

Lemma off_max_ge_l a b : off_le a (off_max a b).
Proof. unfold off_max. destruct (off_after b a) eqn:E; [|apply off_le_refl]. apply off_after_spec in E. unfold off_le in *. lia. Qed.
Lemma off_max_ge_r a b : off_le b (off_max a b).
Proof. unfold off_max. destruct (off_after b a) eqn:E; [apply off_le_refl|]. apply off_after_false in E. exact E. Qed.
Lemma off_max_comm a b : off_max a b = off_max b a.
Proof.
  unfold off_max. destruct (off_after b a) eqn:E1, (off_after a b) eqn:E2; try reflexivity.
  - apply off_after_spec in E1, E2. unfold off_le in *. lia.
  - apply off_after_false in E1, E2. apply off_le_antisym; assumption.
Qed.
Lemma off_max_assoc a b c : off_max (off_max a b) c = off_max a (off_max b c).
Proof.
  unfold off_max.
  destruct (off_after b a) eqn:E1; destruct (off_after c b) eqn:E2; try rewrite E1; try rewrite E2;
    repeat match goal with |- context [off_after ?x ?y] => destruct (off_after x y) eqn:? end; try reflexivity;
    repeat match goal with
           | H : off_after _ _ = true |- _ => apply off_after_spec in H
           | H : off_after _ _ = false |- _ => apply off_after_false in H
           end; unfold off_le in *; destruct a, b, c; simpl in *; try (f_equal; lia); exfalso; lia.
Qed.
Lemma off_max_idem a : off_max a a = a.
Proof. unfold off_max. rewrite off_after_irrefl. reflexivity. Qed.

Lemma oget_oset s s' o m : oget s (oset s' o m) = if s =? s' then Some o else oget s m.
Proof.
  induction m as [|[t ot] r IH]; simpl.
  - destruct (s =? s'); reflexivity.
  - destruct (Z.eqb_spec s' t).
    + subst t. simpl. destruct (Z.eqb_spec s s'); reflexivity.
    + destruct (Z.ltb_spec s' t); simpl.
      * destruct (Z.eqb_spec s s'); [reflexivity|]. reflexivity.
      * rewrite IH. destruct (Z.eqb_spec s t); [|reflexivity]. destruct (Z.eqb_spec s s'); [lia|reflexivity].
Qed.
Lemma oread_oset s s' o m : oread s (oset s' o m) = if s =? s' then o else oread s m.
Proof. unfold oread. rewrite oget_oset. destruct (s =? s'); reflexivity. Qed.

(* the loop of Advance over the entries of the second map *)
Definition adv_step (res:omap) (so:Z * off) : omap :=
  let '(s, o) := so in if off_after o (oread s res) then oset s o res else res.

Lemma adv_step_read s res so : oread s (adv_step res so) = if s =? fst so then off_max (oread s res) (snd so) else oread s res.
Proof.
  destruct so as [s' o]. simpl. destruct (off_after o (oread s' res)) eqn:E.
  - rewrite oread_oset. destruct (Z.eqb_spec s s'); [|reflexivity]. subst. unfold off_max. rewrite E. reflexivity.
  - destruct (Z.eqb_spec s s'); [|reflexivity]. subst. unfold off_max. rewrite E. reflexivity.
Qed.

(* the later of all offsets a list holds for a source *)
Fixpoint all_max (s:Z) (y:omap) (acc:off) : off :=
  match y with [] => acc | (s', o) :: r => all_max s r (if s =? s' then off_max acc o else acc) end.

Lemma fold_adv_read s y : forall x, oread s (fold_left adv_step y x) = all_max s y (oread s x).
Proof.
  induction y as [|[s' o] r IH]; intros x; simpl; [reflexivity|].
  rewrite IH. f_equal. apply (adv_step_read s x (s', o)).
Qed.

(* a Go map holds one entry per source *)
Fixpoint uniq_src (y:omap) : Prop := match y with [] => True | (s, _) :: r => oget s r = None /\ uniq_src r end.

Lemma all_max_absent s y acc : oget s y = None -> all_max s y acc = acc.
Proof.
  revert acc. induction y as [|[s' o] r IH]; intros acc H; simpl in *; [reflexivity|].
  destruct (s =? s'); [discriminate|]. apply IH. exact H.
Qed.
Lemma all_max_uniq s y acc : uniq_src y -> all_max s y acc = match oget s y with Some o => off_max acc o | None => acc end.
Proof.
  revert acc. induction y as [|[s' o] r IH]; intros acc U; simpl in *; [reflexivity|]. destruct U as [U1 U2].
  destruct (Z.eqb_spec s s').
  - subst. apply all_max_absent. exact U1.
  - apply IH. exact U2.
Qed.

Definition wf_obs (a:obs) : Prop := match a with Some m => uniq_src m | None => True end.

(* WAL offsets are not before the zero offset (file sequences are millisecond timestamps, positions byte counts) *)
Definition nonneg (a:obs) : Prop := forall s, off_le off_zero (olook s a).

Lemma off_max_zero_r o : off_le off_zero o -> off_max o off_zero = o.
Proof. intros H. unfold off_max. apply off_after_false in H. rewrite H. reflexivity. Qed.
Lemma off_max_zero_l o : off_le off_zero o -> off_max off_zero o = o.
Proof. intros H. rewrite off_max_comm. apply off_max_zero_r. exact H. Qed.

(* Advance, as any reader of the result sees it: source by source the later of the two offsets *)
Theorem advance_read s a b : wf_obs b -> nonneg a -> nonneg b -> olook s (advance a b) = off_max (olook s a) (olook s b).
Proof.
  intros W Na Nb. specialize (Na s). specialize (Nb s). destruct a as [x|], b as [y|]; simpl in *.
  - change (fun res so => let '(s0, o) := so in if off_after o (oread s0 res) then oset s0 o res else res) with adv_step.
    rewrite fold_adv_read, (all_max_uniq s y _ W). unfold oread at 4. destruct (oget s y) as [o|]; [reflexivity|].
    symmetry. apply off_max_zero_r. exact Na.
  - symmetry. apply off_max_zero_r. exact Na.
  - symmetry. apply off_max_zero_l. exact Nb.
  - reflexivity.
Qed.

(* no offset ever moves backwards, and the result is the least such map *)
Corollary advance_ge_l s a b : wf_obs b -> nonneg a -> nonneg b -> off_le (olook s a) (olook s (advance a b)).
Proof. intros. rewrite advance_read by assumption. apply off_max_ge_l. Qed.
Corollary advance_ge_r s a b : wf_obs b -> nonneg a -> nonneg b -> off_le (olook s b) (olook s (advance a b)).
Proof. intros. rewrite advance_read by assumption. apply off_max_ge_r. Qed.
Corollary advance_comm s a b : wf_obs a -> wf_obs b -> nonneg a -> nonneg b -> olook s (advance a b) = olook s (advance b a).
Proof. intros. rewrite !advance_read by assumption. apply off_max_comm. Qed.
Corollary advance_idem s a : wf_obs a -> nonneg a -> olook s (advance a a) = olook s a.
Proof. intros. rewrite advance_read by assumption. apply off_max_idem. Qed.

(* LimitAge: every source it had, none else, each offset raised to the limit when it was before it *)
Theorem limit_age_spec lim a :
  okeys (limit_age lim a) = okeys a
  /\ forall s, In s (okeys a) -> olook s (limit_age lim a) = off_max (olook s a) lim.
Proof.
  destruct a as [x|]; simpl; [|split; [reflexivity|intros s []]].
  split; [rewrite map_map; reflexivity|]. intros s Hin. unfold oread.
  induction x as [|[s' o] r IH]; simpl in *; [destruct Hin|].
  destruct (Z.eqb_spec s s'); [unfold off_max; reflexivity|]. destruct Hin as [E|Hin]; [congruence|]. exact (IH Hin).
Qed.
Corollary advance_ge s a b : wf_obs b -> nonneg a -> nonneg b ->
  off_le (olook s a) (olook s (advance a b)) /\ off_le (olook s b) (olook s (advance a b)).
Proof. intros W Na Nb. split; [exact (advance_ge_l s a b W Na Nb)|exact (advance_ge_r s a b W Na Nb)]. Qed.

(* a concrete pair of maps meeting the hypotheses of the theorems (non-vacuity) *)
Definition ex_a : obs := Some [(0, (5, 10)); (2, (7, 0))].
Definition ex_b : obs := Some [(0, (5, 3)); (1, (1, 1)); (2, (8, 0))].
Definition offsets_example_statement : Prop :=
  wf_obs ex_b /\ nonneg ex_a /\ nonneg ex_b
  /\ advance ex_a ex_b = Some [(0, (5, 10)); (1, (1, 1)); (2, (8, 0))] /\ advance None ex_b = ex_b /\ advance ex_a None = ex_a.
Lemma offsets_example : offsets_example_statement.
Proof.
  split; [vm_compute; auto|]. split; [|split; [|vm_compute; auto]].
  - intros s. unfold olook, oread, ex_a; simpl. repeat (destruct (s =? _); [unfold off_le; simpl; lia|]). unfold off_le; simpl; lia.
  - intros s. unfold olook, oread, ex_b; simpl. repeat (destruct (s =? _); [unfold off_le; simpl; lia|]). unfold off_le; simpl; lia.
Qed.
