(* FilterP.v — the HAVING specification keeps exactly the matching rows, in order, and nothing else. *)
From Coq Require Import QArith List Bool.
From Zeno Require Import Base Sort Expr DB Filter.
Import ListNotations.

Lemma having_exact : forall idx c bound rows r,
  In r (having_spec idx c bound rows) <-> In r rows /\ hsat c (nth idx (o_vals r) 0%Q) bound = true.
Proof. intros. unfold having_spec. apply filter_In. Qed.

Lemma having_subsequence : forall idx c bound rows,
  exists keep, having_spec idx c bound rows = map snd (filter fst (combine keep rows)) /\ length keep = length rows.
Proof.
  intros idx c bound rows. induction rows as [|r rows IH].
  - exists []. split; reflexivity.
  - destruct IH as [keep [Hk Hl]]. cbn [having_spec filter] in *.
    exists (hsat c (nth idx (o_vals r) 0%Q) bound :: keep). split.
    + cbn [combine filter fst map snd]. destruct (hsat c (nth idx (o_vals r) 0%Q) bound).
      * cbn [map snd]. f_equal. exact Hk.
      * exact Hk.
    + cbn [length]. f_equal. exact Hl.
Qed.

Lemma having_idempotent : forall idx c bound rows,
  having_spec idx c bound (having_spec idx c bound rows) = having_spec idx c bound rows.
Proof.
  intros. unfold having_spec. induction rows as [|r rows IH]; [reflexivity|].
  cbn [filter]. destruct (hsat c (nth idx (o_vals r) 0%Q) bound) eqn:E.
  - cbn [filter]. rewrite E. f_equal. exact IH.
  - exact IH.
Qed.

Lemma having_all_or_nothing : forall idx c bound rows,
  (forall r, In r rows -> hsat c (nth idx (o_vals r) 0%Q) bound = true) -> having_spec idx c bound rows = rows.
Proof.
  intros idx c bound rows H. unfold having_spec. induction rows as [|r rows IH]; [reflexivity|].
  cbn [filter]. rewrite (H r (or_introl eq_refl)). f_equal. apply IH. intros r' Hr. apply H. right. exact Hr.
Qed.

(* complementary predicates split the rows: nothing is lost, nothing appears twice *)
Lemma having_partition : forall idx bound rows,
  (length (having_spec idx HGt bound rows) + length (having_spec idx HLe bound rows) = length rows)%nat.
Proof.
  intros idx bound rows. unfold having_spec. induction rows as [|r rows IH]; [reflexivity|].
  cbn [filter hsat]. destruct (Qle_bool (nth idx (o_vals r) 0%Q) bound); cbn [negb length]; rewrite <- IH.
  - rewrite Nat.add_succ_r. reflexivity.
  - reflexivity.
Qed.
