(* SeqP.v — proofs about Model/Seq.v: Truncate keeps exactly the periods in (asOf, until] (C05, C07) *)
From Coq Require Import Lia.
From Zeno Require Import Base BaseP Seq.
Open Scope Z_scope.

Arguments den : simpl never.
Arguments nthc : simpl nomatch.
Section P.
Variable cell : Type.

Lemma nthc_firstn : forall (l:list cell) n i,
  nthc i (firstn n l) = if (i <? n)%nat then nthc i l else None.
Proof.
  induction l as [|x l IH]; intros n i.
  - rewrite firstn_nil. destruct i; simpl; destruct (_ <? _)%nat; reflexivity.
  - destruct n as [|n]; simpl.
    + destruct i; reflexivity.
    + destruct i as [|i]; simpl; [reflexivity|]. rewrite IH.
      change (S i <? S n)%nat with (i <? n)%nat. reflexivity.
Qed.

Lemma nthc_skipn : forall (l:list cell) n i, nthc i (skipn n l) = nthc (n + i) l.
Proof.
  induction l as [|x l IH]; intros n i.
  - rewrite skipn_nil. destruct (n + i)%nat; destruct i; reflexivity.
  - destruct n as [|n]; simpl; [reflexivity|]. apply IH.
Qed.

Lemma nthc_beyond : forall (l:list cell) i, (length l <= i)%nat -> nthc i l = None.
Proof. induction l as [|x l IH]; intros i H; destruct i; simpl in *; try reflexivity; try lia. apply IH; lia. Qed.

(* rounding facts *)
Lemma cdiv_spec a b : 0 < b -> let q := cdiv a b in (q - 1) * b < a <= q * b.
Proof. intros Hb q. unfold q, cdiv. pose proof (Z.div_mod (-a) b ltac:(lia)). pose proof (Z.mod_pos_bound (-a) b Hb). nia. Qed.

Lemma rud_spec ts res u : 0 < res -> ts <> 0 -> u <> 0 ->
  let r := round_until_down ts res u in r <= ts < r + res /\ exists k, r = u - k * res.
Proof.
  intros Hr Hts Hu r. unfold r, round_until_down, is_zero.
  destruct (Z.eqb_spec ts 0); [contradiction|]. destruct (Z.eqb_spec u 0); [contradiction|].
  pose proof (cdiv_spec (u - ts) res Hr) as H. cbv zeta in H. split; [lia|]. eexists; reflexivity.
Qed.

Ltac Zify.zify_post_hook ::= Z.div_mod_to_equations.

Lemma den_some : forall res u (cs:list cell) t, 0 < res ->
  den cell res (Some (u, cs)) t =
    if (t <=? u) && ((u - t) mod res =? 0) then nthc (Z.to_nat ((u - t) / res)) cs else None.
Proof.
  intros res u cs t Hr. unfold den.
  destruct (Z.leb_spec 0 (u - t)); destruct (Z.leb_spec t u); try lia; simpl; [|reflexivity].
  rewrite Z.rem_mod_nonneg by lia. rewrite nthz_nthc by (apply Z.div_pos; lia). reflexivity.
Qed.


(* the asOf step, for any sequence start u0 on the grid of asOf' *)
Lemma asof_step : forall res u0 (cs1:list cell) asOf asOf' t, 0 < res ->
  (asOf = 0 /\ asOf' = 0 \/ asOf <> 0 /\ asOf' <> 0 /\ asOf' <= asOf < asOf' + res /\ exists k, asOf' = u0 - k * res) ->
  den cell res (if is_zero asOf' then Some (u0, cs1)
                else if Z.quot (u0 - asOf') res <=? 0 then None
                else Some (u0, firstz (Z.quot (u0 - asOf') res) cs1)) t =
  if (asOf =? 0) || (asOf <? t) then den cell res (Some (u0, cs1)) t else None.
Proof.
  intros res u0 cs1 asOf asOf' t Hr H. unfold is_zero. rewrite firstz_firstn.
  destruct H as [[-> ->]|[Han [Ha0 [Ha'1 [ka Ha'2]]]]]; [reflexivity|].
  destruct (Z.eqb_spec asOf' 0); [lia|]. destruct (Z.eqb_spec asOf 0); [lia|]. cbn [orb].
  assert (Hq : Z.quot (u0 - asOf') res = ka).
  { rewrite Ha'2. replace (u0 - (u0 - ka * res)) with (ka * res) by lia. rewrite Z.quot_mul; lia. }
  rewrite Hq. rewrite !den_some by assumption.
  destruct (Z.leb_spec ka 0).
  - unfold den. destruct (Z.ltb_spec asOf t); [|reflexivity].
    destruct (Z.leb_spec t u0); cbn [andb]; [|reflexivity]. exfalso. nia.
  - rewrite den_some by assumption. rewrite nthc_firstn.
    destruct (Z.leb_spec t u0); cbn [andb]; [|destruct (asOf <? t); reflexivity].
    destruct (Z.eqb_spec ((u0 - t) mod res) 0) as [Em|Nm]; [|destruct (asOf <? t); reflexivity].
    assert (Hdiv : u0 - t = ((u0 - t) / res) * res) by (pose proof (Z.div_mod (u0 - t) res ltac:(lia)); lia).
    set (j := (u0 - t) / res) in *. assert (0 <= j) by nia.
    destruct (Nat.ltb_spec (Z.to_nat j) (Z.to_nat ka)); destruct (Z.ltb_spec asOf t); try reflexivity; exfalso.
    + assert (j < ka) by lia. nia.
    + assert (ka <= j) by lia. nia.
Qed.

Definition until_step (u:Z) (cs:list cell) (res until':Z) : option (Z * list cell) :=
  if is_zero until' then Some (u, cs) else
    let ptr := Z.quot (u - until') res in
    if 0 <? ptr then (if Z.of_nat (length cs) <=? ptr then None else Some (until', skipz ptr cs))
    else Some (u, cs).

Lemma until_step_den : forall res u (cs:list cell) until until' t, 0 < res ->
  (until = 0 /\ until' = 0 \/ until <> 0 /\ until' <> 0 /\ until' <= until < until' + res /\ exists k, until' = u - k * res) ->
  den cell res (until_step u cs res until') t =
  if (until =? 0) || (t <=? until) then den cell res (Some (u, cs)) t else None.
Proof.
  intros res u cs until until' t Hr H. unfold until_step, is_zero. rewrite skipz_skipn.
  destruct H as [[-> ->]|[Hun [Hu0 [Hu1 [ku Hu2]]]]]; [reflexivity|].
  destruct (Z.eqb_spec until' 0); [lia|]. destruct (Z.eqb_spec until 0); [lia|]. cbn [orb].
  assert (Hq : Z.quot (u - until') res = ku).
  { rewrite Hu2. replace (u - (u - ku * res)) with (ku * res) by lia. rewrite Z.quot_mul; lia. }
  rewrite Hq.
  destruct (Z.ltb_spec 0 ku).
  - destruct (Z.leb_spec (Z.of_nat (length cs)) ku).
    + (* everything removed *)
      rewrite den_some by assumption. unfold den at 1.
      destruct (Z.leb_spec t until); [|reflexivity].
      destruct (Z.leb_spec t u); cbn [andb]; [|reflexivity].
      destruct (Z.eqb_spec ((u - t) mod res) 0) as [Em|Nm]; [|reflexivity].
      assert (Hdiv : u - t = ((u - t) / res) * res) by (pose proof (Z.div_mod (u - t) res ltac:(lia)); lia).
      set (j := (u - t) / res) in *. symmetry. apply nthc_beyond. assert (ku - 1 < j) by (apply Z.mul_lt_mono_pos_r with res; lia). lia.
    + rewrite !den_some by assumption. rewrite nthc_skipn.
      destruct (Z.leb_spec t until').
      * assert (t <= until) by lia. destruct (Z.leb_spec t until); [|lia].
        destruct (Z.leb_spec t u); [|nia]. cbn [andb].
        replace ((until' - t) mod res) with ((u - t) mod res).
        2:{ rewrite Hu2. replace (u - t) with ((u - ku * res - t) + ku * res) by lia. rewrite Z.mod_add by lia. reflexivity. }
        destruct (Z.eqb_spec ((u - t) mod res) 0) as [Em|Nm]; [|reflexivity].
        f_equal.
        assert (Hdiv : u - t = ((u - t) / res) * res) by (pose proof (Z.div_mod (u - t) res ltac:(lia)); lia).
        set (j := (u - t) / res) in *. clearbody j. clear Em.
        assert (Hj2 : (until' - t) / res = j - ku).
        { rewrite Hu2. replace (u - ku * res - t) with ((j - ku) * res) by lia. apply Z.div_mul; lia. }
        rewrite Hj2. assert (ku <= j) by (apply Z.mul_le_mono_pos_r with res; lia). lia.
      * cbn [andb].
        destruct (Z.leb_spec t until); [|reflexivity].
        (* until' < t <= until : t not on the grid *)
        destruct (Z.leb_spec t u); cbn [andb]; [|reflexivity].
        destruct (Z.eqb_spec ((u - t) mod res) 0) as [Em|Nm]; [|reflexivity].
        exfalso.
        assert (Hdiv : u - t = ((u - t) / res) * res) by (pose proof (Z.div_mod (u - t) res ltac:(lia)); lia).
        set (j := (u - t) / res) in *. clearbody j. clear Em.
        assert (j < ku) by (apply Z.mul_lt_mono_pos_r with res; lia).
        assert (ku - 1 < j) by (apply Z.mul_lt_mono_pos_r with res; lia). lia.
  - (* nothing to remove: until' >= u *)
    rewrite den_some by assumption.
    destruct (Z.leb_spec t until); [reflexivity|].
    destruct (Z.leb_spec t u); cbn [andb]; [|reflexivity]. exfalso. nia.
Qed.

Lemma truncate_unfold : forall (u:Z) (cs:list cell) res asOf until,
  truncate cell (Some (u, cs)) res asOf until =
  match until_step u cs res (round_until_down until res u) with
  | None => None
  | Some (u0, cs1) =>
    let asOf' := round_until_down asOf res u in
    if is_zero asOf' then Some (u0, cs1)
    else if Z.quot (u0 - asOf') res <=? 0 then None
    else Some (u0, firstz (Z.quot (u0 - asOf') res) cs1)
  end.
Proof. reflexivity. Qed.

Lemma until_step_start : forall u (cs:list cell) res until' u0 cs1,
  until_step u cs res until' = Some (u0, cs1) -> u0 = u \/ (u0 = until' /\ until' <> 0).
Proof.
  intros u cs res until' u0 cs1. unfold until_step, is_zero.
  destruct (Z.eqb_spec until' 0); [intros [= <- <-]; auto|].
  destruct (0 <? _); [destruct (_ <=? _); [discriminate|intros [= <- <-]; auto]|intros [= <- <-]; auto].
Qed.

Theorem truncate_den : forall (s:seq cell) res asOf until t, 0 < res ->
  (asOf = 0 \/ res <= asOf) -> (until = 0 \/ res <= until) -> (forall u cs, s = Some (u, cs) -> res <= u) ->
  den cell res (truncate cell s res asOf until) t =
  if ((asOf =? 0) || (asOf <? t)) && ((until =? 0) || (t <=? until)) then den cell res s t else None.
Proof.
  intros s res asOf until t Hr HA HU Hs.
  destruct s as [[u cs]|]; [|cbn; destruct (_ && _); reflexivity].
  specialize (Hs u cs eq_refl). assert (Hu0 : u <> 0) by lia.
  assert (HUN : until = 0 /\ round_until_down until res u = 0 \/
                until <> 0 /\ round_until_down until res u <> 0 /\
                round_until_down until res u <= until < round_until_down until res u + res /\
                exists k, round_until_down until res u = u - k * res).
  { destruct HU as [->|HU]; [left; split; reflexivity|right].
    destruct (rud_spec until res u Hr ltac:(lia) Hu0) as [A B]. repeat split; try lia; exact B. }
  assert (HAS : asOf = 0 /\ round_until_down asOf res u = 0 \/
                asOf <> 0 /\ round_until_down asOf res u <> 0 /\
                round_until_down asOf res u <= asOf < round_until_down asOf res u + res /\
                exists k, round_until_down asOf res u = u - k * res).
  { destruct HA as [->|HA]; [left; split; reflexivity|right].
    destruct (rud_spec asOf res u Hr ltac:(lia) Hu0) as [A B]. repeat split; try lia; exact B. }
  rewrite truncate_unfold.
  pose proof (until_step_den res u cs until _ t Hr HUN) as HS.
  destruct (until_step u cs res (round_until_down until res u)) as [[u0 cs1]|] eqn:E.
  - cbv zeta.
    rewrite (asof_step res u0 cs1 asOf (round_until_down asOf res u) t Hr).
    + rewrite HS. destruct ((asOf =? 0) || (asOf <? t)); destruct ((until =? 0) || (t <=? until)); reflexivity.
    + destruct HAS as [?|[A1 [A2 [A3 [ka A4]]]]]; [left; assumption|right]. repeat split; try assumption; try lia.
      destruct (until_step_start _ _ _ _ _ _ E) as [->|[-> Hne]]; [exists ka; exact A4|].
      destruct HUN as [[_ Z0]|[_ [_ [_ [ku Hku]]]]].
      * contradiction.
      * exists (ka - ku). lia.
  - change (den cell res None t) with (@None cell) in *.
    destruct ((asOf =? 0) || (asOf <? t)); destruct ((until =? 0) || (t <=? until)); cbn [andb]; try reflexivity; exact HS.
Qed.
End P.
