(* SortP.v — proofs about Model/Sort.v (C09) *)
From Coq Require Import Lia Sorting.Sorted Sorting.Permutation.
From Zeno Require Import Base BaseP Sort.

(* ---------- total-preorder comparisons ---------- *)
Record tpc {A} (c:A->A->comparison) : Prop := {
  tpc_sym : forall a b, c b a = CompOpp (c a b);
  tpc_eq_l : forall a b d, c a b = Eq -> c a d = c b d;
  tpc_lt : forall a b d, c a b = Lt -> c b d = Lt -> c a d = Lt }.

Lemma tpc_refl {A} (c:A->A->comparison) : tpc c -> forall a, c a a = Eq.
Proof. intros H a. pose proof (tpc_sym c H a a) as S. destruct (c a a); simpl in S; congruence. Qed.

Lemma tpc_le_trans {A} (c:A->A->comparison) : tpc c ->
  forall a b d, c a b <> Gt -> c b d <> Gt -> c a d <> Gt.
Proof.
  intros H a b d Hab Hbd.
  destruct (c a b) eqn:Eab; [| |congruence].
  - rewrite (tpc_eq_l c H a b d Eab). exact Hbd.
  - destruct (c b d) eqn:Ebd; [| |congruence].
    + pose proof (tpc_sym c H b d) as S. rewrite Ebd in S. simpl in S.
      pose proof (tpc_eq_l c H d b a S) as E2.
      pose proof (tpc_sym c H a b) as S2. rewrite Eab in S2. simpl in S2.
      pose proof (tpc_sym c H d a) as S3. rewrite E2, S2 in S3.
      destruct (c a d); simpl in S3; congruence.
    + rewrite (tpc_lt c H a b d Eab Ebd). congruence.
Qed.

Lemma tpc_total {A} (c:A->A->comparison) : tpc c -> forall a b, c a b <> Gt \/ c b a <> Gt.
Proof. intros H a b. pose proof (tpc_sym c H a b) as S. destruct (c a b); simpl in S; [left|left|right]; congruence. Qed.

Definition lexc {A} (c1 c2:A->A->comparison) (a b:A) : comparison :=
  match c1 a b with Eq => c2 a b | x => x end.

Lemma tpc_lexc {A} (c1 c2:A->A->comparison) : tpc c1 -> tpc c2 -> tpc (lexc c1 c2).
Proof.
  intros H1 H2. constructor; unfold lexc.
  - intros a b. rewrite (tpc_sym c1 H1 a b). destruct (c1 a b); simpl; auto. apply (tpc_sym c2 H2).
  - intros a b d. destruct (c1 a b) eqn:E1; try discriminate. intros E2.
    rewrite (tpc_eq_l c1 H1 a b d E1). destruct (c1 b d); auto. apply (tpc_eq_l c2 H2); auto.
  - intros a b d. destruct (c1 a b) eqn:Eab; try discriminate.
    + intros E2. rewrite (tpc_eq_l c1 H1 a b d Eab).
      destruct (c1 b d); try discriminate; auto. intros. eapply (tpc_lt c2 H2); eauto.
    + intros _. destruct (c1 b d) eqn:Ebd; try discriminate.
      * intros _.
        pose proof (tpc_sym c1 H1 b d) as S. rewrite Ebd in S. simpl in S.
        pose proof (tpc_eq_l c1 H1 d b a S) as E2.
        pose proof (tpc_sym c1 H1 a b) as S2. rewrite Eab in S2. simpl in S2.
        pose proof (tpc_sym c1 H1 d a) as S3. rewrite E2, S2 in S3.
        destruct (c1 a d); simpl in S3; congruence.
      * intros _. rewrite (tpc_lt c1 H1 a b d Eab Ebd). reflexivity.
Qed.

Lemma tpc_on {A B} (f:A->B) (c:B->B->comparison) : tpc c -> tpc (fun a b => c (f a) (f b)).
Proof. intros H. constructor; intros; [apply (tpc_sym c H)|apply (tpc_eq_l c H); auto|eapply (tpc_lt c H); eauto]. Qed.

Lemma tpc_flip {A} (c:A->A->comparison) : tpc c -> tpc (fun a b => c b a).
Proof.
  intros H. constructor.
  - intros a b. apply (tpc_sym c H).
  - intros a b d E. cbv beta in *.
    pose proof (tpc_sym c H b a) as S. rewrite E in S. simpl in S.
    rewrite (tpc_sym c H a d), (tpc_sym c H b d). f_equal. apply (tpc_eq_l c H); auto.
  - intros a b d E1 E2. cbv beta in *. eapply (tpc_lt c H); eauto.
Qed.

Lemma tpc_Z : tpc Z.compare.
Proof.
  constructor.
  - intros a b. apply Z.compare_antisym.
  - intros a b d E. apply Z.compare_eq in E. subst. reflexivity.
  - intros a b d E1 E2. rewrite Z.compare_lt_iff in *. lia.
Qed.

Lemma tpc_bool : tpc bool_cmp.
Proof. constructor; intros [] [] ; try intros []; simpl; congruence. Qed.

Lemma str_cmp_eq : forall a b, str_cmp a b = Eq -> a = b.
Proof.
  induction a as [|x a IH]; destruct b as [|y b]; simpl; try discriminate; auto.
  destruct (x ?= y) eqn:E; try discriminate. intros H. apply Z.compare_eq in E. f_equal; auto.
Qed.
Lemma str_cmp_refl : forall a, str_cmp a a = Eq.
Proof. induction a as [|x a IH]; simpl; auto. rewrite Z.compare_refl. auto. Qed.

Lemma tpc_str : tpc str_cmp.
Proof.
  constructor.
  - induction a as [|x a IH]; destruct b as [|y b]; simpl; auto.
    rewrite (Z.compare_antisym x y). destruct (x ?= y); simpl; auto.
  - intros a b d E. apply str_cmp_eq in E. subst. reflexivity.
  - induction a as [|x a IH]; destruct b as [|y b]; destruct d as [|z d]; simpl; try discriminate; auto.
    destruct (x ?= y) eqn:E1; try discriminate.
    + apply Z.compare_eq in E1. subst. destruct (y ?= z); try discriminate; auto. apply IH.
    + intros _. destruct (y ?= z) eqn:E2; try discriminate.
      * apply Z.compare_eq in E2. subst. rewrite E1. auto.
      * intros _. rewrite Z.compare_lt_iff in *. assert (x < z) by lia.
        apply Z.compare_lt_iff in H. rewrite H. auto.
Qed.

Lemma vcmp_tag_lt : forall a b, vtag a < vtag b -> vcmp a b = Lt.
Proof. intros a b H. destruct a, b; simpl in *; try lia; reflexivity. Qed.
Lemma vcmp_tag_gt : forall a b, vtag a > vtag b -> vcmp a b = Gt.
Proof. intros a b H. destruct a, b; simpl in *; try lia; reflexivity. Qed.
Lemma vcmp_tag : forall a b, vcmp a b = Eq -> vtag a = vtag b.
Proof.
  intros a b. destruct a, b; simpl; try discriminate; auto.
Qed.
Lemma vcmp_tag_le : forall a b, vcmp a b = Lt -> vtag a <= vtag b.
Proof. intros a b. destruct a, b; simpl; try discriminate; try lia. Qed.

Lemma vcmp_eq : forall a b, vcmp a b = Eq -> a = b.
Proof.
  intros a b. destruct a, b; simpl; try discriminate; auto.
  - destruct b, b0; simpl; try discriminate; auto.
  - intros E. apply Z.compare_eq in E. congruence.
  - intros E. apply Z.compare_eq in E. congruence.
  - intros E. apply str_cmp_eq in E. congruence.
Qed.

Lemma tpc_vcmp : tpc vcmp.
Proof.
  constructor.
  - intros a b. destruct a, b; simpl; auto.
    + apply (tpc_sym _ tpc_bool).
    + apply Z.compare_antisym.
    + apply Z.compare_antisym.
    + apply (tpc_sym _ tpc_str).
  - intros a b d E. apply vcmp_eq in E. subst. reflexivity.
  - intros a b d E1 E2.
    pose proof (vcmp_tag_le _ _ E1) as T1. pose proof (vcmp_tag_le _ _ E2) as T2.
    destruct (Z.eq_dec (vtag a) (vtag d)) as [Te|Tn]; [|apply vcmp_tag_lt; lia].
    assert (vtag a = vtag b) by lia. assert (vtag b = vtag d) by lia.
    destruct a, b, d; simpl in *; try lia; try discriminate.
    + eapply (tpc_lt _ tpc_bool); eauto.
    + eapply (tpc_lt _ tpc_Z); eauto.
    + eapply (tpc_lt _ tpc_Z); eauto.
    + eapply (tpc_lt _ tpc_str); eauto.
Qed.

Lemma tpc_key_cmp : forall k, tpc (key_cmp k).
Proof.
  intros [d|n d]; unfold key_cmp; destruct d.
  - apply (tpc_flip (fun a b => r_ts a ?= r_ts b)). apply (tpc_on r_ts _ tpc_Z).
  - apply (tpc_on r_ts _ tpc_Z).
  - apply (tpc_flip (fun a b => vcmp (row_get a n) (row_get b n))). apply (tpc_on (fun r => row_get r n) _ tpc_vcmp).
  - apply (tpc_on (fun r => row_get r n) _ tpc_vcmp).
Qed.

Lemma tpc_row_cmp : forall ks, tpc (row_cmp ks).
Proof.
  induction ks as [|k ks IH].
  - constructor; simpl; auto; discriminate.
  - change (row_cmp (k::ks)) with (lexc (key_cmp k) (row_cmp ks)). apply tpc_lexc; auto. apply tpc_key_cmp.
Qed.

(* ---------- Less is the strict part of the lexicographic order ---------- *)
Lemma cmp_vcmp : forall a b c, cmp a b = Some c -> vcmp a b = c.
Proof. intros a b c. destruct a, b; simpl; intros [= <-]; reflexivity. Qed.
Lemma cmp_def_sym : forall a b, cmp a b <> None -> cmp b a <> None.
Proof. intros a b. destruct a, b; simpl; congruence. Qed.

Definition is_lt (c:comparison) : bool := match c with Lt => true | _ => false end.

Lemma less_is_lex : forall ks a b, comparable2 ks a b = true ->
  less ks a b = Some (is_lt (row_cmp ks a b)).
Proof.
  induction ks as [|k ks IH]; intros a b Hc; [reflexivity|].
  simpl in Hc. apply andb_prop in Hc. destruct Hc as [Hk Hr]. specialize (IH a b Hr).
  destruct k as [d|n d]; cbn [less row_cmp key_cmp].
  - destruct d.
    + destruct (Z.compare_spec (r_ts b) (r_ts a)) as [E|E|E].
      * rewrite E. rewrite Z.ltb_irrefl. exact IH.
      * apply Z.ltb_lt in E. rewrite E. reflexivity.
      * assert (r_ts b <? r_ts a = false) as -> by (apply Z.ltb_ge; lia).
        apply Z.ltb_lt in E. rewrite E. reflexivity.
    + destruct (Z.compare_spec (r_ts a) (r_ts b)) as [E|E|E].
      * rewrite E. rewrite Z.ltb_irrefl. exact IH.
      * apply Z.ltb_lt in E. rewrite E. reflexivity.
      * assert (r_ts a <? r_ts b = false) as -> by (apply Z.ltb_ge; lia).
        apply Z.ltb_lt in E. rewrite E. reflexivity.
  - destruct (cmp (row_get a n) (row_get b n)) as [c|] eqn:E; [|discriminate].
    destruct d.
    + assert (cmp (row_get b n) (row_get a n) <> None) as Hd by (apply cmp_def_sym; congruence).
      destruct (cmp (row_get b n) (row_get a n)) as [c'|] eqn:E'; [|congruence].
      rewrite (cmp_vcmp _ _ _ E'). destruct c'; auto.
    + rewrite E. rewrite (cmp_vcmp _ _ _ E). destruct c; auto.
Qed.

Lemma comparable_in : forall ks rows a b, comparable ks rows = true -> In a rows -> In b rows ->
  comparable2 ks a b = true.
Proof.
  intros ks rows a b H Ha Hb. unfold comparable in H. rewrite forallb_forall in H.
  specialize (H a Ha). rewrite forallb_forall in H. exact (H b Hb).
Qed.

(* ---------- the order is a total preorder ---------- *)
Lemma lex_le_trans : forall ks a b d, lex_le ks a b -> lex_le ks b d -> lex_le ks a d.
Proof. intros ks. apply (tpc_le_trans _ (tpc_row_cmp ks)). Qed.
Lemma lex_le_total : forall ks a b, lex_le ks a b \/ lex_le ks b a.
Proof. intros ks. apply (tpc_total _ (tpc_row_cmp ks)). Qed.
Lemma lex_le_refl : forall ks a, lex_le ks a a.
Proof. intros ks a. unfold lex_le. rewrite (tpc_refl _ (tpc_row_cmp ks)). congruence. Qed.
Lemma lex_leb_spec : forall ks a b, lex_leb ks a b = true <-> lex_le ks a b.
Proof. intros. unfold lex_leb, lex_le. destruct (row_cmp ks a b); split; congruence. Qed.

(* ---------- sorted_chk decides StronglySorted ---------- *)
Lemma sorted_chk_sorted : forall ks l, sorted_chk ks l = true <-> Sorted (lex_le ks) l.
Proof.
  intros ks. induction l as [|a r IH]; [split; auto|].
  cbn [sorted_chk]. destruct r as [|b r'].
  - split; auto.
  - rewrite andb_true_iff, IH, lex_leb_spec. split.
    + intros [H1 H2]. constructor; auto.
    + intros H. inversion H as [|? ? Hs Hh]; subst. inversion Hh; subst. auto.
Qed.

Lemma sorted_chk_strongly : forall ks l, sorted_chk ks l = true <-> StronglySorted (lex_le ks) l.
Proof.
  intros ks l. rewrite sorted_chk_sorted. split.
  - apply Sorted_StronglySorted. intros a b d. apply lex_le_trans.
  - apply StronglySorted_Sorted.
Qed.

(* ---------- perm_chk decides Permutation ---------- *)
Lemma list_eqb_eq {A} (e:A->A->bool) : (forall x y, e x y = true <-> x = y) ->
  forall a b, list_eqb e a b = true <-> a = b.
Proof.
  intros He. induction a as [|x a IH]; destruct b as [|y b]; simpl; try (split; congruence).
  rewrite andb_true_iff, He, IH. split; [intros [-> ->]; auto|intros [= -> ->]; auto].
Qed.

Lemma val_eqb_eq : forall a b, val_eqb a b = true <-> a = b.
Proof.
  intros a b. destruct a, b; simpl; try (split; congruence).
  - rewrite Bool.eqb_true_iff. split; congruence.
  - rewrite Z.eqb_eq. split; congruence.
  - rewrite Z.eqb_eq. split; congruence.
  - split.
    + destruct (str_cmp s s0) eqn:E; try discriminate. intros _. apply str_cmp_eq in E. congruence.
    + intros [= ->]. rewrite str_cmp_refl. reflexivity.
Qed.

Lemma row_eqb_eq : forall a b, row_eqb a b = true <-> a = b.
Proof.
  intros [t v k] [t' v' k']. unfold row_eqb. cbn [r_ts r_vals r_key].
  rewrite !andb_true_iff, Z.eqb_eq.
  rewrite (list_eqb_eq (fun x y => (fst x =? fst y) && (snd x =? snd y))).
  2:{ intros [x1 x2] [y1 y2]. cbn [fst snd]. rewrite andb_true_iff, !Z.eqb_eq. split; [intros [-> ->]; auto|intros [= -> ->]; auto]. }
  rewrite (list_eqb_eq (fun x y => (fst x =? fst y) && val_eqb (snd x) (snd y))).
  2:{ intros [x1 x2] [y1 y2]. cbn [fst snd]. rewrite andb_true_iff, Z.eqb_eq, val_eqb_eq. split; [intros [-> ->]; auto|intros [= -> ->]; auto]. }
  split; [intros [[-> ->] ->]; auto|intros [= -> -> ->]; auto].
Qed.

Definition frow_eq_dec : forall a b:frow, {a = b} + {a <> b}.
Proof.
  intros a b. destruct (row_eqb a b) eqn:E.
  - left. apply row_eqb_eq. exact E.
  - right. intros H. apply row_eqb_eq in H. congruence.
Defined.

Lemma count_row_occ : forall x l, count_row x l = count_occ frow_eq_dec l x.
Proof.
  intros x. induction l as [|y l IH]; [reflexivity|].
  unfold count_row in *. cbn [filter count_occ].
  destruct (frow_eq_dec y x) as [->|N].
  - assert (row_eqb x x = true) as -> by (apply row_eqb_eq; auto). simpl. f_equal. exact IH.
  - destruct (row_eqb x y) eqn:E; [apply row_eqb_eq in E; congruence|exact IH].
Qed.

Lemma perm_chk_perm : forall l1 l2, perm_chk l1 l2 = true <-> Permutation l1 l2.
Proof.
  intros l1 l2. unfold perm_chk. rewrite (Permutation_count_occ frow_eq_dec). rewrite forallb_forall. split.
  - intros H x. destruct (in_dec frow_eq_dec x (l1 ++ l2)) as [I|N].
    + specialize (H x I). apply Nat.eqb_eq in H. rewrite <- !count_row_occ. exact H.
    + assert (~ In x l1 /\ ~ In x l2) as [N1 N2] by (split; intros ?; apply N; apply in_or_app; auto).
      apply (count_occ_not_In frow_eq_dec) in N1. apply (count_occ_not_In frow_eq_dec) in N2. congruence.
  - intros H x _. apply Nat.eqb_eq. rewrite !count_row_occ. apply H.
Qed.

Lemma rows_eqb_eq : forall a b, rows_eqb a b = true <-> a = b.
Proof. apply list_eqb_eq. apply row_eqb_eq. Qed.

(* ---------- the model's sort ---------- *)
Lemma insert_perm : forall ks x l, Permutation (x :: l) (insert_sorted ks x l).
Proof.
  intros ks x. induction l as [|y l IH]; simpl; auto.
  destruct (lessb ks y x); auto. eapply perm_trans; [apply perm_swap|]. constructor. exact IH.
Qed.

Lemma sort_rows_perm : forall ks l, Permutation l (sort_rows ks l).
Proof.
  intros ks. induction l as [|x l IH]; simpl; auto.
  eapply perm_trans; [|apply insert_perm]. constructor. exact IH.
Qed.

Lemma lessb_lt : forall ks a b, comparable2 ks a b = true -> lessb ks a b = is_lt (row_cmp ks a b).
Proof. intros ks a b H. unfold lessb. rewrite (less_is_lex ks a b H). destruct (is_lt _); reflexivity. Qed.

Lemma insert_sorted_ok : forall ks x l,
  (forall y, In y l -> comparable2 ks y x = true) ->
  StronglySorted (lex_le ks) l -> StronglySorted (lex_le ks) (insert_sorted ks x l).
Proof.
  intros ks x. induction l as [|y l IH]; intros Hc Hs; simpl.
  - repeat constructor.
  - inversion Hs as [|? ? Hs' Hall]; subst.
    rewrite (lessb_lt ks y x) by (apply Hc; left; auto).
    destruct (row_cmp ks y x) eqn:E; cbn [is_lt].
    + constructor; auto. constructor.
      * unfold lex_le. pose proof (tpc_sym _ (tpc_row_cmp ks) y x) as S. rewrite E in S. simpl in S. congruence.
      * rewrite Forall_forall in *. intros z Hz. eapply lex_le_trans; [|apply Hall; exact Hz].
        unfold lex_le. pose proof (tpc_sym _ (tpc_row_cmp ks) y x) as S. rewrite E in S. simpl in S. congruence.
    + constructor.
      * apply IH; auto. intros z Hz. apply Hc. right. auto.
      * rewrite Forall_forall in *. intros z Hz.
        apply (Permutation_in _ (Permutation_sym (insert_perm ks x l))) in Hz. destruct Hz as [<-|Hz].
        -- unfold lex_le. congruence.
        -- apply Hall. exact Hz.
    + constructor; auto. constructor.
      * unfold lex_le. pose proof (tpc_sym _ (tpc_row_cmp ks) y x) as S. rewrite E in S. simpl in S. congruence.
      * rewrite Forall_forall in *. intros z Hz. eapply lex_le_trans; [|apply Hall; exact Hz].
        unfold lex_le. pose proof (tpc_sym _ (tpc_row_cmp ks) y x) as S. rewrite E in S. simpl in S. congruence.
Qed.

Lemma sort_rows_sorted_gen : forall ks l,
  (forall a b, In a l -> In b l -> comparable2 ks a b = true) ->
  StronglySorted (lex_le ks) (sort_rows ks l).
Proof.
  intros ks. induction l as [|x l IH]; intros Hc; simpl; [constructor|].
  apply insert_sorted_ok.
  - intros y Hy. apply (Permutation_in _ (Permutation_sym (sort_rows_perm ks l))) in Hy.
    apply Hc; [right|left]; auto.
  - apply IH. intros a b Ha Hb. apply Hc; right; auto.
Qed.

Lemma sort_rows_sorted : forall ks l, comparable ks l = true -> StronglySorted (lex_le ks) (sort_rows ks l).
Proof. intros ks l H. apply sort_rows_sorted_gen. intros a b. apply comparable_in. exact H. Qed.

(* ---------- limit / offset ---------- *)
Lemma offset_from_skipn : forall l idx off, offset_from idx off l = skipn (Z.to_nat (off - idx)) l.
Proof.
  induction l as [|x l IH]; intros idx off; cbn [offset_from].
  - rewrite skipn_nil. reflexivity.
  - destruct (Z.leb_spec off idx).
    + rewrite IH. replace (Z.to_nat (off - idx)) with O by lia. replace (Z.to_nat (off - (idx+1))) with O by lia. reflexivity.
    + rewrite IH. replace (Z.to_nat (off - idx)) with (S (Z.to_nat (off - (idx+1)))) by lia. reflexivity.
Qed.
Lemma limit_from_firstn : forall l idx lim, limit_from idx lim l = firstn (Z.to_nat (lim - idx)) l.
Proof.
  induction l as [|x l IH]; intros idx lim; cbn [limit_from].
  - rewrite firstn_nil. reflexivity.
  - destruct (Z.ltb_spec idx lim).
    + rewrite IH. replace (Z.to_nat (lim - idx)) with (S (Z.to_nat (lim - (idx+1)))) by lia. reflexivity.
    + replace (Z.to_nat (lim - idx)) with O by lia. reflexivity.
Qed.

Lemma limit_offset : forall (n m:nat) rows,
  limit_rows (Z.of_nat n) (offset_rows (Z.of_nat m) rows) = firstn n (skipn m rows).
Proof.
  intros. unfold limit_rows, offset_rows. rewrite limit_from_firstn, offset_from_skipn.
  rewrite !Z.sub_0_r, !Nat2Z.id. reflexivity.
Qed.

Lemma pipeline_spec : forall ks off lim rows, 0 <= off -> (forall n, lim = Some n -> 0 <= n) ->
  order_limit_offset ks off lim rows =
  slice_spec off lim (match ks with [] => rows | _ => sort_rows ks rows end).
Proof.
  intros ks off lim rows Ho Hl. unfold order_limit_offset, slice_spec.
  set (l1 := match ks with [] => rows | _ => sort_rows ks rows end).
  assert (E2 : (if 0 <? off then offset_rows off l1 else l1) = skipz (Z.max 0 off) l1).
  { unfold offset_rows. rewrite skipz_skipn, offset_from_skipn, Z.sub_0_r. rewrite Z.max_r by lia.
    destruct (Z.ltb_spec 0 off); auto. replace off with 0 by lia. reflexivity. }
  rewrite E2. destruct lim as [n|]; auto.
  unfold limit_rows. rewrite firstz_firstn, limit_from_firstn, Z.sub_0_r. rewrite (Z.max_r 0 n); [reflexivity|]. apply Hl. reflexivity.
Qed.

Lemma firstn_incl {A} : forall n (l:list A), incl (firstn n l) l.
Proof.
  induction n as [|n IH]; intros l x H; [destruct H|].
  destruct l as [|y l]; [destruct H|]. destruct H as [H|H]; [left; auto|right; apply IH; auto].
Qed.
Lemma skipn_incl {A} : forall n (l:list A), incl (skipn n l) l.
Proof.
  induction n as [|n IH]; intros l x H; [exact H|].
  destruct l as [|y l]; [destruct H|]. right. apply IH. exact H.
Qed.

Lemma never_more : forall (n m:nat) rows,
  (length (limit_rows (Z.of_nat n) (offset_rows (Z.of_nat m) rows)) <= n)%nat /\
  incl (limit_rows (Z.of_nat n) (offset_rows (Z.of_nat m) rows)) rows.
Proof.
  intros. rewrite limit_offset. split.
  - rewrite firstn_length. lia.
  - intros x H. apply firstn_incl in H. apply skipn_incl in H. exact H.
Qed.

(* ---------- the oracle run on implementation output is sound ---------- *)
Lemma sort_case_ok_sound : forall c, sort_case_ok c = true ->
  StronglySorted (lex_le (sc_keys c)) (sc_sorted c) /\
  Permutation (sc_in c) (sc_sorted c) /\
  (sc_keys c = [] -> sc_sorted c = sc_in c) /\
  sc_out c = slice_spec (sc_off c) (sc_lim c) (sc_sorted c).
Proof.
  intros c H. unfold sort_case_ok in H. rewrite !andb_true_iff in H. destruct H as [[[H1 H2] H3] H4].
  split; [apply sorted_chk_strongly; auto|]. split; [apply perm_chk_perm; auto|]. split.
  - intros E. rewrite E in H3. apply rows_eqb_eq in H3. auto.
  - apply rows_eqb_eq. auto.
Qed.
