(* DBP.v — facts about the specification-level query model (Model/DB.v):
   periods, buckets, windows, groups, filters (C01, C06, C07, C08). *)
From Coq Require Import Lia QArith.
From Zeno Require Import Base Sort SortP Expr ExprSpec ExprP DB.
Local Open Scope Z_scope.
Ltac Zify.zify_post_hook ::= Z.div_mod_to_equations.

(* ---------- periods ---------- *)
(* a timestamp falls into exactly one native period: the one ending at the least multiple of res >= ts *)
Lemma bucket_spec : forall res ts, 0 < res ->
  let b := bucket res ts in
  ts <= b < ts + res /\ (exists k, b = k * res) /\
  (forall b', (exists k', b' = k' * res) -> ts <= b' -> b <= b').
Proof.
  intros res ts Hr b. unfold b, bucket, ceil_mul.
  pose proof (Z.div_mod (- ts) res ltac:(lia)) as D. pose proof (Z.mod_pos_bound (- ts) res Hr) as M.
  split; [lia|]. split; [exists (- (- ts / res)); reflexivity|].
  intros b' [k' ->] Hb'.
  set (q := - ts / res) in *. clearbody q.
  assert (Hlt : (- q - k') * res < 1 * res) by lia.
  apply Z.mul_lt_mono_pos_r in Hlt; [|lia]. nia.
Qed.

Lemma bucket_unique : forall res ts b, 0 < res -> (exists k, b = k * res) -> ts <= b < ts + res -> b = bucket res ts.
Proof.
  intros res ts b Hr [k ->] Hb. destruct (bucket_spec res ts Hr) as [B1 [[k0 B2] B3]].
  rewrite B2 in *. assert (k = k0); [|subst; reflexivity]. nia.
Qed.

(* coarser periods anchored at until: T - p < t <= T, T on the grid anchored at u *)
Lemma out_bucket_spec : forall u p t, 0 < p -> t <= u ->
  let T := out_bucket u p t in
  T - p < t <= T /\ T <= u /\ exists n, 0 <= n /\ T = u - n * p.
Proof.
  intros u p t Hp Ht T. unfold T, out_bucket.
  pose proof (Z.div_mod (u - t) p ltac:(lia)) as D. pose proof (Z.mod_pos_bound (u - t) p Hp) as M.
  assert (0 <= (u - t) / p) by (apply Z.div_pos; lia).
  split; [nia|]. split; [nia|]. exists ((u - t) / p). split; [assumption|reflexivity].
Qed.

(* the output periods of one key are pairwise disjoint: a native period lies in exactly one of them *)
Lemma out_bucket_unique : forall u p t T n, 0 < p -> t <= u -> 0 <= n -> T = u - n * p -> T - p < t <= T ->
  T = out_bucket u p t.
Proof.
  intros u p t T n Hp Ht Hn -> HT.
  destruct (out_bucket_spec u p t Hp Ht) as [B1 [B2 [m [Hm B3]]]]. rewrite B3 in *.
  assert (n = m); [|subst; reflexivity]. nia.
Qed.

(* ---------- keys ---------- *)
Lemma key_eqb_eq : forall a b, key_eqb a b = true <-> a = b.
Proof.
  apply list_eqb_eq. intros [x1 x2] [y1 y2]. cbn [fst snd].
  rewrite andb_true_iff, Z.eqb_eq, val_eqb_eq. split; [intros [-> ->]; auto|intros [= -> ->]; auto].
Qed.
Lemma key_eqb_refl : forall a, key_eqb a a = true.
Proof. intros. apply key_eqb_eq. reflexivity. Qed.

(* ---------- groups ---------- *)
Definition gmatch (k:key) (t:Z) (g:key * Z * list point) : bool := key_eqb k (fst (fst g)) && (t =? snd (fst g)).
Definition glookup (k:key) (t:Z) (gs:list (key * Z * list point)) : list point :=
  match find (gmatch k t) gs with Some g => snd g | None => [] end.

Lemma glookup_cons : forall k t k0 t0 ps gs,
  glookup k t ((k0, t0, ps) :: gs) = if key_eqb k k0 && (t =? t0) then ps else glookup k t gs.
Proof. intros. unfold glookup. cbn [find]. unfold gmatch at 1. cbn [fst snd]. destruct (key_eqb k k0 && (t =? t0)); reflexivity. Qed.

Lemma add_to_group_lookup : forall gs k t k' t' pt,
  glookup k t (add_to_group k' t' pt gs) =
  if key_eqb k k' && (t =? t') then glookup k t gs ++ [pt] else glookup k t gs.
Proof.
  induction gs as [|[[k0 t0] ps] gs IH]; intros k t k' t' pt.
  - cbn [add_to_group]. rewrite glookup_cons. unfold glookup. cbn [find].
    destruct (key_eqb k k' && (t =? t')); reflexivity.
  - cbn [add_to_group].
    destruct (key_eqb k' k0 && (t' =? t0)) eqn:E0.
    + apply andb_prop in E0. destruct E0 as [E1 E2]. apply key_eqb_eq in E1. apply Z.eqb_eq in E2. subst k0 t0.
      rewrite !glookup_cons. destruct (key_eqb k k' && (t =? t')); reflexivity.
    + rewrite !glookup_cons. rewrite IH.
      destruct (key_eqb k k0 && (t =? t0)) eqn:E1; [|reflexivity].
      apply andb_prop in E1. destruct E1 as [A B]. apply key_eqb_eq in A. apply Z.eqb_eq in B. subst k0 t0.
      destruct (key_eqb k k' && (t =? t')) eqn:E2; [|reflexivity].
      exfalso. apply andb_prop in E2. destruct E2 as [A B]. apply key_eqb_eq in A. apply Z.eqb_eq in B. subst.
      rewrite key_eqb_refl, Z.eqb_refl in E0. discriminate.
Qed.

Definition contributes_to (T:table) (q:query) (k:key) (t:Z) (p:tpoint) : bool :=
  match contributes T q p with Some (k', t') => key_eqb k k' && (t =? t') | None => false end.

Definition gstep (T:table) (q:query) (gs:list (key * Z * list point)) (p:tpoint) :=
  match contributes T q p with Some (k, t) => add_to_group k t (tp_pt p) gs | None => gs end.

Lemma groups_lookup_gen : forall T q pts gs k t,
  glookup k t (fold_left (gstep T q) pts gs) =
  glookup k t gs ++ map tp_pt (filter (contributes_to T q k t) pts).
Proof.
  intros T q. induction pts as [|p pts IH]; intros gs k t; cbn [fold_left filter map].
  - rewrite app_nil_r. reflexivity.
  - rewrite IH. unfold gstep at 1. unfold contributes_to at 2.
    destruct (contributes T q p) as [[k' t']|]; [|reflexivity].
    rewrite add_to_group_lookup. destruct (key_eqb k k' && (t =? t')); cbn [map]; [rewrite <- app_assoc|]; reflexivity.
Qed.

(* the points of output row (k,t) are exactly the accepted in-window points that project to k and
   whose native period lies in the row's period, in arrival order *)
Theorem groups_lookup : forall T q pts k t,
  glookup k t (groups T q pts) = map tp_pt (filter (contributes_to T q k t) pts).
Proof. intros. unfold groups. apply (groups_lookup_gen T q pts [] k t). Qed.

(* exactly one group per (key, row timestamp) *)
Definition gkeys_nodup (gs:list (key * Z * list point)) : Prop :=
  forall i j g h, nth_error gs i = Some g -> nth_error gs j = Some h -> i <> j ->
  gmatch (fst (fst g)) (snd (fst g)) h = false.

Lemma add_to_group_keys : forall gs k t pt g, In g (add_to_group k t pt gs) ->
  (fst (fst g) = k /\ snd (fst g) = t) \/ exists g', In g' gs /\ fst g' = fst g.
Proof.
  induction gs as [|[[k0 t0] ps] gs IH]; intros k t pt g H; cbn [add_to_group] in H.
  - destruct H as [<-|[]]. left. auto.
  - destruct (key_eqb k k0 && (t =? t0)) eqn:E.
    + destruct H as [<-|H]; [right; exists (k0, t0, ps); split; [left; auto|reflexivity]|].
      right. exists g. split; [right; auto|reflexivity].
    + destruct H as [<-|H]; [right; exists (k0, t0, ps); split; [left; auto|reflexivity]|].
      destruct (IH k t pt g H) as [A|[g' [A B]]]; [left; auto|right; exists g'; split; [right; auto|auto]].
Qed.

Definition gdistinct (gs:list (key * Z * list point)) : Prop :=
  NoDup (map fst gs).

Lemma add_to_group_distinct : forall gs k t pt, gdistinct gs -> gdistinct (add_to_group k t pt gs).
Proof.
  unfold gdistinct. induction gs as [|[[k0 t0] ps] gs IH]; intros k t pt H; cbn [add_to_group map].
  - constructor; [intros []|constructor].
  - cbn [map fst] in H. inversion H as [|? ? Hn Hd]; subst.
    destruct (key_eqb k k0 && (t =? t0)) eqn:E; cbn [map fst].
    + constructor; assumption.
    + constructor; [|apply IH; assumption].
      intros Hin. apply in_map_iff in Hin. destruct Hin as [g [Hg1 Hg2]].
      destruct (add_to_group_keys gs k t pt g Hg2) as [[A B]|[g' [A B]]].
      * destruct g as [[gk gt] gp]. cbn [fst snd] in *. subst. inversion Hg1; subst.
        rewrite key_eqb_refl, Z.eqb_refl in E. discriminate.
      * apply Hn. apply in_map_iff. exists g'. split; [congruence|assumption].
Qed.

Theorem groups_distinct : forall T q pts, gdistinct (groups T q pts).
Proof.
  intros T q pts. unfold groups.
  assert (G : forall gs, gdistinct gs -> gdistinct (fold_left (gstep T q) pts gs)).
  { induction pts as [|p pts IH]; intros gs H; cbn [fold_left]; auto.
    apply IH. unfold gstep. destruct (contributes T q p) as [[k t]|]; auto. apply add_to_group_distinct. exact H. }
  apply (G []). constructor.
Qed.

(* every point contributes to at most one row, and that row's window contains its native period *)
Theorem contributes_window : forall T q p k t, contributes T q p = Some (k, t) -> needs_group T q = true ->
  0 < q_period' T q -> bucket (t_res T) (tp_ts p) <= q_until' T q ->
  q_asof' T q < bucket (t_res T) (tp_ts p) <= q_until' T q /\
  t - q_period' T q < bucket (t_res T) (tp_ts p) <= t /\ t <= q_until' T q.
Proof.
  intros T q p k t H Hg Hp Hu. unfold contributes in H.
  destruct (accepted T p && flag (q_where q) p); [|discriminate]. rewrite Hg in H.
  destruct ((q_asof' T q <? bucket (t_res T) (tp_ts p)) && (bucket (t_res T) (tp_ts p) <=? q_until' T q)) eqn:E; [|discriminate].
  apply andb_prop in E. destruct E as [E1 E2]. apply Z.ltb_lt in E1. apply Z.leb_le in E2.
  inversion H; subst. destruct (out_bucket_spec (q_until' T q) (q_period' T q) (bucket (t_res T) (tp_ts p)) Hp E2) as [A [B _]].
  split; [lia|]. split; [exact A|exact B].
Qed.

(* no row for a native period outside (asOf', until'] *)
Theorem outside_window_no_contribution : forall T q p, needs_group T q = true ->
  (bucket (t_res T) (tp_ts p) <= q_asof' T q \/ q_until' T q < bucket (t_res T) (tp_ts p)) ->
  contributes T q p = None.
Proof.
  intros T q p Hg H. unfold contributes. destruct (accepted T p && flag (q_where q) p); [|reflexivity].
  rewrite Hg. destruct (Z.ltb_spec (q_asof' T q) (bucket (t_res T) (tp_ts p))); destruct (Z.leb_spec (bucket (t_res T) (tp_ts p)) (q_until' T q)); cbn [andb]; try reflexivity; lia.
Qed.

(* ---------- WHERE = the same query over only the matching points ---------- *)
Definition without_where (q:query) : query :=
  {| q_fields := q_fields q; q_groupby := q_groupby q; q_period := q_period q; q_asof := q_asof q;
     q_until := q_until q; q_where := None; q_now := q_now q; q_vis := q_vis q; q_limit := q_limit q |}.

Lemma contributes_where : forall T q p,
  contributes T q p = if flag (q_where q) p then contributes T (without_where q) p else None.
Proof.
  intros T q p. unfold contributes. cbn [q_where without_where flag].
  destruct (flag (q_where q) p); [|rewrite andb_false_r; reflexivity]. rewrite !andb_true_r. reflexivity.
Qed.

Theorem groups_where : forall T q pts,
  groups T q pts = groups T (without_where q) (filter (flag (q_where q)) pts).
Proof.
  intros T q pts. unfold groups. generalize (@nil (key * Z * list point)) as gs.
  induction pts as [|p pts IH]; intros gs; cbn [fold_left filter]; [reflexivity|].
  rewrite (contributes_where T q p). destruct (flag (q_where q) p); cbn [fold_left]; apply IH.
Qed.

Theorem spec_rows_where : forall T q pts,
  spec_rows T q pts = spec_rows T (without_where q) (filter (flag (q_where q)) pts).
Proof. intros. unfold spec_rows. rewrite groups_where. reflexivity. Qed.
