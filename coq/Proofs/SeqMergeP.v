(* SeqMergeP.v — den of Sequence.Merge and Sequence.UpdateValue *)
From Coq Require Import Lia.
From Zeno Require Import Base BaseP Seq SeqP.
Open Scope Z_scope.
Ltac Zify.zify_post_hook ::= Z.div_mod_to_equations.

(* ---------- arithmetic on the resolution grid ---------- *)
Section Grid.
Lemma ltb_grid : forall res x y p q, 0 < res -> y - x = (q - p) * res -> (x <? y) = (p <? q).
Proof.
  intros res x y p q Hr H. destruct (Z.ltb_spec x y); destruct (Z.ltb_spec p q); try reflexivity; exfalso; nia.
Qed.
Lemma quot_grid : forall res x q, 0 < res -> x = q * res -> Z.quot x res = q.
Proof. intros res x q Hr ->. apply Z.quot_mul. lia. Qed.

Lemma pos_id : forall x, 0 <= x -> (if 0 <? x then x else 0) = x.
Proof. intros x H. destruct (Z.ltb_spec 0 x); lia. Qed.

Lemma ruu_grid : forall res tb0 k, 0 < res -> 0 < k -> 0 <= tb0 ->
  exists m, 0 <= m /\ round_until_up tb0 res (k * res) = m * res.
Proof.
  intros res tb0 k Hr Hk Ht. unfold round_until_up, is_zero.
  destruct (Z.eqb_spec tb0 0) as [->|N]; [exists 0; lia|].
  destruct (Z.eqb_spec (k * res) 0); [nia|].
  exists (k - (k * res - tb0) / res). split; [|lia].
  pose proof (Z.div_mod (k * res - tb0) res ltac:(lia)). pose proof (Z.mod_pos_bound (k * res - tb0) res Hr).
  assert ((k * res - tb0) / res * res <= k * res) by lia.
  assert ((k * res - tb0) / res <= k) by (apply Z.mul_le_mono_pos_r with res; lia). lia.
Qed.

Lemma round_up_grid : forall res ts0, 0 < res -> 0 < ts0 -> exists k, 0 < k /\ round_up ts0 res = k * res.
Proof.
  intros res ts0 Hr Ht. unfold round_up, ceil_mul. exists (- (- ts0 / res)). split; [|reflexivity].
  pose proof (Z.div_mod (- ts0) res ltac:(lia)). pose proof (Z.mod_pos_bound (- ts0) res Hr).
  assert (- ts0 / res * res < 0) by lia. nia.
Qed.

Lemma eqb_grid : forall res p q, 0 < res -> (p * res =? q * res) = (p =? q).
Proof. intros res p q Hr. destruct (Z.eqb_spec (p * res) (q * res)); destruct (Z.eqb_spec p q); try reflexivity; exfalso; nia. Qed.
End Grid.

Section M.
Variable cell : Type.
Variable cempty : cell.
Variable cmerge : cell -> cell -> cell.
Hypothesis cmerge_empty_l : forall x, cmerge cempty x = x.
Hypothesis cmerge_empty_r : forall x, cmerge x cempty = x.

(* denotation with the all-zero cell as default: a missing period reads as the empty cell *)
Definition dend (res:Z) (s:seq cell) (t:Z) : cell :=
  match den cell res s t with Some c => c | None => cempty end.

(* a stored sequence ends on the resolution grid (multiples of res since the zero time) *)
Definition aligned (res:Z) (s:seq cell) : Prop :=
  match s with None => True | Some (u, _) => exists k, 0 < k /\ u = k * res end.

Notation len l := (Z.of_nat (length l)).
Set Default Proof Using "Type".
(* lia/nia mention every hypothesis in scope; drop the cmerge laws where they are not needed so that
   the lemmas about UpdateValue do not depend on them after the section is closed *)
Ltac clear_laws := try clear cmerge_empty_l cmerge_empty_r; try clear cmerge; try clear cempty.

(* ---------- total, Z-indexed, defaulting list access ---------- *)
Definition nthd (l:list cell) (i:Z) : cell :=
  if i <? 0 then cempty else match nthc (Z.to_nat i) l with Some c => c | None => cempty end.

Lemma nthd_out : forall l i, i < 0 \/ len l <= i -> nthd l i = cempty.
Proof. clear_laws.
  intros l i H. unfold nthd. destruct (Z.ltb_spec i 0); [reflexivity|].
  rewrite nthc_beyond by lia. reflexivity.
Qed.

Lemma nthc_app : forall (l1 l2:list cell) i,
  nthc i (l1 ++ l2) = if (i <? length l1)%nat then nthc i l1 else nthc (i - length l1) l2.
Proof. clear_laws.
  induction l1 as [|x l1 IH]; intros l2 i.
  - simpl. rewrite Nat.sub_0_r. reflexivity.
  - destruct i as [|i]; simpl; [reflexivity|]. rewrite IH.
    change (S i <? S (length l1))%nat with (i <? length l1)%nat. reflexivity.
Qed.

Lemma nthd_app : forall l1 l2 i,
  nthd (l1 ++ l2) i = if i <? len l1 then nthd l1 i else nthd l2 (i - len l1).
Proof. clear_laws.
  intros l1 l2 i. unfold nthd. rewrite nthc_app.
  destruct (Z.ltb_spec i 0).
  - destruct (Z.ltb_spec i (len l1)); [reflexivity|lia].
  - destruct (Z.ltb_spec i (len l1)); destruct (Nat.ltb_spec (Z.to_nat i) (length l1)); try lia.
    + reflexivity.
    + destruct (Z.ltb_spec (i - len l1) 0); [lia|].
      replace (Z.to_nat (i - len l1)) with (Z.to_nat i - length l1)%nat by lia. reflexivity.
Qed.

Lemma nthc_repeat : forall (x:cell) n i, nthc i (repeat x n) = if (i <? n)%nat then Some x else None.
Proof. clear_laws.
  induction n as [|n IH]; intros i; simpl.
  - destruct i; reflexivity.
  - destruct i as [|i]; simpl; [reflexivity|]. rewrite IH.
    change (S i <? S n)%nat with (i <? n)%nat. reflexivity.
Qed.

Lemma nthd_empties : forall n i, nthd (empties cell cempty n) i = cempty.
Proof. clear_laws.
  intros n i. unfold nthd, empties. rewrite nthc_repeat.
  destruct (i <? 0); [reflexivity|]. destruct (_ <? _)%nat; reflexivity.
Qed.

Lemma nthd_firstz : forall l n i, nthd (firstz n l) i = if i <? n then nthd l i else cempty.
Proof. clear_laws.
  intros l n i. unfold nthd. rewrite firstz_firstn, nthc_firstn.
  destruct (Z.ltb_spec i 0).
  - destruct (i <? n); reflexivity.
  - destruct (Z.ltb_spec i n); destruct (Nat.ltb_spec (Z.to_nat i) (Z.to_nat n)); try lia; reflexivity.
Qed.

Lemma nthd_skipz : forall l n i,
  nthd (skipz n l) i = if i <? 0 then cempty else nthd l (i + Z.max 0 n).
Proof. clear_laws.
  intros l n i. unfold nthd. rewrite skipz_skipn, nthc_skipn.
  destruct (Z.ltb_spec i 0); [reflexivity|].
  destruct (Z.ltb_spec (i + Z.max 0 n) 0); [lia|].
  replace (Z.to_nat (i + Z.max 0 n)) with (Z.to_nat n + Z.to_nat i)%nat by lia. reflexivity.
Qed.

Lemma nthc_zipmerge : forall n a b i,
  nthc i (zipmerge cell cmerge a b n) =
  if ((i <? n) && (i <? length a) && (i <? length b))%nat
  then match nthc i a, nthc i b with Some x, Some y => Some (cmerge x y) | _, _ => None end
  else None.
Proof. clear_laws.
  induction n as [|n IH]; intros a b i.
  - destruct a; destruct i; reflexivity.
  - destruct a as [|x a]; [destruct i; simpl; rewrite ?andb_false_r; reflexivity|].
    destruct b as [|y b]; [destruct i; simpl; rewrite ?andb_false_r; reflexivity|].
    destruct i as [|i]; simpl; [reflexivity|]. rewrite IH. reflexivity.
Qed.

Lemma nthc_in : forall (l:list cell) i, (i < length l)%nat -> exists x, nthc i l = Some x.
Proof. clear_laws.
  induction l as [|x l IH]; intros i H; simpl in H; [lia|].
  destruct i as [|i]; simpl; [eauto|]. apply IH. lia.
Qed.

Lemma nthd_zipmerge : forall a b n i,
  nthd (zipmerge cell cmerge a b n) i =
  if (i <? Z.of_nat n) && (i <? len a) && (i <? len b) then cmerge (nthd a i) (nthd b i) else cempty.
Proof using All.
  intros a b n i. unfold nthd. rewrite nthc_zipmerge.
  destruct (Z.ltb_spec i 0).
  - rewrite cmerge_empty_l. destruct (_ && _); reflexivity.
  - destruct (Z.ltb_spec i (Z.of_nat n)); destruct (Nat.ltb_spec (Z.to_nat i) n); try lia; cbn [andb]; [|reflexivity].
    destruct (Z.ltb_spec i (len a)); destruct (Nat.ltb_spec (Z.to_nat i) (length a)); try lia; cbn [andb]; [|reflexivity].
    destruct (Z.ltb_spec i (len b)); destruct (Nat.ltb_spec (Z.to_nat i) (length b)); try lia; cbn [andb]; [|reflexivity].
    destruct (nthc_in a (Z.to_nat i) ltac:(lia)) as [x ->]. destruct (nthc_in b (Z.to_nat i) ltac:(lia)) as [y ->]. reflexivity.
Qed.

Lemma nthc_upd : forall (f:cell->cell) (l:list cell) n i,
  nthc i (upd_nth n f l) = if (i =? n)%nat then option_map f (nthc i l) else nthc i l.
Proof. clear_laws.
  induction l as [|x l IH]; intros n i.
  - destruct n; destruct i; simpl; try reflexivity. destruct (_ =? _)%nat; reflexivity.
  - destruct n as [|n]; destruct i as [|i]; simpl; try reflexivity. apply IH.
Qed.

Lemma nthd_upd : forall f l n i,
  nthd (upd_nth n f l) i =
  if (i =? Z.of_nat n) && (i <? len l) then f (nthd l i) else nthd l i.
Proof. clear_laws.
  intros f l n i. unfold nthd. rewrite nthc_upd.
  destruct (Z.ltb_spec i 0).
  - destruct (Z.eqb_spec i (Z.of_nat n)); [lia|reflexivity].
  - destruct (Z.eqb_spec i (Z.of_nat n)); destruct (Nat.eqb_spec (Z.to_nat i) n); try lia; cbn [andb]; [|reflexivity].
    destruct (Z.ltb_spec i (len l)).
    + destruct (nthc_in l (Z.to_nat i) ltac:(lia)) as [x ->]. reflexivity.
    + rewrite nthc_beyond by lia. reflexivity.
Qed.

(* lengths *)
Lemma len_firstz : forall (l:list cell) n, len (firstz n l) = Z.min (Z.max 0 n) (len l).
Proof. clear_laws. intros. rewrite firstz_firstn, firstn_length. lia. Qed.
Lemma len_skipz : forall (l:list cell) n, len (skipz n l) = len l - Z.min (Z.max 0 n) (len l).
Proof. clear_laws. intros. rewrite skipz_skipn, skipn_length. lia. Qed.
Lemma len_empties : forall n, len (empties cell cempty n) = Z.max 0 n.
Proof. clear_laws. intros. unfold empties. rewrite repeat_length. lia. Qed.
Lemma length_zipmerge : forall n a b, length (zipmerge cell cmerge a b n) = Nat.min n (Nat.min (length a) (length b)).
Proof. clear_laws.
  induction n as [|n IH]; intros a b; [destruct a; reflexivity|].
  destruct a as [|x a]; [reflexivity|]. destruct b as [|y b]; [simpl; lia|]. simpl. rewrite IH. reflexivity.
Qed.
Lemma len_zipmerge : forall n a b, len (zipmerge cell cmerge a b n) = Z.min (Z.of_nat n) (Z.min (len a) (len b)).
Proof. clear_laws. intros. rewrite length_zipmerge. lia. Qed.

Lemma dend_some : forall res u cs t, 0 < res ->
  dend res (Some (u, cs)) t =
  if (t <=? u) && ((u - t) mod res =? 0) then nthd cs ((u - t) / res) else cempty.
Proof. clear_laws.
  intros res u cs t Hr. unfold dend. rewrite den_some by assumption.
  destruct (Z.leb_spec t u); cbn [andb]; [|reflexivity].
  destruct (_ =? 0); [|reflexivity]. unfold nthd.
  destruct (Z.ltb_spec ((u - t) / res) 0); [|reflexivity].
  exfalso. assert (0 <= (u - t) / res) by (apply Z.div_pos; lia). lia.
Qed.

(* ---------- Merge ---------- *)
(* the body of [merge] once the operands are ordered (startB <= startA) *)
Definition merge_ord (startA:Z) (sa:list cell) (startB:Z) (sb:list cell) (res tb0:Z) : seq cell :=
    let tb := round_until_up tb0 res startA in
    if startB <? tb then Some (startA, sa) else
    let aP := Z.of_nat (length sa) in let bP := Z.of_nat (length sb) in
    let endA := startA - aP * res in let endB := startB - bP * res in
    let end_ := if endA <? endB then endA else endB in
    let total := Z.quot (startA - end_) res in
    let leadEnd := if startB <? endA then endA else startB in
    let lead := Z.quot (startA - leadEnd) res in
    let lead' := if 0 <? lead then lead else 0 in
    let part1 := firstz lead' sa in
    let sa1 := skipz lead' sa in
    let '(part2, sa2, sb2) :=
      if endA <? startB then
        let ov := (if endA <? endB then Z.quot (startA - endB) res else Z.quot (startA - endA) res) - lead in
        let ov' := if 0 <? ov then ov else 0 in
        (zipmerge cell cmerge sa1 sb (Z.to_nat ov'), skipz ov' sa1, skipz ov' sb)
      else if startB <? endA then
        (empties cell cempty (Z.quot (endA - startB) res), sa1, sb)
      else ([], sa1, sb) in
    let part3 := if endA <? endB then sa2 else if endB <? endA then sb2 else [] in
    let body := part1 ++ part2 ++ part3 in
    Some (startA, firstz total (body ++ empties cell cempty total)).

Lemma merge_unfold : forall ua ca ub cb res tb0,
  merge cell cempty cmerge (Some (ua, ca)) (Some (ub, cb)) res tb0 =
  if ua <? ub then merge_ord ub cb ua ca res tb0 else merge_ord ua ca ub cb res tb0.
Proof. clear_laws. intros. unfold merge, merge_ord. destruct (ua <? ub); reflexivity. Qed.

(* the same list, computed in period-index space; D = (startA - startB) / res *)
Definition mbody (sa sb:list cell) (D:Z) : list cell :=
    let aP := Z.of_nat (length sa) in let bP := Z.of_nat (length sb) in
    let total := if D + bP <? aP then aP else D + bP in
    let lead := if aP <? D then aP else D in
    let part1 := firstz lead sa in
    let sa1 := skipz lead sa in
    let '(part2, sa2, sb2) :=
      if D <? aP then
        let ov := (if D + bP <? aP then D + bP else aP) - lead in
        (zipmerge cell cmerge sa1 sb (Z.to_nat ov), skipz ov sa1, skipz ov sb)
      else if aP <? D then
        (empties cell cempty (D - aP), sa1, sb)
      else ([], sa1, sb) in
    let part3 := if D + bP <? aP then sa2 else if aP <? D + bP then sb2 else [] in
    let body := part1 ++ part2 ++ part3 in
    firstz total (body ++ empties cell cempty total).

Lemma merge_ord_body : forall res kA D sa sb tb0, 0 < res -> 0 <= D ->
  merge_ord (kA * res) sa ((kA - D) * res) sb res tb0 =
  if (kA - D) * res <? round_until_up tb0 res (kA * res) then Some (kA * res, sa)
  else Some (kA * res, mbody sa sb D).
Proof. clear_laws.
  intros res kA D sa sb tb0 Hr HD. unfold merge_ord, mbody. cbv zeta.
  destruct (_ <? round_until_up _ _ _); [reflexivity|]. f_equal. f_equal.
  set (aP := len sa). set (bP := len sb).
  assert (HaP : 0 <= aP) by lia. assert (HbP : 0 <= bP) by lia. clearbody aP bP.
  rewrite (ltb_grid res (kA * res - aP * res) ((kA - D) * res - bP * res) (D + bP) aP) by lia.
  rewrite (ltb_grid res ((kA - D) * res - bP * res) (kA * res - aP * res) aP (D + bP)) by lia.
  rewrite (ltb_grid res ((kA - D) * res) (kA * res - aP * res) aP D) by lia.
  rewrite (ltb_grid res (kA * res - aP * res) ((kA - D) * res) D aP) by lia.
  destruct (Z.ltb_spec (D + bP) aP) as [c1|c1]; destruct (Z.ltb_spec aP D) as [c2|c2];
    destruct (Z.ltb_spec D aP) as [c3|c3]; try (exfalso; lia);
    rewrite ?(quot_grid res (kA * res - (kA * res - aP * res)) aP) by lia;
    rewrite ?(quot_grid res (kA * res - ((kA - D) * res - bP * res)) (D + bP)) by lia;
    rewrite ?(quot_grid res (kA * res - (kA - D) * res) D) by lia;
    rewrite ?(quot_grid res (kA * res - aP * res - (kA - D) * res) (D - aP)) by lia;
    rewrite ?pos_id by lia.
  all: reflexivity.
Qed.

Lemma nthd_nil : forall i, nthd [] i = cempty.
Proof. clear_laws. intros. apply nthd_out. simpl. lia. Qed.
Lemma len_nil : len (@nil cell) = 0.
Proof. clear_laws. reflexivity. Qed.

Lemma len_app : forall (l1 l2:list cell), len (l1 ++ l2) = len l1 + len l2.
Proof. clear_laws. intros. rewrite app_length. lia. Qed.

Ltac nthd_norm :=
  repeat (rewrite ?nthd_firstz, ?nthd_app, ?nthd_skipz, ?nthd_zipmerge, ?nthd_empties, ?nthd_nil;
          rewrite ?len_app, ?len_nil, ?len_firstz, ?len_skipz, ?len_zipmerge, ?len_empties).
Ltac split_ifs :=
  repeat match goal with
  | |- context[?a <? ?b] => destruct (Z.ltb_spec a b)
  end; cbn [andb].
Ltac nthd_outs :=
  repeat match goal with |- context[nthd ?l ?i] => rewrite (nthd_out l i) by lia end;
  rewrite ?cmerge_empty_l, ?cmerge_empty_r;
  try reflexivity; try (f_equal; lia); try (f_equal; f_equal; lia).

Lemma mbody_nthd : forall sa sb D j, 0 <= D ->
  nthd (mbody sa sb D) j = cmerge (nthd sa j) (nthd sb (j - D)).
Proof using All.
  intros sa sb D j HD. unfold mbody. cbv zeta.
  destruct (Z.ltb_spec D (len sa)) as [c3|c3]; [|destruct (Z.ltb_spec (len sa) D) as [c2|c2]].
  - destruct (Z.ltb_spec (D + len sb) (len sa)) as [c1|c1]; [|destruct (Z.ltb_spec (len sa) (D + len sb)) as [c4|c4]];
    destruct (Z.ltb_spec (len sa) D) as [c2|c2]; try (exfalso; lia).
    all: nthd_norm; rewrite ?Z2Nat.id by lia; split_ifs; nthd_outs.
  - destruct (Z.ltb_spec (D + len sb) (len sa)) as [c1|c1]; [exfalso; lia|];
    destruct (Z.ltb_spec (len sa) (D + len sb)) as [c4|c4]; [|exfalso; lia].
    nthd_norm; split_ifs; nthd_outs.
  - destruct (Z.ltb_spec (D + len sb) (len sa)) as [c1|c1]; [exfalso; lia|];
    destruct (Z.ltb_spec (len sa) (D + len sb)) as [c4|c4].
    all: nthd_norm; split_ifs; nthd_outs.
Qed.

Lemma dend_none : forall res t, dend res None t = cempty.
Proof. clear_laws. reflexivity. Qed.

Lemma merge_ord_den : forall res kA D sa sb tb0 t, 0 < res -> 0 <= D ->
  round_until_up tb0 res (kA * res) < t ->
  dend res (merge_ord (kA * res) sa ((kA - D) * res) sb res tb0) t =
  cmerge (dend res (Some (kA * res, sa)) t) (dend res (Some ((kA - D) * res, sb)) t).
Proof using All.
  intros res kA D sa sb tb0 t Hr HD Ht. rewrite merge_ord_body by assumption.
  rewrite (dend_some res ((kA - D) * res)) by assumption.
  destruct (Z.ltb_spec ((kA - D) * res) (round_until_up tb0 res (kA * res))) as [c|c].
  - destruct (Z.leb_spec t ((kA - D) * res)); [lia|]. cbn [andb]. rewrite cmerge_empty_r. reflexivity.
  - rewrite !dend_some by assumption. rewrite mbody_nthd by assumption.
    destruct (Z.leb_spec t (kA * res)) as [l1|l1]; cbn [andb].
    2:{ destruct (Z.leb_spec t ((kA - D) * res)); [nia|]. cbn [andb]. rewrite cmerge_empty_l. reflexivity. }
    destruct (Z.eqb_spec ((kA * res - t) mod res) 0) as [Em|Nm].
    + assert (Hdiv : kA * res - t = ((kA * res - t) / res) * res)
        by (pose proof (Z.div_mod (kA * res - t) res ltac:(lia)); lia).
      set (j := (kA * res - t) / res) in *. clearbody j. clear Em.
      replace ((kA - D) * res - t) with ((j - D) * res) by lia.
      rewrite Z.mod_mul, Z.div_mul by lia. rewrite Z.eqb_refl, andb_true_r.
      destruct (Z.leb_spec t ((kA - D) * res)) as [l2|l2]; [reflexivity|].
      rewrite (nthd_out sb (j - D)); [reflexivity|]. left. nia.
    + replace (((kA - D) * res - t) mod res) with ((kA * res - t) mod res).
      2:{ replace (kA * res - t) with (((kA - D) * res - t) + D * res) by lia. rewrite Z.mod_add by lia. reflexivity. }
      destruct (Z.eqb_spec ((kA * res - t) mod res) 0); [contradiction|].
      rewrite andb_false_r. rewrite cmerge_empty_l. reflexivity.
Qed.

(* Merge without assuming commutativity of cmerge: the operand that ends later is the left argument *)
Theorem merge_den_ord : forall res a b tb t, 0 < res -> aligned res a -> aligned res b ->
  round_until_up tb res (Z.max (s_until a) (s_until b)) < t ->
  dend res (merge cell cempty cmerge a b res tb) t =
  if s_until a <? s_until b then cmerge (dend res b t) (dend res a t)
  else cmerge (dend res a t) (dend res b t).
Proof using All.
  intros res a b tb t Hr Ha Hb Ht.
  destruct a as [[ua ca]|]; destruct b as [[ub cb]|].
  - destruct Ha as [ka [Hka ->]]. destruct Hb as [kb [Hkb ->]]. cbn [s_until] in *.
    rewrite merge_unfold.
    destruct (Z.ltb_spec (ka * res) (kb * res)) as [c|c].
    + rewrite Z.max_r in Ht by lia.
      replace (ka * res) with ((kb - (kb - ka)) * res) by lia.
      apply merge_ord_den; try assumption. nia.
    + rewrite Z.max_l in Ht by lia.
      replace (kb * res) with ((ka - (ka - kb)) * res) by lia.
      apply merge_ord_den; try assumption. nia.
  - destruct Ha as [ka [Hka ->]]. cbn [s_until merge].
    destruct (Z.ltb_spec (ka * res) 0); [nia|]. rewrite dend_none, cmerge_empty_r. reflexivity.
  - destruct Hb as [kb [Hkb ->]]. cbn [s_until merge].
    destruct (Z.ltb_spec 0 (kb * res)); [|nia]. rewrite dend_none, cmerge_empty_r. reflexivity.
  - cbn [s_until merge]. rewrite dend_none, cmerge_empty_r. reflexivity.
Qed.

(* EXTRA HYPOTHESIS (first premise): cmerge must be commutative.  Merge swaps its operands when
   a ends before b, so the overlap cells are cmerge (b-cell) (a-cell); without commutativity the
   statement is false (res 3, a = Some (3,[5]), b = Some (6,[7;8]), t = 3 and a non-commutative
   cmerge with unit cempty).  [merge_den_ord] above is the commutativity-free form.
   [0 <= tb] is kept as in the requested statement but is not used. *)
Theorem merge_den : forall res a b tb t, (forall x y, cmerge x y = cmerge y x) ->
  0 < res -> aligned res a -> aligned res b -> 0 <= tb ->
  round_until_up tb res (Z.max (s_until a) (s_until b)) < t ->
  dend res (merge cell cempty cmerge a b res tb) t = cmerge (dend res a t) (dend res b t).
Proof using All.
  intros res a b tb t Hc Hr Ha Hb _ Ht. rewrite merge_den_ord by assumption.
  destruct (_ <? _); [apply Hc|reflexivity].
Qed.

(* ---------- UpdateValue ---------- *)
Lemma dend_grid : forall res k cs t, 0 < res ->
  dend res (Some (k * res, cs)) t = if t mod res =? 0 then nthd cs (k - t / res) else cempty.
Proof. clear_laws.
  intros res k cs t Hr. rewrite dend_some by assumption.
  destruct (Z.eqb_spec (t mod res) 0) as [E|N].
  - assert (Hdiv : t = (t / res) * res) by (pose proof (Z.div_mod t res ltac:(lia)); lia).
    set (q := t / res) in *. clearbody q. clear E.
    replace (k * res - t) with ((k - q) * res) by lia.
    rewrite Z.mod_mul, Z.div_mul by lia. rewrite Z.eqb_refl, andb_true_r.
    destruct (Z.leb_spec t (k * res)); [reflexivity|]. symmetry. apply nthd_out. left. nia.
  - destruct (Z.eqb_spec ((k * res - t) mod res) 0) as [E|N']; [|rewrite andb_false_r; reflexivity].
    exfalso. apply N.
    replace t with ((k - (k * res - t) / res) * res)
      by (pose proof (Z.div_mod (k * res - t) res ltac:(lia)); lia).
    apply Z.mod_mul. lia.
Qed.

Ltac nthd_norm0 :=
  repeat (rewrite ?nthd_firstz, ?nthd_app, ?nthd_skipz, ?nthd_empties, ?nthd_nil;
          rewrite ?len_app, ?len_nil, ?len_firstz, ?len_skipz, ?len_empties).
Ltac nthd_outs0 :=
  repeat match goal with |- context[nthd ?l ?i] => rewrite (nthd_out l i) by lia end;
  try reflexivity; try (f_equal; lia); try (f_equal; f_equal; lia).
Ltac split_ifs2 :=
  repeat match goal with
  | |- context[?a <? ?b] => destruct (Z.ltb_spec a b)
  | |- context[?a =? ?b] => destruct (Z.eqb_spec a b)
  end; cbn [andb].

Lemma single_den : forall res kt c q, 0 < res ->
  nthd [c] (kt - q) = if q =? kt then c else cempty.
Proof. clear_laws.
  intros res kt c q Hr. destruct (Z.eqb_spec q kt) as [->|N].
  - rewrite Z.sub_diag. reflexivity.
  - apply nthd_out. simpl. lia.
Qed.

Theorem update_value_den : forall res s ts tb f t, 0 < res -> aligned res s -> 0 < ts -> 0 <= tb ->
  round_until_up tb res (if is_zero (s_until s) then round_up ts res else s_until s) < t ->
  dend res (update_value cell cempty s ts res tb f) t =
    if t =? round_up ts res then f (dend res s t) else dend res s t.
Proof. clear_laws.
  intros res s ts0 tb0 f t Hr Ha Hts Htb Ht.
  destruct (round_up_grid res ts0 Hr Hts) as [kt [Hkt Ets]].
  unfold update_value. cbv zeta. rewrite Ets in *. clear Ets Hts ts0.
  destruct s as [[u cs]|].
  - destruct Ha as [ks [Hks ->]]. cbn [s_until] in *. unfold is_zero in *.
    destruct (Z.eqb_spec (ks * res) 0); [nia|].
    destruct (ruu_grid res tb0 ks Hr Hks Htb) as [m [Hm Etb]]. rewrite Etb in *. clear Etb Htb tb0.
    destruct (Z.leb_spec (kt * res) (m * res)) as [c0|c0].
    + unfold dend. rewrite truncate_den; try assumption.
      * destruct (Z.ltb_spec (m * res) t); [|lia]. rewrite orb_true_r. cbn.
        destruct (Z.eqb_spec t (kt * res)); [lia|reflexivity].
      * destruct (Z.eq_dec m 0) as [->|]; [left; reflexivity|right; nia].
      * left; reflexivity.
      * intros u cs' [= <- <-]. nia.
    + rewrite (quot_grid res (kt * res - ks * res) (kt - ks)) by lia.
      rewrite (quot_grid res (kt * res - m * res) (kt - m)) by lia.
      rewrite (quot_grid res (ks * res - kt * res) (ks - kt)) by lia.
      rewrite (ltb_grid res (ks * res) (m * res) ks m) by lia.
      rewrite (ltb_grid res (ks * res) (kt * res) ks kt) by lia.
      assert (c0' : m < kt) by nia. clear c0.
      destruct (Z.eqb_spec (t mod res) 0) as [E|N].
      * assert (Hdiv : t = (t / res) * res) by (pose proof (Z.div_mod t res ltac:(lia)); lia).
        set (q := t / res) in *. clearbody q. clear E. subst t.
        assert (Hon : forall k l, dend res (Some (k * res, l)) (q * res) = nthd l (k - q)).
        { intros k l. rewrite dend_grid by assumption. rewrite Z.mod_mul, Z.div_mul by lia. reflexivity. }
        rewrite eqb_grid by assumption. assert (Hq : m < q) by nia. clear Ht.
        rewrite Hon.
        destruct (Z.ltb_spec ks m) as [c1|c1]; cbn [orb];
          [|destruct (Z.ltb_spec (kt - m) (kt - ks)) as [c2|c2]; [exfalso; lia|];
            destruct (Z.ltb_spec ks kt) as [c3|c3]]; rewrite Hon.
        -- rewrite (single_den res) by assumption. rewrite (nthd_out cs (ks - q)) by lia. reflexivity.
        -- rewrite nthd_upd. destruct (Z.ltb_spec (kt - m) (len cs + (kt - ks))) as [c4|c4];
             nthd_norm0; split_ifs2; nthd_outs0.
        -- rewrite nthd_upd. rewrite Z2Nat.id by lia.
           destruct (Z.leb_spec (len cs) (ks - kt)) as [c4|c4]; nthd_norm0; split_ifs2; nthd_outs0.
      * assert (Hoff : forall k l, dend res (Some (k * res, l)) t = cempty).
        { intros k l. rewrite dend_grid by assumption. destruct (Z.eqb_spec (t mod res) 0); [contradiction|reflexivity]. }
        destruct (Z.eqb_spec t (kt * res)) as [->|_]; [exfalso; apply N; apply Z.mod_mul; lia|].
        rewrite Hoff. destruct ((ks <? m) || (kt - m <? kt - ks)); [apply Hoff|].
        destruct (ks <? kt); apply Hoff.
  - cbn [s_until] in *. unfold is_zero in *. cbn [Z.eqb] in *.
    destruct (ruu_grid res tb0 kt Hr Hkt Htb) as [m [Hm Etb]]. rewrite Etb in *. clear Etb Htb tb0.
    rewrite dend_none.
    destruct (Z.leb_spec (kt * res) (m * res)) as [c0|c0].
    + cbn [truncate]. rewrite dend_none. destruct (Z.eqb_spec t (kt * res)); [lia|reflexivity].
    + rewrite dend_grid by assumption.
      destruct (Z.eqb_spec (t mod res) 0) as [E|N].
      * assert (Hdiv : t = (t / res) * res) by (pose proof (Z.div_mod t res ltac:(lia)); lia).
        set (q := t / res) in *. clearbody q. clear E. subst t.
        rewrite eqb_grid by assumption. apply (single_den res). assumption.
      * destruct (Z.eqb_spec t (kt * res)) as [->|_]; [exfalso; apply N; apply Z.mod_mul; lia|reflexivity].
Qed.

(* ---------- alignment is preserved ---------- *)
Lemma merge_ord_until : forall startA sa startB sb res tb0,
  exists l, merge_ord startA sa startB sb res tb0 = Some (startA, l).
Proof. clear_laws.
  intros. unfold merge_ord. cbv zeta.
  destruct (startB <? round_until_up tb0 res startA); [eexists; reflexivity|].
  destruct (startA - len sa * res <? startB); [eexists; reflexivity|].
  destruct (startB <? startA - len sa * res); eexists; reflexivity.
Qed.

Lemma merge_aligned : forall res a b tb, 0 < res -> aligned res a -> aligned res b ->
  aligned res (merge cell cempty cmerge a b res tb).
Proof. clear_laws.
  intros res a b tb Hr Ha Hb.
  destruct a as [[ua ca]|]; destruct b as [[ub cb]|]; try assumption.
  rewrite merge_unfold. destruct (ua <? ub).
  - destruct (merge_ord_until ub cb ua ca res tb) as [l ->]. exact Hb.
  - destruct (merge_ord_until ua ca ub cb res tb) as [l ->]. exact Ha.
Qed.

Lemma truncate_aligned : forall res s asOf, aligned res s -> aligned res (truncate cell s res asOf 0).
Proof. clear_laws.
  intros res s asOf Ha. destruct s as [[u cs]|]; [|exact I].
  unfold truncate. cbv zeta. change (round_until_down 0 res u) with 0. change (is_zero 0) with true. cbv iota.
  destruct (is_zero (round_until_down asOf res u)); [exact Ha|].
  destruct (_ <=? 0); [exact I|exact Ha].
Qed.

Lemma update_value_aligned : forall res s ts tb f, 0 < res -> 0 < ts -> aligned res s ->
  aligned res (update_value cell cempty s ts res tb f).
Proof. clear_laws.
  intros res s ts tb f Hr Hts Ha.
  destruct (round_up_grid res ts Hr Hts) as [kt [Hkt Ets]].
  assert (Hk : aligned res (Some (round_up ts res, [f cempty]))) by (exists kt; auto).
  unfold update_value. cbv zeta.
  destruct (_ <=? _); [apply truncate_aligned; assumption|].
  destruct s as [[u cs]|]; [|exact Hk].
  destruct (_ || _); [exact Hk|]. destruct (u <? round_up ts res); [|exact Ha].
  exists kt; auto.
Qed.
End M.

Print Assumptions merge_den_ord.
Print Assumptions merge_den.
Print Assumptions update_value_den.
Print Assumptions merge_aligned.
Print Assumptions update_value_aligned.
