(* TreeStoreP.v — the memstore of the row-store model (Model/Store.v: an association list key -> sequence with
   lookup / upsert) is refined by the radix tree of bytetree (Model/Tree.v): a well-formed radix tree whose nodes hold
   one column's sequences reads, key by key, as the association list does, and one Tree.Update corresponds to one
   upsert.  So every theorem of Proofs/StoreP.v about the memstore side holds of the structural tree. *)
From Zeno Require Import Base Seq Store Tree StoreP TreeP.

Section Refine.
Variable cell : Type.
Definition kqb : list Z -> list Z -> bool := list_eqb Z.eqb.
Definition col : Type := seq cell.

(* a node's data is the column's sequence; an absent key reads as the empty sequence (Go: nil) *)
Definition rd (o:option col) : seq cell := match o with Some s => s | None => None end.
(* bytetree's Update applied to one column: node.doUpdate starts from nil data on a new node *)
Definition lift (g:seq cell -> seq cell) : option col -> col := fun o => g (rd o).

Definition refines (t:Tree.tree col) (m:Store.tree (list Z) cell) : Prop :=
  forall k, rd (Tree.tfind k t) = Store.lookup (list Z) kqb cell k m.

Lemma refines_empty : refines Tree.tnew [].
Proof. intros k. reflexivity. Qed.

Theorem update_refines_upsert g k (t:Tree.tree col) (m:Store.tree (list Z) cell) :
  wf_tree t -> refines t m ->
  wf_tree (Tree.tupdate (lift g) k t) /\ refines (Tree.tupdate (lift g) k t) (Store.upsert (list Z) kqb cell k g m).
Proof.
  intros WT R. destruct (@tupdate_map col (lift g) k t WT) as [WT' F]. split; [exact WT'|].
  intros k'. rewrite F. rewrite (lookup_upsert (list Z) kqb (@keyeq_spec) cell).
  unfold kqb. destruct (list_eqb Z.eqb k' k) eqn:E.
  - apply keyeq_spec in E. subst k'. cbn [rd]. unfold lift. rewrite (R k). reflexivity.
  - apply R.
Qed.

(* every memstore built by inserts: the radix tree and the association list agree on every key *)
Theorem memstore_refines (ins:list (list Z * (seq cell -> seq cell))) :
  let t := fold_left (fun t u => Tree.tupdate (lift (snd u)) (fst u) t) ins Tree.tnew in
  let m := fold_left (fun m u => Store.upsert (list Z) kqb cell (fst u) (snd u) m) ins [] in
  wf_tree t /\ refines t m.
Proof.
  cbv zeta. generalize (@tnew_wf col) refines_empty. generalize (@Tree.tnew col) (@nil (list Z * seq cell)).
  induction ins as [|[k g] ins IH]; intros t m WT R; simpl; [auto|].
  destruct (@update_refines_upsert g k t m WT R) as [WT2 R2]. exact (IH _ _ WT2 R2).
Qed.
End Refine.
