(* ClusterP.v — routing is a function into [0,P); whole-query pushdown is sound exactly when output groups are
   confined to single partitions; leader-side re-merging of partial states is sound for every split (C10, C11). *)
From Coq Require Import Lia QArith Sorting.Permutation.
From Zeno Require Import Base Sort SortP Expr ExprSpec ExprP DB DBP Cluster.
Local Open Scope Z_scope.

Section R.
Variable hash : key -> Z.

Lemma partition_in_range : forall keys P dims, 0 < P -> 0 <= partition_for hash keys P dims < P.
Proof. intros. unfold partition_for. apply Z.mod_pos_bound. assumption. Qed.

(* every point is routed to exactly one partition *)
Lemma exactly_one_partition : forall keys P dims, 0 < P ->
  exists! p, 0 <= p < P /\ leader_offers hash keys P dims p = true.
Proof.
  intros keys P dims HP. exists (partition_for hash keys P dims). split.
  - split; [apply partition_in_range; assumption|]. unfold leader_offers. apply Z.eqb_refl.
  - intros p' [_ H]. unfold leader_offers in H. apply Z.eqb_eq in H. exact H.
Qed.

(* the leader offers an entry to partition p iff a follower of partition p accepts it *)
Lemma leader_follower_agree : forall keys P dims p,
  leader_offers hash keys P dims p = follower_accepts hash keys P dims p.
Proof. reflexivity. Qed.

(* routing depends only on the values of the partition keys *)
Lemma same_key_values_same_partition : forall keys P d1 d2,
  part_input keys d1 = part_input keys d2 -> partition_for hash keys P d1 = partition_for hash keys P d2.
Proof. intros keys P d1 d2 H. unfold partition_for. rewrite H. reflexivity. Qed.
End R.

(* ---------- pushdown ---------- *)
Lemma filter_filter {A} (f g:A -> bool) (l:list A) : filter f (filter g l) = filter (fun x => f x && g x) l.
Proof.
  induction l as [|x l IH]; [reflexivity|]. cbn [filter]. destruct (g x) eqn:G; cbn [filter].
  - destruct (f x); cbn; rewrite IH; reflexivity.
  - rewrite andb_false_r. exact IH.
Qed.

(* what partition p computes for output row (k,t): the points of that row that were routed to p *)
Lemma partition_group : forall T q route p pts k t,
  glookup k t (groups T q (routed_to route p pts))
  = map tp_pt (filter (fun x => contributes_to T q k t x && (route x =? p)) pts).
Proof. intros. rewrite groups_lookup. unfold routed_to. rewrite filter_filter. reflexivity. Qed.

(* if output groups are confined, each partition holds a group entirely or not at all: the union of the
   partitions' answers is the standalone answer, group by group *)
Theorem pushdown_sound : forall T q route pts k t p, confined T q route pts ->
  glookup k t (groups T q (routed_to route p pts)) = glookup k t (groups T q pts)
  \/ glookup k t (groups T q (routed_to route p pts)) = [].
Proof.
  intros T q route pts k t p Hc. rewrite partition_group, groups_lookup.
  destruct (filter (contributes_to T q k t) pts) as [|x0 rest] eqn:E.
  - right. assert (H : forall l, filter (contributes_to T q k t) l = [] ->
                     filter (fun x => contributes_to T q k t x && (route x =? p)) l = []).
    { induction l as [|x l IH]; [reflexivity|]. cbn [filter]. destruct (contributes_to T q k t x); [discriminate|]. cbn. exact IH. }
    rewrite (H pts E). reflexivity.
  - assert (Hx0 : In x0 pts /\ contributes_to T q k t x0 = true).
    { apply filter_In. rewrite E. left. reflexivity. }
    destruct Hx0 as [Hin0 Hc0].
    assert (G : forall x, In x pts -> contributes_to T q k t x = true -> route x = route x0).
    { intros x Hin Hcx. unfold contributes_to in Hcx, Hc0.
      destruct (contributes T q x) as [[kx tx]|] eqn:Ex; [|discriminate].
      destruct (contributes T q x0) as [[k0 t0]|] eqn:E0; [|discriminate].
      apply andb_prop in Hcx. apply andb_prop in Hc0. destruct Hcx as [A1 A2]. destruct Hc0 as [B1 B2].
      apply key_eqb_eq in A1. apply key_eqb_eq in B1. apply Z.eqb_eq in A2. apply Z.eqb_eq in B2. subst.
      apply (Hc x x0 kx tx Hin Hin0 Ex E0). }
    destruct (Z.eqb_spec (route x0) p) as [Ep|Np].
    + left. f_equal. rewrite <- E. apply filter_ext_in. intros x Hin.
      destruct (contributes_to T q k t x) eqn:Cx; [|reflexivity]. rewrite (G x Hin Cx). rewrite Ep, Z.eqb_refl. reflexivity.
    + right.
      assert (H : forall l, (forall x, In x l -> contributes_to T q k t x = true -> route x <> p) ->
                  filter (fun x => contributes_to T q k t x && (route x =? p)) l = []).
      { induction l as [|x l IH]; intros Hl; [reflexivity|]. cbn [filter].
        destruct (contributes_to T q k t x) eqn:Cx; cbn [andb].
        - destruct (Z.eqb_spec (route x) p) as [Ex|Nx]; [exfalso; apply (Hl x (or_introl eq_refl) Cx Ex)|].
          apply IH. intros y Hy. apply Hl. right. exact Hy.
        - apply IH. intros y Hy. apply Hl. right. exact Hy. }
      rewrite (H pts); [reflexivity|]. intros x Hin Cx. rewrite (G x Hin Cx). exact Np.
Qed.

(* and the partition that holds the group is the one its points are routed to: nothing is lost *)
Theorem pushdown_complete : forall T q route pts k t x, confined T q route pts ->
  In x pts -> contributes_to T q k t x = true ->
  glookup k t (groups T q (routed_to route (route x) pts)) = glookup k t (groups T q pts).
Proof.
  intros T q route pts k t x Hc Hin Cx. rewrite partition_group, groups_lookup. f_equal.
  apply filter_ext_in. intros y Hy. destruct (contributes_to T q k t y) eqn:Cy; [|reflexivity]. cbn [andb].
  apply Z.eqb_eq. unfold contributes_to in Cx, Cy.
  destruct (contributes T q x) as [[kx tx]|] eqn:Ex; [|discriminate].
  destruct (contributes T q y) as [[ky ty]|] eqn:Ey; [|discriminate].
  apply andb_prop in Cx. apply andb_prop in Cy. destruct Cx as [A1 A2]. destruct Cy as [B1 B2].
  apply key_eqb_eq in A1. apply key_eqb_eq in B1. apply Z.eqb_eq in A2. apply Z.eqb_eq in B2. subst.
  apply (Hc y x ky ty Hy Hin Ey Ex).
Qed.

(* without confinement the union of the partitions' answers can differ: two points of one group on two partitions *)
Example pushdown_needs_confinement :
  let T := {| t_fields := [(0, EAgg SUM (EField 9))]; t_groupby := Some [11]; t_res := 2; t_ret := 100; t_where := None |} in
  let q := {| q_fields := None; q_groupby := None; q_period := 0; q_asof := 0; q_until := 0; q_where := None; q_now := 20; q_vis := None; q_limit := None |} in
  let p d3 := {| tp_ts := 3; tp_dims := [(11, VStr [97]); (13, VInt d3)]; tp_pt := {| p_vals := [(9, 1)]; p_md := [] |}; tp_flags := [] |} in
  let route x := match tp_dims x with [_; (_, VInt z)] => z | _ => 0 end in
  let pts := [p 0; p 1] in
  length (spec_rows T q pts) = 1%nat /\
  length (spec_rows T q (routed_to route 0 pts) ++ spec_rows T q (routed_to route 1 pts)) = 2%nat.
Proof. vm_compute. auto. Qed.

(* ---------- non-pushdown: the leader re-merges partial states ---------- *)
Lemma remerge_gen : forall e parts acc pts0, acc = st e pts0 ->
  fold_left (fun a ps => Expr.merge e a (st e ps)) parts acc = st e (pts0 ++ concat parts).
Proof.
  intros e. induction parts as [|ps parts IH]; intros acc pts0 ->; cbn [fold_left concat].
  - rewrite app_nil_r. reflexivity.
  - rewrite (IH _ (pts0 ++ ps)); [rewrite app_assoc; reflexivity|]. apply merge_hom.
Qed.

(* for EVERY split of the points over the partitions (confined or not) the leader's re-merge of the partitions'
   partial states is the state of all points; with AVG travelling as (count, total) *)
Theorem remerge_sound : forall e parts all, Permutation all (concat parts) -> remerge e parts = st e all.
Proof.
  intros e parts all HP. unfold remerge. rewrite (remerge_gen e parts (empty e) []); [|reflexivity].
  cbn [app]. symmetry. apply order_irrelevant. exact HP.
Qed.
Theorem remerge_value : forall e parts all, Permutation all (concat parts) -> get e (remerge e parts) = ref e all.
Proof. intros. rewrite (remerge_sound e parts all); [apply get_ref|assumption]. Qed.
