(* TreeP.v — the radix tree of bytetree (Model/Tree.v) is a finite map from keys to data:
   proofs.  Layers: (0) the three comparisons Update/Remove make on an edge, as a four-way view;
   (1) what an Update does to the list of (path, stored key, data) of all data nodes, for every
   tree; (2) the well-formedness invariant and its preservation; (3) under it paths are pairwise
   different, stored keys are the paths, and the navigation of Update/Remove finds exactly the
   node at a path; (4) the map laws, Length, Walk, Remove, Copy and fileStore.iterate's use. *)
From Coq Require Import Lia Permutation.
From Zeno Require Import Base Tree.

Set Implicit Arguments.
Arguments n_key {D}. Arguments n_data {D}. Arguments n_removed {D}. Arguments n_edges {D}.
Arguments elist {D}. Arguments eapp {D}. Arguments set_data {D}. Arguments leaf {D}. Arguments split {D}.
Arguments upd_n {D}. Arguments upd_es {D}. Arguments was_removed {D}. Arguments do_remove {D}.
Arguments rem_n {D}. Arguments rem_es {D}. Arguments find_n {D}. Arguments find_es {D}.
Arguments size_n {D}. Arguments size_es {D}. Arguments bfs {D}. Arguments bfs_nodes {D}.
Arguments walk_list {D}. Arguments t_root {D}. Arguments t_len {D}. Arguments tnew {D}.
Arguments tupdate_with {D}. Arguments tupdate {D}. Arguments tremove {D}. Arguments mark {D}. Arguments twalk {D}.
Arguments copy_n {D}. Arguments copy_es {D}. Arguments tcopy {D}. Arguments tfind {D}. Arguments tremoved {D}.
Arguments remove_all {D}. Arguments take_all {D}. Arguments iterate_keys {D}. Arguments set_data_shipped {D}.

(* ---------------------------------------------------------------------------------------- *)
(* 0. comparing a label with a key                                                          *)
(* ---------------------------------------------------------------------------------------- *)

Lemma cpl_le_l (a b:list Z) : (cpl a b <= length a)%nat.
Proof. revert b; induction a as [|x a IH]; intros [|y b]; simpl; try lia. destruct (x =? y); simpl; [specialize (IH b)|]; lia. Qed.
Lemma cpl_le_r (a b:list Z) : (cpl a b <= length b)%nat.
Proof. revert b; induction a as [|x a IH]; intros [|y b]; simpl; try lia. destruct (x =? y); simpl; [specialize (IH b)|]; lia. Qed.
Lemma cpl_app (p a b:list Z) : cpl (p ++ a) (p ++ b) = (length p + cpl a b)%nat.
Proof. induction p as [|x p IH]; simpl; [reflexivity|]. rewrite Z.eqb_refl, IH. reflexivity. Qed.
Lemma cpl_nil_r (a:list Z) : cpl a [] = O.
Proof. destruct a; reflexivity. Qed.
Lemma cpl_firstn (a b:list Z) : firstn (cpl a b) a = firstn (cpl a b) b.
Proof.
  revert b; induction a as [|x a IH]; intros [|y b]; simpl; try reflexivity.
  destruct (Z.eqb_spec x y); simpl; [subst; f_equal; apply IH | reflexivity].
Qed.
Lemma cpl_skip_zero (a b:list Z) : cpl (skipn (cpl a b) a) (skipn (cpl a b) b) = O.
Proof.
  revert b; induction a as [|x a IH]; intros [|y b]; simpl; try reflexivity.
  - destruct (Z.eqb_spec x y); simpl; [apply IH|]. destruct (Z.eqb_spec x y); [contradiction|reflexivity].
Qed.
Lemma cpl_zero_cons (x y:Z) (a b:list Z) : cpl (x :: a) (y :: b) = O -> x <> y.
Proof. simpl. destruct (Z.eqb_spec x y); [discriminate | auto]. Qed.
Lemma cpl_zero_heads (a b:list Z) : a <> [] -> b <> [] -> cpl a b = O -> hd 0 a <> hd 0 b.
Proof. destruct a as [|x a], b as [|y b]; try congruence. intros _ _ H. simpl. eapply cpl_zero_cons; eauto. Qed.
Lemma heads_cpl_zero (a b:list Z) : hd 0 a <> hd 0 b -> cpl a b = O.
Proof. destruct a as [|x a], b as [|y b]; simpl; try reflexivity. intros H. destruct (Z.eqb_spec x y); congruence. Qed.

(* the view: label and key relate in exactly one of four ways *)
Inductive view (lbl key:list Z) : Type :=
| VExact : key = lbl -> view lbl key
| VDesc (r:list Z) : r <> [] -> key = lbl ++ r -> view lbl key
| VSplit (p l2 k2:list Z) : p <> [] -> l2 <> [] -> lbl = p ++ l2 -> key = p ++ k2 -> cpl l2 k2 = O -> view lbl key
| VMiss : lbl <> [] -> cpl lbl key = O -> view lbl key.

Definition is_exact (lbl key:list Z) : bool := Nat.eqb (cpl lbl key) (length key) && Nat.eqb (length key) (length lbl).
Definition is_desc (lbl key:list Z) : bool := Nat.eqb (cpl lbl key) (length lbl) && Nat.ltb (length lbl) (length key).
Definition is_split (lbl key:list Z) : bool := Nat.ltb 0 (cpl lbl key).

Lemma firstn_all_eq (a b:list Z) n : firstn n a = firstn n b -> length a = n -> length b = n -> a = b.
Proof. intros H Ha Hb. rewrite <- (firstn_all a), <- (firstn_all b), Ha, Hb. exact H. Qed.

Lemma cpl_self_app (l r:list Z) : cpl l (l ++ r) = length l.
Proof. induction l as [|x l IH]; simpl; [reflexivity|]. rewrite Z.eqb_refl, IH. reflexivity. Qed.
Lemma cpl_self (l:list Z) : cpl l l = length l.
Proof. rewrite <- (app_nil_r l) at 2. apply cpl_self_app. Qed.

Lemma tests_exact (l:list Z) : is_exact l l = true.
Proof. unfold is_exact. rewrite cpl_self, !Nat.eqb_refl. reflexivity. Qed.
Lemma tests_desc (l r:list Z) : r <> [] -> is_exact l (l ++ r) = false /\ is_desc l (l ++ r) = true.
Proof.
  intros Hr. unfold is_exact, is_desc. rewrite cpl_self_app, app_length.
  destruct r as [|y r]; [congruence|]. simpl length. split.
  - apply andb_false_intro2. apply Nat.eqb_neq. lia.
  - rewrite Nat.eqb_refl. apply Nat.ltb_lt. lia.
Qed.
Lemma tests_split (p l2 k2:list Z) : p <> [] -> l2 <> [] -> cpl l2 k2 = O ->
  is_exact (p ++ l2) (p ++ k2) = false /\ is_desc (p ++ l2) (p ++ k2) = false /\ is_split (p ++ l2) (p ++ k2) = true
  /\ cpl (p ++ l2) (p ++ k2) = length p.
Proof.
  intros Hp Hl H0. unfold is_exact, is_desc, is_split. rewrite cpl_app, H0, Nat.add_0_r, !app_length.
  destruct p as [|x p]; [congruence|]. destruct l2 as [|y l2]; [congruence|]. simpl length. repeat split.
  - destruct k2 as [|z k2]; simpl length.
    + apply andb_false_intro2. apply Nat.eqb_neq. lia.
    + apply andb_false_intro1. apply Nat.eqb_neq. lia.
  - apply andb_false_intro1. apply Nat.eqb_neq. lia.
Qed.
Lemma tests_miss (l k:list Z) : l <> [] -> cpl l k = O ->
  is_exact l k = false /\ is_desc l k = false /\ is_split l k = false.
Proof.
  intros Hl H0. unfold is_exact, is_desc, is_split. rewrite H0. destruct l as [|x l]; [congruence|]. simpl length. repeat split.
  destruct k as [|z k]; simpl; [|reflexivity].
  reflexivity.
Qed.

Lemma view_of (lbl key:list Z) : view lbl key.
Proof.
  destruct (is_exact lbl key) eqn:He.
  { apply VExact. unfold is_exact in He. apply andb_prop in He as [H1 H2].
    apply Nat.eqb_eq in H1, H2. symmetry. apply firstn_all_eq with (n:=cpl lbl key); [apply cpl_firstn|lia|lia]. }
  destruct (is_desc lbl key) eqn:Hd.
  { unfold is_desc in Hd. apply andb_prop in Hd as [H1 H2]. apply Nat.eqb_eq in H1. apply Nat.ltb_lt in H2.
    apply VDesc with (r:=skipn (length lbl) key).
    - intro E. apply (f_equal (@length Z)) in E. rewrite skipn_length in E. simpl in E. lia.
    - pose proof (cpl_firstn lbl key) as F. rewrite H1, firstn_all in F.
      rewrite F at 1. symmetry. apply firstn_skipn. }
  destruct (cpl lbl key) as [|i] eqn:Hc.
  { apply VMiss; [|exact Hc]. intro E; subst. unfold is_exact, is_desc in He, Hd. simpl in *.
    destruct key; simpl in *; discriminate. }
  pose proof (cpl_le_l lbl key) as L1. pose proof (cpl_le_r lbl key) as L2.
  apply VSplit with (p:=firstn (S i) lbl) (l2:=skipn (S i) lbl) (k2:=skipn (S i) key).
  - destruct lbl; simpl in *; [lia|congruence].
  - intro E. apply (f_equal (@length Z)) in E. rewrite skipn_length in E. simpl in E.
    assert (length lbl = S i) as El by lia.
    unfold is_exact, is_desc in He, Hd. rewrite Hc, El, Nat.eqb_refl in *. simpl in Hd.
    apply Nat.ltb_ge in Hd. assert (length key = S i) by lia.
    rewrite H, Nat.eqb_refl in He. discriminate.
  - symmetry; apply firstn_skipn.
  - rewrite <- Hc, cpl_firstn, Hc. symmetry; apply firstn_skipn.
  - rewrite <- Hc. apply cpl_skip_zero.
Qed.

(* ---------------------------------------------------------------------------------------- *)
(* 1. the edge loops of Update, Remove and the lookup, one rule per way of relating           *)
(* ---------------------------------------------------------------------------------------- *)
Section TreeP.
Variable D : Type.
Notation node := (node D).
Notation edges := (edges D).
Notation setter := (setter D).

Scheme node_mind := Induction for Tree.node Sort Prop
  with edges_mind := Induction for Tree.edges Sort Prop.
Combined Scheme node_edges_ind from node_mind, edges_mind.

Lemma upd_es_unfold (sd:setter) f full key lbl t rest :
  upd_es sd f full key (ECons lbl t rest) =
  if is_exact lbl key then let '(t', c) := sd f full t in Some (ECons lbl t' rest, c)
  else if is_desc lbl key then let '(t', c) := upd_n sd f full (skipn (length lbl) key) t in Some (ECons lbl t' rest, c)
  else if is_split lbl key then let '(l', t') := split f full key (cpl lbl key) lbl t in Some (ECons l' t' rest, true)
  else match upd_es sd f full key rest with Some (rest', c) => Some (ECons lbl t rest', c) | None => None end.
Proof. reflexivity. Qed.

Lemma upd_n_unfold (sd:setter) f full key k d r es :
  upd_n sd f full key (Node k d r es) =
  match upd_es sd f full key es with
  | Some (es', c) => (Node k d r es', c)
  | None => (Node k d r (eapp es key (leaf f full)), true) end.
Proof. reflexivity. Qed.

Lemma find_es_unfold key lbl (t:node) rest :
  find_es key (ECons lbl t rest) =
  if is_exact lbl key then Some t
  else if is_desc lbl key then find_es (skipn (length lbl) key) (n_edges t)
  else if is_split lbl key then None else find_es key rest.
Proof. destruct t; reflexivity. Qed.

Lemma rem_es_unfold ctx key lbl (t:node) rest :
  rem_es ctx key (ECons lbl t rest) =
  if is_exact lbl key then
    if was_removed ctx t then (ECons lbl t rest, None) else (ECons lbl (do_remove ctx t) rest, n_data t)
  else if is_desc lbl key then let '(t', o) := rem_n ctx (skipn (length lbl) key) t in (ECons lbl t' rest, o)
  else let '(rest', o) := rem_es ctx key rest in (ECons lbl t rest', o).
Proof. reflexivity. Qed.

Lemma skipn_app_exact (l r:list Z) : skipn (length l) (l ++ r) = r.
Proof. induction l; simpl; auto. Qed.
Lemma firstn_app_exact (l r:list Z) : firstn (length l) (l ++ r) = l.
Proof. induction l; simpl; [reflexivity|]. f_equal; auto. Qed.

Lemma split_eq f full (p l2 k2:list Z) (t:node) :
  split f full (p ++ k2) (length p) (p ++ l2) t =
  match k2 with
  | [] => (p, Node full (Some (f None)) [] (ECons l2 t ENil))
  | _ => (p, Node [] None [] (ECons l2 t (ECons k2 (leaf f full) ENil)))
  end.
Proof.
  unfold split. rewrite firstn_app_exact, !skipn_app_exact, app_length.
  destruct k2 as [|z k2]; simpl length.
  - rewrite Nat.add_0_r, Nat.eqb_refl. reflexivity.
  - replace (Nat.eqb (length p) (length p + S (length k2))) with false; [reflexivity|].
    symmetry. apply Nat.eqb_neq. lia.
Qed.

(* ---------------------------------------------------------------------------------------- *)
(* 2. the data nodes of a tree: (path from the root, stored key, data), and what Update does  *)
(*    to that list — for every tree                                                           *)
(* ---------------------------------------------------------------------------------------- *)
Definition entry : Type := list Z * list Z * D.
Definition e_path (e:entry) : list Z := fst (fst e).

Definition own (path:list Z) (n:node) : list entry :=
  match n_data n with Some x => [(path, n_key n, x)] | None => [] end.
Fixpoint dd_n (path:list Z) (n:node) {struct n} : list entry :=
  match n with Node k d _ es => own path (Node k d [] ENil) ++ dd_es path es end
with dd_es (path:list Z) (es:edges) {struct es} : list entry :=
  match es with ENil => [] | ECons l t r => dd_n (path ++ l) t ++ dd_es path r end.

Lemma dd_n_eq path (n:node) : dd_n path n = own path n ++ dd_es path (n_edges n).
Proof. destruct n; reflexivity. Qed.

Inductive patched (pk full:list Z) (f:option D -> D) (l l':list entry) : bool -> Prop :=
| p_mod l1 k d l2 : l = l1 ++ (pk, k, d) :: l2 -> l' = l1 ++ (pk, k, f (Some d)) :: l2 -> patched pk full f l l' false
| p_ins l1 l2 : l = l1 ++ l2 -> l' = l1 ++ (pk, full, f None) :: l2 -> patched pk full f l l' true.

Lemma patched_ctx pk full f l l' c a b : patched pk full f l l' c -> patched pk full f (a ++ l ++ b) (a ++ l' ++ b) c.
Proof.
  intros [l1 k d l2 E1 E2 | l1 l2 E1 E2]; subst.
  - apply p_mod with (l1:=a ++ l1) (k:=k) (d:=d) (l2:=l2 ++ b); rewrite <- !app_assoc; reflexivity.
  - apply p_ins with (l1:=a ++ l1) (l2:=l2 ++ b); rewrite <- !app_assoc; reflexivity.
Qed.
Lemma patched_r pk full f l l' c b : patched pk full f l l' c -> patched pk full f (l ++ b) (l' ++ b) c.
Proof. intros H. apply (patched_ctx [] b H). Qed.
Lemma patched_l pk full f l l' c a : patched pk full f l l' c -> patched pk full f (a ++ l) (a ++ l') c.
Proof. intros H. pose proof (patched_ctx a [] H) as P. rewrite !app_nil_r in P. exact P. Qed.

Lemma dd_eapp path (es:edges) l t : dd_es path (eapp es l t) = dd_es path es ++ dd_n (path ++ l) t.
Proof. induction es as [|l' t' r IH]; simpl; [rewrite app_nil_r; reflexivity|]. rewrite IH, app_assoc. reflexivity. Qed.

Lemma set_data_patched f full path (t:node) :
  let '(t', c) := set_data f full t in patched path full f (dd_n path t) (dd_n path t') c.
Proof.
  destruct t as [k [d|] r es]; simpl.
  - apply p_mod with (l1:=[]) (k:=k) (d:=d) (l2:=dd_es path es); reflexivity.
  - apply p_ins with (l1:=[]) (l2:=dd_es path es); reflexivity.
Qed.

Lemma upd_patched :
  (forall n:node, forall f full key path,
     let '(n', c) := upd_n set_data f full key n in patched (path ++ key) full f (dd_n path n) (dd_n path n') c)
  /\ (forall es:edges, forall f full key path,
     match upd_es set_data f full key es with
     | Some (es', c) => patched (path ++ key) full f (dd_es path es) (dd_es path es') c
     | None => True end).
Proof.
  apply node_edges_ind.
  - intros k d r es IH f full key path. rewrite upd_n_unfold. specialize (IH f full key path).
    destruct (upd_es set_data f full key es) as [[es' c]|].
    + simpl. apply patched_l. exact IH.
    + simpl. rewrite dd_eapp. apply patched_l.
      apply p_ins with (l1:=dd_es path es) (l2:=[]); [rewrite app_nil_r; reflexivity|]. reflexivity.
  - intros; exact I.
  - intros lbl t IHt rest IHr f full key path. rewrite upd_es_unfold.
    destruct (view_of lbl key) as [E | r Hr E | p l2 k2 Hp Hl El Ek H0 | Hl H0].
    + subst key. rewrite tests_exact. pose proof (set_data_patched f full (path ++ lbl) t) as S.
      destruct (set_data f full t) as [t' c]. simpl. apply patched_r. exact S.
    + subst key. destruct (tests_desc lbl Hr) as [T1 T2]. rewrite T1, T2, skipn_app_exact.
      specialize (IHt f full r (path ++ lbl)). destruct (upd_n set_data f full r t) as [t' c].
      simpl. apply patched_r. rewrite <- app_assoc in IHt. exact IHt.
    + subst lbl key. destruct (tests_split k2 Hp Hl H0) as [T1 [T2 [T3 T4]]]. rewrite T1, T2, T3, T4, split_eq.
      destruct k2 as [|z k2].
      * replace (dd_es path (ECons p (Node full (Some (f None)) [] (ECons l2 t ENil)) rest))
          with (((path ++ p, full, f None) :: dd_n (path ++ p ++ l2) t) ++ dd_es path rest)
          by (simpl; rewrite app_nil_r, <- app_assoc; reflexivity).
        cbn [dd_es]. rewrite app_nil_r. apply patched_r.
        apply p_ins with (l1:=[]) (l2:=dd_n (path ++ p ++ l2) t); reflexivity.
      * replace (dd_es path (ECons p (Node [] None [] (ECons l2 t (ECons (z :: k2) (leaf f full) ENil))) rest))
          with ((dd_n (path ++ p ++ l2) t ++ [(path ++ p ++ z :: k2, full, f None)]) ++ dd_es path rest)
          by (simpl; rewrite <- !app_assoc; reflexivity).
        cbn [dd_es]. apply patched_r.
        apply p_ins with (l1:=dd_n (path ++ p ++ l2) t) (l2:=[]); [rewrite app_nil_r; reflexivity|reflexivity].
    + destruct (tests_miss key Hl H0) as [T1 [T2 T3]]. rewrite T1, T2, T3.
      specialize (IHr f full key path). destruct (upd_es set_data f full key rest) as [[rest' c]|]; [|exact I].
      simpl. apply patched_l. exact IHr.
Qed.

(* ---------------------------------------------------------------------------------------- *)
(* 3. well-formed trees.  Labels below one node start with pairwise different bytes; the      *)
(*    empty label occurs only at the root, as its last edge (the node of the empty key: every *)
(*    key the edges before it do not take descends into it, so what lies below it starts with *)
(*    other bytes than those edges); a node with data stores the path that leads to it.       *)
(* ---------------------------------------------------------------------------------------- *)
Definition lheads (es:edges) : list Z := map (fun e => hd 0 (fst e)) (elist es).
Fixpoint rheads (es:edges) : list Z :=
  match es with
  | ENil => []
  | ECons [] t r => lheads (n_edges t) ++ rheads r
  | ECons (x :: _) _ r => x :: rheads r
  end.

Fixpoint wf_n (path:list Z) (n:node) {struct n} : Prop :=
  match n with Node k d _ es => (d <> None -> k = path) /\ wf_es false path es end
with wf_es (top:bool) (path:list Z) (es:edges) {struct es} : Prop :=
  match es with
  | ENil => True
  | ECons l t r => (l = [] -> top = true /\ r = ENil) /\ (l <> [] -> ~ In (hd 0 l) (rheads r))
                   /\ wf_n (path ++ l) t /\ wf_es top path r
  end.

Lemma wf_n_eq path (n:node) : wf_n path n <-> (n_data n <> None -> n_key n = path) /\ wf_es false path (n_edges n).
Proof. destruct n; simpl; tauto. Qed.

Lemma rheads_inner path (es:edges) : wf_es false path es -> rheads es = lheads es.
Proof.
  induction es as [|l t r IH]; simpl; [reflexivity|]. intros [H1 [H2 [H3 H4]]].
  destruct l as [|x l]; [destruct (H1 eq_refl); discriminate|]. unfold lheads; simpl. f_equal. apply IH; exact H4.
Qed.
Lemma rheads_cons_nonempty l (t:node) r : l <> [] -> rheads (ECons l t r) = hd 0 l :: rheads r.
Proof. destruct l; [congruence|reflexivity]. Qed.

Lemma rheads_eapp (es:edges) key (t:node) :
  (forall l t' , In (l, t') (elist es) -> l <> []) ->
  rheads (eapp es key t) = rheads es ++ rheads (ECons key t ENil).
Proof.
  induction es as [|l t' r IH]; intros Hne; [simpl; reflexivity|].
  assert (l <> []) as Hl by (apply (Hne l t'); left; reflexivity).
  cbn [eapp]. rewrite !rheads_cons_nonempty by exact Hl. simpl. f_equal.
  apply IH. intros l0 t0 Hin. apply (Hne l0 t0). right; exact Hin.
Qed.

Lemma set_data_wf f path (t:node) : wf_n path t ->
  wf_n path (fst (set_data f path t)) /\ n_edges (fst (set_data f path t)) = n_edges t.
Proof. destruct t as [k [d|] r es]; simpl; intros [H1 H2]; repeat split; auto. intros _. apply H1. congruence. Qed.

Lemma leaf_wf f path : wf_n path (leaf f path).
Proof. simpl. auto. Qed.

Lemma eapp_wf top f full key path (es:edges) :
  full = path ++ key -> (key <> [] \/ top = true) -> wf_es top path es ->
  (forall x, In x (rheads es) -> key <> [] -> x <> hd 0 key) -> (forall l t, In (l, t) (elist es) -> l <> []) ->
  wf_es top path (eapp es key (leaf f full)).
Proof.
  intros Ef Hk. induction es as [|l t r0 IHr]; intros Hes Hm Hne.
  - cbn [eapp wf_es]. split; [intros E; destruct Hk as [Hk|Hk]; [congruence|auto]|]. split; [intros _ []|]. split; [subst full; apply leaf_wf|exact I].
  - destruct Hes as [H1 [H2 [H3 H4]]].
    assert (l <> []) as Hl by (apply (Hne l t); left; reflexivity).
    cbn [eapp wf_es]. split; [intros E; congruence|]. split; [|split; [exact H3|]].
    + intros _. rewrite rheads_eapp by (intros l0 t0 Hin; apply (Hne l0 t0); right; exact Hin).
      intros Hin. apply in_app_or in Hin as [Hin|Hin]; [exact (H2 Hl Hin)|].
      destruct key as [|y key]; [destruct Hin|]. simpl in Hin. destruct Hin as [E|[]].
      apply (Hm (hd 0 l)); [rewrite rheads_cons_nonempty by exact Hl; left; reflexivity|congruence|]. simpl. congruence.
    + apply IHr; [exact H4| |].
      * intros x Hx. apply Hm. rewrite rheads_cons_nonempty by exact Hl. right; exact Hx.
      * intros l0 t0 Hin. apply (Hne l0 t0). right; exact Hin.
Qed.

Lemma upd_wf :
  (forall n:node, forall f full key path, full = path ++ key -> key <> [] -> wf_n path n ->
     let n' := fst (upd_n set_data f full key n) in
     wf_n path n' /\ (forall x, In x (lheads (n_edges n')) -> In x (lheads (n_edges n)) \/ x = hd 0 key))
  /\ (forall es:edges, forall top f full key path, full = path ++ key -> (key <> [] \/ top = true) -> wf_es top path es ->
     match upd_es set_data f full key es with
     | Some (es', _) => wf_es top path es' /\ (forall x, In x (rheads es') -> In x (rheads es) \/ (key <> [] /\ x = hd 0 key))
     | None => (forall x, In x (rheads es) -> key <> [] -> x <> hd 0 key) /\ (forall l t, In (l, t) (elist es) -> l <> [])
     end).
Proof.
  apply node_edges_ind.
  - intros k d r es IH f full key path Ef Hk [Hd Hes]. rewrite upd_n_unfold.
    specialize (IH false f full key path Ef (or_introl Hk) Hes).
    destruct (upd_es set_data f full key es) as [[es' c]|]; cbn [fst n_edges].
    + destruct IH as [W Hh]. split; [simpl; auto|].
      rewrite <- (@rheads_inner _ _ W), <- (@rheads_inner _ _ Hes). intros x Hx. destruct (Hh x Hx) as [|[_ ?]]; auto.
    + destruct IH as [Hm Hne].
      assert (wf_es false path (eapp es key (leaf f full))) as W by (apply eapp_wf; auto).
      split; [simpl; auto|].
      rewrite <- (@rheads_inner _ _ W), <- (@rheads_inner _ _ Hes).
      rewrite rheads_eapp by exact Hne. intros x Hx. apply in_app_or in Hx as [Hx|Hx]; [left; exact Hx|].
      destruct key as [|y key]; [congruence|]. simpl in Hx. destruct Hx as [E|[]]. right. simpl. congruence.
  - intros top f full key path _ _ _. simpl. split; [intros x []|intros l t []].
  - intros lbl t IHt rest IHr top f full key path Ef Hk [H1 [H2 [H3 H4]]]. rewrite upd_es_unfold.
    destruct (view_of lbl key) as [E | r Hr E | p l2 k2 Hp Hl El Ek H0 | Hl H0].
    + (* exact *)
      subst key. rewrite tests_exact. subst full.
      destruct (@set_data_wf f _ _ H3) as [W Ee]. destruct (set_data f (path ++ lbl) t) as [t' c]. cbn [fst] in *.
      split.
      * cbn [wf_es]. split; [exact H1|]. split; [exact H2|]. split; [exact W|exact H4].
      * intros x Hx. left. destruct lbl as [|y lbl]; simpl in *; [rewrite Ee in Hx|]; exact Hx.
    + (* descend *)
      subst key. destruct (tests_desc lbl Hr) as [T1 T2]. rewrite T1, T2, skipn_app_exact.
      assert (full = (path ++ lbl) ++ r) as Ef' by (rewrite <- app_assoc; exact Ef).
      specialize (IHt f full r (path ++ lbl) Ef' Hr H3).
      destruct (upd_n set_data f full r t) as [t' c]. cbn [fst] in IHt. destruct IHt as [W Hh].
      split.
      * cbn [wf_es]. split; [exact H1|]. split; [exact H2|]. split; [exact W|exact H4].
      * intros x Hx. destruct lbl as [|y lbl].
        -- simpl in Hx. apply in_app_or in Hx as [Hx|Hx].
           ++ destruct (Hh x Hx) as [Hy|Hy]; [left; simpl; apply in_or_app; left; exact Hy|].
              right. split; [destruct r; simpl; congruence|]. simpl. exact Hy.
           ++ left; simpl; apply in_or_app; right; exact Hx.
        -- left. exact Hx.
    + (* split *)
      subst lbl key. destruct (tests_split k2 Hp Hl H0) as [T1 [T2 [T3 T4]]]. rewrite T1, T2, T3, T4, split_eq.
      assert (p ++ l2 <> []) as Hpl by (destruct p; simpl; congruence).
      assert (hd 0 (p ++ l2) = hd 0 p) as Hh by (destruct p; [congruence|reflexivity]).
      destruct k2 as [|z k2].
      * split.
        -- cbn [wf_es wf_n]. split; [intros E; congruence|]. split; [intros _; rewrite <- Hh; apply H2; exact Hpl|].
           split; [|exact H4]. split; [intros _; subst full; rewrite app_nil_r; reflexivity|].
           split; [intros E; congruence|]. split; [intros _ []|]. split; [rewrite <- app_assoc; exact H3|exact I].
        -- intros x Hx. left. rewrite rheads_cons_nonempty in Hx by exact Hp.
           rewrite rheads_cons_nonempty by exact Hpl. rewrite Hh. exact Hx.
      * split.
        -- cbn [wf_es wf_n]. split; [intros E; congruence|]. split; [intros _; rewrite <- Hh; apply H2; exact Hpl|].
           split; [|exact H4]. split; [intros E; congruence|].
           split; [intros E; congruence|]. split.
           { intros _ [E|[]]. destruct l2 as [|y l2]; [congruence|]. simpl in E. apply cpl_zero_cons in H0. congruence. }
           split; [rewrite <- app_assoc; exact H3|].
           split; [intros E; discriminate|]. split; [intros _ []|]. split; [|exact I].
           cbn [leaf wf_n wf_es]. split; [intros _; subst full; rewrite <- app_assoc; reflexivity|exact I].
        -- intros x Hx. left. rewrite rheads_cons_nonempty in Hx by exact Hp.
           rewrite rheads_cons_nonempty by exact Hpl. rewrite Hh. exact Hx.
    + (* miss *)
      destruct (tests_miss key Hl H0) as [T1 [T2 T3]]. rewrite T1, T2, T3.
      specialize (IHr top f full key path Ef Hk H4).
      destruct (upd_es set_data f full key rest) as [[rest' c]|].
      * destruct IHr as [W Hh]. split.
        -- simpl. repeat split; auto; try congruence.
           intros _ Hin. destruct (Hh _ Hin) as [Hx|[Hkk Hx]]; [exact (H2 Hl Hx)|].
           apply (cpl_zero_heads Hl Hkk H0). exact Hx.
        -- intros x Hx. rewrite rheads_cons_nonempty in Hx by exact Hl. rewrite rheads_cons_nonempty by exact Hl.
           destruct Hx as [Hx|Hx]; [left; left; exact Hx|]. destruct (Hh x Hx) as [Hy|Hy]; [left; right; exact Hy|right; exact Hy].
      * destruct IHr as [Hm Hne]. split.
        -- intros x Hx Hkk. rewrite rheads_cons_nonempty in Hx by exact Hl. destruct Hx as [Hx|Hx].
           ++ subst x. apply (cpl_zero_heads Hl Hkk H0).
           ++ apply Hm; assumption.
        -- intros l0 t0 [E|Hin]; [inversion E; subst; exact Hl|apply (Hne l0 t0 Hin)].
Qed.

(* ---------------------------------------------------------------------------------------- *)
(* 4. in a well-formed tree every data node stores the path that leads to it, and the paths   *)
(*    are pairwise different                                                                 *)
(* ---------------------------------------------------------------------------------------- *)
Lemma nodup_app {A} (a b:list A) : NoDup a -> NoDup b -> (forall x, In x a -> In x b -> False) -> NoDup (a ++ b).
Proof.
  induction a as [|x a IH]; simpl; intros Ha Hb Hd; [exact Hb|]. inversion Ha; subst. constructor.
  - intro Hin. apply in_app_or in Hin as [Hin|Hin]; [contradiction|]. apply (Hd x); [left; reflexivity|exact Hin].
  - apply IH; auto. intros y Hy1 Hy2. apply (Hd y); [right; exact Hy1|exact Hy2].
Qed.

Lemma app_cons_not_self (p:list Z) x rest : p ++ x :: rest <> p.
Proof. intro E. apply (f_equal (@length Z)) in E. rewrite app_length in E. simpl in E. lia. Qed.

Lemma dd_heads :
  (forall n:node, forall path e, wf_n path n -> In e (dd_n path n) ->
     e_path e = path \/ exists x rest, e_path e = path ++ x :: rest /\ In x (lheads (n_edges n)))
  /\ (forall es:edges, forall top path e, wf_es top path es -> In e (dd_es path es) ->
     (top = true /\ e_path e = path) \/ exists x rest, e_path e = path ++ x :: rest /\ In x (rheads es)).
Proof.
  apply node_edges_ind.
  - intros k d r es IH path e [Hd Hes] Hin. cbn [dd_n] in Hin. apply in_app_or in Hin as [Hin|Hin].
    + left. unfold own in Hin. simpl in Hin. destruct d; [|contradiction]. destruct Hin as [E|[]]. subst e. reflexivity.
    + destruct (IH false path e Hes Hin) as [[E _]|[x [rest [E Hx]]]]; [discriminate|].
      right. exists x, rest. split; [exact E|]. cbn [n_edges]. rewrite <- (@rheads_inner _ _ Hes). exact Hx.
  - intros top path e _ [].
  - intros l t IHt r IHr top path e [H1 [H2 [H3 H4]]] Hin. cbn [dd_es] in Hin. apply in_app_or in Hin as [Hin|Hin].
    + destruct (IHt (path ++ l) e H3 Hin) as [E|[x [rest [E Hx]]]].
      * destruct l as [|y l].
        -- left. destruct (H1 eq_refl) as [Ht _]. rewrite app_nil_r in E. auto.
        -- right. exists y, l. split; [exact E|]. left; reflexivity.
      * destruct l as [|y l].
        -- right. exists x, rest. rewrite app_nil_r in E. split; [exact E|]. simpl. apply in_or_app. left; exact Hx.
        -- right. exists y, (l ++ x :: rest). rewrite <- app_assoc in E. split; [exact E|]. left; reflexivity.
    + destruct (IHr top path e H4 Hin) as [[Ht E]|[x [rest [E Hx]]]]; [left; auto|].
      right. exists x, rest. split; [exact E|]. destruct l as [|y l].
      * destruct (H1 eq_refl) as [_ Er]. subst r. destruct Hx.
      * right; exact Hx.
Qed.

Lemma dd_keys :
  (forall n:node, forall path p k d, wf_n path n -> In (p, k, d) (dd_n path n) -> k = p)
  /\ (forall es:edges, forall top path p k d, wf_es top path es -> In (p, k, d) (dd_es path es) -> k = p).
Proof.
  apply node_edges_ind.
  - intros k0 d0 r es IH path p k d [Hd Hes] Hin. cbn [dd_n] in Hin. apply in_app_or in Hin as [Hin|Hin].
    + unfold own in Hin. simpl in Hin. destruct d0 as [x|]; [|contradiction]. destruct Hin as [E|[]]. inversion E; subst.
      apply Hd. discriminate.
    + exact (IH false path p k d Hes Hin).
  - intros top path p k d _ [].
  - intros l t IHt r IHr top path p k d [H1 [H2 [H3 H4]]] Hin. cbn [dd_es] in Hin. apply in_app_or in Hin as [Hin|Hin].
    + exact (IHt (path ++ l) p k d H3 Hin).
    + exact (IHr top path p k d H4 Hin).
Qed.

Lemma dd_nodup :
  (forall n:node, forall path, wf_n path n -> NoDup (map e_path (dd_n path n)))
  /\ (forall es:edges, forall top path, wf_es top path es -> NoDup (map e_path (dd_es path es))).
Proof.
  apply node_edges_ind.
  - intros k d r es IH path [Hd Hes]. cbn [dd_n]. rewrite map_app. apply nodup_app.
    + unfold own; simpl. destruct d; simpl; constructor; [intros []|constructor].
    + exact (IH false path Hes).
    + intros p Hp1 Hp2. unfold own in Hp1; simpl in Hp1. destruct d; [|contradiction]. simpl in Hp1. destruct Hp1 as [E|[]]. subst p.
      apply in_map_iff in Hp2 as [e [Ee Hin]].
      destruct (proj2 dd_heads es false path e Hes Hin) as [[Ht _]|[x [rest [E _]]]]; [discriminate|].
      rewrite E in Ee. exact (@app_cons_not_self _ _ _ Ee).
  - intros; constructor.
  - intros l t IHt r IHr top path [H1 [H2 [H3 H4]]]. cbn [dd_es]. rewrite map_app. apply nodup_app.
    + exact (IHt (path ++ l) H3).
    + exact (IHr top path H4).
    + intros p Hp1 Hp2. apply in_map_iff in Hp1 as [e1 [E1 Hin1]]. apply in_map_iff in Hp2 as [e2 [E2 Hin2]].
      destruct l as [|y l].
      { destruct (H1 eq_refl) as [_ Er]. subst r. destruct Hin2. }
      assert (exists s, p = path ++ y :: s) as [s Es].
      { destruct (proj1 dd_heads t (path ++ y :: l) e1 H3 Hin1) as [E|[x [rest [E _]]]]; rewrite E in E1.
        - exists l. auto.
        - exists (l ++ x :: rest). rewrite <- app_assoc in E1. auto. }
      destruct (proj2 dd_heads r top path e2 H4 Hin2) as [[_ E]|[x [rest [E Hx]]]]; rewrite E in E2; rewrite Es in E2.
      * symmetry in E2. exact (@app_cons_not_self _ _ _ E2).
      * apply app_inv_head in E2. inversion E2; subst. apply H2; [discriminate|exact Hx].
Qed.

(* ---------------------------------------------------------------------------------------- *)
(* 5. navigation: the node Update and Remove reach with a key is the node at that path        *)
(* ---------------------------------------------------------------------------------------- *)
Definition dfind_es (key:list Z) (es:edges) : option D :=
  match find_es key es with Some n => n_data n | None => None end.

Lemma dd_n_prefix (t:node) q e : wf_n q t -> In e (dd_n q t) -> exists s, e_path e = q ++ s.
Proof.
  intros W Hin. destruct (proj1 dd_heads t q e W Hin) as [E|[x [rest [E _]]]].
  - exists []. rewrite app_nil_r. exact E.
  - exists (x :: rest). exact E.
Qed.

Lemma in_rest_head (r:edges) top path l key k d :
  wf_es top path r -> (l = [] -> top = true /\ r = ENil) -> (l <> [] -> ~ In (hd 0 l) (rheads r)) ->
  In (path ++ key, k, d) (dd_es path r) -> (exists s, key = l ++ s) -> l <> [] \/ key = [] -> False.
Proof.
  intros W H1 H2 Hin [s Es] Hor.
  destruct l as [|y l]; [destruct (H1 eq_refl) as [_ Er]; subst r; destruct Hin|].
  destruct (proj2 dd_heads r top path _ W Hin) as [[_ E]|[x [rest [E Hx]]]]; unfold e_path in E; simpl in E.
  - subst key. symmetry in E. rewrite <- (app_nil_r path) in E at 1. apply app_inv_head in E. discriminate.
  - apply app_inv_head in E. subst key. simpl in E. inversion E; subst. apply H2; [discriminate|exact Hx].
Qed.

Lemma nav :
  (forall n:node, forall path key d, wf_n path n ->
     (dfind_es key (n_edges n) = Some d <-> exists k, In (path ++ key, k, d) (dd_es path (n_edges n))))
  /\ (forall es:edges, forall top path key d, wf_es top path es ->
     (dfind_es key es = Some d <-> exists k, In (path ++ key, k, d) (dd_es path es))).
Proof.
  apply node_edges_ind.
  - intros k d r es IH path key d0 [_ Hes]. cbn [n_edges]. exact (IH false path key d0 Hes).
  - intros top path key d _. unfold dfind_es; simpl. split; [discriminate|intros [k []]].
  - intros l t IHt r IHr top path key d [H1 [H2 [H3 H4]]]. unfold dfind_es. rewrite find_es_unfold. cbn [dd_es].
    destruct (view_of l key) as [E | r' Hr E | p l2 k2 Hp Hl El Ek H0 | Hl H0].
    + (* exact *)
      subst key. rewrite tests_exact. split.
      * intros Hd. exists (n_key t). apply in_or_app. left. rewrite dd_n_eq. apply in_or_app. left.
        unfold own. rewrite Hd. left; reflexivity.
      * intros [k Hin]. apply in_app_or in Hin as [Hin|Hin].
        -- rewrite dd_n_eq in Hin. apply in_app_or in Hin as [Hin|Hin].
           ++ unfold own in Hin. destruct (n_data t); [|contradiction]. destruct Hin as [E|[]]. inversion E; subst. reflexivity.
           ++ apply wf_n_eq in H3 as [_ Wt].
              destruct (proj2 dd_heads _ false (path ++ l) _ Wt Hin) as [[Ht _]|[x [rest [E _]]]]; [discriminate|].
              unfold e_path in E; simpl in E. symmetry in E. destruct (@app_cons_not_self _ _ _ E).
        -- exfalso. apply (@in_rest_head r top path l l k d H4 H1 H2 Hin); [exists []; rewrite app_nil_r; reflexivity|].
           destruct l; [right; reflexivity|left; discriminate].
    + (* descend *)
      subst key. destruct (tests_desc l Hr) as [T1 T2]. rewrite T1, T2, skipn_app_exact.
      specialize (IHt (path ++ l) r' d H3). unfold dfind_es in IHt. rewrite IHt. rewrite <- app_assoc.
      split.
      * intros [k Hin]. exists k. apply in_or_app. left. rewrite dd_n_eq. apply in_or_app. right. exact Hin.
      * intros [k Hin]. exists k. apply in_app_or in Hin as [Hin|Hin].
        -- rewrite dd_n_eq in Hin. apply in_app_or in Hin as [Hin|Hin]; [|exact Hin].
           unfold own in Hin. destruct (n_data t); [|contradiction]. destruct Hin as [E|[]]. inversion E as [[E1 E2 E3]].
           destruct r' as [|x r']; [congruence|]. rewrite app_assoc in E1. destruct (@app_cons_not_self _ _ _ (eq_sym E1)).
        -- exfalso. destruct l as [|y l].
           ++ destruct (H1 eq_refl) as [_ Er]; subst r; destruct Hin.
           ++ apply (@in_rest_head r top path (y :: l) ((y :: l) ++ r') k d H4 H1 H2 Hin); [exists r'; reflexivity|left; discriminate].
    + (* the key leaves the label half way: it is not in the tree *)
      subst l key. destruct (tests_split k2 Hp Hl H0) as [T1 [T2 [T3 T4]]]. rewrite T1, T2, T3.
      split; [discriminate|]. intros [k Hin]. exfalso. apply in_app_or in Hin as [Hin|Hin].
      * destruct (proj1 dd_heads t _ _ H3 Hin) as [E|[x [rest [E _]]]]; unfold e_path in E; simpl in E;
          repeat rewrite <- app_assoc in E; apply app_inv_head in E; apply app_inv_head in E.
        -- destruct k2 as [|z k2]; destruct l2 as [|y l2]; try congruence.
           inversion E; subst. apply cpl_zero_cons in H0. congruence.
        -- destruct k2 as [|z k2]; destruct l2 as [|y l2]; try congruence; try discriminate.
           simpl in E. inversion E; subst. apply cpl_zero_cons in H0. congruence.
      * assert (p ++ l2 <> []) as Hpl by (destruct p; simpl; congruence).
        destruct p as [|y p]; [congruence|].
        apply (@in_rest_head r top path [y] ((y :: p) ++ k2) k d H4).
        -- intros E; discriminate.
        -- intros _. apply (H2 Hpl).
        -- exact Hin.
        -- exists (p ++ k2). reflexivity.
        -- left; discriminate.
    + (* miss *)
      destruct (tests_miss key Hl H0) as [T1 [T2 T3]]. rewrite T1, T2, T3.
      specialize (IHr top path key d H4). unfold dfind_es in IHr. rewrite IHr. split.
      * intros [k Hin]. exists k. apply in_or_app. right. exact Hin.
      * intros [k Hin]. exists k. apply in_app_or in Hin as [Hin|Hin]; [|exact Hin]. exfalso.
        destruct (@dd_n_prefix _ _ _ H3 Hin) as [s Es]. unfold e_path in Es; simpl in Es.
        rewrite <- app_assoc in Es. apply app_inv_head in Es. subst key.
        destruct l as [|y l]; [congruence|]. simpl in H0. rewrite Z.eqb_refl in H0. discriminate.
Qed.

(* ---------------------------------------------------------------------------------------- *)
(* 6. the tree is a finite map: Update                                                      *)
(* ---------------------------------------------------------------------------------------- *)
Notation tree := (tree D).
Definition content (t:tree) : list entry := dd_es [] (n_edges (t_root t)).
Definition wf_tree (t:tree) : Prop :=
  wf_es true [] (n_edges (t_root t)) /\ t_len t = Z.of_nat (length (content t)) /\ n_data (t_root t) = None.

Lemma tnew_wf : wf_tree tnew.
Proof. split; [|split]; simpl; auto. Qed.

Lemma tfind_eq key (t:tree) : tfind key t = dfind_es key (n_edges (t_root t)).
Proof. unfold tfind, dfind_es. destruct (t_root t); reflexivity. Qed.

Lemma tfind_in key (t:tree) d : wf_tree t -> (tfind key t = Some d <-> exists k, In (key, k, d) (content t)).
Proof. intros [W _]. rewrite tfind_eq. exact (proj2 nav _ true [] key d W). Qed.

Lemma content_keys (t:tree) p k d : wf_tree t -> In (p, k, d) (content t) -> k = p.
Proof. intros [W _]. exact (proj2 dd_keys _ true [] p k d W). Qed.
Lemma content_nodup (t:tree) : wf_tree t -> NoDup (map e_path (content t)).
Proof. intros [W _]. exact (proj2 dd_nodup _ true [] W). Qed.

Lemma option_ext (a b:option D) : (forall d, a = Some d <-> b = Some d) -> a = b.
Proof.
  intros H. destruct a as [x|], b as [y|]; auto.
  - symmetry. apply H; reflexivity.
  - destruct (proj1 (H x) eq_refl); reflexivity.
  - apply (H y); reflexivity.
Qed.

Lemma keyeq_spec (a b:list Z) : list_eqb Z.eqb a b = true <-> a = b.
Proof.
  revert b; induction a as [|x a IH]; intros [|y b]; simpl; split; try congruence; try discriminate.
  - intros H. apply andb_prop in H as [H1 H2]. apply Z.eqb_eq in H1. apply IH in H2. congruence.
  - intros E. inversion E; subst. rewrite Z.eqb_refl. simpl. apply IH. reflexivity.
Qed.

(* one Update: the tree stays well formed; the key's data becomes f of what it was (nil when it
   was absent), every other key keeps its data; Length counts the keys *)
Theorem tupdate_map f key (t:tree) : wf_tree t ->
  wf_tree (tupdate f key t)
  /\ (forall key', tfind key' (tupdate f key t) = if list_eqb Z.eqb key' key then Some (f (tfind key t)) else tfind key' t).
Proof.
  intros [W [HL HR]]. unfold tupdate, tupdate_with.
  destruct (t_root t) as [k0 d0 r0 es] eqn:ER. cbn [n_edges] in W.
  pose proof (proj2 upd_patched es f key key []) as P.
  pose proof (proj2 upd_wf es true f key key [] eq_refl) as U.
  rewrite upd_n_unfold.
  assert (exists es' c, (match upd_es set_data f key key es with Some (e, c) => (Node k0 d0 r0 e, c) | None => (Node k0 d0 r0 (eapp es key (leaf f key)), true) end) = (Node k0 d0 r0 es', c)
          /\ wf_es true [] es' /\ patched key key f (dd_es [] es) (dd_es [] es') c) as [es' [c [E [W' P']]]].
  { destruct (upd_es set_data f key key es) as [[e c]|].
    - exists e, c. destruct (U (or_intror eq_refl) W) as [W' _]. auto.
    - exists (eapp es key (leaf f key)), true. destruct (U (or_intror eq_refl) W) as [Hm Hne]. split; [reflexivity|]. split.
      + apply eapp_wf; auto.
      + rewrite dd_eapp. apply p_ins with (l1:=dd_es [] es) (l2:=[]); [rewrite app_nil_r; reflexivity|reflexivity]. }
  rewrite E. clear E P U.
  set (t' := {| t_root := Node k0 d0 r0 es'; t_len := if c then t_len t + 1 else t_len t |}).
  assert (content t = dd_es [] es) as C by (unfold content; rewrite ER; reflexivity).
  assert (content t' = dd_es [] es') as C' by reflexivity.
  assert (wf_tree t') as WT'.
  { split; [exact W'|]. split; [|exact HR]. cbn [t_len t']. rewrite C', HL, C.
    destruct P' as [l1 k d l2 E1 E2 | l1 l2 E1 E2]; rewrite E1, E2, !app_length; simpl; lia. }
  assert (wf_tree t) as WT by (split; [rewrite ER; exact W|split; [exact HL|rewrite ER; exact HR]]).
  split; [exact WT'|]. intros key'.
  pose proof (content_nodup WT') as ND'. rewrite C' in ND'.
  destruct P' as [l1 k d l2 E1 E2 | l1 l2 E1 E2].
  - (* the key was there *)
    assert (tfind key t = Some d) as Fk.
    { apply (tfind_in key d WT). exists k. rewrite C, E1. apply in_or_app. right; left; reflexivity. }
    destruct (list_eqb Z.eqb key' key) eqn:Ek.
    + apply keyeq_spec in Ek. subst key'. rewrite Fk. apply (tfind_in key (f (Some d)) WT'). exists k.
      rewrite C', E2. apply in_or_app. right; left; reflexivity.
    + apply option_ext. intros d1. rewrite (tfind_in key' d1 WT'), (tfind_in key' d1 WT), C, C', E1, E2.
      assert (key' <> key) as Hne by (intro E; apply keyeq_spec in E; congruence).
      split; intros [k1 Hin]; exists k1; apply in_app_or in Hin as [Hin|[Hin|Hin]]; try (apply in_or_app; auto; right; right; assumption);
        inversion Hin; congruence.
  - (* the key was not there *)
    assert (tfind key t = None) as Fk.
    { destruct (tfind key t) as [d|] eqn:F; [|reflexivity]. exfalso.
      apply (tfind_in key d WT) in F as [k Hin]. rewrite C, E1 in Hin.
      rewrite E2, map_app in ND'. simpl in ND'. apply NoDup_remove_2 in ND'. apply ND'.
      rewrite <- map_app. apply in_map_iff. exists (key, k, d). split; [reflexivity|exact Hin]. }
    destruct (list_eqb Z.eqb key' key) eqn:Ek.
    + apply keyeq_spec in Ek. subst key'. rewrite Fk. apply (tfind_in key (f None) WT'). exists key.
      rewrite C', E2. apply in_or_app. right; left; reflexivity.
    + apply option_ext. intros d1. rewrite (tfind_in key' d1 WT'), (tfind_in key' d1 WT), C, C', E1, E2.
      assert (key' <> key) as Hne by (intro E; apply keyeq_spec in E; congruence).
      split; intros [k1 Hin]; exists k1.
      * apply in_app_or in Hin as [Hin|[Hin|Hin]]; [apply in_or_app; auto| inversion Hin; congruence | apply in_or_app; auto].
      * apply in_app_or in Hin as [Hin|Hin]; apply in_or_app; [left|right; right]; assumption.
Qed.

(* every tree built by Updates from the empty tree *)
Definition built (ups:list (list Z * (option D -> D))) : tree :=
  fold_left (fun t u => tupdate (snd u) (fst u) t) ups tnew.

Lemma built_wf ups : wf_tree (built ups).
Proof.
  unfold built. generalize tnew_wf. generalize (@tnew D). induction ups as [|u ups IH]; intros t W; simpl; [exact W|].
  apply IH. apply tupdate_map. exact W.
Qed.

(* the reference: what a key has accumulated over a sequence of Updates *)
Fixpoint spec_data (key:list Z) (ups:list (list Z * (option D -> D))) (acc:option D) : option D :=
  match ups with
  | [] => acc
  | (k, f) :: r => spec_data key r (if list_eqb Z.eqb key k then Some (f acc) else acc)
  end.

Theorem built_find ups key : tfind key (built ups) = spec_data key ups None.
Proof.
  unfold built. assert (tfind key (@tnew D) = None) as E0 by reflexivity. rewrite <- E0. clear E0.
  generalize tnew_wf. generalize (@tnew D). induction ups as [|[k f] ups IH]; intros t W; simpl; [reflexivity|].
  destruct (tupdate_map f k W) as [W' F]. rewrite (IH _ W'). rewrite F.
  destruct (list_eqb Z.eqb key k) eqn:E; [|reflexivity]. apply keyeq_spec in E. subst k. reflexivity.
Qed.

(* ---------------------------------------------------------------------------------------- *)
(* 7. Walk: breadth first, every data node once                                             *)
(* ---------------------------------------------------------------------------------------- *)
Fixpoint all_n (n:node) {struct n} : list node := match n with Node k d r es => Node k d r es :: all_es es end
with all_es (es:edges) {struct es} : list node := match es with ENil => [] | ECons _ t r => all_n t ++ all_es r end.

Lemma all_n_eq (n:node) : all_n n = n :: all_es (n_edges n).
Proof. destruct n; reflexivity. Qed.
Lemma all_es_children (es:edges) : all_es es = flat_map all_n (map snd (elist es)).
Proof. induction es as [|l t r IH]; simpl; [reflexivity|]. rewrite IH. reflexivity. Qed.
Lemma size_all :
  (forall n:node, size_n n = length (all_n n)) /\ (forall es:edges, size_es es = length (all_es es)).
Proof.
  apply node_edges_ind.
  - intros k d r es IH. change (S (size_es es) = S (length (all_es es))). rewrite IH. reflexivity.
  - reflexivity.
  - intros l t IHt r IHr. change (size_n t + size_es r = length (all_n t ++ all_es r))%nat. rewrite app_length, IHt, IHr. reflexivity.
Qed.

Lemma bfs_perm fuel : forall q:list node, (length (flat_map all_n q) <= fuel)%nat -> Permutation (bfs fuel q) (flat_map all_n q).
Proof.
  induction fuel as [|fu IH]; intros q Hf.
  - destruct q as [|n q]; simpl in *; [constructor|]. rewrite all_n_eq in Hf. simpl in Hf. lia.
  - destruct q as [|n q]; simpl; [constructor|].
    rewrite all_n_eq. simpl. constructor.
    eapply Permutation_trans; [apply IH|].
    + rewrite flat_map_app, app_length, <- all_es_children. simpl in Hf. rewrite all_n_eq in Hf. simpl in Hf.
      rewrite app_length in Hf. lia.
    + rewrite flat_map_app, <- all_es_children. apply Permutation_app_comm.
Qed.

Lemma bfs_nodes_perm (root:node) : Permutation (bfs_nodes root) (all_n root).
Proof.
  unfold bfs_nodes. eapply Permutation_trans; [apply bfs_perm|]; simpl; rewrite app_nil_r; [|reflexivity].
  rewrite (proj1 size_all). lia.
Qed.

Definition kd_own (n:node) : list (list Z * D) := match n_data n with Some d => [(n_key n, d)] | None => [] end.
Definition kd_of (e:entry) : list Z * D := (snd (fst e), snd e).

Lemma kd_dd :
  (forall n:node, forall path, map kd_of (dd_n path n) = flat_map kd_own (all_n n))
  /\ (forall es:edges, forall path, map kd_of (dd_es path es) = flat_map kd_own (all_es es)).
Proof.
  apply node_edges_ind.
  - intros k d r es IH path. cbn [dd_n all_n flat_map]. rewrite map_app, IH. f_equal. unfold own, kd_own; simpl. destruct d; reflexivity.
  - reflexivity.
  - intros l t IHt r IHr path. cbn [dd_es all_es]. rewrite map_app, flat_map_app, IHt, IHr. reflexivity.
Qed.

Definition unmarked (ctx:Z) (t:tree) : Prop := forall n, In n (all_n (t_root t)) -> was_removed ctx n = false.

Lemma walk_list_all ctx keep (ns:list node) : (forall n, In n ns -> was_removed ctx n = false) ->
  fst (walk_list ctx (fun _ _ => (true, keep)) ns) = flat_map kd_own ns.
Proof.
  induction ns as [|n ns IH]; intros Hu; [reflexivity|]. simpl. unfold kd_own at 1.
  destruct (n_data n) as [d|].
  - rewrite (Hu n (or_introl eq_refl)).
    destruct (walk_list ctx (fun _ _ => (true, keep)) ns) as [vs ms] eqn:E. simpl. f_equal.
    apply IH. intros m Hm; apply Hu; right; exact Hm.
  - apply IH. intros m Hm; apply Hu; right; exact Hm.
Qed.

(* a Walk that runs to the end in a context without removals reports every key with its data, once *)
Theorem twalk_all ctx keep (t:tree) : wf_tree t -> unmarked ctx t ->
  let vs := snd (twalk ctx (fun _ _ => (true, keep)) t) in
  Permutation vs (map kd_of (content t)) /\ NoDup (map fst vs) /\ (forall k d, In (k, d) vs <-> tfind k t = Some d).
Proof.
  intros WT Hu. unfold twalk.
  destruct (walk_list ctx (fun _ _ => (true, keep)) (bfs_nodes (t_root t))) as [vs ms] eqn:E. cbn [snd].
  assert (vs = flat_map kd_own (bfs_nodes (t_root t))) as Ev.
  { rewrite <- (@walk_list_all ctx keep); [rewrite E; reflexivity|].
    intros n Hn. apply Hu. eapply Permutation_in; [apply bfs_nodes_perm|exact Hn]. }
  assert (Permutation vs (map kd_of (content t))) as P.
  { rewrite Ev. unfold content. destruct WT as [_ [_ HR]].
    assert (map kd_of (dd_es [] (n_edges (t_root t))) = flat_map kd_own (all_n (t_root t))) as E2.
    { rewrite all_n_eq. simpl. unfold kd_own at 1. rewrite HR. simpl. apply (proj2 kd_dd). }
    rewrite E2. apply Permutation_flat_map. apply bfs_nodes_perm. }
  assert (forall k d, In (k, d) (map kd_of (content t)) <-> tfind k t = Some d) as M.
  { intros k d. rewrite (tfind_in k d WT). split.
    - intros Hin. apply in_map_iff in Hin as [[[p k0] d0] [Ee Hin]]. unfold kd_of in Ee; simpl in Ee.
      injection Ee as E1 E2. subst k0 d0. pose proof (content_keys _ _ _ WT Hin) as Ek. subst p. exists k; exact Hin.
    - intros [k0 Hin]. pose proof (content_keys _ _ _ WT Hin) as Ek. subst k0. apply in_map_iff. exists (k, k, d). split; [reflexivity|exact Hin]. }
  split; [exact P|]. split.
  - apply (Permutation_NoDup (l:=map fst (map kd_of (content t)))); [apply Permutation_map; apply Permutation_sym; exact P|].
    assert (map fst (map kd_of (content t)) = map e_path (content t)) as Em.
    { rewrite map_map. apply map_ext_in. intros [[p k] d] Hin. pose proof (content_keys _ _ _ WT Hin) as Ek. subst k. reflexivity. }
    rewrite Em. apply content_nodup. exact WT.
  - intros k d. rewrite <- M. split; intros Hin; [eapply Permutation_in; [exact P|exact Hin]|eapply Permutation_in; [apply Permutation_sym; exact P|exact Hin]].
Qed.

(* ---------------------------------------------------------------------------------------- *)
(* 8. Remove and Copy                                                                       *)
(* ---------------------------------------------------------------------------------------- *)
Lemma rem_n_unfold ctx key k d r es :
  rem_n ctx key (@Node D k d r es) = let '(es', o) := rem_es ctx key es in (@Node D k d r es', o).
Proof. reflexivity. Qed.

Lemma do_remove_same ctx (t:node) :
  n_key (do_remove ctx t) = n_key t /\ n_data (do_remove ctx t) = n_data t /\ n_edges (do_remove ctx t) = n_edges t.
Proof. unfold do_remove. destruct (ctx =? 0); destruct t; simpl; auto. Qed.

(* a key whose first byte no edge starts with is not below these edges: Remove's loop passes them all *)
Lemma rem_miss ctx :
  (forall n:node, forall path key, wf_n path n -> key <> [] -> ~ In (hd 0 key) (lheads (n_edges n)) -> rem_n ctx key n = (n, None))
  /\ (forall es:edges, forall top path key, wf_es top path es -> key <> [] -> ~ In (hd 0 key) (rheads es) -> rem_es ctx key es = (es, None)).
Proof.
  apply node_edges_ind.
  - intros k d r es IH path key [_ Hes] Hk Hn. rewrite rem_n_unfold. cbn [n_edges] in Hn.
    rewrite <- (@rheads_inner _ _ Hes) in Hn. rewrite (IH false path key Hes Hk Hn). reflexivity.
  - reflexivity.
  - intros l t IHt r IHr top path key [H1 [H2 [H3 H4]]] Hk Hn. rewrite rem_es_unfold.
    destruct (view_of l key) as [E | r' Hr E | p l2 k2 Hp Hl El Ek H0 | Hl H0].
    + subst key. exfalso. apply Hn. rewrite rheads_cons_nonempty by exact Hk. left; reflexivity.
    + subst key. destruct (tests_desc l Hr) as [T1 T2]. rewrite T1, T2, skipn_app_exact.
      destruct l as [|y l].
      * simpl in Hn. rewrite (IHt (path ++ []) r' H3 Hr); [reflexivity|]. intro Hin. apply Hn. apply in_or_app. left; exact Hin.
      * exfalso. apply Hn. left; reflexivity.
    + subst l key. exfalso. apply Hn. destruct p as [|y p]; [congruence|]. left; reflexivity.
    + destruct (tests_miss key Hl H0) as [T1 [T2 T3]]. rewrite T1, T2.
      rewrite (IHr top path key H4 Hk); [reflexivity|]. intro Hin. apply Hn. rewrite rheads_cons_nonempty by exact Hl. right; exact Hin.
Qed.

Definition found_data ctx (o:option node) : option D :=
  match o with Some n => if was_removed ctx n then None else n_data n | None => None end.

Lemma rem_spec ctx :
  (forall n:node, forall path key, wf_n path n ->
     let '(n', o) := rem_n ctx key n in
     wf_n path n' /\ dd_n path n' = dd_n path n /\ lheads (n_edges n') = lheads (n_edges n) /\ o = found_data ctx (find_es key (n_edges n)))
  /\ (forall es:edges, forall top path key, wf_es top path es ->
     let '(es', o) := rem_es ctx key es in
     wf_es top path es' /\ dd_es path es' = dd_es path es /\ rheads es' = rheads es /\ o = found_data ctx (find_es key es)).
Proof.
  apply node_edges_ind.
  - intros k d r es IH path key [Hd Hes]. rewrite rem_n_unfold. specialize (IH false path key Hes).
    destruct (rem_es ctx key es) as [es' o]. destruct IH as [W [E1 [E2 E3]]]. cbn [n_edges]. split; [simpl; auto|].
    split; [cbn [dd_n]; rewrite E1; reflexivity|]. split; [|exact E3].
    rewrite <- (@rheads_inner _ _ W), <- (@rheads_inner _ _ Hes). exact E2.
  - intros top path key _. simpl. auto.
  - intros l t IHt r IHr top path key [H1 [H2 [H3 H4]]]. rewrite rem_es_unfold, find_es_unfold.
    destruct (view_of l key) as [E | r' Hr E | p l2 k2 Hp Hl El Ek H0 | Hl H0].
    + subst key. rewrite tests_exact. cbn [found_data]. destruct (was_removed ctx t) eqn:Er.
      * split; [cbn [wf_es]; auto|]. auto.
      * destruct (do_remove_same ctx t) as [S1 [S2 S3]]. split.
        -- cbn [wf_es]. split; [exact H1|]. split; [exact H2|]. split; [|exact H4].
           apply wf_n_eq. apply wf_n_eq in H3. rewrite S1, S2, S3. exact H3.
        -- split; [cbn [dd_es]; rewrite !dd_n_eq, S3; unfold own; rewrite S1, S2; reflexivity|].
           split; [destruct l; simpl; [rewrite S3|]; reflexivity|reflexivity].
    + subst key. destruct (tests_desc l Hr) as [T1 T2]. rewrite T1, T2, skipn_app_exact.
      specialize (IHt (path ++ l) r' H3). destruct (rem_n ctx r' t) as [t' o]. destruct IHt as [W [E1 [E2 E3]]].
      split; [cbn [wf_es]; auto|]. split; [cbn [dd_es]; rewrite E1; reflexivity|].
      split; [destruct l; simpl; [rewrite E2|]; reflexivity|exact E3].
    + subst l key. destruct (tests_split k2 Hp Hl H0) as [T1 [T2 [T3 T4]]]. rewrite T1, T2, T3.
      assert (p ++ l2 <> []) as Hpl by (destruct p; simpl; congruence).
      rewrite (proj2 (rem_miss ctx) r top path (p ++ k2) H4).
      * split; [cbn [wf_es]; auto|]. auto.
      * destruct p; simpl; congruence.
      * replace (hd 0 (p ++ k2)) with (hd 0 (p ++ l2)) by (destruct p; [congruence|reflexivity]). exact (H2 Hpl).
    + destruct (tests_miss key Hl H0) as [T1 [T2 T3]]. rewrite T1, T2, T3.
      specialize (IHr top path key H4). destruct (rem_es ctx key r) as [r' o]. destruct IHr as [W [E1 [E2 E3]]].
      split.
      * cbn [wf_es]. split; [intros E; congruence|]. split; [rewrite E2; exact H2|]. auto.
      * split; [cbn [dd_es]; rewrite E1; reflexivity|]. split; [|exact E3].
        rewrite !rheads_cons_nonempty by exact Hl. rewrite E2. reflexivity.
Qed.

(* Remove hands back the key's data unless this context has removed it before, and changes
   neither keys nor data *)
Theorem tremove_spec ctx key (t:tree) : wf_tree t ->
  let '(t', o) := tremove ctx key t in
  wf_tree t' /\ content t' = content t /\ o = (if tremoved ctx key t then None else tfind key t).
Proof.
  intros [W [HL HR]]. unfold tremove, tremoved, tfind, content in *.
  assert (forall n:node, find_n key n = find_es key (n_edges n)) as FE by (intros n; destruct n; reflexivity).
  rewrite !FE.
  destruct (t_root t) as [k0 d0 r0 es] eqn:ER. rewrite rem_n_unfold. cbn [n_edges] in *.
  pose proof (proj2 (rem_spec ctx) es true [] key W) as S. destruct (rem_es ctx key es) as [es' o].
  destruct S as [W' [E1 [_ E3]]]. cbn [t_root t_len n_edges].
  split; [split; [exact W'|split; [unfold content; cbn [t_root t_len n_edges]; rewrite E1; exact HL|exact HR]]|]. split; [exact E1|].
  rewrite E3. unfold found_data. destruct (find_es key es) as [n|]; [|reflexivity]. destruct (was_removed ctx n); reflexivity.
Qed.

(* Copy: the same keys and data, and no removal marks *)
Lemma copy_n_unfold k d r (es:edges) : copy_n (@Node D k d r es) = @Node D k d [] (copy_es es).
Proof. reflexivity. Qed.

Lemma copy_spec :
  (forall n:node, forall path, dd_n path (copy_n n) = dd_n path n /\ (wf_n path n -> wf_n path (copy_n n))
     /\ lheads (n_edges (copy_n n)) = lheads (n_edges n) /\ (forall m, In m (all_n (copy_n n)) -> n_removed m = []))
  /\ (forall es:edges, forall path, dd_es path (copy_es es) = dd_es path es /\ (forall top, wf_es top path es -> wf_es top path (copy_es es))
     /\ rheads (copy_es es) = rheads es /\ lheads (copy_es es) = lheads es /\ (forall m, In m (all_es (copy_es es)) -> n_removed m = [])).
Proof.
  apply node_edges_ind.
  - intros k d r es IH path. destruct (IH path) as [E1 [W [E2 [E3 E4]]]]. rewrite copy_n_unfold. cbn [n_edges]. split; [cbn [dd_n]; rewrite E1; reflexivity|].
    split; [intros [Hd Hes]; split; [exact Hd|exact (W false Hes)]|]. split; [exact E3|].
    intros m [Em|Hm]; [subst m; reflexivity|exact (E4 m Hm)].
  - intros path. simpl. repeat split; auto. intros m [].
  - intros l t IHt r IHr path. destruct (IHt (path ++ l)) as [T1 [T2 [T3 T4]]]. destruct (IHr path) as [R1 [R2 [R3 [R4 R5]]]].
    change (copy_es (ECons l t r)) with (ECons l (copy_n t) (copy_es r)). split; [cbn [dd_es]; rewrite T1, R1; reflexivity|]. split.
    + intros top [H1 [H2 [H3 H4]]]. cbn [wf_es]. split; [intros E; destruct (H1 E) as [? Er]; subst r; auto|].
      split; [rewrite R3; exact H2|]. split; [exact (T2 H3)|exact (R2 top H4)].
    + split; [destruct l; simpl; [rewrite T3|]; rewrite R3; reflexivity|].
      split; [unfold lheads in *; simpl; rewrite R4; reflexivity|].
      intros m Hm. cbn [all_es] in Hm. apply in_app_or in Hm as [Hm|Hm]; [exact (T4 m Hm)|exact (R5 m Hm)].
Qed.

Theorem tcopy_spec (t:tree) : wf_tree t ->
  wf_tree (tcopy t) /\ content (tcopy t) = content t /\ (forall key, tfind key (tcopy t) = tfind key t)
  /\ (forall ctx, unmarked ctx (tcopy t)).
Proof.
  intros WT. pose proof WT as [W [HL HR]].
  destruct (proj2 copy_spec (n_edges (t_root t)) []) as [E1 [W2 [_ [_ E5]]]].
  assert (wf_tree (tcopy t)) as WC.
  { split; [exact (W2 true W)|]. split; [|reflexivity]. unfold content, tcopy; cbn [t_root t_len n_edges]. rewrite E1. exact HL. }
  assert (content (tcopy t) = content t) as EC by (unfold content, tcopy; cbn [t_root n_edges]; exact E1).
  split; [exact WC|]. split; [exact EC|]. split.
  - intros key. apply option_ext. intros d. rewrite (tfind_in key d WC), (tfind_in key d WT), EC. reflexivity.
  - intros ctx m Hm. unfold tcopy in Hm; cbn [t_root all_n] in Hm. unfold was_removed. destruct (ctx =? 0); [reflexivity|].
    destruct Hm as [Em|Hm]; [subst m; reflexivity|]. rewrite (E5 m Hm). reflexivity.
Qed.

(* the snapshot a query takes: a Walk of the Copy reports exactly the keys and data the tree held *)
Corollary copy_walk ctx keep (t:tree) : wf_tree t ->
  forall k d, In (k, d) (snd (twalk ctx (fun _ _ => (true, keep)) (tcopy t))) <-> tfind k t = Some d.
Proof.
  intros WT k d. destruct (tcopy_spec WT) as [WC [_ [F U]]].
  destruct (@twalk_all ctx keep _ WC (U ctx)) as [_ [_ M]]. rewrite M. rewrite F. reflexivity.
Qed.
End TreeP.

(* ---------------------------------------------------------------------------------------- *)
(* 8b. removal marks, and fileStore.iterate's use of the tree: Remove every key of the file,   *)
(*     then Walk what is left                                                                *)
(* ---------------------------------------------------------------------------------------- *)
Section Marks.
Variable D : Type.
Notation node := (node D).
Notation edges := (edges D).
Notation entry := (entry D).

(* the data nodes with their removal flag for one context *)
Fixpoint dx_n (ctx:Z) (path:list Z) (n:node) {struct n} : list (entry * bool) :=
  match n with Node k d r es =>
    (match d with Some x => [((path, k, x), was_removed ctx (Node k d r ENil))] | None => [] end) ++ dx_es ctx path es end
with dx_es (ctx:Z) (path:list Z) (es:edges) {struct es} : list (entry * bool) :=
  match es with ENil => [] | ECons l t r => dx_n ctx (path ++ l) t ++ dx_es ctx path r end.

Lemma was_removed_eq ctx (k:list Z) (d:option D) r (es es':edges) : was_removed ctx (Node k d r es) = was_removed ctx (Node k d r es').
Proof. reflexivity. Qed.

Lemma dx_dd ctx :
  (forall n:node, forall path, map fst (dx_n ctx path n) = dd_n path n)
  /\ (forall es:edges, forall path, map fst (dx_es ctx path es) = dd_es path es).
Proof.
  apply node_edges_ind.
  - intros k d r es IH path. cbn [dx_n dd_n]. rewrite map_app, IH. f_equal. unfold own. simpl. destruct d; reflexivity.
  - reflexivity.
  - intros l t IHt r IHr path. cbn [dx_es dd_es]. rewrite map_app, IHt, IHr. reflexivity.
Qed.

Lemma dx_n_eq ctx path (n:node) :
  dx_n ctx path n = (match n_data n with Some x => [((path, n_key n, x), was_removed ctx n)] | None => [] end) ++ dx_es ctx path (n_edges n).
Proof. destruct n as [k d r es]. reflexivity. Qed.

Lemma in_dx_dd ctx path (es:edges) e b : In (e, b) (dx_es ctx path es) -> In e (dd_es path es).
Proof. intros H. rewrite <- (proj2 (dx_dd ctx)). apply in_map_iff. exists (e, b). auto. Qed.
Lemma in_dxn_dd ctx path (n:node) e b : In (e, b) (dx_n ctx path n) -> In e (dd_n path n).
Proof. intros H. rewrite <- (proj1 (dx_dd ctx)). apply in_map_iff. exists (e, b). auto. Qed.

Definition marked_at (p:list Z) (before after:list (entry * bool)) : Prop :=
  forall e b, In (e, b) after <->
    ((e_path e <> p /\ In (e, b) before) \/ (e_path e = p /\ b = true /\ exists b0, In (e, b0) before)).
Definition same_marks (before after:list (entry * bool)) : Prop := forall e b, In (e, b) after <-> In (e, b) before.

Lemma marked_none p (l:list (entry * bool)) : (forall e b, In (e, b) l -> e_path e <> p) -> marked_at p l l.
Proof.
  intros H e b. split.
  - intros Hin. left. split; [exact (H e b Hin)|exact Hin].
  - intros [[_ Hin]|[E [_ [b0 Hin]]]]; [exact Hin|]. destruct (H e b0 Hin E).
Qed.

Lemma marked_app p (a a' c c':list (entry * bool)) : marked_at p a a' -> marked_at p c c' -> marked_at p (a ++ c) (a' ++ c').
Proof.
  intros Ha Hc e b. rewrite in_app_iff, (Ha e b), (Hc e b). split.
  - intros [[[N Hin]|[E [Eb [b0 Hin]]]]|[[N Hin]|[E [Eb [b0 Hin]]]]].
    + left; split; [exact N|apply in_or_app; left; exact Hin].
    + right; split; [exact E|split; [exact Eb|exists b0; apply in_or_app; left; exact Hin]].
    + left; split; [exact N|apply in_or_app; right; exact Hin].
    + right; split; [exact E|split; [exact Eb|exists b0; apply in_or_app; right; exact Hin]].
  - intros [[N Hin]|[E [Eb [b0 Hin]]]].
    + apply in_app_or in Hin as [Hin|Hin]; [left; left; auto|right; left; auto].
    + apply in_app_or in Hin as [Hin|Hin]; [left; right; split; [exact E|split; [exact Eb|exists b0; exact Hin]]|right; right; split; [exact E|split; [exact Eb|exists b0; exact Hin]]].
Qed.

Lemma do_remove_flag ctx (t:node) : ctx <> 0 -> was_removed ctx (do_remove ctx t) = true.
Proof.
  intros Hc. unfold do_remove, was_removed. destruct (Z.eqb_spec ctx 0); [contradiction|]. destruct t as [k d r es]. simpl.
  rewrite existsb_app. simpl. rewrite Z.eqb_refl. rewrite orb_true_r. reflexivity.
Qed.

(* Remove marks exactly the data node at the key's path (if there is one) *)
Lemma rem_marks ctx : ctx <> 0 ->
  (forall n:node, forall path key, key <> [] -> wf_n path n ->
     marked_at (path ++ key) (dx_es ctx path (n_edges n)) (dx_es ctx path (n_edges (fst (rem_n ctx key n))))
     /\ n_key (fst (rem_n ctx key n)) = n_key n /\ n_data (fst (rem_n ctx key n)) = n_data n
     /\ was_removed ctx (fst (rem_n ctx key n)) = was_removed ctx n)
  /\ (forall es:edges, forall top path key, wf_es top path es ->
     marked_at (path ++ key) (dx_es ctx path es) (dx_es ctx path (fst (rem_es ctx key es)))).
Proof.
  intros Hc. apply node_edges_ind.
  - intros k d r es IH path key Hk [_ Hes]. rewrite rem_n_unfold. specialize (IH false path key Hes).
    destruct (rem_es ctx key es) as [es' o]. cbn [fst n_edges n_key n_data] in *. auto.
  - intros top path key _. simpl. apply marked_none. intros e b [].
  - intros l t IHt r IHr top path key [H1 [H2 [H3 H4]]]. rewrite rem_es_unfold.
    destruct (view_of l key) as [E | r' Hr E | p l2 k2 Hp Hl El Ek H0 | Hl H0].
    + (* exact: the node of this edge *)
      subst key. rewrite tests_exact.
      assert (forall e b, In (e, b) (dx_es ctx path r) -> e_path e <> path ++ l) as Nr.
      { intros e b Hin E. apply in_dx_dd in Hin. destruct e as [[p0 k0] d0]. unfold e_path in E; simpl in E. subst p0.
        apply (@in_rest_head D r top path l l k0 d0 H4 H1 H2 Hin); [exists []; rewrite app_nil_r; reflexivity|].
        destruct l; [right; reflexivity|left; discriminate]. }
      assert (forall e b, In (e, b) (dx_es ctx (path ++ l) (n_edges t)) -> e_path e <> path ++ l) as Nt.
      { intros e b Hin E. apply in_dx_dd in Hin. apply wf_n_eq in H3 as [_ Wt].
        destruct (proj2 (@dd_heads D) _ false (path ++ l) _ Wt Hin) as [[Ht _]|[x [rest [E2 _]]]]; [discriminate|].
        rewrite E2 in E. exact (@app_cons_not_self _ _ _ E). }
      destruct (was_removed ctx t) eqn:Er; cbn [fst dx_es].
      * (* already removed: nothing changes, and the statement holds because its flag is true already *)
        apply marked_app; [|apply marked_none; exact Nr].
        rewrite dx_n_eq. intros e b. split.
        -- intros Hin. apply in_app_or in Hin as [Hin|Hin].
           ++ destruct (n_data t) as [x|]; [|destruct Hin]. destruct Hin as [E|[]]. inversion E; subst. right.
              split; [reflexivity|]. split; [exact Er|]. exists true. apply in_or_app. left. left. rewrite Er. reflexivity.
           ++ left. split; [exact (Nt e b Hin)|apply in_or_app; right; exact Hin].
        -- intros [[N Hin]|[E [Eb [b0 Hin]]]]; [exact Hin|].
           apply in_app_or in Hin as [Hin|Hin]; [|destruct (Nt e b0 Hin E)].
           destruct (n_data t) as [x|]; [|destruct Hin]. destruct Hin as [E2|[]]. inversion E2; subst.
           apply in_or_app. left. left. rewrite Er. reflexivity.
      * destruct (do_remove_same ctx t) as [S1 [S2 S3]].
        apply marked_app; [|apply marked_none; exact Nr].
        rewrite !dx_n_eq, S1, S2, S3, (do_remove_flag t Hc), Er. intros e b. split.
        -- intros Hin. apply in_app_or in Hin as [Hin|Hin].
           ++ destruct (n_data t) as [x|]; [|destruct Hin]. destruct Hin as [E|[]]. inversion E; subst. right.
              split; [reflexivity|]. split; [reflexivity|]. exists false. apply in_or_app. left. left. reflexivity.
           ++ left. split; [exact (Nt e b Hin)|apply in_or_app; right; exact Hin].
        -- intros [[N Hin]|[E [Eb [b0 Hin]]]].
           ++ apply in_app_or in Hin as [Hin|Hin]; [|apply in_or_app; right; exact Hin].
              destruct (n_data t) as [x|]; [|destruct Hin]. destruct Hin as [E2|[]]. inversion E2; subst. destruct N. reflexivity.
           ++ apply in_app_or in Hin as [Hin|Hin]; [|destruct (Nt e b0 Hin E)].
              destruct (n_data t) as [x|]; [|destruct Hin]. destruct Hin as [E2|[]]. inversion E2; subst.
              apply in_or_app. left. left. reflexivity.
    + (* descend *)
      subst key. destruct (tests_desc l Hr) as [T1 T2]. rewrite T1, T2, skipn_app_exact.
      destruct (IHt (path ++ l) r' Hr H3) as [M [S1 [S2 S3]]]. destruct (rem_n ctx r' t) as [t' o]. cbn [fst] in *.
      cbn [dx_es]. rewrite <- app_assoc in M. apply marked_app.
      * rewrite !dx_n_eq, S1, S2, S3. apply marked_app; [|exact M].
        apply marked_none. intros e b Hin E. destruct (n_data t) as [x|]; [|destruct Hin]. destruct Hin as [E2|[]]. inversion E2; subst.
        unfold e_path in E; simpl in E. destruct r' as [|y r']; [congruence|]. rewrite app_assoc in E. exact (@app_cons_not_self _ _ _ (eq_sym E)).
      * apply marked_none. intros e b Hin E. apply in_dx_dd in Hin. destruct e as [[p0 k0] d0]. unfold e_path in E; simpl in E. subst p0.
        destruct l as [|y l]; [destruct (H1 eq_refl) as [_ Er]; subst r; destruct Hin|].
        apply (@in_rest_head D r top path (y :: l) ((y :: l) ++ r') k0 d0 H4 H1 H2 Hin); [exists r'; reflexivity|left; discriminate].
    + (* the key leaves the label half way: Remove passes this edge and finds nothing in the others *)
      subst l key. destruct (tests_split k2 Hp Hl H0) as [T1 [T2 [T3 T4]]]. rewrite T1, T2.
      assert (p ++ l2 <> []) as Hpl by (destruct p; simpl; congruence).
      rewrite (proj2 (@rem_miss D ctx) r top path (p ++ k2) H4); cbn [fst].
      * apply marked_none. intros e b Hin E. apply in_dx_dd in Hin. destruct e as [[p0 k0] d0]. unfold e_path in E; simpl in E. subst p0.
        assert (dfind_es (p ++ k2) (ECons (p ++ l2) t r) = Some d0) as F.
        { apply (proj2 (@nav D) (ECons (p ++ l2) t r) top path (p ++ k2) d0); [cbn [wf_es]; auto|]. exists k0. exact Hin. }
        unfold dfind_es in F. rewrite find_es_unfold, T1, T2, T3 in F. discriminate.
      * destruct p; simpl; congruence.
      * replace (hd 0 (p ++ k2)) with (hd 0 (p ++ l2)) by (destruct p; [congruence|reflexivity]). exact (H2 Hpl).
    + (* miss *)
      destruct (tests_miss key Hl H0) as [T1 [T2 T3]]. rewrite T1, T2.
      specialize (IHr top path key H4). destruct (rem_es ctx key r) as [r1 o]. cbn [fst] in *. cbn [dx_es].
      apply marked_app; [|exact IHr].
      apply marked_none. intros e b Hin E. apply in_dxn_dd in Hin.
      destruct (@dd_n_prefix D _ _ _ H3 Hin) as [s Es]. rewrite E in Es. rewrite <- app_assoc in Es. apply app_inv_head in Es. subst key.
      destruct l as [|y l]; [congruence|]. simpl in H0. rewrite Z.eqb_refl in H0. discriminate.
Qed.

(* the node the navigation finds, with its flag, is among the data nodes — for every tree *)
Lemma nav_flag ctx :
  (forall n:node, forall path key m d, find_es key (n_edges n) = Some m -> n_data m = Some d ->
     In ((path ++ key, n_key m, d), was_removed ctx m) (dx_es ctx path (n_edges n)))
  /\ (forall es:edges, forall path key m d, find_es key es = Some m -> n_data m = Some d ->
     In ((path ++ key, n_key m, d), was_removed ctx m) (dx_es ctx path es)).
Proof.
  apply node_edges_ind.
  - intros k d r es IH path key m d0 F Hd. cbn [n_edges] in *. exact (IH path key m d0 F Hd).
  - intros path key m d F. discriminate.
  - intros l t IHt r IHr path key m d F Hd. rewrite find_es_unfold in F. cbn [dx_es].
    destruct (view_of l key) as [E | r' Hr E | p l2 k2 Hp Hl El Ek H0 | Hl H0].
    + subst key. rewrite tests_exact in F. inversion F; subst m. apply in_or_app. left. rewrite dx_n_eq, Hd. left. reflexivity.
    + subst key. destruct (tests_desc l Hr) as [T1 T2]. rewrite T1, T2, skipn_app_exact in F.
      apply in_or_app. left. rewrite dx_n_eq. apply in_or_app. right. rewrite app_assoc. exact (IHt (path ++ l) r' m d F Hd).
    + subst l key. destruct (tests_split k2 Hp Hl H0) as [T1 [T2 [T3 T4]]]. rewrite T1, T2, T3 in F. discriminate.
    + destruct (tests_miss key Hl H0) as [T1 [T2 T3]]. rewrite T1, T2, T3 in F.
      apply in_or_app. right. exact (IHr path key m d F Hd).
Qed.

Lemma dx_flags_all ctx :
  (forall n:node, forall path e b, In (e, b) (dx_n ctx path n) -> exists m, In m (all_n n) /\ b = was_removed ctx m)
  /\ (forall es:edges, forall path e b, In (e, b) (dx_es ctx path es) -> exists m, In m (all_es es) /\ b = was_removed ctx m).
Proof.
  apply node_edges_ind.
  - intros k d r es IH path e b Hin. cbn [dx_n] in Hin. apply in_app_or in Hin as [Hin|Hin].
    + destruct d as [x|]; [|destruct Hin]. destruct Hin as [E|[]]. inversion E; subst. exists (Node k (Some x) r es). split; [left; reflexivity|reflexivity].
    + destruct (IH path e b Hin) as [m [Hm Eb]]. exists m. split; [right; exact Hm|exact Eb].
  - intros path e b [].
  - intros l t IHt r IHr path e b Hin. cbn [dx_es] in Hin. cbn [all_es]. apply in_app_or in Hin as [Hin|Hin].
    + destruct (IHt _ e b Hin) as [m [Hm Eb]]. exists m. split; [apply in_or_app; left; exact Hm|exact Eb].
    + destruct (IHr _ e b Hin) as [m [Hm Eb]]. exists m. split; [apply in_or_app; right; exact Hm|exact Eb].
Qed.

Definition kd_live ctx (n:node) : list (list Z * D) :=
  match n_data n with Some d => if was_removed ctx n then [] else [(n_key n, d)] | None => [] end.
Definition live (l:list (entry * bool)) : list entry := map fst (filter (fun x => negb (snd x)) l).

Lemma walk_list_live ctx (ns:list node) : fst (walk_list ctx (@take_all D) ns) = flat_map (kd_live ctx) ns.
Proof.
  induction ns as [|n ns IH]; [reflexivity|]. simpl. unfold kd_live at 1. destruct (n_data n) as [d|]; [|exact IH].
  destruct (was_removed ctx n); [exact IH|]. unfold take_all at 1. fold (@take_all D).
  destruct (walk_list ctx (@take_all D) ns) as [vs ms]. simpl in *. f_equal. exact IH.
Qed.

Lemma live_app (a b:list (entry * bool)) : live (a ++ b) = live a ++ live b.
Proof. unfold live. rewrite filter_app, map_app. reflexivity. Qed.

Lemma kd_live_dx ctx :
  (forall n:node, forall path, map (@kd_of D) (live (dx_n ctx path n)) = flat_map (kd_live ctx) (all_n n))
  /\ (forall es:edges, forall path, map (@kd_of D) (live (dx_es ctx path es)) = flat_map (kd_live ctx) (all_es es)).
Proof.
  apply node_edges_ind.
  - intros k d r es IH path. cbn [dx_n all_n flat_map]. rewrite live_app, map_app, IH. f_equal.
    unfold kd_live. cbn [n_data n_key]. destruct d as [x|]; [|reflexivity].
    rewrite (was_removed_eq ctx k (Some x) r ENil es). unfold live. simpl. destruct (was_removed ctx (Node k (Some x) r es)); reflexivity.
  - reflexivity.
  - intros l t IHt r IHr path. cbn [dx_es all_es]. rewrite live_app, map_app, flat_map_app, IHt, IHr. reflexivity.
Qed.

Lemma in_live (l:list (entry * bool)) e : In e (live l) <-> In (e, false) l.
Proof.
  unfold live. rewrite in_map_iff. split.
  - intros [[e0 b] [E Hin]]. simpl in E. subst e0. apply filter_In in Hin as [Hin Hb]. destruct b; [discriminate|exact Hin].
  - intros Hin. exists (e, false). split; [reflexivity|]. apply filter_In. split; [exact Hin|reflexivity].
Qed.

Lemma nodup_map_filter {A B} (f:A -> B) (p:A -> bool) (l:list A) : NoDup (map f l) -> NoDup (map f (filter p l)).
Proof.
  induction l as [|x l IH]; simpl; intros H; [constructor|]. inversion H; subst. destruct (p x); simpl; [constructor|]; auto.
  intro Hin. apply H2. apply in_map_iff in Hin as [y [E Hy]]. apply filter_In in Hy as [Hy _]. apply in_map_iff. exists y. auto.
Qed.

Notation tree := (tree D).
Definition DX ctx (t:tree) : list (entry * bool) := dx_es ctx [] (n_edges (t_root t)).

Lemma DX_content ctx (t:tree) : map fst (DX ctx t) = content t.
Proof. apply (proj2 (dx_dd ctx)). Qed.

(* the flags are a function of the path *)
Lemma DX_functional ctx (t:tree) e b e' b' : wf_tree t -> In (e, b) (DX ctx t) -> In (e', b') (DX ctx t) -> e_path e = e_path e' -> e = e' /\ b = b'.
Proof.
  intros WT. pose proof (content_nodup WT) as ND. rewrite <- (DX_content ctx), map_map in ND.
  generalize dependent (DX ctx t). intros l ND H1 H2 E.
  induction l as [|x l IH]; [destruct H1|]. simpl in ND. inversion ND; subst.
  destruct H1 as [H1|H1], H2 as [H2|H2].
  - subst x. inversion H2; auto.
  - subst x. exfalso. apply H3. apply in_map_iff. exists (e', b'). simpl. auto.
  - subst x. exfalso. apply H3. apply in_map_iff. exists (e, b). simpl. auto.
  - apply IH; auto.
Qed.

Definition flags_are ctx (t:tree) (done:list (list Z)) : Prop :=
  forall e b, In (e, b) (DX ctx t) -> (b = true <-> In (e_path e) done).

Lemma flags_unmarked ctx (t:tree) : wf_tree t -> unmarked ctx t -> flags_are ctx t [].
Proof.
  intros [_ [_ HR]] U e b Hin. destruct (proj2 (dx_flags_all ctx) _ _ e b Hin) as [m [Hm Eb]].
  rewrite (U m) in Eb; [subst b; split; [discriminate|intros []]|].
  rewrite all_n_eq. right. exact Hm.
Qed.

(* one Remove of fileStore.iterate: the key's data comes back (it has not been removed in this context), nothing
   but the key's mark changes *)
Lemma remove_step ctx key (t:tree) done : ctx <> 0 -> wf_tree t -> flags_are ctx t done -> ~ In key done ->
  let '(t', o) := tremove ctx key t in
  wf_tree t' /\ content t' = content t /\ o = tfind key t /\ flags_are ctx t' (key :: done).
Proof.
  intros Hc WT FA Hnd. pose proof (tremove_spec ctx key WT) as S. pose proof WT as [W [HL HR]].
  unfold tremove in *. destruct (t_root t) as [k0 d0 r0 es] eqn:ER. rewrite rem_n_unfold in *.
  pose proof (proj2 (@rem_spec D ctx) es true [] key W) as RS.
  pose proof (proj2 (rem_marks Hc) es true [] key W) as RM.
  destruct (rem_es ctx key es) as [es' o]. destruct S as [WT' [EC _]]. destruct RS as [_ [_ [_ Eo]]]. cbn [fst] in RM.
  split; [exact WT'|]. split; [exact EC|]. split.
  - (* what came back *)
    rewrite Eo. rewrite tfind_eq, ER. cbn [n_edges]. unfold dfind_es, found_data.
    destruct (find_es key es) as [m|] eqn:F; [|reflexivity]. destruct (n_data m) as [d|] eqn:Hd; [|destruct (was_removed ctx m); reflexivity].
    pose proof (proj2 (nav_flag ctx) es [] key m d F Hd) as Hin.
    assert (In ((key, n_key m, d), was_removed ctx m) (DX ctx t)) as Hin' by (unfold DX; rewrite ER; exact Hin).
    destruct (was_removed ctx m) eqn:Er; [|reflexivity]. exfalso. apply Hnd. apply (FA _ _ Hin'). reflexivity.
  - (* the marks *)
    intros e b Hin. unfold DX in Hin. cbn [t_root n_edges] in Hin. apply (RM e b) in Hin. simpl app in Hin.
    assert (DX ctx t = dx_es ctx [] es) as EDX by (unfold DX; rewrite ER; reflexivity).
    destruct Hin as [[N Hin]|[E [Eb [b0 Hin]]]].
    + rewrite <- EDX in Hin. rewrite (FA e b Hin). split; [intros H; right; exact H|intros [H|H]; [congruence|exact H]].
    + split; [intros _; left; congruence|intros _; exact Eb].
Qed.

Lemma remove_all_spec ctx : ctx <> 0 -> forall fks (t:tree) done, wf_tree t -> flags_are ctx t done -> NoDup fks -> (forall k, In k fks -> ~ In k done) ->
  let '(t', os) := remove_all ctx fks t in
  wf_tree t' /\ content t' = content t /\ os = map (fun k => (k, tfind k t)) fks /\ flags_are ctx t' (rev fks ++ done).
Proof.
  intros Hc. induction fks as [|k fks IH]; intros t done WT FA ND Hd; cbn [remove_all].
  - simpl. auto.
  - inversion ND; subst. pose proof (@remove_step ctx k t done Hc WT FA (Hd k (or_introl eq_refl))) as S.
    destruct (tremove ctx k t) as [t1 o]. destruct S as [WT1 [EC1 [Eo FA1]]].
    specialize (IH t1 (k :: done) WT1 FA1 H2).
    destruct (remove_all ctx fks t1) as [t2 os].
    destruct IH as [WT2 [EC2 [Eos FA2]]].
    { intros k' Hk' [E|Hin]; [subst k'; contradiction|exact (Hd k' (or_intror Hk') Hin)]. }
    split; [exact WT2|]. split; [congruence|]. split.
    + simpl. rewrite Eo. f_equal. rewrite Eos. apply map_ext_in. intros k' _. f_equal.
      apply option_ext. intros d. rewrite (tfind_in k' d WT1), (tfind_in k' d WT), EC1. reflexivity.
    + simpl. rewrite <- app_assoc. exact FA2.
Qed.

(* fileStore.iterate merges a file with the memstore tree: every key of the file gets exactly the memstore's data for
   it, and the Walk that follows reports exactly the memstore's other keys, each once — every key of file and
   memstore is delivered exactly once *)
Theorem iterate_each_key_once ctx fks (t:tree) : ctx <> 0 -> wf_tree t -> unmarked ctx t -> NoDup fks ->
  let '(os, vs) := iterate_keys ctx fks t in
  os = map (fun k => (k, tfind k t)) fks
  /\ NoDup (map fst vs)
  /\ (forall k d, In (k, d) vs <-> (tfind k t = Some d /\ ~ In k fks)).
Proof.
  intros Hc WT U ND. unfold iterate_keys.
  pose proof (@remove_all_spec ctx Hc fks t [] WT (flags_unmarked WT U) ND (fun _ _ H => H)) as S.
  destruct (remove_all ctx fks t) as [t1 os]. destruct S as [WT1 [EC [Eos FA]]]. rewrite app_nil_r in FA.
  split; [exact Eos|].
  unfold twalk. pose proof (walk_list_live ctx (bfs_nodes (t_root t1))) as WL.
  destruct (walk_list ctx (@take_all D) (bfs_nodes (t_root t1))) as [vs ms]. cbn [fst snd] in *. subst vs.
  assert (Permutation (flat_map (kd_live ctx) (bfs_nodes (t_root t1))) (map (@kd_of D) (live (DX ctx t1)))) as P.
  { eapply Permutation_trans; [apply Permutation_flat_map; apply bfs_nodes_perm|].
    destruct WT1 as [_ [_ HR]]. rewrite all_n_eq. simpl. unfold kd_live at 1. rewrite HR. simpl.
    unfold DX. rewrite (proj2 (kd_live_dx ctx)). reflexivity. }
  assert (forall k d, In (k, d) (map (@kd_of D) (live (DX ctx t1))) <-> (tfind k t = Some d /\ ~ In k fks)) as M.
  { intros k d. split.
    - intros Hin. apply in_map_iff in Hin as [[[p k0] d0] [E Hin]]. unfold kd_of in E; simpl in E. injection E as E1 E2. subst k0 d0.
      apply in_live in Hin. assert (In (p, k, d) (content t1)) as Hc1 by (rewrite <- (DX_content ctx); apply in_map_iff; exists ((p, k, d), false); auto).
      pose proof (content_keys _ _ _ WT1 Hc1) as Ek. subst p. split.
      + apply (tfind_in k d WT). exists k. rewrite <- EC. exact Hc1.
      + intro Hk. apply in_rev in Hk. apply (FA _ _ Hin) in Hk. discriminate.
    - intros [F Hk]. apply (tfind_in k d WT) in F as [k0 Hin]. pose proof (content_keys _ _ _ WT Hin) as Ek. subst k0.
      rewrite <- EC, <- (DX_content ctx) in Hin. apply in_map_iff in Hin as [[e b] [E Hin]]. simpl in E. subst e.
      apply in_map_iff. exists (k, k, d). split; [reflexivity|]. apply in_live. destruct b; [|exact Hin].
      exfalso. apply Hk. apply in_rev. apply (FA _ _ Hin). reflexivity. }
  split.
  - apply (Permutation_NoDup (l:=map fst (map (@kd_of D) (live (DX ctx t1))))); [apply Permutation_map; apply Permutation_sym; exact P|].
    pose proof (content_nodup WT1) as NDc. rewrite <- (DX_content ctx), map_map in NDc.
    unfold live. rewrite !map_map.
    assert (map (fun x : entry * bool => fst (kd_of (fst x))) (filter (fun x => negb (snd x)) (DX ctx t1))
            = map (fun x : entry * bool => e_path (fst x)) (filter (fun x => negb (snd x)) (DX ctx t1))) as Em.
    { apply map_ext_in. intros [[[p k] d] b] Hin. apply filter_In in Hin as [Hin _].
      assert (In (p, k, d) (content t1)) as Hc1 by (rewrite <- (DX_content ctx); apply in_map_iff; exists ((p, k, d), b); auto).
      pose proof (content_keys _ _ _ WT1 Hc1) as Ek. subst k. reflexivity. }
    rewrite Em. apply nodup_map_filter. exact NDc.
  - intros k d. rewrite <- M. split; intros Hin; [eapply Permutation_in; [exact P|exact Hin]|eapply Permutation_in; [apply Permutation_sym; exact P|exact Hin]].
Qed.
End Marks.

(* ---------------------------------------------------------------------------------------- *)
(* 9. the shipped Update (before the repair e89d368 in /repo) is refuted                      *)
(* ---------------------------------------------------------------------------------------- *)
Definition shipped_built (ups:list (list Z * Z)) : tree Z :=
  fold_left (fun t u => tupdate_with (@set_data_shipped Z) (fun o => match o with Some c => c + snd u | None => snd u end) (fst u) t) ups tnew.

(* keys "abc", "abd", then "ab" twice: the shipped tree reports the never inserted empty key,
   does not report "ab", and counts two keys *)
Lemma shipped_update_refuted :
  exists ups, let t := shipped_built ups in
    In [97; 98] (map fst ups) /\ ~ In [] (map fst ups)
    /\ snd (twalk 0 (fun _ _ => (true, true)) t) = [([], 2); ([97; 98; 99], 1); ([97; 98; 100], 1)]
    /\ t_len t = 2.
Proof.
  exists [([97; 98; 99], 1); ([97; 98; 100], 1); ([97; 98], 1); ([97; 98], 1)].
  split; [right; right; left; reflexivity|]. split; [intros [H|[H|[H|[H|[]]]]]; discriminate|].
  split; vm_compute; reflexivity.
Qed.

(* the same updates on the repaired tree *)
Example repaired_same_updates :
  let t := fold_left (fun t u => tupdate (fun o => match o with Some c => c + snd u | None => snd u end) (fst u) t)
             [([97; 98; 99], 1); ([97; 98; 100], 1); ([97; 98], 1); ([97; 98], 1)] (@tnew Z) in
  snd (twalk 0 (fun _ _ => (true, true)) t) = [([97; 98], 2); ([97; 98; 99], 1); ([97; 98; 100], 1)] /\ t_len t = 3.
Proof. split; vm_compute; reflexivity. Qed.
