"""Shared machinery of /verif/bin/check (see DESIGN.md section 2).

Every check
  1. regenerates coq/Gen/Facts.v from /repo (srcfacts), rebuilds the Coq
     development with a full .vo build (make -k, so one broken file does not hide
     the others) and rebuilds the Go harness from /repo's working tree with
     -tags verif;
  2. collects the proof obligations of the property (the theorems of
     coq/Props/<id>.v), whether they were discharged, and what Print Assumptions
     says about each;
  3. runs the correspondence: implrun executes the real implementation on
     generated cases and writes inputs + observed outputs as a Gallina list;
     coqc evaluates the model / proved oracle on them with vm_compute and prints
     the indices of the cases that disagree;
  4. reports, shrinks, writes evidence.
"""
import fcntl
import glob
import hashlib
import json
import os
import re
import shutil
import subprocess
import sys
import tempfile
import time

VERIF = os.path.dirname(os.path.dirname(os.path.abspath(__file__)))
REPO = os.environ.get("VERIF_REPO", "/repo")
COQ = os.path.join(VERIF, "coq")
HARNESS = os.path.join(VERIF, "harness")
IMPLRUN = os.path.join(HARNESS, "bin", "implrun")
SRCFACTS = os.path.join(HARNESS, "bin", "srcfacts")
LOCK = os.path.join(VERIF, ".build.lock")

GOENV = dict(os.environ, GOFLAGS="-mod=mod", GOPROXY="off", GOSUMDB="off", GOTOOLCHAIN="local",
             CGO_ENABLED=os.environ.get("CGO_ENABLED", "0"))

FORBIDDEN = re.compile(r"\b(Admitted|admit|Axiom|Axioms|Parameter|Parameters|Conjecture|Conjectures|"
                       r"Unset\s+Guard|bypass_check|Admit\s+Obligations|type-in-type|impredicative-set)\b")


def sh(cmd, cwd=None, env=None, timeout=None, check=False):
    p = subprocess.run(cmd, cwd=cwd, env=env, timeout=timeout, shell=isinstance(cmd, str),
                       stdout=subprocess.PIPE, stderr=subprocess.STDOUT, text=True)
    if check and p.returncode != 0:
        raise RuntimeError("command failed (%s): %s\n%s" % (p.returncode, cmd, p.stdout[-4000:]))
    return p.returncode, p.stdout


class Lock:
    def __enter__(self):
        self.f = open(LOCK, "w")
        fcntl.flock(self.f, fcntl.LOCK_EX)
        return self

    def __exit__(self, *a):
        fcntl.flock(self.f, fcntl.LOCK_UN)
        self.f.close()


# ----------------------------------------------------------------------------
# build
# ----------------------------------------------------------------------------

def coq_sources():
    files = []
    for d in ("Model", "Gen", "Proofs", "Tie", "Props"):
        files += sorted(glob.glob(os.path.join(COQ, d, "*.v")))
    return [os.path.relpath(f, COQ) for f in files]


def build_harness():
    """go build of the harness against /repo's current working tree, hooks on."""
    t0 = time.time()
    os.makedirs(os.path.join(HARNESS, "bin"), exist_ok=True)
    shutil.copyfile(os.path.join(REPO, "go.sum"), os.path.join(HARNESS, "go.sum"))
    cmd = ["go", "build", "-tags", "verif", "-o", "bin/", "./cmd/..."]
    if REPO != "/repo":
        # (development: background sweeps against a snapshot of the repository, VERIF_REPO=<path>)
        alt = open(os.path.join(HARNESS, "go.mod")).read().replace("=> /repo", "=> " + REPO)
        open(os.path.join(HARNESS, "go.alt.mod"), "w").write(alt)
        shutil.copyfile(os.path.join(REPO, "go.sum"), os.path.join(HARNESS, "go.alt.sum"))
        cmd = ["go", "build", "-modfile=go.alt.mod", "-tags", "verif", "-o", "bin/", "./cmd/..."]
    rc, out = sh(cmd, cwd=HARNESS, env=GOENV, timeout=900)
    return {"ok": rc == 0, "log": out[-6000:], "wall_s": round(time.time() - t0, 2)}


def gen_facts():
    """srcfacts: re-read /repo and regenerate coq/Gen/Facts.v (rewritten only when it changes)."""
    os.makedirs(os.path.join(COQ, "Gen"), exist_ok=True)
    target = os.path.join(COQ, "Gen", "Facts.v")
    if not os.path.exists(SRCFACTS):
        return {"ok": False, "log": "srcfacts binary missing"}
    rc, out = sh([SRCFACTS, "-repo", REPO], timeout=120)
    if rc != 0:
        return {"ok": False, "log": out[-4000:]}
    old = open(target).read() if os.path.exists(target) else None
    if old != out:
        with open(target, "w") as f:
            f.write(out)
    return {"ok": True, "changed": old != out, "sha": hashlib.sha256(out.encode()).hexdigest()[:16]}


def build_coq():
    """Full .vo build (never -vos), make -k so independent files still build."""
    t0 = time.time()
    srcs = coq_sources()
    proj = "-Q . Zeno\n" + "\n".join(srcs) + "\n"
    pj = os.path.join(COQ, "_CoqProject")
    if not os.path.exists(pj) or open(pj).read() != proj or not os.path.exists(os.path.join(COQ, "Makefile")):
        with open(pj, "w") as f:
            f.write(proj)
        sh(["coq_makefile", "-f", "_CoqProject", "-o", "Makefile"], cwd=COQ, check=True)
    rc, out = sh("timeout 1500 make -k -j16 2>&1", cwd=COQ, timeout=1600)
    built = {s: os.path.exists(os.path.join(COQ, s[:-2] + ".vo")) and
             os.path.getmtime(os.path.join(COQ, s[:-2] + ".vo")) >= os.path.getmtime(os.path.join(COQ, s))
             for s in srcs}
    errors = re.findall(r'File "\./([^"]+)", line (\d+), characters [^\n]*\n((?:(?!make|COQC|File ").*\n){0,12})', out)
    # a file that failed to compile may still have the .vo of an earlier build lying around: it is not built
    for f, _, _ in errors:
        if f in built:
            built[f] = False
    # ... and neither is anything compiled against an older version of one of its dependencies
    def vo_time(s_):
        try:
            return os.path.getmtime(os.path.join(COQ, s_[:-2] + ".vo"))
        except OSError:
            return 0
    for s_ in srcs:
        if built.get(s_):
            for d_ in coq_deps(s_):
                if d_ != s_ and d_ in built and (not built[d_] or vo_time(d_) > vo_time(s_) + 1e-6):
                    built[s_] = False
                    break
    return {"ok": rc == 0 and all(built.values()), "built": built, "log": out[-8000:],
            "errors": [{"file": f, "line": int(l), "msg": m.strip()[:1500]} for f, l, m in errors],
            "wall_s": round(time.time() - t0, 2)}


def build_all():
    with Lock():
        h = build_harness()
        facts = gen_facts() if h["ok"] else {"ok": False, "log": "harness build failed"}
        c = build_coq()
    return {"harness": h, "facts": facts, "coq": c}


def forbidden_scan():
    hits = []
    for s in coq_sources():
        txt = open(os.path.join(COQ, s)).read()
        txt = re.sub(r"\(\*.*?\*\)", "", txt, flags=re.S)
        for m in FORBIDDEN.finditer(txt):
            hits.append("%s: %s" % (s, m.group(0)))
    return hits


# ----------------------------------------------------------------------------
# obligations
# ----------------------------------------------------------------------------

def coq_deps(rel):
    """transitive Zeno-internal dependencies of a source file (by its Require lines)."""
    seen, todo = set(), [rel]
    byname = {os.path.basename(s)[:-2]: s for s in coq_sources()}
    while todo:
        f = todo.pop()
        if f in seen:
            continue
        seen.add(f)
        p = os.path.join(COQ, f)
        if not os.path.exists(p):
            continue
        for m in re.finditer(r"From\s+Zeno\s+Require\s+(?:(?:Import|Export)\s+)?([^.]*(?:\.[A-Za-z_][^.\s]*)*)\.", open(p).read()):
            for name in m.group(1).split():
                name = name.split(".")[-1]
                if name in byname:
                    todo.append(byname[name])
    return seen


def obligations(prop_id, build):
    """Theorems of Props/<id>.v, whether the file and its cone compiled, and Print Assumptions output."""
    rel = "Props/%s.v" % prop_id
    path = os.path.join(COQ, rel)
    res = {"file": rel, "theorems": [], "discharged": 0, "assumptions": {}, "broken": []}
    if not os.path.exists(path):
        res["broken"].append("%s missing" % rel)
        return res
    txt = re.sub(r"\(\*.*?\*\)", "", open(path).read(), flags=re.S)
    res["theorems"] = re.findall(r"^\s*Theorem\s+(\w+)", txt, flags=re.M)
    cone = coq_deps(rel)
    res["cone"] = sorted(cone)
    bad = [f for f in cone if not build["coq"]["built"].get(f, False)]
    if bad:
        for e in build["coq"]["errors"]:
            if e["file"] in cone:
                res["broken"].append("%s line %d: %s" % (e["file"], e["line"], e["msg"][:400]))
        if not res["broken"]:
            res["broken"] = ["not built: " + ", ".join(sorted(bad))]
        return res
    # Print Assumptions for every theorem, in one coqc call
    with tempfile.TemporaryDirectory(prefix="verif-assum-") as d:
        src = "From Zeno Require Import %s.\n" % prop_id
        for t in res["theorems"]:
            src += 'Goal True. idtac "@@ %s". exact I. Qed.\nPrint Assumptions %s.\n' % (t, t)
        with open(os.path.join(d, "A.v"), "w") as f:
            f.write(src)
        rc, out = sh(["coqc", "-Q", COQ, "Zeno", "A.v"], cwd=d, timeout=600)
    if rc != 0:
        res["broken"].append("Print Assumptions failed: " + out[-500:])
        return res
    parts = re.split(r"@@ (\w+)\n", out)
    for i in range(1, len(parts), 2):
        res["assumptions"][parts[i]] = " ".join(parts[i + 1].split())
    res["discharged"] = len(res["theorems"])
    return res


def coqchk(prop_id, timeout=2400):
    """thorough tier: the independent checker re-checks the compiled property file and everything it depends on,
    and prints the axioms the whole closure (standard library and add-ons included) relies on."""
    t0 = time.time()
    rc, out = sh("timeout %d coqchk -silent -o -Q . Zeno Zeno.Props.%s 2>&1" % (timeout, prop_id), cwd=COQ, timeout=timeout + 30)
    axioms = []
    m = re.search(r"\* Axioms:(.*?)(?:\n\s*\n\* |\Z)", out, flags=re.S)
    if m:
        axioms = [l.strip() for l in m.group(1).split("\n") if l.strip() and l.strip() != "<none>"]
    return {"rc": rc, "ok": rc == 0 and "CONTEXT SUMMARY" in out, "axioms": axioms,
            "tail": out[-1500:], "wall_s": round(time.time() - t0, 1)}


# ----------------------------------------------------------------------------
# correspondence
# ----------------------------------------------------------------------------

def run_impl(sub, outdir, seed, n, replay=None, mode=None, timeout=None, extra=None):
    timeout = timeout or int(os.environ.get("VERIF_IMPL_TIMEOUT", "420"))
    cmd = [IMPLRUN, sub, "-seed", str(seed), "-n", str(n), "-out", outdir]
    if replay:
        cmd += ["-replay", replay]
    if mode:
        cmd += ["-mode", mode]
    if extra:
        cmd += extra
    rc, out = sh(cmd, timeout=timeout, env=GOENV)
    if rc != 0:
        err = RuntimeError("implrun %s failed (%d): %s" % (sub, rc, out[-3000:]))
        # a Go-level crash while a case was running: that case is the failing input
        err.crash_case = None
        if re.search(r"^(panic:|fatal error:)", out, flags=re.M):
            try:
                err.crash_case = open(os.path.join(outdir, "running.json")).read()
            except Exception:
                pass
        raise err
    return json.load(open(os.path.join(outdir, "stats.json")))


def eval_cases(outdir, timeout=1500):
    """coqc evaluates the model on cases.v; returns the indices of disagreeing cases."""
    rc, out = sh("ulimit -v 16000000; timeout %d coqc -Q %s Zeno cases.v" % (timeout, COQ), cwd=outdir, timeout=timeout + 20)
    m = re.search(r"M\s*=\s*(\[[^\]]*\])\s*:\s*list (?:Z|nat)", out, flags=re.S)
    if rc != 0 or not m:
        raise RuntimeError("coqc on cases.v failed: " + out[-3000:])
    body = m.group(1).strip()[1:-1].strip()
    if not body:
        return []
    return [int(x.strip().strip("()")) for x in body.replace("%Z", "").replace("%nat", "").split(";")]


def read_cases(outdir):
    return [l for l in open(os.path.join(outdir, "cases.jsonl")).read().split("\n") if l.strip()]


OBSERVED = {}


def corr_once(sub, seed, n, replay_lines=None, mode=None, keep=None, extra=None):
    """One implrun + coqc round. Returns (stats, case_lines, failing_indices)."""
    d = tempfile.mkdtemp(prefix="verif-%s-" % sub)
    try:
        rp = None
        if replay_lines is not None:
            rp = os.path.join(d, "replay.jsonl")
            with open(rp, "w") as f:
                f.write("\n".join(replay_lines) + "\n")
        stats = run_impl(sub, d, seed, n, replay=rp, mode=mode, extra=extra)
        failing = eval_cases(d)
        lines = read_cases(d)
        if failing:
            # keep what the implementation was seen to do on the failing cases (the Gallina term holds inputs and
            # observations): a disagreement that does not reproduce can still be diagnosed from the replay record
            try:
                gal = open(os.path.join(d, "cases.gal")).read().split("\n\x1e\n")
                for i in failing:
                    if i < len(lines) and i < len(gal):
                        OBSERVED[case_hash(sub + lines[i])] = gal[i][:60000]
            except Exception:
                pass
        return stats, lines, failing
    finally:
        if keep:
            shutil.rmtree(keep, ignore_errors=True)
            shutil.copytree(d, keep)
        shutil.rmtree(d, ignore_errors=True)


def still_fails(sub, line, mode=None):
    old = os.environ.get("VERIF_IMPL_TIMEOUT")
    try:
        os.environ["VERIF_IMPL_TIMEOUT"] = "60"
        _, _, failing = corr_once(sub, 0, 0, replay_lines=[line], mode=mode)
        return bool(failing)
    except Exception:
        return False
    finally:
        if old is None:
            os.environ.pop("VERIF_IMPL_TIMEOUT", None)
        else:
            os.environ["VERIF_IMPL_TIMEOUT"] = old


def shrink(sub, line, list_fields, mode=None, budget=60):
    """Greedy delta-debugging on the JSON case: drop elements of the named list fields."""
    case = json.loads(line)
    tries = 0
    t_end = time.time() + 90   # shrinking is a convenience: never let it dominate the check
    budget_total = budget

    def get(c, path):
        for k in path:
            c = c[k]
        return c

    changed = True
    while changed and tries < budget and time.time() < t_end:
        changed = False
        for path in list_fields:
            path = path if isinstance(path, (list, tuple)) else [path]
            try:
                lst = get(case, path)
            except (KeyError, IndexError, TypeError):
                continue
            if not isinstance(lst, list):
                continue
            chunk = max(1, len(lst) // 2)
            while chunk >= 1 and tries < budget and time.time() < t_end:
                i = 0
                while i < len(lst) and tries < budget and time.time() < t_end:
                    cand = json.loads(json.dumps(case))
                    cl = get(cand, path)
                    del cl[i:i + chunk]
                    tries += 1
                    if still_fails(sub, json.dumps(cand), mode):
                        case = cand
                        lst = get(case, path)
                        changed = True
                    else:
                        i += chunk
                chunk //= 2
    return json.dumps(case), tries


# ----------------------------------------------------------------------------
# known findings, reporting
# ----------------------------------------------------------------------------

def known_findings(prop_id):
    out = []
    p = os.path.join(VERIF, "KNOWN_FINDINGS.txt")
    if not os.path.exists(p):
        return out
    for l in open(p):
        l = l.strip()
        m = re.match(r"finding:\s+property=(\S+)\s+key=(\S+)\s+(.*)", l)
        if m and m.group(1) == prop_id:
            out.append({"key": m.group(2), "what": m.group(3)})
    return out


def case_hash(line):
    return hashlib.sha256(line.encode()).hexdigest()[:12]


def write_replay(prop_id, payload):
    os.makedirs(os.path.join(VERIF, "replays"), exist_ok=True)
    h = hashlib.sha256(json.dumps(payload, sort_keys=True).encode()).hexdigest()[:10]
    path = os.path.join(VERIF, "replays", "%s-%s.json" % (prop_id, h))
    with open(path, "w") as f:
        json.dump(payload, f, indent=1)
    return path


def write_evidence(prop_id, tier, seed, coverage, assumptions, wall_s, violations):
    os.makedirs(os.path.join(VERIF, "evidence"), exist_ok=True)
    ev = {"property_id": prop_id, "tier": tier, "seed": seed, "level": "proof", "coverage": coverage,
          "assumptions": assumptions, "wall_s": round(wall_s, 2), "violations": violations}
    path = os.path.join(VERIF, "evidence", "%s.json" % prop_id)
    tmp = path + ".tmp"
    with open(tmp, "w") as f:
        json.dump(ev, f, indent=1)
    os.replace(tmp, path)
    return path


BASE_TRUSTED = [
    "Coq 8.16.1 kernel (coqc, full .vo build; vm_compute used inside proofs and for the in-Coq correspondence run; native_compute not used)",
    "no Axiom/Parameter/Admitted in the development (grep on every run); Print Assumptions output per theorem recorded below",
    "correspondence harness: /verif/harness (Go, built from /repo working tree with -tags verif), its generators and the Gallina printer",
    "translator srcfacts (go/ast -> coq/Gen/Facts.v), tied to the model by coq/Tie/*.v",
]
