"""Per-property check specifications used by bin/check."""

CHECKS = {}

CHECKS["C09"] = dict(
    stages=[
        dict(sub="c09core", quick=400, thorough=8000, shrink=["rows", "order"]),
    ],
    rule=("generated FlatRow sets (0-50 rows, 1-3 value fields, 3 dims of one dynamic type each incl. nil/missing, few distinct "
          "values so ties abound) x ORDER BY lists of length 0-4 over fields/dims/_time/an absent name with random directions x "
          "OFFSET 0..rows+2 x LIMIT none/0..rows+2, run through the real core.Sort and planner.addOrderLimitOffset; "
          "the proved oracle sort_case_ok (sorted under the lexicographic preorder, permutation of the input, and output = "
          "rows m..m+n-1 of the sorted output) is evaluated in Coq on the implementation's output. "
          "non-trivial = at least one ORDER BY key and at least two rows; distinct = distinct case JSON"),
    what_fails="ORDER BY / LIMIT / OFFSET output of the implementation is not the slice [m, m+n) of a sorted permutation of the unordered result",
    assumptions=[
        "values of one ORDER BY key have one dynamic type across rows (core.compare panics otherwise; that panic is C16's subject)",
        "sort stability is not part of the property and is not compared",
        "row values are integer-valued float64 so that the Z model of comparison is exact",
    ],
    trusted=["model of core.compare covers nil/bool/int/float64/string (the dynamic types bytemap hands to FlatRow.Get in the generated data)"],
)
