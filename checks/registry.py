"""Per-property check specifications used by bin/check."""

CHECKS = {}

CHECKS["C09"] = dict(
    stages=[
        dict(sub="c09core", quick=400, thorough=8000, shrink=["rows", "order"]),
    ],
    rule=("generated FlatRow sets (0-50 rows, 1-3 value fields, 3 dims of one dynamic type each incl. nil/missing, few distinct "
          "values so ties abound) x ORDER BY lists of length 0-4 over fields/dims/_time/an absent name with random directions x "
          "OFFSET 0..rows+2 x LIMIT none/0..rows+2, run through the real core.Sort and planner.addOrderLimitOffset; "
          "the proved oracle sort_case_ok (sorted under the lexicographic preorder, permutation of the input, and output = "
          "rows m..m+n-1 of the sorted output) is evaluated in Coq on the implementation's output. "
          "non-trivial = at least one ORDER BY key and at least two rows; distinct = distinct case JSON"),
    what_fails="ORDER BY / LIMIT / OFFSET output of the implementation is not the slice [m, m+n) of a sorted permutation of the unordered result",
    assumptions=[
        "values of one ORDER BY key have one dynamic type across rows (core.compare panics otherwise; that panic is C16's subject)",
        "sort stability is not part of the property and is not compared",
        "row values are integer-valued float64 so that the Z model of comparison is exact",
    ],
    trusted=["model of core.compare covers nil/bool/int/float64/string (the dynamic types bytemap hands to FlatRow.Get in the generated data)"],
)

CHECKS["C05"] = dict(
    stages=[
        dict(sub="c05expr", quick=500, thorough=24000, shrink=["a", "b", "c"]),
        dict(sub="c05seq", quick=1500, thorough=64000, shrink=[["s1", "cells"], ["s2", "cells"]]),
    ],
    rule=("c05expr: random valid expression trees (depth<=3 over SUM/MIN/MAX/COUNT/AVG/WAVG/BOUNDED/IF/SHIFT, + - * /, "
          "comparisons, AND/OR, constants) x three batches of 0-4 points (missing fields, IF oracle columns); the real "
          "expr.Update/Merge/Get run on byte buffers; decoded states are compared with the model (st, merge, get, ref) and "
          "the property is evaluated on the implementation's own outputs (merge of partial states = state of all points, "
          "commutative, associative, operands' bytes unchanged). c05seq: real Sequence.Truncate/UpdateValue/Merge/SubMerge on "
          "generated sequences (resolutions 1s/2s/7s/1.5s/1m, zero and unaligned bounds, empty operands, scaled/strided/"
          "shifted sub-merges) compared with Model/Seq.v. non-trivial: expr size>=2 and >=2 points / non-empty first operand; "
          "distinct = distinct case JSON"),
    what_fails="merging / truncating / accumulating in the implementation differs from the proved model (or violates the monoid laws on its own outputs)",
    assumptions=[
        "values are integers of small magnitude so float64 arithmetic is exact; DIV never feeds a comparison (float vs rational equality)",
        "PERCENTILE (hdrhistogram state) and the read-out of LN/LOG2/LOG10 are not modelled",
        "zeroTime.Add(-shift) (asOf = zero with a shifted field) saturates/overflows time.Duration in the real code; outside the model, not generated",
        "the output accumulator of SubMerge lies on the grid anchored at until (as every accumulator produced by SubMerge does)",
    ],
    trusted=["Tie/Tie.v ties expr/aggregates.go, expr/calcs.go, expr/conds.go kernels (regenerated into Gen/Facts.v) to the model"],
)


# ---------------------------------------------------------------------------
# DB-level checks: real zenodb.DB on a scratch directory vs the specification model (Model/DB.v)
# ---------------------------------------------------------------------------

def _strform(x):
    """expression string as zenodb prints it, as far as collisions are concerned (AVG drops its weight)"""
    k = x["k"]
    sub = [_strform(s) for s in x.get("sub", [])]
    if k == "avg":
        return "AVG(%s)" % sub[0]
    return "%s:%s:%s:%s:%s(%s)" % (k, x.get("n", ""), x.get("z", 0), x.get("lo", 0), x.get("hi", 0), ",".join(sub))


def _avg_leaves(x, out):
    if x["k"] == "avg":
        out.append((_strform(x["sub"][0]), _strform(x["sub"][1])))
    for s in x.get("sub", []):
        _avg_leaves(s, out)


def db_finding_key(case):
    t = case.get("table", {})
    strs = [_strform(f["e"]) for f in t.get("fields", [])]
    leaves = []
    for f in t.get("fields", []):
        _avg_leaves(f["e"], leaves)
    weights = {}
    collide = len(set(strs)) != len(strs)
    for v, w in leaves:
        if weights.setdefault(v, w) != w:
            collide = True
    if collide:
        return "duplicate-field-definition"
    return None


_DB_ASSUME = [
    "virtual time; MinFlushLatency 1h so that only scripted FlushAll flushes happen; IterationCoalesceInterval 1ms; queries run serially",
    "exact quiescence through the verif hooks (WAL read to the end, every read entry processed, every submitted insert applied)",
    "goexpr evaluation of WHERE / IF conditions is an oracle: the harness evaluates the real goexpr (compiled by the real sql.Parse) on each point and hands the booleans to the model",
    "values are small integers so float64 arithmetic is exact; DIV never feeds a comparison; +-Inf counts as equal to any model value beyond 1e300",
    "every point lies inside the retention window at query time (retention is C14's subject)",
    "table fields have pairwise different expression strings (see known finding duplicate-field-definition); no constant operands in binary field expressions (D14); no aggregate over a bare constant (D17)",
    "the SQL the harness prints for each field is parsed back with the real parser and must print the same expression as the AST given to the model",
]
_DB_TRUSTED = ["verif hooks in /repo (build tag verif): quiescence counters, VerifQuiescent, VerifNow/VerifAdvanceClock"]


def _db(mode, quick, thorough, what):
    return dict(
        stages=[dict(sub="dbq", mode=mode, quick=quick, thorough=thorough, shrink=["points", "queries", "flush_after", "reopen_after"], parallel=16, shards=16)],
        finding_key=db_finding_key, assumptions=_DB_ASSUME, trusted=_DB_TRUSTED, what_fails=what)


CHECKS["C01"] = dict(_db("c01", 64, 3200, "SELECT * FROM t (memstore included) does not return exactly one row per (group key, period) with the declared aggregates over exactly the accepted points"),
    rule=("random table schemas (1-4 fields from the aggregate grammar incl. IF/BOUNDED/AVG/WAVG and arithmetic/boolean combinations, "
          "optional WHERE, GROUP BY * or dim subsets incl. an absent dim, resolutions 1s/2s/7s/1m) x 5-34 points (mixed-type/missing/nil "
          "dims, missing/extra/non-numeric values, timestamps on exact period boundaries and +-1ns, duplicates, out of order) x random "
          "flush/reopen schedules; `SELECT * FROM t` on the real DB vs spec_rows of Model/DB.v. non-trivial: >= 3 points; distinct = distinct case JSON"))
CHECKS["C06"] = dict(_db("c06", 96, 3200, "a grouped query (fewer dims / longer period / derived fields) differs from the aggregate of the raw points per output row"),
    rule=("as C01, plus 4 queries per history: SELECT * / named subsets / derived fields over table fields, GROUP BY none, *, _, dim "
          "subsets incl. an absent dim, period = 1..8 x resolution, a non-multiple (planning error expected) or larger than the window; "
          "real DB vs spec_rows. non-trivial: >= 3 points; distinct = distinct case JSON"))
CHECKS["C07"] = dict(_db("c07", 64, 3200, "a query with ASOF/UNTIL returns a period outside (asOf, until] or misses/changes one inside it"),
    rule=("as C06 with ASOF (always) and UNTIL (2/3) bounds: aligned, +1ns, unaligned, before/inside/after the data, occasionally "
          "inverted; 5 queries per history; real DB vs spec_rows incl. planning errors. non-trivial: >= 3 points"))
CHECKS["C08"] = dict(_db("c08", 64, 3200, "a query with WHERE over stored dims does not equal the same query over only the matching points, a HAVING query is not the filtered HAVING-free query (or exposes the helper column), or an IN-subquery differs from IN over the values the subquery returns"),
    rule=("as C06 with a WHERE predicate over the dims of the stored key (=, <>, <, >, <=, >=, IN, IS NULL, AND/OR/NOT), evaluated by "
          "the real goexpr on each point's stored key as an oracle column; 4 queries per history. non-trivial: >= 3 points"))
CHECKS["C08"]["stages"] = CHECKS["C08"]["stages"] + [dict(sub="c08x", quick=48, thorough=2400, shrink=["points"], parallel=16, shards=16, seed_salt=808)]
CHECKS["C08"]["rule"] += (" stage c08x (relations between two queries on one database, Model/Filter.v): 4 HAVING pairs per history (Q vs Q HAVING f op c, f a selected non-BOUNDED field, "
                          "op in > >= < <= = <>, c in -3..8; WHERE/GROUP BY/period variants, SELECT * included) and up to 4 IN-subquery pairs (d IN (SELECT d FROM t [WHERE] [GROUP BY d] [HAVING ...]) "
                          "vs d IN (<the distinct values the subquery returns when run alone with _points as its select list>); subqueries returning a nil value are skipped).")
def c02_finding_key(case):
    """array-values-inserted-twice: the ONLY deviation of the case is that acknowledged points with an array of n >= 2
    values are reflected 2n-1 times (every other entry exactly as the model says, no hung child)."""
    if case.get("hung") or "counts" not in case or "rounds" not in case:
        return None
    arr = {int(k): v for k, v in (case.get("arr") or {}).items()}
    doubled = False
    acked = case.get("acked") or []
    passes = case.get("pass") or []
    if len(passes) != len(acked):
        return None
    for a, ok in zip(acked, passes):
        n = arr.get(a, 1)
        want = n if ok else 0
        obs = case["counts"].get(str(a + 1), 0)
        if obs == want:
            continue
        if ok and n >= 2 and obs == 2 * n - 1:
            doubled = True
            continue
        return None
    for pid, cnt in case["counts"].items():
        if cnt and int(pid) - 1 not in acked:
            return None
    return "array-values-inserted-twice" if doubled else None

CHECKS["C02"] = dict(
    stages=[dict(sub="c02", quick=64, thorough=3000, shrink=["rounds"], parallel=16, shards=16),
            dict(sub="c02", mode="db", quick=32, thorough=1000, shrink=["rounds"], parallel=16, shards=16, seed_salt=55),
            dict(sub="c02", mode="enum", quick=1, thorough=32, shrink=[], parallel=16, shards=16, shard_min=2, seed_salt=91)],
    finding_key=c02_finding_key,
    assumptions=["a kill preserves the file system (process kill, not power loss): every rename/remove is atomic and durable once it returned; temp files live outside the table directory",
                 "the WAL (getlantern/wal) is external: opened with sync on every write; assumed to return acknowledged entries in order with stable offsets and to drop a torn tail",
                 "kills: os.Exit at the n-th hit of an instrumented step of the flush/offset/insert path (verif hook), SIGKILL after a random delay, exit without Close, clean Close; up to 3 rounds on one directory",
                 "an insert in flight at the kill counts as acknowledged iff the final observation shows it (either is allowed by the property)",
                 "observation only after restart and exact quiescence (VerifQuiescent: WAL end over all segments reached, all reads processed, all inserts applied)"],
    trusted=_DB_TRUSTED + ["verifPoint crash points (verif hook) are placed between the steps of doProcessFlush / writeOffsets / the row-store loop; their placement is read, not proved"],
    what_fails="after kills and restarts on one directory a table reflects an acknowledged insert not exactly once (lost or double counted), reflects an unacknowledged one more than once, or a child never finishes (Close or reopening hangs)",
    rule=("generated table 't' + table 'tid' = SUM(one) WHERE d2 <> 1 GROUP BY pid (pid unique per point; 20% of the points carry an array of 2..450 values = several row-store inserts with one offset); 1-3 rounds of 2-9 operations from "
          "{insert batch, insert with a flush landing while its values are applied, FlushAll, wait for quiescence, sleep}, each round ended by an armed crash point (15 points x n-th hit), SIGKILL after 0-6 ms, exit without Close, or Close; "
          "then restart, catch up, observe. stage c02: per-entry multiplicities in tid vs Model/Crash.v run on the same history; stage c02/db: rows of 't' vs the specification model over the acknowledged points (scalar values only); stage c02/enum: fault enumeration — one history killed at every occurrence of every instrumented step an un-killed run passes (about 30-60 kill points per history). "
          "non-trivial: every case ends at least one round by a kill or close and reopens"))

CHECKS["C03"] = dict(_db("c03", 64, 3200, "a memstore-inclusive query depends on the flush/restart schedule, or a disk-only query after a flush differs from the memstore-inclusive one"),
    rule=("as C01 with schedules none / every k-th insert / random / dense (>10 flushes, so the every-10th re-encoding flush runs) / "
          "flushes with clean close+reopen / restart-heavy schedules on tables with a WHERE (offset-file path); a third of the cases with a memory cap configured so that forced flushes are sorted (emsort); queries: SELECT * and a named field subset with the memstore, and after a final flush the same two "
          "disk-only; every run is compared with the schedule-independent reference (so all schedules agree with each other). "
          "non-trivial: >= 3 points"))

_PIN_STAGE = dict(sub="pin", quick=16, thorough=128, shards=4, shard_min=64, shrink=["ops"], seed_salt=31)
_PIN_RULE = (" Stage pin (Model/Pin.v): histories of insert / FlushAll / scan start / scan continuation / a wait for the remover's 10 s ticker on a real "
             "database; a scan is held (hook VerifPauseAt) right after rowStore.iterate captured its file store, up to three scans at once, old files are "
             "really deleted meanwhile; every point carries its index, so a scan's rows say which points it saw: they must be the points the model's scan "
             "returns, the deleted files must be files the model lets the remover delete, and the model's scans must satisfy the property (with the "
             "source's structure, translated into gen_iterate_steps, that is a theorem; the corpus holds the schedule that lost a file before 5a97fd2).")
CHECKS["C03"]["stages"] = CHECKS["C03"]["stages"] + [_PIN_STAGE]
CHECKS["C03"]["rule"] += _PIN_RULE

CHECKS["C04"] = dict(
    stages=[dict(sub="dbq", mode="c04", quick=48, thorough=2400, shrink=["points", "queries", "flush_after", "reopen_after"], parallel=16, shards=16),
            dict(sub="c05seq", quick=600, thorough=32000, shrink=[["s1", "cells"], ["s2", "cells"]], seed_salt=17)],
    finding_key=db_finding_key, assumptions=_DB_ASSUME + ["c05seq: operand byte buffers of Truncate/Merge/SubMerge are compared before/after the call (qc_intact)"],
    trusted=_DB_TRUSTED,
    what_fails="a probe query returns different rows after another query ran (before or after the next flush), or a sequence operation modified its operand's bytes",
    rule=("dbq/c04: per history two rounds of [probe, Q, probe, FlushAll, probe] on the real DB; Q drawn from grouped / time-ranged / "
          "derived-field / disk-only queries incl. UNTIL bounds that end before the newest stored period; every probe must equal the "
          "reference over the inserted points. c05seq: Truncate/Merge/SubMerge operand bytes unchanged. non-trivial: >= 3 points / non-empty operand"))
CHECKS["C09"]["stages"].append(dict(sub="dbsort", quick=48, thorough=2400, shrink=["points", "order"], parallel=16, shards=16))
CHECKS["C09"]["rule"] += ("; dbsort: generated tables/points/flush schedules on the real DB, a base query (native or grouped), the same with ORDER BY "
                          "(1-4 keys over output fields, dims, _time, an absent name) and with ORDER BY + LIMIT [offset,] n; the proved oracle is "
                          "evaluated on the three row sets (values mapped to ranks, an order isomorphism)")
CHECKS["C17"] = dict(
    stages=[dict(sub="dbconc", quick=32, thorough=800, shrink=["points"], parallel=16, shards=16)],
    finding_key=db_finding_key, assumptions=_DB_ASSUME + [
        "IterationCoalesceInterval 150ms and all queries started together, so coalescing happens (group sizes recorded through the verif hook and reported); 1 in 5 cases staggers the starts beyond the interval",
        "adversary queries (row callback failing after its first row; 250ms deadline next to a slow consumer) are not themselves compared"],
    trusted=_DB_TRUSTED,
    what_fails="a query served by a shared (coalesced) scan returns rows or an error it does not return alone",
    rule=("2-6 generated queries (all/named/derived fields, grouping, time ranges, LIMIT, memstore on/off, generous deadlines) issued "
          "concurrently against one table, plus in half of the cases an adversary (failing consumer, or short deadline beside a slow "
          "deadline-free consumer), in a third of the cases in a fixed arrival order (6 ms apart) with a LIMIT 1-2 member first and a member whose "
          "consumer fails on row 3-8 later; each non-adversary result is compared with the reference, i.e. with what it returns alone. "
          "non-trivial: a coalesced group of size >= 2 was observed"))
CHECKS["C18"] = dict(
    stages=[dict(sub="dbsnap", quick=64, thorough=3200, shrink=["points", "during"], parallel=16, shards=16)],
    finding_key=db_finding_key, assumptions=_DB_ASSUME, trusted=_DB_TRUSTED,
    what_fails="rows delivered by a running memstore-inclusive scan reflect points inserted after the scan started",
    rule=("SELECT * on the real DB with a row callback that, after the k-th delivered row (k = 0..5), inserts 1-10 further points (2/3 of "
          "them into existing keys and periods, i.e. the in-place update branch), waits for exact quiescence, in half of the cases "
          "forces a flush, and then lets the scan continue; the delivered rows must equal the reference over the points inserted "
          "before the scan. non-trivial: the scan was actually paused with rows still to deliver"))

CHECKS["C18"]["stages"] = CHECKS["C18"]["stages"] + [_PIN_STAGE]
CHECKS["C18"]["rule"] += _PIN_RULE

CHECKS["C14"] = dict(
    stages=[dict(sub="dbret", quick=64, thorough=3200, shrink=["ops"], parallel=16, shards=16)],
    finding_key=db_finding_key, assumptions=_DB_ASSUME[:4] + [
        "virtual time: the clock is the newest accepted timestamp; the model recomputes it and compares it with the DB clock at every query",
        "one-sided where the property is: live periods (wholly inside the window) must be present with exact values; expired periods may linger until a "
        "truncating flush, but must be absent from disk at or below the horizon of the last truncating flush; grouped/ranged queries are compared exactly",
        "single table per database (the DB-wide clock makes 'too old when processed' schedule dependent across tables)"],
    trusted=_DB_TRUSTED,
    what_fails="retention: a too-old point was stored, a live period was dropped or changed, a windowed query returned an expired period, or an expired period survived a truncating flush / reappeared",
    rule=("histories of 15-59 inserts whose timestamps walk forward by 0-3 resolutions per step (so the clock passes several retention periods; "
          "retention/resolution in {1,2,3,5,10,40}), with late points (back by up to 1.5 x retention), points exactly on / +-1ns around the retention "
          "boundary, out-of-order arrival, and flushes after each insert with probability 0, 1/8, 1/3 or 1/2 (so that >= 10 data-carrying flushes, i.e. a "
          "truncating flush, happen in about half of the cases: counted in input_distribution); queries mid-history and at the end: raw view with memstore, a "
          "grouped/ranged query, and the raw disk-only view after a final flush. non-trivial: at least one flush"))

CHECKS["C15"] = dict(
    stages=[dict(sub="dbalt", quick=64, thorough=3200, shrink=["ops"], parallel=16, shards=16)],
    assumptions=_DB_ASSUME[:4] + ["exact quiescence is awaited before every ApplySchema, flush, reopen and query, so each point is processed under a known definition",
                                  "the definitions of one history never contain two fields with the same expression string (known finding duplicate-field-definition)"],
    trusted=_DB_TRUSTED,
    what_fails="after altering the table a retained field changed its stored values, an added (or re-added) field did not start empty, or a new WHERE was applied to points processed before the change",
    rule=("histories of 12-41 operations: inserts, FlushAll, clean close/reopen, and ApplySchema with a new definition that drops fields "
          "(each with probability 1/4), adds fresh fields, re-adds previously dropped fields (same name and expression), permutes the "
          "order and in 1/3 of the cases changes or removes the WHERE; SELECT * after half of the alterations and at the end, compared with "
          "the reference in which every field aggregates the points accepted since it was (last) added. non-trivial: >= 1 alteration and >= 3 points"))

CHECKS["C19"] = dict(
    stages=[dict(sub="c19", quick=1, thorough=1, shards=1)],
    exhaustive=True,
    assumptions=["gRPC on 127.0.0.1 with the real rpcserver.PrepareServer/rpc.Dial in front of a mock DB that records which DB methods were reached",
                 "web.Configure on an httptest server; session cookies produced with the same securecookie keys (Opts.HashKey/BlockKey), forged ones with other keys; "
                 "the GitHub organisation call is answered by a stub http.DefaultTransport (member / not member / error)",
                 "'served' = the guarded DB method was reached (RPC) / the HTTP status is neither 307 nor 403 (web)"],
    trusted=["securecookie decodes only what was encoded under the same keys (external library)", "the srcfacts guard-table translation (first-statement pattern of each handler, call reachability within web/*.go)"],
    what_fails="an endpoint that discloses data served a caller without valid credentials (or the guard tables / decision functions no longer match the code)",
    rule=("the complete lattice: RPC {server password unset,set} x {no, wrong, right client password} x {insert, query, follow, remote-query registration} = 24 calls; "
          "web {OAuth off,on} x {static token unset,set} x {no, wrong, right header} x {no cookie, garbage, forged, valid future member / non-member / org error, valid past member} x "
          "{/run, /async, /immediate, /cached/<id>} = 336 requests; each observed decision is compared with the model's decision functions through the regenerated guard tables. "
          "non-trivial: credentials are configured"))

def c16_finding_key(case):
    """A query that evaluates a Redis expression on a database without Redis and never returns."""
    import re as _re
    if case.get("kind") == "sql" and (case.get("res") or {}).get("process") == "hang" and \
            _re.search(r"\b(HGET|SISMEMBER|LUA)\s*\(", case.get("sql", ""), _re.I):
        return "redis-expression-stalls-without-redis"
    return None

CHECKS["C16"] = dict(
    stages=[dict(sub="c16", quick=1500, thorough=48000, shards=16, shard_min=10000)],
    finding_key=c16_finding_key,
    assumptions=["each input is executed in a worker process against the real sql.Parse, sql.TableFor, DB.Query (planner.Plan) and Iterate on a DB with data; "
                 "a worker that dies or hangs (20s watchdog) while executing an input is recorded as crash/hang for that input and restarted at the next one",
                 "panics on the caller's goroutine are recovered by the worker and recorded as 'panic'",
                 "insert payloads: after each payload a valid point is inserted and the valid points' _points total must equal the number inserted",
                 "table definitions used for the payload tests are legitimate (dimension functions applied as documented); the hostile part is the payload"],
    trusted=["the external SQL parser (getlantern/sqlparser) and goexpr are exercised, not modelled: 'all byte strings' is covered by generation for them and by proof only for zenodb's own dispatch given their outputs"],
    what_fails="a client-supplied SQL string or insert payload made zenodb panic, crash or stall (or a later valid point was not ingested)",
    rule=("12 valid and 120 hand-written hostile statements (non-SELECT statements, wrong arities and argument types for every function family, unknown tables/fields/"
          "functions, bad durations/time ranges/limits, malformed subqueries), token-level mutations of them (delete/insert/replace/truncate/swap, cut inside a token) and "
          "structured random queries over the function vocabulary; 27 insert payloads over the Go value universe (nil/empty/ill-typed values, empty arrays, nil/ill-typed "
          "dims, 200 dims, raw truncated/garbage byte maps) and 11 legitimate function-using table definitions fed 35 hostile dim/value combinations each. "
          "non-trivial: everything but the 12 valid statements; distinct = distinct input"))

_CLU_ASSUME = _DB_ASSUME[:4] + [
    "in-process cluster wired as server/server.go wires it (DBOpts.Follow -> leader.Follow, RegisterRemoteQueryHandler -> leader.RegisterQueryHandler), no sockets: gRPC transport is C20's subject",
    "virtual time: every node's clock is advanced to the newest accepted timestamp through the verif hook before querying (a passthrough leader's clock never moves by itself)",
    "caught-up states only: the harness waits until every follower has processed the number of entries the leader's routing function (verif hook) assigns to its partition",
    "murmur3 is an oracle: the real partitionFor result of each point is used to split the points per follower"]
CHECKS["C10"] = dict(
    stages=[dict(sub="cluq", quick=16, thorough=192, shrink=["points", "queries"], parallel=16, shards=16)],
    finding_key=db_finding_key, assumptions=_CLU_ASSUME, trusted=_DB_TRUSTED + ["VerifPartitionFor (verif hook) exposes the leader's routing function"],
    what_fails="a cluster of caught-up followers answered a query differently from the reference (= a standalone database), or a follower does not hold exactly the points routed to its partition",
    rule=("clusters of P in 1..4 partitions x 1-2 followers per partition, partitionBy in {none, [d1], [d2], [d1,d2], [d3,d9]} (also keys outside the table's group by), generated "
          "table/points as in C01 inserted through the leader; 7 queries per cluster on the leader (SELECT *, grouped/ranged/derived/WHERE/LIMIT: pushdown and non-pushdown plans) "
          "compared with the reference over all points, and SELECT * on every follower compared with the reference over the points routed to its partition. "
          "non-trivial: P >= 2 / follower holds >= 1 point"))

def c11_finding_key(case):
    """Two defects of zenodb's dependencies that are visible through cluster queries; only the 'rows' judgement of a
    query can match (a wrong plan decision is never suppressed)."""
    qs = case.get("queries") or []
    if len(qs) != 1:
        return None
    q = qs[0]
    if q.get("kind") != "rows" or q.get("agree") or q.get("local_err") or q.get("cluster_err"):
        return None
    sql = q.get("sql", "")
    import re as _re
    outer = sql[sql.rfind(")") + 1:] if ")" in sql and sql.rfind("GROUP BY") > sql.rfind(")") else sql
    if q.get("plan") == "nonpushdown" and _re.search(r"GROUP BY _(,| |$)", sql) and "CROSSTAB(" in sql:
        return "underscore-group-with-crosstab"
    m = _re.search(r"LIMIT (\d+), \d+\s*$", sql)
    if q.get("plan") == "pushdown" and m and int(m.group(1)) > 0:
        return "pushdown-offset-applied-twice"
    if q.get("plan") == "pushdown" and "GROUP BY LEN(" in outer:
        return "len-reported-one-to-one"
    return None

CHECKS["C11"] = dict(
    stages=[dict(sub="c11", quick=16, thorough=320, shrink=["points"], parallel=16, shards=16)],
    finding_key=c11_finding_key,
    assumptions=["the reference semantics of a query is the local plan executed by a standalone database fed the same points (translation validation per generated query), not the Coq specification model: HAVING, subqueries, CROSSTAB, ORDER/LIMIT are outside DB.v",
                 "rows are compared as multisets (values up to 1e-9 relative); ORDER BY is generated without LIMIT",
                 "the structure given to the model's pushdown predicate is what the real sql.Parse and goexpr.WalkOneToOneParams report for the query; the plan kind is read off core.FormatSource of the leader's plan",
                 "caught-up clusters only; incomplete answers (missing partitions reported by the leader) are asked again"],
    trusted=_DB_TRUSTED + ["VerifPartitionFor (verif hook) exposes the leader's routing function"],
    what_fails="a query planned for the cluster (whole-query pushdown, or partition-side pre-aggregation + leader-side group/having/order) returns other rows than the local plan over the same points, fails where the local plan works, or the planner pushes down / does not push down against the model of pushdownAllowed",
    rule=("clusters of P in 1..4 partitions, partitionBy in {none, [d1], [d2], [d1,d2], [d3,d9]}, generated table/points as in C01; 40 generated SQL queries per cluster: field subsets / derived fields / _points, WHERE incl. string literals "
          "containing 'group by', 'having', 'order by', 'limit' and IN-subqueries with their own GROUP BY/HAVING, GROUP BY dims / CONCAT / LEN / _ / * / period, CROSSTAB, HAVING, ORDER BY, FROM-subqueries (with and without ORDER/LIMIT). "
          "two judgements per query: rows(cluster) = rows(local), and plan kind = pushdown_allowed(model). non-trivial: P >= 2 and the query could be planned"))

CHECKS["C12"] = dict(
    stages=[dict(sub="c12", quick=16, thorough=160, shrink=["steps"], parallel=16, shards=16),
            dict(sub="c12", mode="db", quick=8, thorough=64, shrink=["steps"], parallel=16, shards=16, shard_min=8, seed_salt=77)],
    finding_key=db_finding_key,
    assumptions=["settle points only: the harness waits until every follower's table 'tid' (SUM(one) GROUP BY pid, pid unique per point) shows what its own bookkeeping expects and stays so for 1.5 s, or 75 s pass; what was last observed is what the model is compared with",
                 "a kill is emulated in-process: the follower's directory is copied at that instant (no flush is in progress: flushes are harness-driven), the DB closed, and the copy put back",
                 "the link is the in-process Follow callback (fails while cut, as a broken gRPC stream does); the reconnect loop is a transcription of server.followSource (EarliestOffset = last delivered offset)",
                 "the protocol's precondition (Repl.step_ok: announced EarliestOffset not after any table's persisted offset) is observed on every real Follow request",
                 "the model schedules leader reads and deliveries differently from the real system between settle points; C12_follower_content makes the content at settle points schedule-independent"],
    trusted=_DB_TRUSTED + ["VerifPartitionFor (verif hook) exposes the leader's routing function"],
    what_fails="after follower restarts / crash images / snapshot restores / link cuts / leader restarts, with every node up again, a follower's content differs from the accepted points routed to its partition (lost or duplicated entries), or a leader's answer differs from the standalone reference",
    rule=("clusters of 1-2 leaders x 1-3 partitions x 1-2 followers, two tables on the stream (generated 't', and 'tid' partitioned by the same keys / by pid / by d1); histories of 16-45 points in batches "
          "interleaved with 2-6 faults from {flush, clean stop/start, kill (crash image)/start, directory snapshot, restore from snapshot, cut/uncut link, leader stop/start, slow follower}, settle points in the middle and at the end. "
          "stage c12: per-follower multiset of applied WAL entries vs the protocol model Repl.v run on the same operations; stage c12/db: per-follower content of 't' and 4 queries on every leader vs the specification model over the accepted points. "
          "non-trivial: every case has at least 2 faults"))

CHECKS["C13"] = dict(
    stages=[dict(sub="c13", quick=5, thorough=60, shards=1)],
    assumptions=["completeness is judged against a fault-free run of the same query on the same node(s) (the leader's oracle run is repeated until its own statistics report every partition)",
                 "embedded: context deadlines already expired, and expiring while the k-th delivered row is being consumed (k = 0, 1, 2, n/2, n), on memstore-only, file-only and split data, with and without GROUP / ORDER stages",
                 "cluster (in-process, 3 partitions): every subset of partitions answering with an error or with a retriable error on all of its handlers, and each single partition answering slower than the caller's deadline",
                 "web: web.Configure on httptest with a 1ns query timeout and with a 200-byte response limit, /run and /immediate"],
    trusted=_DB_TRUSTED,
    what_fails="a result that omits data was returned without an error, without the partition being listed as missing, or with HTTP 200",
    rule=("5 generated tables/datasets x 2-3 queries x 6 deadline placements (embedded); 5 shared scans (a LIMIT member that arrived first leaves early, a member that arrived 6 ms later runs into its deadline on row 3-5, a third runs to the end); 1 cluster x 2-3 queries x (8 error subsets + 8 retriable-error subsets + 3 slow partitions); 3 web configurations x 2 routes. "
          "Each outcome (complete?, error?, missing partition listed?, HTTP status) must satisfy: complete or told. non-trivial: the result is incomplete / a fault was injected"))

CHECKS["C20"] = dict(
    stages=[dict(sub="c20codec", quick=400, thorough=20000, shrink=["a", "b", "c"]),
            dict(sub="c20rpc", quick=24, thorough=600, shrink=["points", "queries"], parallel=16, shards=8),
            dict(sub="c20same", quick=32, thorough=1600, shrink=["points"], parallel=16, shards=16, seed_salt=2020)],
    finding_key=db_finding_key,
    assumptions=["c20codec: every generated expression is sent through the real rpc.Codec (msgpack) as a field of a RemoteQueryResult; the DECODED expression object then runs the C05 unit "
                 "correspondence (Update over three batches, Merge, Get) against the model of the ORIGINAL, with IF conditions that are real goexpr trees evaluated on generated dims; "
                 "name, String() and EncodedWidth() must be equal; the read-out of LN/LOG2/LOG10 is compared for set-ness only",
                 "c20codec also round-trips Insert/Query/Point/QueryStats/unflat rows/flat rows messages (instants compared with time.Equal)",
                 "c20rpc: inserts through the rpc inserter and queries through rpc.Dial <-> rpcserver.PrepareServer on 127.0.0.1 (snappy + gRPC + msgpack, password set) compared with the reference, i.e. with the embedded answer"] + _DB_ASSUME[:4],
    trusted=["msgpack, gRPC framing and snappy are external: what is proved is that zenodb's use of them restores every behaviour-relevant field (codec table) and that the modelled encode/decode is the identity"] + _DB_TRUSTED,
    what_fails="an expression, message, row or query result that crossed the RPC boundary no longer behaves like / equals the original",
    rule=("c20codec: 400 random expression trees (whole modelled grammar incl. unary math and IF over generated goexpr predicates) x 3 batches of points, + 240 messages; "
          "c20rpc: 24 generated tables/datasets with 5 queries each through the real RPC stack; "
          "c20same: 32 datasets x 8 generated SQL queries (field subsets, WHERE, GROUP BY incl. dimensions some points lack, HAVING, ORDER BY with 1-4 asc/desc keys, LIMIT/OFFSET) answered over RPC and "
          "in-process: same field names, same rows (timestamps, keys, values) in the same order (relation ROrdered of Model/Filter.v). non-trivial: expression size >= 2 / >= 3 points"))


# ---------------------------------------------------------------------------
# stage `tree`: the real bytetree.Tree against the structural radix-tree model (Model/Tree.v, Proofs/TreeP.v)
# ---------------------------------------------------------------------------
def _tree_stage(salt):
    return dict(sub="tree", quick=240, thorough=12000, shrink=["ops"], seed_salt=salt)


_TREE_RULE = (" Stage tree (Model/Tree.v): 4-45 operations on the real bytetree.Tree — Update (keys over a two- or three-letter alphabet, 0-8 bytes, "
              "often prefixes or extensions of earlier keys, the empty key; in a quarter of the cases byte maps of a few dims), Remove and Walk under "
              "contexts 0-2 with callbacks that drop some keys and stop early, Copy (up to 3 read-only snapshots that are then walked and removed from "
              "while the original goes on), Length — closed by a full Walk of every tree in a fresh context. Walk's output is compared in order "
              "(breadth first), Remove's return value and Length exactly, with the model run on the same operations. non-trivial: >= 3 updates.")
for _p, _salt in (("C01", 4101), ("C03", 4103), ("C18", 4118)):
    CHECKS[_p]["stages"] = CHECKS[_p]["stages"] + [_tree_stage(_salt)]
    CHECKS[_p]["rule"] += _TREE_RULE
    CHECKS[_p]["trusted"] = CHECKS[_p].get("trusted", []) + [
        "Model/Tree.v transcribes bytetree.go by hand (tied by stage tree); a node's data is the one SUM field the harness gives the tree; "
        "Tree.bytes (the memory estimate) and the mutex around removedFor are not modelled"]

CHECKS["C18"]["stages"] = CHECKS["C18"]["stages"] + [dict(sub="arrsnap", quick=12, thorough=600, shards=8, shard_min=64, shrink=["points"], seed_salt=1818)]
CHECKS["C18"]["rule"] += (" Stage arrsnap (Model/CorrSnap.v): one point whose first 2-3 values are arrays of 400-2000 numbers (the row store applies it as "
                          "that many memstore updates) is inserted into an existing or a new key while memstore-inclusive SELECT * queries are issued back to back; "
                          "every result must be the table before the point or the table after it (the implementation's own quiescent answers), never a part "
                          "of the point. non-trivial: at least one query ran before the point was complete.")

CHECKS["C04"]["stages"] = CHECKS["C04"]["stages"] + [dict(sub="flushrace", quick=4, thorough=64, shards=4, shard_min=16, shrink=[], seed_salt=404)]
CHECKS["C04"]["rule"] += (" Stage flushrace (Model/CorrSnap.v): 4000-24000 keys in the memstore (in half of the cases on top of a file holding half of them), a probe "
                          "(SELECT fa FROM t GROUP BY _), then FlushAll in the background while memstore-inclusive SELECT * ... LIMIT 1 queries are started back to back "
                          "until it ends; the probe must return the same rows afterwards, again after a time-ranged grouped query and a second flush, and from "
                          "disk only. non-trivial: at least one query started during the flush.")

# stage `offs`: the real common.OffsetsBySource against Model/Offsets.v (Proofs/OffsetsP.v)
for _p, _salt in (("C02", 5102), ("C12", 5112)):
    CHECKS[_p]["stages"] = CHECKS[_p]["stages"] + [dict(sub="offs", quick=2000, thorough=60000, shrink=["a", "b"], seed_salt=_salt)]
    CHECKS[_p]["rule"] += (" Stage offs (Model/Offsets.v): 2000 pairs of offset maps (0-4 of 5 sources, file sequences and positions 0-3 so that ties and "
                           "equal offsets abound, one map in six nil) and a limit; the real OffsetsBySource.Advance and LimitAge (entries sorted by source, nil-ness) "
                           "against the model. non-trivial: both maps non-empty.")

CHECKS["C03"]["stages"] = CHECKS["C03"]["stages"] + [dict(sub="rowfile", quick=40, thorough=2000, shards=8, shard_min=64, shrink=["points"], seed_salt=3003)]
CHECKS["C03"]["rule"] += (" Stage rowfile (Model/RowCodec.v, Model/CorrRow.v): generated tables and points, flushed; the newest file store is opened, "
                          "decompressed, its header skipped, and the remaining bytes are read by the MODEL's decoder of the row format: they must parse row after "
                          "row to the end with nothing left over, the keys read must be exactly the keys a disk-only scan reports, and every row must have "
                          "one column per stored field. non-trivial: at least two rows.")


# C10 also runs the cluster-vs-standalone stage of C11 (real cluster against the real local plan on a standalone database): queries outside
# the specification model (FROM-subqueries, HAVING, CROSSTAB, ORDER/LIMIT) are part of "every query" too
def _c10_finding_key(case):
    if (case.get("queries") or [{}])[0].get("kind") in ("rows", "decision"):
        return c11_finding_key(case)
    return db_finding_key(case)


CHECKS["C10"]["stages"] = CHECKS["C10"]["stages"] + [dict(sub="c11", quick=6, thorough=120, shrink=["points"], parallel=16, shards=6, shard_min=6, seed_salt=1011)]
CHECKS["C10"]["finding_key"] = _c10_finding_key
CHECKS["C10"]["rule"] += (" Stage c11 (shared with C11): 6 clusters x 80 generated SQL queries incl. FROM-subqueries (two levels), HAVING, CROSSTAB, ORDER BY, LIMIT, "
                          "time ranges; the cluster's rows against the rows of the local plan on a standalone database fed the same points.")
