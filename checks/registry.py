"""Per-property check specifications used by bin/check."""

CHECKS = {}

CHECKS["C09"] = dict(
    stages=[
        dict(sub="c09core", quick=400, thorough=8000, shrink=["rows", "order"]),
    ],
    rule=("generated FlatRow sets (0-50 rows, 1-3 value fields, 3 dims of one dynamic type each incl. nil/missing, few distinct "
          "values so ties abound) x ORDER BY lists of length 0-4 over fields/dims/_time/an absent name with random directions x "
          "OFFSET 0..rows+2 x LIMIT none/0..rows+2, run through the real core.Sort and planner.addOrderLimitOffset; "
          "the proved oracle sort_case_ok (sorted under the lexicographic preorder, permutation of the input, and output = "
          "rows m..m+n-1 of the sorted output) is evaluated in Coq on the implementation's output. "
          "non-trivial = at least one ORDER BY key and at least two rows; distinct = distinct case JSON"),
    what_fails="ORDER BY / LIMIT / OFFSET output of the implementation is not the slice [m, m+n) of a sorted permutation of the unordered result",
    assumptions=[
        "values of one ORDER BY key have one dynamic type across rows (core.compare panics otherwise; that panic is C16's subject)",
        "sort stability is not part of the property and is not compared",
        "row values are integer-valued float64 so that the Z model of comparison is exact",
    ],
    trusted=["model of core.compare covers nil/bool/int/float64/string (the dynamic types bytemap hands to FlatRow.Get in the generated data)"],
)

CHECKS["C05"] = dict(
    stages=[
        dict(sub="c05expr", quick=500, thorough=24000, shrink=["a", "b", "c"]),
        dict(sub="c05seq", quick=1500, thorough=64000, shrink=[["s1", "cells"], ["s2", "cells"]]),
    ],
    rule=("c05expr: random valid expression trees (depth<=3 over SUM/MIN/MAX/COUNT/AVG/WAVG/BOUNDED/IF/SHIFT, + - * /, "
          "comparisons, AND/OR, constants) x three batches of 0-4 points (missing fields, IF oracle columns); the real "
          "expr.Update/Merge/Get run on byte buffers; decoded states are compared with the model (st, merge, get, ref) and "
          "the property is evaluated on the implementation's own outputs (merge of partial states = state of all points, "
          "commutative, associative, operands' bytes unchanged). c05seq: real Sequence.Truncate/UpdateValue/Merge/SubMerge on "
          "generated sequences (resolutions 1s/2s/7s/1.5s/1m, zero and unaligned bounds, empty operands, scaled/strided/"
          "shifted sub-merges) compared with Model/Seq.v. non-trivial: expr size>=2 and >=2 points / non-empty first operand; "
          "distinct = distinct case JSON"),
    what_fails="merging / truncating / accumulating in the implementation differs from the proved model (or violates the monoid laws on its own outputs)",
    assumptions=[
        "values are integers of small magnitude so float64 arithmetic is exact; DIV never feeds a comparison (float vs rational equality)",
        "PERCENTILE (hdrhistogram state) and the read-out of LN/LOG2/LOG10 are not modelled",
        "zeroTime.Add(-shift) (asOf = zero with a shifted field) saturates/overflows time.Duration in the real code; outside the model, not generated",
        "the output accumulator of SubMerge lies on the grid anchored at until (as every accumulator produced by SubMerge does)",
    ],
    trusted=["Tie/Tie.v ties expr/aggregates.go, expr/calcs.go, expr/conds.go kernels (regenerated into Gen/Facts.v) to the model"],
)
