"""Text of MANIFEST.json entries (bin/mkmanifest writes the file)."""

NOTES = ("Technique: machine-checked proof in Rocq/Coq 8.16.1. Each check rebuilds the Coq development (model + proofs + "
         "property theorems, with Gen/Facts.v regenerated from /repo by the srcfacts translator) and runs a correspondence "
         "check in which the real Go implementation and the Coq model/proved oracle are evaluated on the same generated cases "
         "(model evaluated inside Coq with vm_compute). See DESIGN.md.")

_PENDING = "check under construction in this session: model, theorems and correspondence not yet committed; will be claimed when its check is green"

META = {}
META["C09"] = dict(
    text=("Theorems (Props/C09.v, closed under the global context): orderedRows.Less is the strict part of the lexicographic "
          "total preorder of the key list for all key lists and rows; sorting with it yields a strongly sorted permutation; "
          "Limit over Offset deliver exactly rows m..m+n-1 for all n,m>=0 (LIMIT 0 => none); the planner's composition equals "
          "that slice of the sorted result; and the executable oracle is sound. The oracle is then evaluated inside Coq on the "
          "output of the real core.Sort/Offset/Limit and planner.addOrderLimitOffset for generated row sets."),
    design_ref="DESIGN.md section 4 / C09",
    note=("Trusted: Coq kernel incl. vm_compute; the hand-written model of core/sort.go, core/compare.go, core/limit.go, core/offset.go, "
          "planner.addOrderLimitOffset (tied by correspondence on every run); the Go harness and its generator. core.compare's "
          "panic on mixed dynamic types is excluded by hypothesis `comparable` (generated in C16). Go's sort.Sort itself is not "
          "modelled: its output is checked by the proved oracle."),
    technique="Coq proof (total-preorder algebra, insertion-sort refinement, list slicing) + proved oracle evaluated by vm_compute on implementation output",
)

META["C05"] = dict(
    text=("Theorems (Props/C05.v): for every expression tree of the modelled grammar Merge of two accumulated states equals the "
          "state accumulated from all points (monoid homomorphism), Merge is commutative/associative with the empty state as unit "
          "on all well-shaped states, point order is irrelevant, Get of the accumulated state equals the declared aggregate "
          "(reference semantics `ref`) over exactly the points, Truncate keeps exactly the periods in (asOf, until] with values "
          "unchanged, and the aggregate kernels the theorems speak about are those translated from expr/aggregates.go on this run "
          "(Tie). Correspondence: real expr.Update/Merge/Get and Sequence.Truncate/UpdateValue/Merge/SubMerge vs the model, "
          "plus the laws evaluated on the implementation's own outputs incl. operand bytes unchanged."),
    design_ref="DESIGN.md section 4 / C05",
    note=("Modelled, not verified: expr/*.go and encoding/seq.go (hand model, tied by kernel translation + correspondence). Not "
          "modelled: PERCENTILE states, unary-math read-out, float rounding (integer inputs keep it exact), Duration saturation "
          "at the zero time. Sequence-level Merge/UpdateValue/SubMerge are tied by correspondence; their general den-theorems "
          "are stated in Proofs/ as they are completed."),
    technique="Coq proof by structural induction (commutative-monoid homomorphism) + translated kernels (Tie) + model-vs-implementation differential evaluated by vm_compute",
)

NOT_APPLICABLE = [
    {"property_id": p, "reason": _PENDING}
    for p in ["C01", "C02", "C03", "C04", "C06", "C07", "C08", "C10", "C11", "C12", "C13", "C14", "C15", "C16", "C17", "C18", "C19", "C20"]
]
