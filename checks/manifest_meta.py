"""Text of MANIFEST.json entries (bin/mkmanifest writes the file)."""

NOTES = ("Technique: machine-checked proof in Rocq/Coq 8.16.1. Each check rebuilds the Coq development (model + proofs + "
         "property theorems, with Gen/Facts.v regenerated from /repo by the srcfacts translator) and runs a correspondence "
         "check in which the real Go implementation and the Coq model/proved oracle are evaluated on the same generated cases "
         "(model evaluated inside Coq with vm_compute). See DESIGN.md.")

_PENDING = "check under construction in this session: model, theorems and correspondence not yet committed; will be claimed when its check is green"

META = {}
META["C09"] = dict(
    text=("Theorems (Props/C09.v, closed under the global context): orderedRows.Less is the strict part of the lexicographic "
          "total preorder of the key list for all key lists and rows; sorting with it yields a strongly sorted permutation; "
          "Limit over Offset deliver exactly rows m..m+n-1 for all n,m>=0 (LIMIT 0 => none); the planner's composition equals "
          "that slice of the sorted result; and the executable oracle is sound. The oracle is then evaluated inside Coq on the "
          "output of the real core.Sort/Offset/Limit and planner.addOrderLimitOffset for generated row sets, and on ORDER BY / LIMIT queries run through the real DB."),
    design_ref="DESIGN.md section 4 / C09",
    note=("Trusted: Coq kernel incl. vm_compute; the hand-written model of core/sort.go, core/compare.go, core/limit.go, core/offset.go, "
          "planner.addOrderLimitOffset (tied by correspondence on every run); the Go harness and its generator. core.compare's "
          "panic on mixed dynamic types is excluded by hypothesis `comparable` (generated in C16). Go's sort.Sort itself is not "
          "modelled: its output is checked by the proved oracle."),
    technique="Coq proof (total-preorder algebra, insertion-sort refinement, list slicing) + proved oracle evaluated by vm_compute on implementation output",
)

META["C05"] = dict(
    text=("Theorems (Props/C05.v): for every expression tree of the modelled grammar Merge of two accumulated states equals the "
          "state accumulated from all points (monoid homomorphism), Merge is commutative/associative with the empty state as unit "
          "on all well-shaped states, point order is irrelevant, Get of the accumulated state equals the declared aggregate "
          "(reference semantics `ref`) over exactly the points, Truncate keeps exactly the periods in (asOf, until] with values "
          "unchanged, and the aggregate kernels the theorems speak about are those translated from expr/aggregates.go on this run "
          "(Tie). Correspondence: real expr.Update/Merge/Get and Sequence.Truncate/UpdateValue/Merge/SubMerge vs the model, "
          "plus the laws evaluated on the implementation's own outputs incl. operand bytes unchanged."),
    design_ref="DESIGN.md section 4 / C05",
    note=("Modelled, not verified: expr/*.go and encoding/seq.go (hand model, tied by kernel translation + correspondence). Not "
          "modelled: PERCENTILE states, unary-math read-out, float rounding (integer inputs keep it exact), Duration saturation "
          "at the zero time. Sequence-level Merge/UpdateValue/SubMerge are tied by correspondence; their general den-theorems "
          "are stated in Proofs/ as they are completed."),
    technique="Coq proof by structural induction (commutative-monoid homomorphism) + translated kernels (Tie) + model-vs-implementation differential evaluated by vm_compute",
)

_DBNOTE = ("Modelled, not verified: insert.go/table.go/row_store.go/bytetree/core.Group/Flatten/planner.planLocal through the "
           "specification model Model/DB.v (reference aggregator over raw points), tied to the real zenodb.DB by the correspondence "
           "on every run; goexpr predicates are an oracle column computed with the real goexpr; values are small integers so float "
           "arithmetic is exact. Retention is excluded here (C14).")
META["C01"] = dict(
    text=("Theorems (Props/C01.v): a timestamp falls into exactly one period, the one ending at the least multiple of the "
          "resolution >= ts; the reference result has exactly one row per (group key, period); the points aggregated into a row "
          "are exactly the accepted points of that key and period, each once, in arrival order; every field read from the "
          "accumulated state equals its declared aggregate over exactly those points (all expression trees); kernels tied to the "
          "source. The row store model (Model/Store.v: memstore/filestore/flush/merge) is proved to refine this reference for "
          "every flush schedule in Proofs/StoreP.v. The memstore's radix tree (bytetree, structural model Model/Tree.v: exact match / "
          "descend / split / new edge, interior nodes, the empty key) is proved to be a finite map for ALL byte-string keys and update "
          "sequences: every key reads as what its own updates accumulated, Length counts the keys, a Walk reports every key once "
          "(Proofs/TreeP.v); the tree as shipped is refuted by a witness and was repaired in /repo (e89d368). Correspondence: SELECT * on "
          "the real DB vs the reference for generated schemas, points and flush/reopen schedules; operation sequences on the real "
          "bytetree.Tree vs the structural model."),
    design_ref="DESIGN.md section 4 / C01", note=_DBNOTE + " bytetree is transcribed by hand (tied by stage tree); Tree.bytes and the mutex around removedFor are not modelled.",
    technique="Coq proof (period arithmetic, grouping invariants, get = declared aggregate, store refinement, radix tree = finite map by invariant + refinement, translated tree structure) + real DB and real bytetree vs model differential evaluated by vm_compute")
META["C06"] = dict(
    text=("Theorems (Props/C06.v): each native period lies in exactly one output period (T-P, T] anchored at until, output periods are "
          "disjoint; every accepted in-window point contributes to exactly one output row and the row is built from exactly those "
          "points; re-aggregating merged partial states gives the aggregate of the raw points (AVG recomputed from merged "
          "count/total). Correspondence: grouped queries on the real DB vs the reference."),
    design_ref="DESIGN.md section 4 / C06", note=_DBNOTE,
    technique="Coq proof (period partition, grouping invariants, merge homomorphism) + real DB vs specification model differential")
META["C07"] = dict(
    text=("Theorems (Props/C07.v): a point contributes only if its native period lies in (asOf', until'] and then to the output "
          "period containing it; nothing outside contributes; Truncate keeps exactly the periods in (asOf, until] unchanged; the "
          "default window is (now - retention, now] rounded to the resolution. Correspondence: ASOF/UNTIL queries on the real DB."),
    design_ref="DESIGN.md section 4 / C07", note=_DBNOTE,
    technique="Coq proof (window arithmetic, truncate denotation) + real DB vs specification model differential")
META["C08"] = dict(
    text=("Theorems (Props/C08.v): a query with WHERE equals the same query over only the points whose stored key satisfies the "
          "predicate (rows and groups); the HAVING specification (the HAVING-free result filtered on the output value) keeps exactly the "
          "matching rows, as a subsequence, idempotently, and complementary predicates split the result without loss or overlap. "
          "Correspondence: WHERE queries on the real DB vs the specification model with the predicate evaluated by the real goexpr as an oracle; "
          "HAVING queries vs the filtered HAVING-free query (same fields: no helper column), and IN-subqueries vs IN over the distinct values "
          "the subquery returns on its own (relations between two real queries, evaluated in Coq)."),
    design_ref="DESIGN.md section 4 / C08", note=_DBNOTE + " PARTIAL: FROM-subqueries are exercised only through C11 (cluster plan vs local plan); IN-subqueries returning nil values and HAVING on BOUNDED fields (a validation error by design) are skipped.",
    technique="Coq proof (filter commutes with grouping; HAVING specification lemmas) + real DB vs specification model differential with a goexpr oracle + metamorphic query pairs judged in Coq")

META["C02"] = dict(
    text=("Theorems (Props/C02.v): in the model of one table (synced WAL, reader, row-store goroutine, memstore offsets, filestore header offsets, "
          "offset file) every history of acknowledged inserts, reads, applications, data and offsets-only flushes with kills at any step and "
          "reopenings, followed by catch-up, reflects every row-store insert of every acknowledged passing entry exactly once; while up the table "
          "is always exactly a prefix of the WAL and the directory is always exactly the prefix up to the persisted offset; clean Close/reopen is "
          "the special case; the shipped per-element submission of array values is refuted by a witness trace (repaired in /repo). "
          "The per-source offsets a recovering table resumes from are combined by OffsetsBySource.Advance, modelled structurally (Model/Offsets.v): source by source the later offset, never backwards (C02_offsets_*), tied by stage offs. Correspondence: child processes killed at armed crash points / by SIGKILL / without Close over up to 3 rounds, then per-entry "
          "multiplicities and table rows vs the model."),
    design_ref="DESIGN.md section 4 / C02",
    note=("Flush is one atomic step of the model (rename is the commit point; the crash points before and after it are exercised on the real code). "
          "Not modelled: power loss (no directory fsync), WAL internals, removal of old files, corrupted-file fallback. Known finding: array values are inserted 2n-1 times."),
    technique="Coq proof (inductive invariant tying persisted offsets to persisted rows, over all kill points and histories) + crash-point / SIGKILL enumeration on child processes against the executable model")

META["C03"] = dict(
    text=("Theorems (Props/C03.v): for the row-store model (memstore/filestore, flush with merge, truncation and raw pass-through) two "
          "histories with the same inserts read the same for every key and period whatever flushes separate them; right after a "
          "flush a disk-only reader equals the memstore-inclusive one; merging the two sides of any split of the points gives the "
          "state of all points; the state read is the one accumulated from exactly the points of that key and period. "
          "For the radix tree the merge of file and memstore goes through: Remove hands back exactly the key's data once per context and "
          "changes neither keys nor data (C03_tree_remove, all keys). "
          "fileStore.iterate's use of the tree (Remove every key of the file, then Walk the rest in one context) delivers every key of file and memstore exactly once, each file key with exactly the memstore's data for it (C03_tree_iterate_each_key_once). The row format of the files (Model/RowCodec.v) round-trips: what doWrite writes for a row is what a scan reads back, for every key shorter than 2^16 bytes (C03_row_written_is_row_read), with the write sequence translated from the source on every run. "
          "Correspondence: the real DB under 5 kinds of flush/reopen schedules, all/some fields, memstore on/off after a flush, vs the "
          "schedule-independent reference; scans held against flushes and the remover (stage pin); the real bytetree.Tree vs Model/Tree.v."),
    design_ref="DESIGN.md section 4 / C03", note=_DBNOTE + " The store model covers one column; per-field independence, sorted flushes (emsort) and memory-pressure flushes are covered by correspondence only / not at all respectively.",
    technique="Coq proof (store refinement by induction over operation lists; radix-tree Remove/Walk protocol; row-format round trip with translated write sequence) + real DB under generated schedules, real bytetree and real files vs model")

META["C04"] = dict(
    text=("Theorems (Props/C04.v): in the row-store model a reader is a function of the state (any sequence of reads leaves every later "
          "read unchanged); Truncate yields exactly the periods in range with unchanged values; a probe reads the same before and "
          "after a flush. Correspondence: [probe, Q, probe, flush, probe] rounds on the real DB with Q incl. past-UNTIL ranges, "
          "operand-bytes-unchanged checks on the real Sequence.Truncate/Merge/SubMerge, and probes around queries started while a large "
          "memstore is being flushed (stage flushrace)."),
    design_ref="DESIGN.md section 4 / C04", note=_DBNOTE + " Buffer aliasing inside encoding.Sequence is covered by the byte-level operand check of the correspondence, not by a heap-level theorem (the memstore snapshot's aliasing is: see C18).",
    technique="Coq proof (functional store model, truncate denotation) + probe/query/probe differential on the real DB + operand byte comparison")
META["C17"] = dict(
    text=("Theorem (Props/C17.v): in the model of doProcessIterations every iteration of a coalesced scan is delivered exactly the rows "
          "(projected to its fields) and ends in exactly the status it would have alone, for all field lists, early stops and "
          "failures of the others. Correspondence: concurrent generated queries plus adversaries on the real DB with a coalesce "
          "interval that forces sharing, each compared with its solo result."),
    design_ref="DESIGN.md section 4 / C17", note=_DBNOTE + " Go-level data races inside the shared scan are runtime behaviour outside the model.",
    technique="Coq proof (pointwise simulation of the shared scan by solo scans) + concurrent-vs-solo differential on the real DB")
META["C18"] = dict(
    text=("Theorem (Props/C18.v): in the buffer-level model of the memstore snapshot, after a deep copy no later operation of the live "
          "store (in-place updates of existing periods, new keys, flushes) changes any buffer the snapshot points to; the shipped "
          "shallow copy is refuted by a witness (Proofs/AliasP.v); Tree.Copy of the structural radix-tree model holds exactly the keys and "
          "data of the tree, without removal marks, and a Walk of it reports each of them (C18_tree_copy, C18_tree_copy_walk). "
          "Correspondence: scans on the real DB paused after the k-th row while points are inserted and flushed; scans held against "
          "flushes and the remover of old files (stage pin); queries racing with the application of one multi-value point must see all "
          "of it or none (stage arrsnap); the real bytetree.Tree vs Model/Tree.v."),
    design_ref="DESIGN.md section 4 / C18", note=_DBNOTE + " The file side of the snapshot (a flush replaces the file while the old one is still being read) is covered by the correspondence only.",
    technique="Coq proof (frame invariant over heap regions; Tree.Copy = same finite map without marks) + paused-scan, racing-insert and real-bytetree differentials")

META["C14"] = dict(
    text=("Theorems (Props/C14.v): a point older than clock - retention when processed leaves the state unchanged; the clock is monotone; "
          "above the truncation horizon the row store holds exactly the accumulated state of each period's points (live periods are "
          "never dropped by inserts, flushes, truncation); rewriting a row removes exactly the periods at or before truncateBefore and "
          "keeps the others unchanged; the horizon never exceeds clock - retention and only grows; among any ten consecutive "
          "data-carrying flushes one truncates, and ten is the constant translated from row_store.go on this run; a later point of a "
          "truncated period is too old or sits exactly on the boundary. Correspondence: retention histories on the real DB, one-sided "
          "where the property is one-sided."),
    design_ref="DESIGN.md section 4 / C14", note=_DBNOTE.replace(" Retention is excluded here (C14).", "") + " Real-time clocks and several tables sharing one clock are not modelled.",
    technique="Coq proof (clock/horizon invariants, truncate denotation, store refinement, translated flush constant) + retention-history differential on the real DB")

META["C15"] = dict(
    text=("Theorems (Props/C15.v): an alteration keeps, for every field that keeps its name and expression, the point from which it "
          "aggregates (its history is untouched by permutations, insertions and deletions of other fields); a field with no "
          "counterpart in the previous definition starts empty and sees exactly the points processed since; the new definition has "
          "exactly the new fields in the new order; a new WHERE judges only points processed after the change; accepted points are "
          "never lost; each column is stored across flushes exactly as if it were alone (store refinement). Correspondence: "
          "insert/flush/reopen/ApplySchema histories on the real DB incl. re-adding dropped fields."),
    design_ref="DESIGN.md section 4 / C15", note=_DBNOTE + " The three field layouts in play (file header, rowStore.fields, memstore.fields) are tied by correspondence only.",
    technique="Coq proof (field identity bookkeeping, per-column store refinement) + alteration-history differential on the real DB")

META["C19"] = dict(
    text=("Theorems (Props/C19.v): on the guard tables translated from rpc_server.go and web/*.go on this run, every RPC handler reaching "
          "Query/Follow/RegisterQueryHandler and every web route serving query or cached results checks credentials first; authorize "
          "refuses any caller not presenting the configured password; authenticate serves only the static token or an unexpired session "
          "verified in the organisation, and refuses absent, forged, expired and unverified cookies. The credential lattices include near misses of the right credential (suffix, proper prefix, other case, prepended). Correspondence: the complete "
          "request lattice against the real gRPC server and web handler."),
    design_ref="DESIGN.md section 4 / C19",
    note=("Modelled: the decision functions authorize/authenticate (hand model, tied by the exhaustive lattice) and the handler guard pattern "
          "(translated). Not modelled: TLS, gRPC/HTTP framing, securecookie's cryptography, GitHub's API (stubbed)."),
    technique="Coq proof (decision functions; finite guard tables by vm_compute lifted with forallb_forall) + exhaustive request lattice on the real servers")

META["C16"] = dict(
    text=("Theorems (Props/C16.v): an entry point that recovers maps every inner outcome to a value or an error, never a crash; every "
          "entry point that evaluates client-supplied SQL, dimension expressions or payloads (sql.Parse, planner.Plan, table.insert, "
          "rowStore.safeUpdate, iteration.safeOnValue, mapPartitionRequest) has a recover — checked on the site list translated from "
          "the source on this run; sql.Parse/TableFor no longer assert the statement kind unchecked. A key of 2^16 bytes or more cannot be held by the row format (C16_long_key_unrepresentable) and the guards that refuse it are read from the source on every run (C16_long_keys_refused). Correspondence: hostile SQL and "
          "insert payloads executed in crash-isolating worker processes against the real parser, planner and DB."),
    design_ref="DESIGN.md section 4 / C16",
    note=("PARTIAL by nature: 'all byte strings' is proved only for zenodb's own dispatch structure (recover sites, checked assertion); the "
          "external parser and goexpr are covered by generation only. Modelled: outcome classes; not modelled: what each function computes."),
    technique="Coq proof over translated structural facts (recover sites, checked assertions) + crash-isolated fuzzing of the real entry points")

META["C10"] = dict(
    text=("Theorems (Props/C10.v): routing is a function into [0,P) so every point goes to exactly one partition, leader inclusion and "
          "follower re-check agree, routing depends only on the partition-key values; re-merging the partitions' partial states gives "
          "the state and value of all points for every split; with output groups confined to partitions, each group is held "
          "entirely by the partition its points are routed to and by no other. Queries outside the specification model (FROM-subqueries, HAVING, CROSSTAB, ORDER/LIMIT) are compared cluster against a standalone database (stage shared with C11). Correspondence: in-process clusters answering generated "
          "queries vs the reference, and per-follower contents vs the reference over the points routed there."),
    design_ref="DESIGN.md section 4 / C10", note=_DBNOTE + " murmur3, the leader's parallel map/sort pipeline, follower start-up timers and gRPC are outside the model; only caught-up states are observed.",
    technique="Coq proof (routing function, merge homomorphism over partitions, group confinement) + in-process cluster vs specification model differential")

META["C11"] = dict(
    text=("Theorems (Props/C11.v): for the model of pushdownAllowed (a walk over the nested group-by levels tracking the parameters carried one-to-one) "
          "a query is pushed down whole only when every output group is confined to one partition — for every interpretation honouring goexpr's one-to-one "
          "contract, every routing function of the partition keys and every nesting of FROM-subqueries; crosstab queries and queries over limited/ordered "
          "subqueries are never pushed down; rejection is justified by a witness; under confinement the union of the partitions' answers is the local answer; "
          "re-merging partition-side partial states gives the local state and value for every split. Correspondence: per generated query, rows of the cluster "
          "plan vs rows of the local plan on the same points, and the real planner's choice vs the model's predicate."),
    design_ref="DESIGN.md section 4 / C11",
    note=("PARTIAL: the textual rewrite of planClusterNonPushdown, HAVING/ORDER/LIMIT/CROSSTAB on the leader and subquery execution are validated per generated query against the local plan, not proved. "
          "Known findings (dependencies): bytemap.Get matches key prefixes (GROUP BY _ with CROSSTAB), goexpr reports LEN as one-to-one (pushdown of GROUP BY LEN(partition key))."),
    technique="Coq proof (confinement theorem for the pushdown predicate; merge homomorphism) + per-query translation validation of the cluster plan against the local plan on in-process clusters")

META["C12"] = dict(
    text=("Theorems (Props/C12.v): in the model of the follow protocol (leader reader, per-follower spec offsets and queues, follower-side dedup, "
          "memstore/filestore offsets; faults: clean stop, kill, restart, directory snapshot/restore, link cut, leader restart, adversarial extra "
          "deliveries and reader restarts caused by other tables) every follower of partition p holds, at every quiescent reachable state, exactly the "
          "accepted entries routed to p, each once, in order; redundant followers are identical; the partitions together hold every accepted entry "
          "once; several leaders are independent; the fair schedule reaches quiescence; the one precondition (announced EarliestOffset <= persisted "
          "table offset) is shown necessary by a refuting trace. The offsets a follower announces are combined by OffsetsBySource.Advance (Model/Offsets.v: pointwise the later offset, never backwards; C12_offsets_*; stage offs). Histories include a slow, connected follower behind a short leader-side queue (MaxFollowQueue 2-4). Correspondence: fault histories on in-process clusters vs the model run on the same operations."),
    design_ref="DESIGN.md section 4 / C12",
    note=("Modelled: one table per source in isolation (other tables appear as adversarial extra deliveries). Not modelled: gRPC transport and server.followSource itself (transcribed in the harness shim), "
          "WAL internals, leader WAL loss, MaxFollowAge, MaxFollowQueue back-pressure."),
    technique="Coq proof (inductive invariant over all fault/schedule histories of the follow protocol) + in-process cluster fault-history differential against the executable model")

META["C13"] = dict(
    text=("Theorems (Props/C13.v): in the model of fileStore.iterate under a deadline (file rows, then memstore rows, guard checked after "
          "every row) a scan that reports no error has delivered every row, so every omission is reported — including deadlines that "
          "strike inside the memstore part (the shipped code dropped that error: refuted witness in Proofs/ReportP.v). Correspondence: "
          "deadlines at every placement on the embedded API (alone, and as a member of a shared scan that another member left early), "
          "failing/slow partitions on an in-process cluster, timeouts and size limits on the web API; each outcome must be complete or told."),
    design_ref="DESIGN.md section 4 / C13",
    note=("PARTIAL: the theorem covers the table scan; group/flatten/sort/limit and queryCluster's bookkeeping are tied by the fault-injection "
          "correspondence only. HTTP 200 with Stats.MissingPartitions in the body on a cluster leader counts as told (statistics clause of the property)."),
    technique="Coq proof (scan under a step-counted deadline) + exhaustive fault lattice on the real embedded, cluster and web APIs")

META["C20"] = dict(
    text=("Theorems (Props/C20.v): in the wire model of the expression codec decode(encode e) = e for every expression tree, so the decoded "
          "expression has the same text, width and the same Update/Merge/Get behaviour on all inputs; on the codec table translated from "
          "expr/*.go on this run every registered extension type restores every behaviour-relevant field (hand-written decoders rebuild the "
          "function fields from names). Correspondence: expressions and messages through the real msgpack codec, with the decoded objects "
          "run against the model of the originals; queries and inserts through the real gRPC client/server vs the reference; generated SQL (ORDER BY, LIMIT/OFFSET, HAVING, "
          "groupings with absent dimensions) answered over RPC and in-process must give the same field names and the same rows in the same order."),
    design_ref="DESIGN.md section 4 / C20",
    note=("Modelled: zenodb's use of the codec (which fields travel, how decoders rebuild objects). Not modelled: msgpack/gRPC/snappy themselves, "
          "PERCENTILE states, a follower answering a leader over gRPC (in-process wiring is used for cluster checks)."),
    technique="Coq proof (codec round-trip by structural induction; finite codec table by vm_compute) + decoded-object differential through the real codec and RPC stack")

NOT_APPLICABLE = []
