// srcfacts re-reads /repo's Go sources and prints coq/Gen/Facts.v: the small,
// reliably translatable facts that the Coq model is tied to by Tie/*.v
// (DESIGN.md section 2.2a).  go/parser + go/ast only.
package main

import (
	"flag"
	"fmt"
	"go/ast"
	"go/parser"
	"go/printer"
	"go/token"
	"os"
	"path/filepath"
	"sort"
	"strconv"
	"strings"
)

var (
	repo        = flag.String("repo", "/repo", "repository root")
	fset        = token.NewFileSet()
	out         strings.Builder
	unsupported []string
)

func parse(rel string) *ast.File {
	f, err := parser.ParseFile(fset, filepath.Join(*repo, rel), nil, parser.ParseComments)
	if err != nil {
		fmt.Fprintf(os.Stderr, "srcfacts: %v\n", err)
		os.Exit(1)
	}
	return f
}

// ---------------------------------------------------------------------------
// mini translator: a func literal over bool/float64 parameters whose body is
// a sequence of `if c { return e }` ending in `return e`.
// num = "Z" (aggregate kernels, integer states) or "Q" (calc kernels).
// ---------------------------------------------------------------------------

type tr struct {
	num string
	err error
}

func (t *tr) fail(n ast.Node, what string) string {
	if t.err == nil {
		t.err = fmt.Errorf("%s at %v", what, fset.Position(n.Pos()))
	}
	return "ERR"
}

func (t *tr) numExpr(e ast.Expr) string {
	switch x := e.(type) {
	case *ast.ParenExpr:
		return t.numExpr(x.X)
	case *ast.Ident:
		return x.Name
	case *ast.BasicLit:
		if x.Kind == token.INT {
			return x.Value
		}
		if x.Kind == token.FLOAT {
			if f, err := strconv.ParseFloat(x.Value, 64); err == nil && f == float64(int64(f)) {
				return strconv.FormatInt(int64(f), 10)
			}
		}
		return t.fail(e, "literal")
	case *ast.SelectorExpr:
		if id, ok := x.X.(*ast.Ident); ok && id.Name == "math" && x.Sel.Name == "MaxFloat64" && t.num == "Q" {
			return "maxfloat"
		}
		return t.fail(e, "selector")
	case *ast.BinaryExpr:
		l, r := t.numExpr(x.X), t.numExpr(x.Y)
		switch x.Op {
		case token.ADD:
			return "(" + l + " + " + r + ")"
		case token.SUB:
			return "(" + l + " - " + r + ")"
		case token.MUL:
			return "(" + l + " * " + r + ")"
		case token.QUO:
			if t.num == "Q" {
				return "(" + l + " / " + r + ")"
			}
		}
		return t.fail(e, "numeric operator "+x.Op.String())
	}
	return t.fail(e, "numeric expression")
}

func (t *tr) boolExpr(e ast.Expr) string {
	switch x := e.(type) {
	case *ast.ParenExpr:
		return t.boolExpr(x.X)
	case *ast.Ident:
		return x.Name
	case *ast.UnaryExpr:
		if x.Op == token.NOT {
			return "(negb " + t.boolExpr(x.X) + ")"
		}
	case *ast.BinaryExpr:
		switch x.Op {
		case token.LAND:
			return "(" + t.boolExpr(x.X) + " && " + t.boolExpr(x.Y) + ")"
		case token.LOR:
			return "(" + t.boolExpr(x.X) + " || " + t.boolExpr(x.Y) + ")"
		}
		l, r := t.numExpr(x.X), t.numExpr(x.Y)
		if t.num == "Z" {
			switch x.Op {
			case token.LSS:
				return "(" + l + " <? " + r + ")"
			case token.GTR:
				return "(" + r + " <? " + l + ")"
			case token.LEQ:
				return "(" + l + " <=? " + r + ")"
			case token.GEQ:
				return "(" + r + " <=? " + l + ")"
			case token.EQL:
				return "(" + l + " =? " + r + ")"
			case token.NEQ:
				return "(negb (" + l + " =? " + r + "))"
			}
		} else {
			switch x.Op {
			case token.LSS:
				return "(negb (Qle_bool " + r + " " + l + "))"
			case token.GTR:
				return "(negb (Qle_bool " + l + " " + r + "))"
			case token.LEQ:
				return "(Qle_bool " + l + " " + r + ")"
			case token.GEQ:
				return "(Qle_bool " + r + " " + l + ")"
			case token.EQL:
				return "(Qeq_bool " + l + " " + r + ")"
			case token.NEQ:
				return "(negb (Qeq_bool " + l + " " + r + "))"
			}
		}
	}
	return t.fail(e, "boolean expression")
}

func (t *tr) body(stmts []ast.Stmt, retBool bool) string {
	if len(stmts) == 0 {
		return t.fail(&ast.BadStmt{}, "missing return")
	}
	switch s := stmts[0].(type) {
	case *ast.ReturnStmt:
		if len(s.Results) != 1 {
			return t.fail(s, "return arity")
		}
		if retBool {
			return t.boolExpr(s.Results[0])
		}
		return t.numExpr(s.Results[0])
	case *ast.IfStmt:
		if s.Init != nil || s.Else != nil {
			return t.fail(s, "if with init/else")
		}
		return "(if " + t.boolExpr(s.Cond) + " then " + t.body(s.Body.List, retBool) + " else " + t.body(stmts[1:], retBool) + ")"
	}
	return t.fail(stmts[0], "statement")
}

func params(fn *ast.FuncLit, num string) string {
	var ps []string
	for _, f := range fn.Type.Params.List {
		ty := num
		if id, ok := f.Type.(*ast.Ident); ok && id.Name == "bool" {
			ty = "bool"
		}
		for _, n := range f.Names {
			ps = append(ps, fmt.Sprintf("(%s:%s)", n.Name, ty))
		}
	}
	return strings.Join(ps, " ")
}

func emitKernel(name string, fn *ast.FuncLit, num string, retBool bool) {
	t := &tr{num: num}
	b := t.body(fn.Body.List, retBool)
	if t.err != nil {
		unsupported = append(unsupported, name)
		fmt.Fprintf(&out, "(* %s: outside the translatable subset (%v); tied by correspondence only *)\n", name, t.err)
		return
	}
	ret := num
	if retBool {
		ret = "bool"
	}
	fmt.Fprintf(&out, "Definition %s %s : %s := %s.\n", name, params(fn, num), ret, b)
}

var opNames = map[string]string{"+": "ADD", "-": "SUB", "*": "MUL", "/": "DIV", "<": "LT", "<=": "LTE", "=": "EQ",
	"<>": "NEQ", ">=": "GTE", ">": "GT", "AND": "AND", "OR": "OR"}

func kernels() {
	out.WriteString("\n(* ---- aggregate kernels: expr/aggregates.go, registerAggregate(name, update, merge) ---- *)\n")
	var names []string
	ast.Inspect(parse("expr/aggregates.go"), func(n ast.Node) bool {
		c, ok := n.(*ast.CallExpr)
		if !ok {
			return true
		}
		id, ok := c.Fun.(*ast.Ident)
		if !ok || id.Name != "registerAggregate" || len(c.Args) != 3 {
			return true
		}
		lit, ok := c.Args[0].(*ast.BasicLit)
		if !ok {
			return true
		}
		name, _ := strconv.Unquote(lit.Value)
		names = append(names, name)
		if fn, ok := c.Args[1].(*ast.FuncLit); ok {
			emitKernel("gen_update_"+name, fn, "Z", false)
		} else {
			unsupported = append(unsupported, "gen_update_"+name)
		}
		if fn, ok := c.Args[2].(*ast.FuncLit); ok {
			emitKernel("gen_merge_"+name, fn, "Z", false)
		} else {
			unsupported = append(unsupported, "gen_merge_"+name)
		}
		return true
	})
	fmt.Fprintf(&out, "Definition gen_aggregates : list string := [%s].\n", quoteList(names))

	out.WriteString("\n(* ---- binary calc kernels: expr/calcs.go registerBinaryExpr; expr/conds.go registerCond ---- *)\n")
	var ops []string
	for _, file := range []string{"expr/calcs.go", "expr/conds.go"} {
		ast.Inspect(parse(file), func(n ast.Node) bool {
			c, ok := n.(*ast.CallExpr)
			if !ok {
				return true
			}
			id, ok := c.Fun.(*ast.Ident)
			if !ok || (id.Name != "registerBinaryExpr" && id.Name != "registerCond") || len(c.Args) != 2 {
				return true
			}
			lit, ok := c.Args[0].(*ast.BasicLit)
			if !ok {
				return true // the generic registerBinaryExpr(cond, ...) inside registerCond
			}
			op, _ := strconv.Unquote(lit.Value)
			nm, known := opNames[op]
			if !known {
				nm = "OP" + strconv.Itoa(len(ops))
			}
			ops = append(ops, op)
			fn, ok := c.Args[1].(*ast.FuncLit)
			if !ok {
				unsupported = append(unsupported, "gen_calc_"+nm)
				return true
			}
			if id.Name == "registerCond" {
				emitKernel("gen_cond_"+nm, fn, "Q", true)
			} else {
				emitKernel("gen_calc_"+nm, fn, "Q", false)
			}
			return true
		})
	}
	fmt.Fprintf(&out, "Definition gen_binary_ops : list string := [%s].\n", quoteList(ops))
}

func quoteList(xs []string) string {
	q := make([]string, len(xs))
	for i, x := range xs {
		q[i] = strconv.Quote(x)
	}
	return strings.Join(q, "; ")
}

var sections []func()

// ---------------------------------------------------------------------------
// codec table (C20): msgpack extension types of package expr
// ---------------------------------------------------------------------------

func codecTable() {
	out.WriteString("\n(* ---- codec table: expr/expr.go msgpack.RegisterExt, struct fields, custom decoders ---- *)\n")
	matches, _ := filepath.Glob(filepath.Join(*repo, "expr", "*.go"))
	sort.Strings(matches)
	structs := map[string]*ast.StructType{}
	decoders := map[string]*ast.FuncDecl{}
	encoders := map[string]bool{}
	type reg struct {
		id  string
		typ string
	}
	var regs []reg
	for _, m := range matches {
		if strings.HasSuffix(m, "_test.go") {
			continue
		}
		rel, _ := filepath.Rel(*repo, m)
		f := parse(rel)
		ast.Inspect(f, func(n ast.Node) bool {
			switch x := n.(type) {
			case *ast.TypeSpec:
				if st, ok := x.Type.(*ast.StructType); ok {
					structs[x.Name.Name] = st
				}
			case *ast.FuncDecl:
				if x.Recv != nil && len(x.Recv.List) == 1 {
					if star, ok := x.Recv.List[0].Type.(*ast.StarExpr); ok {
						if id, ok := star.X.(*ast.Ident); ok {
							if x.Name.Name == "DecodeMsgpack" {
								decoders[id.Name] = x
							}
							if x.Name.Name == "EncodeMsgpack" {
								encoders[id.Name] = true
							}
						}
					}
				}
			case *ast.CallExpr:
				if selectorPath(x.Fun) == "msgpack.RegisterExt" && len(x.Args) == 2 {
					if lit, ok := x.Args[0].(*ast.BasicLit); ok {
						if u, ok := x.Args[1].(*ast.UnaryExpr); ok {
							if cl, ok := u.X.(*ast.CompositeLit); ok {
								if id, ok := cl.Type.(*ast.Ident); ok {
									regs = append(regs, reg{lit.Value, id.Name})
								}
							}
						}
					}
				}
			}
			return true
		})
	}
	var rows []string
	for _, r := range regs {
		st := structs[r.typ]
		var exported, unexported []string
		if st != nil {
			for _, fl := range st.Fields.List {
				if len(fl.Names) == 0 {
					// embedded field
					unexported = append(unexported, "embedded:"+selectorPath(fl.Type))
					continue
				}
				for _, n := range fl.Names {
					if ast.IsExported(n.Name) {
						exported = append(exported, n.Name)
					} else {
						unexported = append(unexported, n.Name)
					}
				}
			}
		}
		var assigned []string
		custom := false
		if d := decoders[r.typ]; d != nil {
			custom = true
			seen := map[string]bool{}
			ast.Inspect(d.Body, func(n ast.Node) bool {
				switch x := n.(type) {
				case *ast.AssignStmt:
					for _, l := range x.Lhs {
						p := selectorPath(l)
						if strings.HasPrefix(p, "e.") && !seen[p] {
							seen[p] = true
							assigned = append(assigned, strings.TrimPrefix(p, "e."))
						}
					}
				case *ast.UnaryExpr:
					// dec.Decode(&e.x, ...)
					if x.Op == token.AND {
						p := selectorPath(x.X)
						if strings.HasPrefix(p, "e.") && !seen[p] {
							seen[p] = true
							assigned = append(assigned, strings.TrimPrefix(p, "e."))
						}
					}
				}
				return true
			})
		}
		rows = append(rows, fmt.Sprintf("(%s, (%s, (%v, (%v, (%s, (%s, %s))))))", r.id, strconv.Quote(r.typ), custom, encoders[r.typ], quoteStrs(exported), quoteStrs(unexported), quoteStrs(assigned)))
	}
	fmt.Fprintf(&out, "Definition gen_codec : list (Z * (string * (bool * (bool * (list string * (list string * list string)))))) := [\n  %s].\n", strings.Join(rows, ";\n  "))
}

func init() { sections = append(sections, codecTable) }

// ---------------------------------------------------------------------------
// robustness facts (C16): recover() at entry points, checked statement-kind assertions
// ---------------------------------------------------------------------------

func hasRecoverDefer(body *ast.BlockStmt) bool {
	if body == nil {
		return false
	}
	for i, st := range body.List {
		if i > 3 {
			break
		}
		d, ok := st.(*ast.DeferStmt)
		if !ok {
			continue
		}
		fl, ok := d.Call.Fun.(*ast.FuncLit)
		if !ok {
			continue
		}
		found := false
		ast.Inspect(fl.Body, func(n ast.Node) bool {
			if c, ok := n.(*ast.CallExpr); ok {
				if id, ok := c.Fun.(*ast.Ident); ok && id.Name == "recover" {
					found = true
				}
			}
			return true
		})
		if found {
			return true
		}
	}
	return false
}

func robustnessFacts() {
	out.WriteString("\n(* ---- robustness facts ---- *)\n")
	var sites []string
	for _, rel := range []string{"sql/sql.go", "planner/planner.go", "insert.go", "table.go", "cluster_follow.go", "row_store.go"} {
		f := parse(rel)
		pkg := f.Name.Name
		for _, d := range f.Decls {
			fd, ok := d.(*ast.FuncDecl)
			if !ok || !hasRecoverDefer(fd.Body) {
				continue
			}
			name := pkg + "."
			if fd.Recv != nil && len(fd.Recv.List) == 1 {
				t := fd.Recv.List[0].Type
				if st, ok := t.(*ast.StarExpr); ok {
					t = st.X
				}
				if id, ok := t.(*ast.Ident); ok {
					name += id.Name + "."
				}
			}
			sites = append(sites, name+fd.Name.Name)
		}
	}
	sort.Strings(sites)
	fmt.Fprintf(&out, "Definition gen_recover_sites : list string := [%s].\n", quoteList(sites))

	// unchecked x.(*sqlparser.Select) in sql.Parse / sql.TableFor
	unchecked := 0
	f := parse("sql/sql.go")
	for _, d := range f.Decls {
		fd, ok := d.(*ast.FuncDecl)
		if !ok || (fd.Name.Name != "Parse" && fd.Name.Name != "TableFor") || fd.Recv != nil {
			continue
		}
		checked := map[ast.Node]bool{}
		ast.Inspect(fd.Body, func(n ast.Node) bool {
			if as, ok := n.(*ast.AssignStmt); ok && len(as.Lhs) == 2 && len(as.Rhs) == 1 {
				if ta, ok := as.Rhs[0].(*ast.TypeAssertExpr); ok {
					checked[ta] = true
				}
			}
			return true
		})
		ast.Inspect(fd.Body, func(n ast.Node) bool {
			if ta, ok := n.(*ast.TypeAssertExpr); ok && !checked[ta] && ta.Type != nil {
				if selectorPath(ta.Type) == "?" {
					if st, ok := ta.Type.(*ast.StarExpr); ok && selectorPath(st.X) == "sqlparser.Select" {
						unchecked++
					}
				}
			}
			return true
		})
	}
	fmt.Fprintf(&out, "Definition gen_unchecked_select_assertions : Z := %d.\n", unchecked)
}

func init() { sections = append(sections, robustnessFacts) }

// ---------------------------------------------------------------------------
// guard tables (C19): which RPC handlers / web routes authenticate before touching data
// ---------------------------------------------------------------------------

func selectorPath(e ast.Expr) string {
	switch x := e.(type) {
	case *ast.Ident:
		return x.Name
	case *ast.SelectorExpr:
		return selectorPath(x.X) + "." + x.Sel.Name
	}
	return "?"
}

// callsIn returns the dotted paths of all calls in n, in source order, with their positions.
func callsIn(n ast.Node) (paths []string, poss []token.Pos) {
	ast.Inspect(n, func(m ast.Node) bool {
		if c, ok := m.(*ast.CallExpr); ok {
			paths = append(paths, selectorPath(c.Fun))
			poss = append(poss, c.Pos())
		}
		return true
	})
	return
}

func returnsInBody(b *ast.BlockStmt) bool {
	for _, st := range b.List {
		if _, ok := st.(*ast.ReturnStmt); ok {
			return true
		}
	}
	return false
}

// guardedBy reports whether the function body starts by calling `guard` and returning when it
// fails, before any call whose path starts with one of `sensitive`.
func guardedBy(body *ast.BlockStmt, guard string, negated bool, sensitive []string) bool {
	if len(body.List) == 0 {
		return false
	}
	checkIf := func(ifs *ast.IfStmt) bool { return returnsInBody(ifs.Body) }
	first := body.List[0]
	ok := false
	switch st := first.(type) {
	case *ast.IfStmt:
		paths, _ := callsIn(st.Cond)
		if st.Init != nil {
			p2, _ := callsIn(st.Init)
			paths = append(paths, p2...)
		}
		for _, p := range paths {
			if p == guard {
				ok = checkIf(st)
			}
		}
	case *ast.AssignStmt:
		paths, _ := callsIn(st)
		for _, p := range paths {
			if p == guard && len(body.List) > 1 {
				if ifs, isIf := body.List[1].(*ast.IfStmt); isIf {
					ok = checkIf(ifs)
				}
			}
		}
	}
	return ok
}

func quoteStrs(xs []string) string { return "[" + quoteList(xs) + "]" }

func guardTables() {
	out.WriteString("\n(* ---- guard tables: rpc/server/rpc_server.go and web/*.go ---- *)\n")
	// RPC handlers
	f := parse("rpc/server/rpc_server.go")
	var rows []string
	for _, d := range f.Decls {
		fd, ok := d.(*ast.FuncDecl)
		if !ok || fd.Recv == nil || len(fd.Recv.List) != 1 {
			continue
		}
		star, ok := fd.Recv.List[0].Type.(*ast.StarExpr)
		if !ok {
			continue
		}
		if id, ok := star.X.(*ast.Ident); !ok || id.Name != "server" {
			continue
		}
		if !ast.IsExported(fd.Name.Name) {
			continue
		}
		paths, _ := callsIn(fd.Body)
		var dbm []string
		seen := map[string]bool{}
		for _, p := range paths {
			if strings.HasPrefix(p, "s.db.") && !seen[p] {
				seen[p] = true
				dbm = append(dbm, strings.TrimPrefix(p, "s.db."))
			}
		}
		g := guardedBy(fd.Body, "s.authorize", false, nil)
		rows = append(rows, fmt.Sprintf("(%s, (%v, %s))", strconv.Quote(fd.Name.Name), g, quoteStrs(dbm)))
	}
	fmt.Fprintf(&out, "Definition gen_rpc_handlers : list (string * (bool * list string)) := [%s].\n", strings.Join(rows, "; "))

	// web handlers: methods of *handler in web/*.go
	methods := map[string]*ast.FuncDecl{}
	matches, _ := filepath.Glob(filepath.Join(*repo, "web", "*.go"))
	sort.Strings(matches)
	var configure *ast.FuncDecl
	for _, m := range matches {
		if strings.HasSuffix(m, "_test.go") {
			continue
		}
		rel, _ := filepath.Rel(*repo, m)
		wf := parse(rel)
		for _, d := range wf.Decls {
			fd, ok := d.(*ast.FuncDecl)
			if !ok {
				continue
			}
			if fd.Recv == nil && fd.Name.Name == "Configure" {
				configure = fd
			}
			if fd.Recv != nil && len(fd.Recv.List) == 1 {
				if star, ok := fd.Recv.List[0].Type.(*ast.StarExpr); ok {
					if id, ok := star.X.(*ast.Ident); ok && id.Name == "handler" {
						methods[fd.Name.Name] = fd
					}
				}
			}
		}
	}
	var guarded func(name string, depth int) bool
	guarded = func(name string, depth int) bool {
		fd := methods[name]
		if fd == nil || depth > 4 || fd.Body == nil || len(fd.Body.List) == 0 {
			return false
		}
		if guardedBy(fd.Body, "h.authenticate", true, nil) {
			return true
		}
		// a handler that only delegates: its first statement is a call h.X(...)
		if es, ok := fd.Body.List[0].(*ast.ExprStmt); ok {
			if c, ok := es.X.(*ast.CallExpr); ok {
				p := selectorPath(c.Fun)
				if strings.HasPrefix(p, "h.") && strings.Count(p, ".") == 1 {
					return guarded(strings.TrimPrefix(p, "h."), depth+1)
				}
			}
		}
		return false
	}
	var reaches func(name string, depth int, acc map[string]bool)
	reaches = func(name string, depth int, acc map[string]bool) {
		fd := methods[name]
		if fd == nil || depth > 5 || fd.Body == nil {
			return
		}
		paths, _ := callsIn(fd.Body)
		for _, p := range paths {
			if !strings.HasPrefix(p, "h.") || acc[p] {
				continue
			}
			acc[p] = true
			if strings.Count(p, ".") == 1 {
				reaches(strings.TrimPrefix(p, "h."), depth+1, acc)
			}
		}
	}
	var routes []string
	if configure != nil {
		ast.Inspect(configure.Body, func(n ast.Node) bool {
			c, ok := n.(*ast.CallExpr)
			if !ok {
				return true
			}
			sel, ok := c.Fun.(*ast.SelectorExpr)
			if !ok || (sel.Sel.Name != "HandleFunc" && sel.Sel.Name != "HandlerFunc") || len(c.Args) == 0 {
				return true
			}
			hsel, ok := c.Args[len(c.Args)-1].(*ast.SelectorExpr)
			if !ok {
				return true
			}
			path := "?"
			if sel.Sel.Name == "HandleFunc" && len(c.Args) == 2 {
				if l, ok := c.Args[0].(*ast.BasicLit); ok {
					path, _ = strconv.Unquote(l.Value)
				}
			} else if inner, ok := sel.X.(*ast.CallExpr); ok && len(inner.Args) == 1 {
				if l, ok := inner.Args[0].(*ast.BasicLit); ok {
					path, _ = strconv.Unquote(l.Value)
				}
			}
			name := hsel.Sel.Name
			acc := map[string]bool{}
			reaches(name, 0, acc)
			var rs []string
			for p := range acc {
				rs = append(rs, p)
			}
			sort.Strings(rs)
			routes = append(routes, fmt.Sprintf("(%s, (%s, (%v, %s)))", strconv.Quote(path), strconv.Quote(name), guarded(name, 0), quoteStrs(rs)))
			return true
		})
	}
	fmt.Fprintf(&out, "Definition gen_web_routes : list (string * (string * (bool * list string))) := [\n  %s].\n", strings.Join(routes, ";\n  "))
}

func init() { sections = append(sections, guardTables) }

// constants of the flush protocol: `disallowRaw := rs.flushCount%10 == 9` in row_store.go
func protocolConstants() {
	out.WriteString("\n(* ---- protocol constants ---- *)\n")
	every, rem := "", ""
	ast.Inspect(parse("row_store.go"), func(n ast.Node) bool {
		as, ok := n.(*ast.AssignStmt)
		if !ok || len(as.Lhs) != 1 || len(as.Rhs) != 1 {
			return true
		}
		id, ok := as.Lhs[0].(*ast.Ident)
		if !ok || id.Name != "disallowRaw" {
			return true
		}
		cmp, ok := as.Rhs[0].(*ast.BinaryExpr)
		if !ok || cmp.Op != token.EQL {
			return true
		}
		mod, ok := cmp.X.(*ast.BinaryExpr)
		if !ok || mod.Op != token.REM {
			return true
		}
		if l, ok := mod.Y.(*ast.BasicLit); ok {
			every = l.Value
		}
		if l, ok := cmp.Y.(*ast.BasicLit); ok {
			rem = l.Value
		}
		return true
	})
	if every == "" || rem == "" {
		unsupported = append(unsupported, "gen_truncate_every")
		every, rem = "0", "0"
	}
	fmt.Fprintf(&out, "Definition gen_truncate_every : Z := %s.\nDefinition gen_truncate_rem : Z := %s.\n", every, rem)
}

func init() { sections = append(sections, protocolConstants) }

// ---------------------------------------------------------------------------
// flush / offset-file / insert submission protocol (C02): the order of the durable steps
// ---------------------------------------------------------------------------

func funcDecl(f *ast.File, recv, name string) *ast.FuncDecl {
	for _, d := range f.Decls {
		fd, ok := d.(*ast.FuncDecl)
		if !ok || fd.Name.Name != name || fd.Body == nil {
			continue
		}
		r := ""
		if fd.Recv != nil && len(fd.Recv.List) == 1 {
			switch t := fd.Recv.List[0].Type.(type) {
			case *ast.StarExpr:
				if id, ok := t.X.(*ast.Ident); ok {
					r = id.Name
				}
			case *ast.Ident:
				r = t.Name
			}
		}
		if r == recv {
			return fd
		}
	}
	return nil
}

// orderedSteps lists, in source order, the calls and assignments of body that appear in `calls` / `assigns`,
// skipping deferred statements and function literals.
func orderedSteps(body *ast.BlockStmt, calls map[string]string, assigns map[string]string) []string {
	var steps []string
	ast.Inspect(body, func(n ast.Node) bool {
		switch x := n.(type) {
		case *ast.DeferStmt, *ast.FuncLit:
			return false
		case *ast.AssignStmt:
			for _, l := range x.Lhs {
				if name, ok := assigns[selectorPath(l)]; ok {
					steps = append(steps, name)
				}
			}
		case *ast.CallExpr:
			if name, ok := calls[selectorPath(x.Fun)]; ok {
				steps = append(steps, name)
			}
		}
		return true
	})
	return steps
}

// callsInLoops reports, for every call of `path` in body, whether it sits inside a for/range statement.
func callsInLoops(body *ast.BlockStmt, path string) []bool {
	var res []bool
	var walk func(n ast.Node, inLoop bool)
	walk = func(n ast.Node, inLoop bool) {
		ast.Inspect(n, func(m ast.Node) bool {
			if m == n {
				return true
			}
			switch x := m.(type) {
			case *ast.ForStmt:
				walk(x.Body, true)
				return false
			case *ast.RangeStmt:
				walk(x.Body, true)
				return false
			case *ast.CallExpr:
				if selectorPath(x.Fun) == path {
					res = append(res, inLoop)
				}
			}
			return true
		})
	}
	walk(body, false)
	return res
}

func flushProtocolFacts() {
	out.WriteString("\n(* ---- flush / offset-file / insert submission protocol: row_store.go, insert.go ---- *)\n")
	rsf := parse("row_store.go")
	flushSteps, offSteps := []string{}, []string{}
	if fd := funcDecl(rsf, "rowStore", "doProcessFlush"); fd != nil {
		flushSteps = orderedSteps(fd.Body, map[string]string{"fs.flush": "write", "out.Sync": "sync", "out.Close": "close", "os.Rename": "rename"},
			map[string]string{"rs.fileStore": "swap_file", "rs.memStore": "swap_mem"})
	} else {
		unsupported = append(unsupported, "gen_flush_steps")
	}
	if fd := funcDecl(rsf, "rowStore", "writeOffsets"); fd != nil {
		offSteps = orderedSteps(fd.Body, map[string]string{"rs.t.writeOffsets": "write", "out.Sync": "sync", "out.Close": "close", "os.Rename": "rename"}, nil)
	} else {
		unsupported = append(unsupported, "gen_offsets_steps")
	}
	fmt.Fprintf(&out, "Definition gen_flush_steps : list string := %s.\n", quoteStrs(flushSteps))
	fmt.Fprintf(&out, "Definition gen_offsets_steps : list string := %s.\n", quoteStrs(offSteps))
	// table.doInsert: how the row-store inserts of one point are submitted (one call outside any loop = atomically)
	var subs []string
	if fd := funcDecl(parse("insert.go"), "table", "doInsert"); fd != nil {
		for _, inLoop := range callsInLoops(fd.Body, "t.rowStore.insert") {
			if inLoop {
				subs = append(subs, "in_loop")
			} else {
				subs = append(subs, "once")
			}
		}
	} else {
		unsupported = append(unsupported, "gen_point_submissions")
	}
	fmt.Fprintf(&out, "Definition gen_point_submissions : list string := %s.\n", quoteStrs(subs))
}

func init() { sections = append(sections, flushProtocolFacts) }

// iterateFacts: the order of locking, capturing, registering and reading in rowStore.iterate (C03, C18: Model/Pin.v).
func iterateFacts() {
	out.WriteString("\n(* ---- rowStore.iterate: critical sections around capturing the file store and registering on it: row_store.go ---- *)\n")
	steps := []string{}
	if fd := funcDecl(parse("row_store.go"), "rowStore", "iterate"); fd != nil {
		calls := map[string]string{"rs.mx.RLock": "rlock", "rs.mx.RUnlock": "runlock", "rs.mx.Lock": "lock", "rs.mx.Unlock": "unlock",
			"rs.memStore.copy": "copy_mem", "fs.iterate": "read"}
		ast.Inspect(fd.Body, func(n ast.Node) bool {
			switch x := n.(type) {
			case *ast.DeferStmt, *ast.FuncLit:
				return false
			case *ast.AssignStmt:
				for _, r := range x.Rhs {
					if selectorPath(r) == "rs.fileStore" {
						steps = append(steps, "capture")
					}
				}
			case *ast.IncDecStmt:
				if ix, ok := x.X.(*ast.IndexExpr); ok && selectorPath(ix.X) == "rs.iterationsInProgress" && x.Tok == token.INC {
					steps = append(steps, "pin")
				}
			case *ast.CallExpr:
				if name, ok := calls[selectorPath(x.Fun)]; ok {
					steps = append(steps, name)
				}
			}
			return true
		})
	} else {
		unsupported = append(unsupported, "gen_iterate_steps")
	}
	fmt.Fprintf(&out, "Definition gen_iterate_steps : list string := %s.\n", quoteStrs(steps))
}

func init() { sections = append(sections, iterateFacts) }

// classifyPath says how a file-name expression is built: joined to the table directory, or a bare directory entry name.
func classifyPath(e ast.Expr) string {
	if c, ok := e.(*ast.CallExpr); ok {
		switch selectorPath(c.Fun) {
		case "filepath.Join":
			if len(c.Args) > 0 && (selectorPath(c.Args[0]) == "rs.opts.dir" || selectorPath(c.Args[0]) == "opts.dir") {
				return "dir_joined"
			}
			return "joined_other"
		}
		if sel, ok := c.Fun.(*ast.SelectorExpr); ok && sel.Sel.Name == "Name" {
			return "base_name"
		}
	}
	if b, ok := e.(*ast.BasicLit); ok && b.Value == `""` {
		return "empty"
	}
	return "other"
}

// definitionsOf collects how the identifier `name` is assigned anywhere in body.
func definitionsOf(body *ast.BlockStmt, name string) []string {
	var res []string
	ast.Inspect(body, func(n ast.Node) bool {
		if a, ok := n.(*ast.AssignStmt); ok && len(a.Lhs) == len(a.Rhs) {
			for i, l := range a.Lhs {
				if id, ok := l.(*ast.Ident); ok && id.Name == name {
					res = append(res, classifyPath(a.Rhs[i]))
				}
			}
		}
		return true
	})
	return res
}

// readerKeyFacts: under which key scans register on a file store and under which key the remover looks readers up (Model/Pin.v: removable).
func readerKeyFacts() {
	out.WriteString("\n(* ---- iterationsInProgress: key used by rowStore.iterate, key used by removeOldFiles, how file store names are built ---- *)\n")
	rsf := parse("row_store.go")
	keyOf := func(fn string) (ast.Expr, *ast.FuncDecl) {
		fd := funcDecl(rsf, "rowStore", fn)
		if fd == nil {
			return nil, nil
		}
		var key ast.Expr
		ast.Inspect(fd.Body, func(n ast.Node) bool {
			if ix, ok := n.(*ast.IndexExpr); ok && selectorPath(ix.X) == "rs.iterationsInProgress" && key == nil {
				key = ix.Index
			}
			return true
		})
		return key, fd
	}
	pinKey, removerKey := "missing", []string{"missing"}
	if k, _ := keyOf("iterate"); k != nil {
		pinKey = selectorPath(k)
	}
	if k, fd := keyOf("removeOldFiles"); k != nil {
		if id, ok := k.(*ast.Ident); ok {
			removerKey = definitionsOf(fd.Body, id.Name)
		} else {
			removerKey = []string{classifyPath(k)}
		}
	}
	// every place a fileStore gets its filename
	var names []string
	ast.Inspect(rsf, func(n ast.Node) bool {
		fd, ok := n.(*ast.FuncDecl)
		if !ok || fd.Body == nil {
			return true
		}
		ast.Inspect(fd.Body, func(m ast.Node) bool {
			cl, ok := m.(*ast.CompositeLit)
			if !ok {
				return true
			}
			if id, ok := cl.Type.(*ast.Ident); !ok || id.Name != "fileStore" {
				return true
			}
			var fe ast.Expr
			for i, el := range cl.Elts {
				if kv, ok := el.(*ast.KeyValueExpr); ok {
					if id, ok := kv.Key.(*ast.Ident); ok && id.Name == "filename" {
						fe = kv.Value
					}
				} else if i == 3 { // positional: t, rs, fields, filename
					fe = el
				}
			}
			if id, ok := fe.(*ast.Ident); ok {
				for _, d := range definitionsOf(fd.Body, id.Name) {
					if d != "empty" {
						names = append(names, d)
					}
				}
			} else if fe != nil {
				names = append(names, classifyPath(fe))
			}
			return true
		})
		return false
	})
	fmt.Fprintf(&out, "Definition gen_pin_key : string := %q.\n", pinKey)
	fmt.Fprintf(&out, "Definition gen_remover_key : list string := %s.\n", quoteStrs(removerKey))
	fmt.Fprintf(&out, "Definition gen_filestore_names : list string := %s.\n", quoteStrs(names))
}

func init() { sections = append(sections, readerKeyFacts) }

func main() {
	flag.Parse()
	out.WriteString("(* GENERATED by /verif/harness/cmd/srcfacts from /repo on every run. Do not edit. *)\n")
	out.WriteString("From Coq Require Import List ZArith QArith Bool String.\nImport ListNotations.\nOpen Scope string_scope.\nOpen Scope Z_scope.\n")
	out.WriteString("Definition maxfloat : Q := (179769313486231570814527423731704356798070567525844996598917476803157260780028538760589558632766878171540458953514382464234321326889464182768467546703537516986049910576551282076245490090389328944075868508455133942304583236903222948165808559332123348274797826204144723168738177180919299881250404026184124858368 # 1).\n")
	out.WriteString("Section ZKernels.\nOpen Scope Z_scope.\n")
	// Z-typed kernels are emitted first, Q-typed ones in their own scope below
	kernelsSplit()
	for _, s := range sections {
		s()
	}
	sort.Strings(unsupported)
	fmt.Fprintf(&out, "\nDefinition gen_unsupported : list string := [%s].\n", quoteList(unsupported))
	fmt.Print(out.String())
}

// kernelsSplit emits the Z kernels inside Z_scope and the Q kernels inside Q_scope.
func kernelsSplit() {
	var all strings.Builder
	saved := out
	out = strings.Builder{}
	kernels()
	text := out.String()
	out = saved
	// split at the calc header
	idx := strings.Index(text, "\n(* ---- binary calc kernels")
	all.WriteString(text[:idx])
	all.WriteString("\nEnd ZKernels.\nSection QKernels.\nOpen Scope Q_scope.\n")
	all.WriteString(text[idx:])
	all.WriteString("End QKernels.\n")
	out.WriteString(all.String())
}

// ---------------------------------------------------------------------------
// bytetree: the branch structure of the edge loops of Tree.doUpdate and Tree.Remove, what the exact-match branch
// and edge.split do with the node's key, and the queue discipline of Walk (Model/Tree.v transcribes these by hand).
// ---------------------------------------------------------------------------
func exprText(e ast.Expr) string {
	var b strings.Builder
	printer.Fprint(&b, fset, e)
	return strings.Join(strings.Fields(b.String()), " ")
}

// branchAction names what the body of one branch of the edge loop does.
func branchAction(b *ast.BlockStmt) string {
	act := "other"
	ast.Inspect(b, func(n ast.Node) bool {
		switch x := n.(type) {
		case *ast.CallExpr:
			switch p := selectorPath(x.Fun); {
			case strings.HasSuffix(p, ".doUpdate"):
				act = "set"
			case strings.HasSuffix(p, ".split"):
				act = "split"
			case strings.HasSuffix(p, ".doRemoveFor"):
				act = "found"
			}
		case *ast.BranchStmt:
			if x.Tok == token.CONTINUE && act == "other" {
				act = "descend"
			}
		}
		return true
	})
	return act
}

// edgeLoopBranches returns the (condition, action) chain of the if / else-if statement inside `for _, edge := range n.edges`
// and what follows the loop ("append" = a new edge is appended to n.edges, "none" = return nil).
func edgeLoopBranches(fd *ast.FuncDecl) (branches [][2]string, after string, ok bool) {
	var loop *ast.RangeStmt
	var outer *ast.ForStmt
	ast.Inspect(fd.Body, func(n ast.Node) bool {
		switch x := n.(type) {
		case *ast.ForStmt:
			if outer == nil {
				outer = x
			}
		case *ast.RangeStmt:
			if loop == nil && selectorPath(x.X) == "n.edges" {
				loop = x
			}
		}
		return true
	})
	if loop == nil || outer == nil {
		return nil, "", false
	}
	for _, st := range loop.Body.List {
		ifs, isIf := st.(*ast.IfStmt)
		for isIf && ifs != nil {
			branches = append(branches, [2]string{exprText(ifs.Cond), branchAction(ifs.Body)})
			next, more := ifs.Else.(*ast.IfStmt)
			if !more {
				if ifs.Else != nil {
					branches = append(branches, [2]string{"else", branchAction(ifs.Else.(*ast.BlockStmt))})
				}
				break
			}
			ifs = next
		}
	}
	after = "none"
	seenLoop := false
	for _, st := range outer.Body.List {
		if st == ast.Stmt(loop) {
			seenLoop = true
			continue
		}
		if !seenLoop {
			continue
		}
		ast.Inspect(st, func(n ast.Node) bool {
			if c, isCall := n.(*ast.CallExpr); isCall {
				if id, isId := c.Fun.(*ast.Ident); isId && id.Name == "append" && len(c.Args) > 0 && selectorPath(c.Args[0]) == "n.edges" {
					after = "append"
				}
			}
			return true
		})
	}
	return branches, after, true
}

func pairList(bs [][2]string) string {
	items := make([]string, len(bs))
	for i, b := range bs {
		items[i] = fmt.Sprintf("(%q, %q)", b[0], b[1])
	}
	return "[" + strings.Join(items, "; ") + "]"
}

func bytetreeFacts() {
	out.WriteString("\n(* ---- bytetree: edge loops of Tree.doUpdate / Tree.Remove, key assignment, Walk's queue: bytetree/bytetree.go ---- *)\n")
	f := parse("bytetree/bytetree.go")
	for _, fn := range []struct{ name, def string }{{"doUpdate", "gen_tree_update"}, {"Remove", "gen_tree_remove"}} {
		var bs [][2]string
		after := "?"
		if fd := funcDecl(f, "Tree", fn.name); fd != nil {
			if b, a, ok := edgeLoopBranches(fd); ok {
				bs, after = b, a
			} else {
				unsupported = append(unsupported, fn.def)
			}
		} else {
			unsupported = append(unsupported, fn.def)
		}
		fmt.Fprintf(&out, "Definition %s_branches : list (string * string) := %s.\nDefinition %s_after : string := %q.\n", fn.def, pairList(bs), fn.def, after)
	}
	// the exact-match branch of doUpdate: does a node without data take the key, and is that what it reports as "new"?
	takesKey, reportsNew := false, false
	if fd := funcDecl(f, "Tree", "doUpdate"); fd != nil {
		ast.Inspect(fd.Body, func(n ast.Node) bool {
			if ifs, ok := n.(*ast.IfStmt); ok {
				cond := exprText(ifs.Cond)
				for _, st := range ifs.Body.List {
					if as, ok := st.(*ast.AssignStmt); ok && len(as.Lhs) == 1 && strings.HasSuffix(selectorPath(as.Lhs[0]), ".key") && exprText(as.Rhs[0]) == "fullKey" {
						// the guard must be the variable defined as `<x>.data == nil`
						ast.Inspect(fd.Body, func(m ast.Node) bool {
							if d, ok := m.(*ast.AssignStmt); ok && d.Tok == token.DEFINE && len(d.Lhs) == 1 && exprText(d.Lhs[0]) == cond &&
								strings.HasSuffix(exprText(d.Rhs[0]), ".data == nil") {
								takesKey = true
							}
							if r, ok := m.(*ast.ReturnStmt); ok && len(r.Results) == 2 && exprText(r.Results[1]) == cond {
								reportsNew = true
							}
							return true
						})
					}
				}
			}
			return true
		})
	}
	fmt.Fprintf(&out, "Definition gen_tree_exact_takes_key : bool := %v.\nDefinition gen_tree_exact_reports_new : bool := %v.\n", takesKey, reportsNew)
	// edge.split: the split node takes the key exactly when the key ends at the split point
	splitCond, splitElseKey := "", false
	if fd := funcDecl(f, "edge", "split"); fd != nil {
		for _, st := range fd.Body.List {
			if ifs, ok := st.(*ast.IfStmt); ok && splitCond == "" {
				splitCond = exprText(ifs.Cond)
				if eb, ok := ifs.Else.(*ast.BlockStmt); ok {
					for _, es := range eb.List {
						if as, ok := es.(*ast.AssignStmt); ok && strings.HasSuffix(selectorPath(as.Lhs[0]), ".key") && exprText(as.Rhs[0]) == "fullKey" {
							splitElseKey = true
						}
					}
				}
			}
		}
	}
	fmt.Fprintf(&out, "Definition gen_tree_split_leaf_when : string := %q.\nDefinition gen_tree_split_else_takes_key : bool := %v.\n", splitCond, splitElseKey)
	// Walk: takes nodes[0], continues with nodes[1:], appends the children at the end
	queue := []string{}
	if fd := funcDecl(f, "Tree", "Walk"); fd != nil {
		ast.Inspect(fd.Body, func(n ast.Node) bool {
			if as, ok := n.(*ast.AssignStmt); ok && len(as.Lhs) == 1 && len(as.Rhs) == 1 {
				l, r := exprText(as.Lhs[0]), exprText(as.Rhs[0])
				switch {
				case l == "n" && r == "nodes[0]":
					queue = append(queue, "take-first")
				case l == "nodes" && r == "nodes[1:]":
					queue = append(queue, "drop-first")
				case l == "nodes" && r == "append(nodes, e.target)":
					queue = append(queue, "append-child")
				}
			}
			return true
		})
	}
	fmt.Fprintf(&out, "Definition gen_tree_walk_queue : list string := %s.\n", quoteStrs(queue))
}

func init() { sections = append(sections, bytetreeFacts) }

// ---------------------------------------------------------------------------
// the row format: what fileStore.doWrite writes, in order, and the guard on the key length in table.doInsert /
// DB.InsertRaw (Model/RowCodec.v transcribes the format; its round-trip theorem needs len(key) < 2^16)
// ---------------------------------------------------------------------------
func rowFormatFacts() {
	out.WriteString("\n(* ---- row format of fileStore.doWrite and the key-length guard: row_store.go, insert.go ---- *)\n")
	var writes []string
	if fd := funcDecl(parse("row_store.go"), "fileStore", "doWrite"); fd != nil {
		var walk func(n ast.Node, inLoop bool)
		walk = func(n ast.Node, inLoop bool) {
			ast.Inspect(n, func(m ast.Node) bool {
				switch x := m.(type) {
				case *ast.RangeStmt:
					if x != n {
						walk(x.Body, true)
						return false
					}
				case *ast.CallExpr:
					p := selectorPath(x.Fun)
					star := ""
					if inLoop {
						star = " *"
					}
					if p == "binary.Write" && len(x.Args) == 3 && exprText(x.Args[0]) == "o" {
						writes = append(writes, exprText(x.Args[2])+star)
					} else if p == "o.Write" && len(x.Args) == 1 {
						writes = append(writes, "bytes "+exprText(x.Args[0])+star)
					}
				}
				return true
			})
		}
		walk(fd.Body, false)
	} else {
		unsupported = append(unsupported, "gen_row_writes")
	}
	fmt.Fprintf(&out, "Definition gen_row_writes : list string := %s.\n", quoteStrs(writes))
	// const maxKeyLength = 1<<16 - 1 ; guards `len(key) > maxKeyLength` (doInsert) and `len(dims) > maxKeyLength` (InsertRaw)
	f := parse("insert.go")
	maxKey := int64(-1)
	for _, d := range f.Decls {
		gd, ok := d.(*ast.GenDecl)
		if !ok || gd.Tok != token.CONST {
			continue
		}
		for _, sp := range gd.Specs {
			vs := sp.(*ast.ValueSpec)
			for i, n := range vs.Names {
				if n.Name == "maxKeyLength" && i < len(vs.Values) {
					switch exprText(vs.Values[i]) {
					case "1<<16 - 1", "1<<16-1", "65535", "math.MaxUint16":
						maxKey = 65535
					}
				}
			}
		}
	}
	guards := []string{}
	for _, fn := range []struct{ recv, name string }{{"table", "doInsert"}, {"DB", "InsertRaw"}} {
		if fd := funcDecl(f, fn.recv, fn.name); fd != nil {
			ast.Inspect(fd.Body, func(n ast.Node) bool {
				if ifs, ok := n.(*ast.IfStmt); ok {
					c := exprText(ifs.Cond)
					if strings.HasSuffix(c, "> maxKeyLength") && returnsInBody(ifs.Body) {
						guards = append(guards, fn.name+": "+c)
					}
				}
				return true
			})
		}
	}
	fmt.Fprintf(&out, "Definition gen_max_key_length : Z := %d.\nDefinition gen_key_guards : list string := %s.\n", maxKey, quoteStrs(guards))
}

func init() { sections = append(sections, rowFormatFacts) }
