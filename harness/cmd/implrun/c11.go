package main

// C11: the distributed query plan is equivalent to the local plan.
//
// Translation validation per generated query: the same points go into a standalone database (local plan) and into
// an in-process cluster (leader + P partitions: pushdown or partition-side pre-aggregation + leader-side
// group/having/order/limit, through the real planner, the real queryCluster and the real textual rewrite); the rows
// must be the same.  The kind of plan the planner chose is compared with the model of pushdownAllowed
// (Model/Plan.v) evaluated on the structure that the real parser and goexpr report for the query.

import (
	"context"
	"encoding/json"
	"fmt"
	"math"
	"math/rand"
	"sort"
	"strings"
	"time"

	"github.com/getlantern/goexpr"
	"github.com/getlantern/zenodb"
	"github.com/getlantern/zenodb/common"
	"github.com/getlantern/zenodb/core"
	"github.com/getlantern/zenodb/sql"
)

func init() { register("c11", runC11) }

type jPlanQuery struct {
	SQL string `json:"sql"`
	// observations
	LocalErr   string `json:"local_err,omitempty"`
	ClusterErr string `json:"cluster_err,omitempty"`
	Plan       string `json:"plan,omitempty"` // pushdown | nonpushdown | local
	Agree      bool   `json:"agree"`
	Diff       string `json:"diff,omitempty"`
	Shape      string `json:"shape,omitempty"`
	Kind       string `json:"kind,omitempty"` // rows | decision: which judgement this record is about
}

type jPlanCase struct {
	Table   jTable       `json:"table"`
	Points  []jPoint     `json:"points"`
	P       int          `json:"p"`
	PartBy  []string     `json:"part_by"`
	Queries []jPlanQuery `json:"queries"`
	NT      bool         `json:"nt"`
}

// ---------- query generator ----------

var c11Keywords = []string{"group by x", "a having b", "order by z", "limit 3", "x group by ", " having ", "order by ", "limit "}

func c11Lit(r *rand.Rand) string {
	if r.Intn(3) == 0 {
		return c11Keywords[r.Intn(len(c11Keywords))]
	}
	return []string{"a", "b", "c", "ab", ""}[r.Intn(5)]
}

func c11Where(r *rand.Rand) string {
	switch r.Intn(7) {
	case 0:
		return fmt.Sprintf("d1 = '%s'", c11Lit(r))
	case 1:
		return fmt.Sprintf("d1 <> '%s'", c11Lit(r))
	case 2:
		return fmt.Sprintf("d2 > %d", r.Intn(3))
	case 3:
		return fmt.Sprintf("d1 <> '%s' AND d2 < %d", c11Lit(r), 1+r.Intn(3))
	case 4:
		return fmt.Sprintf("d1 = '%s' OR d3 = true", c11Lit(r))
	case 5:
		return fmt.Sprintf("d1 IN (SELECT d1 FROM t GROUP BY d1 HAVING _points > %d)", r.Intn(4))
	default:
		return fmt.Sprintf("d2 IN (SELECT d2 FROM t WHERE d1 <> '%s' GROUP BY d2)", c11Lit(r))
	}
}

func c11Fields(r *rand.Rand, t *jTable) (sel string, names []string) {
	n := len(t.Fields)
	switch r.Intn(5) {
	case 0:
		return "*", nil
	case 1:
		f := t.Fields[r.Intn(n)].Name
		return f, []string{f}
	case 2:
		f := t.Fields[r.Intn(n)].Name
		return "_points, " + f, []string{"_points", f}
	case 3:
		f := t.Fields[r.Intn(n)].Name
		g := t.Fields[r.Intn(n)].Name
		op := []string{"+", "-", "*"}[r.Intn(3)]
		return fmt.Sprintf("%s, %s %s %s AS dd", f, f, op, g), []string{f, "dd"}
	default:
		return "_points", []string{"_points"}
	}
}

func c11GroupBy(r *rand.Rand, res time.Duration, exprBias bool) (gb string, dims []string) {
	var parts []string
	k := r.Intn(10)
	if exprBias && r.Intn(2) == 0 {
		k = []int{5, 6, 9}[r.Intn(3)]
	}
	switch k {
	case 0: // no clause
	case 1:
		parts, dims = []string{"d1"}, []string{"d1"}
	case 2:
		parts, dims = []string{"d2"}, []string{"d2"}
	case 3:
		parts, dims = []string{"d2", "d1"}, []string{"d1", "d2"}
	case 4:
		parts, dims = []string{"_"}, nil
	case 5:
		parts, dims = []string{"CONCAT('_', d1, d2) AS cc"}, []string{"cc"}
	case 6:
		parts, dims = []string{"LEN(d1) AS ll"}, []string{"ll"}
	case 7:
		parts, dims = []string{"d1", "d3"}, []string{"d1", "d3"}
	case 8:
		parts, dims = []string{"*"}, nil
	case 9:
		parts, dims = []string{"SUBSTR(d1, 0, 1) AS ss", "d2"}, []string{"d2", "ss"}
	}
	if r.Intn(3) == 0 {
		parts = append(parts, fmt.Sprintf("period(%v)", res*time.Duration(1+r.Intn(4))))
	}
	if len(parts) == 0 {
		return "", nil
	}
	return " GROUP BY " + strings.Join(parts, ", "), dims
}

func genPlanQuery(r *rand.Rand, t *jTable) string {
	res := time.Duration(t.ResNS)
	sel, names := c11Fields(r, t)
	from := "t"
	sub := r.Intn(4) == 0
	if sub {
		// FROM subquery
		inner := "SELECT * FROM t"
		if r.Intn(2) == 0 {
			inner += " WHERE " + c11Where(r)
		}
		switch r.Intn(5) {
		case 0:
			inner += " GROUP BY d1, d2"
		case 1:
			inner += " GROUP BY d1"
		case 2:
			inner += " GROUP BY d2, d3"
		case 3:
			inner += " GROUP BY d1, d2 ORDER BY d1 LIMIT 100"
		}
		if r.Intn(3) == 0 {
			// a second level: the filter (often an IN-subquery) sits two FROM-subqueries down
			if r.Intn(2) == 0 {
				// ... in a shape that otherwise qualifies for whole-query pushdown (group by all at every level)
				inner = "SELECT * FROM t WHERE " + []string{
					fmt.Sprintf("d1 IN (SELECT d1 FROM t GROUP BY d1 HAVING _points > %d)", r.Intn(4)),
					fmt.Sprintf("d2 IN (SELECT d2 FROM t WHERE d1 <> '%s' GROUP BY d2)", c11Lit(r)),
					fmt.Sprintf("d1 IN (SELECT d1 FROM t WHERE d2 > %d)", r.Intn(3))}[r.Intn(3)]
			}
			outer := "SELECT * FROM (" + inner + ")"
			switch r.Intn(4) {
			case 0:
				outer += " GROUP BY d1, d2"
			case 1:
				outer += " GROUP BY d1"
			case 2:
				outer += " WHERE " + c11Where(r)
			}
			inner = outer
		}
		from = "(" + inner + ")"
	}
	q := "SELECT " + sel + " FROM " + from
	if !sub && r.Intn(4) == 0 {
		// time ranges: absolute bounds on and off the resolution grid, and offsets relative to the clock
		tsAt := func() string {
			ns := baseSec*int64(time.Second) + int64(r.Intn(14))*t.ResNS
			switch r.Intn(3) {
			case 0:
			case 1:
				ns += t.ResNS / 2
			default:
				ns += r.Int63n(t.ResNS)
			}
			return fmtTime(time.Unix(0, ns))
		}
		switch r.Intn(4) {
		case 0:
			q += " ASOF '" + tsAt() + "'"
		case 1, 2:
			q += " ASOF '" + fmtTime(time.Unix(baseSec-10, 0)) + "' UNTIL '" + tsAt() + "'"
		default:
			q += fmt.Sprintf(" ASOF '-%v'", res*time.Duration(1+r.Intn(10)))
		}
	}
	if r.Intn(3) == 0 {
		q += " WHERE " + c11Where(r)
	}
	gb, dims := c11GroupBy(r, res, sub)
	if r.Intn(8) == 0 && !strings.Contains(gb, "*") {
		// crosstab
		if gb == "" {
			gb = " GROUP BY CROSSTAB(d3)"
		} else {
			gb += ", CROSSTAB(d3)"
		}
	}
	q += gb
	if r.Intn(5) == 0 && len(names) > 0 {
		q += fmt.Sprintf(" HAVING %s > %d", names[r.Intn(len(names))], r.Intn(3))
	}
	if r.Intn(4) == 0 {
		var keys []string
		if len(names) > 0 && r.Intn(2) == 0 {
			keys = append(keys, names[0]+" DESC")
		}
		keys = append(keys, dims...)
		keys = append(keys, "_time")
		q += " ORDER BY " + strings.Join(keys, ", ")
		// LIMIT/OFFSET only where the order is total (the keys cover the whole group key), so that the slice is determined
		if (len(dims) > 0 || strings.Contains(gb, "GROUP BY _")) && !strings.Contains(gb, "*") && !strings.Contains(gb, "CROSSTAB") && r.Intn(2) == 0 {
			if r.Intn(2) == 0 {
				q += fmt.Sprintf(" LIMIT %d, %d", 1+r.Intn(4), 1+r.Intn(6)) // offset, count
			} else {
				q += fmt.Sprintf(" LIMIT %d", 1+r.Intn(6))
			}
		}
	}
	return q
}

func genPlanCase(r *rand.Rand) *jPlanCase {
	c := &jPlanCase{}
	c.Table = genTable(r, map[string]bool{})
	c.Points = genDBPoints(r, &c.Table, 25+r.Intn(40))
	c.P = 2 + r.Intn(3)
	if r.Intn(8) == 0 {
		c.P = 1
	}
	switch r.Intn(7) {
	case 0:
		c.PartBy = nil
	case 1:
		c.PartBy = []string{"d1"}
	case 2:
		c.PartBy = []string{"d2"}
	case 3, 4:
		c.PartBy = []string{"d2", "d1"} // declared in non-alphabetical order
	case 5:
		c.PartBy = []string{"d3", "d9"}
	case 6:
		c.PartBy = []string{"d3", "d1"}
	}
	for i := 0; i < 40; i++ {
		c.Queries = append(c.Queries, jPlanQuery{SQL: genPlanQuery(r, &c.Table)})
	}
	c.NT = c.P >= 2
	return c
}

// ---------- execution ----------

type canonRow struct {
	key  string
	vals []float64
}

func canonRows(rows []obsRow) []canonRow {
	out := make([]canonRow, len(rows))
	for i, r := range rows {
		names := make([]string, 0, len(r.Key))
		for k := range r.Key {
			names = append(names, k)
		}
		sort.Strings(names)
		var sb strings.Builder
		fmt.Fprintf(&sb, "%d|", r.TS.UnixNano())
		for _, k := range names {
			fmt.Fprintf(&sb, "%s=%v(%T);", k, r.Key[k], r.Key[k])
		}
		out[i] = canonRow{sb.String(), r.Vals}
	}
	sort.SliceStable(out, func(a, b int) bool {
		if out[a].key != out[b].key {
			return out[a].key < out[b].key
		}
		for j := range out[a].vals {
			if j < len(out[b].vals) && out[a].vals[j] != out[b].vals[j] {
				return out[a].vals[j] < out[b].vals[j]
			}
		}
		return false
	})
	return out
}

func closeF(a, b float64) bool {
	if math.IsNaN(a) || math.IsNaN(b) {
		return math.IsNaN(a) && math.IsNaN(b)
	}
	if math.IsInf(a, 0) || math.IsInf(b, 0) {
		return a == b
	}
	d := math.Abs(a - b)
	return d <= 1e-9 || d <= 1e-9*math.Max(math.Abs(a), math.Abs(b))
}

func planRowsDiff(f1 []string, a []obsRow, f2 []string, b []obsRow) string {
	if strings.Join(f1, ",") != strings.Join(f2, ",") {
		return fmt.Sprintf("fields %v vs %v", f1, f2)
	}
	if len(a) != len(b) {
		return fmt.Sprintf("%d rows locally, %d rows on the cluster", len(a), len(b))
	}
	ca, cb := canonRows(a), canonRows(b)
	for i := range ca {
		if ca[i].key != cb[i].key {
			return fmt.Sprintf("row %d: key %s vs %s", i, ca[i].key, cb[i].key)
		}
		if len(ca[i].vals) != len(cb[i].vals) {
			return fmt.Sprintf("row %d: %d vs %d values", i, len(ca[i].vals), len(cb[i].vals))
		}
		for j := range ca[i].vals {
			if !closeF(ca[i].vals[j], cb[i].vals[j]) {
				return fmt.Sprintf("row %d (%s) value %d: %v locally, %v on the cluster", i, ca[i].key, j, ca[i].vals[j], cb[i].vals[j])
			}
		}
	}
	return ""
}

// shapeOf prints the pquery of Model/Plan.v for the query as the real parser and goexpr see it.
func shapeOf(sqlStr string, t *jTable, partBy []string) (string, error) {
	q, err := sql.Parse(sqlStr)
	if err != nil {
		return "", err
	}
	codes := map[string]int{}
	code := func(s string) int {
		if c, ok := codes[s]; ok {
			return c
		}
		codes[s] = len(codes) + 1
		return codes[s]
	}
	natl := func(xs []int) string {
		items := make([]string, len(xs))
		for i, x := range xs {
			items[i] = fmt.Sprintf("%d%%nat", x)
		}
		return glist(items)
	}
	var levels []string
	for cur := q; cur != nil; cur = cur.FromSubQuery {
		var gbs []string
		for _, g := range cur.GroupBy {
			var ps []int
			g.Expr.WalkOneToOneParams(func(p string) { ps = append(ps, code(p)) })
			gbs = append(gbs, fmt.Sprintf("(%d%%nat, %s)", code(g.Name), natl(ps)))
		}
		levels = append(levels, fmt.Sprintf("{| l_all := %s; l_gb := %s |}", gbool(cur.GroupByAll), glist(gbs)))
	}
	subbad := false
	if s := q.FromSubQuery; s != nil {
		subbad = len(s.OrderBy) > 0 || s.Crosstab != nil || s.Limit > 0 || s.HasLimit || s.Offset > 0
	}
	nested := false
	for s := q.FromSubQuery; s != nil; s = s.FromSubQuery {
		if s.Where != nil {
			s.Where.WalkLists(func(l goexpr.List) {
				if _, ok := l.(*sql.SubQuery); ok {
					nested = true
				}
			})
		}
	}
	tgb := "None"
	if t.GroupBy != nil {
		var ps []int
		for _, g := range t.GroupBy {
			ps = append(ps, code(g))
		}
		tgb = "(Some " + natl(ps) + ")"
	}
	var pk []int
	for _, k := range partBy {
		pk = append(pk, code(k))
	}
	return fmt.Sprintf("{| pq_crosstab := %s; pq_subbad := %s; pq_nested_subq := %s; pq_levels := %s; pq_table_gb := %s; pq_pk := %s |}",
		gbool(q.Crosstab != nil), gbool(subbad), gbool(nested), glist(levels), tgb, natl(pk)), nil
}

// planKind looks at the root of the plan (below order/limit/offset): a cluster flat source there means that the whole
// query was pushed down; a cluster row source anywhere else means partition-side pre-aggregation.  (A query over a
// FROM-subquery that is not pushed down is planned locally over the cluster plan of its subquery.)
func planKind(src core.FlatRowSource) string {
	lines := strings.Split(core.FormatSource(src), "\n")
	for _, l := range lines {
		t := strings.TrimSpace(l)
		if !strings.HasPrefix(t, "<- ") {
			continue
		}
		t = strings.ToLower(t[3:])
		if t == "query" || strings.HasPrefix(t, "order by") || strings.HasPrefix(t, "limit") || strings.HasPrefix(t, "offset") {
			continue
		}
		if strings.HasPrefix(t, "cluster flat ") {
			return "pushdown"
		}
		break
	}
	if strings.Contains(strings.Join(lines, "\n"), "cluster ") {
		return "nonpushdown"
	}
	return "local"
}

func runPlanCase(e *Env, c *jPlanCase) error {
	e.Running(c)
	dir := tempDir()
	defer rmDir(dir)
	t := &c.Table
	local, err := openDB(dir+"/local", t, "t")
	if err != nil {
		return err
	}
	defer local.Close()
	cl, err := startCluster(dir+"/c", t, c.P, 1, c.PartBy)
	if err != nil {
		return err
	}
	defer cl.close()
	whereEx, err := compileOpt(t.Where)
	if err != nil {
		return err
	}
	expected := map[int]int64{}
	var maxTS time.Time
	for i := range c.Points {
		p := &c.Points[i]
		if err := local.Insert("inbound", p.TS.T(), p.goDims(), p.goVals()); err != nil {
			return err
		}
		if err := cl.leader.Insert("inbound", p.TS.T(), p.goDims(), p.goVals()); err != nil {
			return err
		}
		if whereEx == nil || evalPred(whereEx, dimsBytemap(p)) {
			expected[cl.routed(p)]++
		}
		if p.TS.T().After(maxTS) {
			maxTS = p.TS.T()
		}
	}
	if err := waitCaughtUp(local, "t", int64(len(c.Points))); err != nil {
		return err
	}
	if err := cl.waitFollowers(expected, 40*time.Second); err != nil {
		return err
	}
	cl.advanceClocks(maxTS)
	local.VerifAdvanceClock(maxTS)
	for qi := range c.Queries {
		q := &c.Queries[qi]
		q.LocalErr, q.ClusterErr, q.Plan, q.Diff, q.Agree = "", "", "", "", false
		lf, lrows, lerr := runQuery(local, q.SQL, true)
		if lerr != nil {
			q.LocalErr = lerr.Error()
		}
		var cf []string
		var crows []obsRow
		var cerr error
		for attempt := 0; attempt < 6; attempt++ {
			var src core.FlatRowSource
			src, cerr = cl.leader.Query(q.SQL, false, nil, true)
			if cerr != nil {
				break
			}
			q.Plan = planKind(src)
			var stats *common.QueryStats
			cf, crows, stats, cerr = iterateStats(src)
			if cerr != nil || stats == nil || stats.NumSuccessfulPartitions >= stats.NumPartitions {
				break
			}
			time.Sleep(30 * time.Millisecond)
		}
		if cerr != nil {
			q.ClusterErr = cerr.Error()
		}
		switch {
		case lerr != nil && cerr != nil:
			q.Agree = true
			q.Plan = ""
			e.Count("both_fail")
		case lerr != nil || cerr != nil:
			q.Diff = fmt.Sprintf("local error %q, cluster error %q", q.LocalErr, q.ClusterErr)
			e.Count("one_side_fails")
		default:
			q.Diff = planRowsDiff(lf, lrows, cf, crows)
			q.Agree = q.Diff == ""
			e.Add("rows_compared", len(lrows))
		}
		e.Count("plan_" + q.Plan)
		shape, serr := shapeOf(q.SQL, t, c.PartBy)
		if serr != nil {
			shape = "{| pq_crosstab := false; pq_subbad := false; pq_nested_subq := false; pq_levels := []; pq_table_gb := None; pq_pk := [] |}"
			q.Plan = ""
		}
		q.Shape = shape
		pd := "None"
		switch q.Plan {
		case "pushdown":
			pd = "(Some true)"
		case "nonpushdown":
			pd = "(Some false)"
		}
		// two judgements per query: the rows, and the planner's decision
		one := *c
		q.Kind = "rows"
		one.Queries = []jPlanQuery{*q}
		one.NT = c.P >= 2 && q.Plan != ""
		e.Case(fmt.Sprintf("{| pc_q := %s;\n   pc_pushdown := None; pc_agree := %s |}", shape, gbool(q.Agree)), &one)
		two := *c
		q.Kind = "decision"
		two.Queries = []jPlanQuery{*q}
		two.NT = c.P >= 2 && q.Plan != ""
		e.Case(fmt.Sprintf("{| pc_q := %s;\n   pc_pushdown := %s; pc_agree := true |}", shape, pd), &two)
	}
	e.Count(fmt.Sprintf("P=%d", c.P))
	return nil
}

func iterateStats(src core.FlatRowSource) (fields []string, rows []obsRow, stats *common.QueryStats, err error) {
	var md interface{}
	md, err = src.Iterate(context.Background(), func(fs core.Fields) error {
		fields = fs.Names()
		return nil
	}, func(r *core.FlatRow) (bool, error) {
		rows = append(rows, obsRow{TS: time.Unix(0, r.TS), Key: r.Key.AsMap(), Vals: append([]float64(nil), r.Values...)})
		return true, nil
	})
	if qs, ok := md.(*common.QueryStats); ok {
		stats = qs
	}
	return
}

func runC11(e *Env) error {
	e.Header("From Coq Require Import ZArith List.\nImport ListNotations.\nFrom Zeno Require Import Plan Corr11.", "plan_case")
	if lines := e.ReplayLines(); lines != nil {
		for _, l := range lines {
			var c jPlanCase
			if err := json.Unmarshal([]byte(l), &c); err != nil {
				return err
			}
			if err := runPlanCase(e, &c); err != nil {
				return err
			}
		}
	} else {
		for i := 0; i < e.N; i++ {
			c := genPlanCase(e.R)
			if err := runPlanCase(e, c); err != nil {
				b, _ := json.Marshal(c)
				return fmt.Errorf("%v on case %s", err, b)
			}
		}
	}
	e.Footer("plan_mismatches")
	return nil
}

var _ = zenodb.FileVersion_5
