package main

// C10: a partitioned cluster answers every query like a standalone database.

import (
	"encoding/json"

	"fmt"
	"github.com/getlantern/zenodb/common"
	"time"
)

func init() { register("cluq", runCluQ) }

type jCluCase struct {
	jDBCase
	P              int      `json:"p"`
	Replicas       int      `json:"replicas"`
	PartBy         []string `json:"part_by"`
	FlushFollowers bool     `json:"flush_followers"`
}

func genCluCase(e *Env) *jCluCase {
	r := e.R
	c := &jCluCase{}
	c.Table = genTable(r, map[string]bool{})
	c.Points = genDBPoints(r, &c.Table, 15+r.Intn(40))
	c.P = 2 + r.Intn(3)
	if r.Intn(8) == 0 {
		c.P = 1
	}
	c.Replicas = 1 + r.Intn(2)
	switch r.Intn(7) {
	case 0:
		c.PartBy = nil
	case 1:
		c.PartBy = []string{"d1"}
	case 2:
		c.PartBy = []string{"d2"}
	case 3, 4:
		c.PartBy = []string{"d2", "d1"} // declared in non-alphabetical order
	case 5:
		c.PartBy = []string{"d3", "d9"}
	case 6:
		c.PartBy = []string{"d3", "d1"}
	}
	c.FlushFollowers = r.Intn(2) == 0
	t := &c.Table
	c.Queries = []jQuery{{Mem: true}}
	for i := 0; i < 6; i++ {
		q := genGroupQuery(r, t, r.Intn(3) == 0)
		if r.Intn(3) == 0 {
			q.Where = genKeyPred(r, t)
		}
		if r.Intn(4) == 0 {
			q.HasLimit = true
			q.Limit = 1 + r.Intn(4)
		}
		c.Queries = append(c.Queries, q)
	}
	return c
}

func runCluCase(e *Env, c *jCluCase) error {
	e.Running(c)
	dir := tempDir()
	defer rmDir(dir)
	t := &c.Table
	cl, err := startCluster(dir, t, c.P, c.Replicas, c.PartBy)
	if err != nil {
		return err
	}
	defer cl.close()
	whereEx, err := compileOpt(t.Where)
	if err != nil {
		return err
	}
	expected := map[int]int64{}
	routed := make([]int, len(c.Points))
	var maxTS time.Time
	for i := range c.Points {
		p := &c.Points[i]
		if err := cl.leader.Insert("inbound", p.TS.T(), p.goDims(), p.goVals()); err != nil {
			return err
		}
		routed[i] = cl.routed(p)
		if whereEx == nil || evalPred(whereEx, dimsBytemap(p)) {
			expected[routed[i]]++
			if p.TS.T().After(maxTS) {
				maxTS = p.TS.T()
			}
		}
	}
	if err := cl.waitFollowers(expected, 40*time.Second); err != nil {
		return err
	}
	cl.advanceClocks(maxTS)
	if c.FlushFollowers {
		for _, n := range cl.followers {
			n.db.FlushAll()
		}
	}
	// 1. the leader answers like a standalone database: compare with the reference over ALL points
	var results []qResult
	for i := range c.Queries {
		q := &c.Queries[i]
		now := cl.leader.VerifNow()
		var rows []obsRow
		var qerr error
		for attempt := 0; attempt < 5; attempt++ {
			var stats *common.QueryStats
			_, rows, stats, qerr = runQueryStats(cl.leader, q.SQL("t", t.Conds), q.Mem)
			if qerr != nil || stats == nil || stats.NumSuccessfulPartitions >= stats.NumPartitions {
				break
			}
			// the leader itself says the answer is incomplete (a partition had no free handler): ask again
			e.Count("incomplete_answers_retried")
			time.Sleep(50 * time.Millisecond)
		}
		results = append(results, qResult{len(c.Points), q, "", qerr, rows, now})
		if qerr != nil {
			msg := qerr.Error()
			if len(msg) > 80 {
				msg = msg[:80]
			}
			e.Count("err: " + msg)
		}
	}
	g, err := galDBCase(t, c.Points, c.Queries, results)
	if err != nil {
		return err
	}
	c.NT = c.P >= 2
	e.Case(g, c)
	// 2. every follower of partition p holds exactly the points routed to p
	for _, n := range cl.followers {
		var pts []jPoint
		for i := range c.Points {
			if routed[i] == n.partition {
				pts = append(pts, c.Points[i])
			}
		}
		now := n.db.VerifNow()
		q := jQuery{Mem: true}
		_, rows, qerr := runQuery(n.db, q.SQL("t", t.Conds), true)
		fg, err := galDBCase(t, pts, []jQuery{q}, []qResult{{len(pts), &q, "", qerr, rows, now}})
		if err != nil {
			return err
		}
		fc := &jCluCase{jDBCase: jDBCase{Table: c.Table, Points: pts, Queries: []jQuery{q}, NT: len(pts) > 0}, P: c.P, PartBy: c.PartBy}
		e.Case(fg, fc)
		e.Count("follower_content_checks")
	}
	e.Count(fmt.Sprintf("P=%d", c.P))
	e.Count(fmt.Sprintf("replicas=%d", c.Replicas))
	e.Count(fmt.Sprintf("partBy=%v", c.PartBy))
	e.Add("points", len(c.Points))
	return nil
}

func runCluQ(e *Env) error {
	e.Header("From Coq Require Import QArith.\nFrom Zeno Require Import Base Sort Expr DB.", "db_case")
	if lines := e.ReplayLines(); lines != nil {
		for _, l := range lines {
			var c jCluCase
			if err := json.Unmarshal([]byte(l), &c); err != nil {
				return err
			}
			if c.P == 0 {
				continue // a follower-content record: covered when its cluster case is replayed
			}
			if len(c.Queries) <= 1 {
				continue
			}
			if err := runCluCase(e, &c); err != nil {
				return err
			}
		}
	} else {
		for i := 0; i < e.N; i++ {
			c := genCluCase(e)
			if err := runCluCase(e, c); err != nil {
				b, _ := json.Marshal(c)
				return fmt.Errorf("%v on case %s", err, b)
			}
		}
	}
	e.Footer("db_mismatches")
	return nil
}
