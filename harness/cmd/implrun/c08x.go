package main

// C08 (second stage): HAVING and IN-subquery as relations between the results of two queries on
// one standalone database (Model/Filter.v):
//   HAVING        rows(Q HAVING f op c)           = the rows of rows(Q) whose value of f satisfies op c, same fields
//   IN-subquery   rows(Q WHERE d IN (SELECT …))   = rows(Q WHERE d IN (<distinct values the subquery returns alone>))

import (
	"encoding/json"
	"fmt"
	"math/rand"
	"sort"
	"strings"
	"time"
)

func init() { register("c08x", runC08X) }

type jFilterPair struct {
	Kind  string `json:"kind"` // having | insub | fromsub
	A     string `json:"a"`    // reference query (for insub: a template with %s for the literal list)
	B     string `json:"b"`    // query under test
	Sub   string `json:"sub,omitempty"`
	Dim   string `json:"dim,omitempty"`
	Field string `json:"field,omitempty"`
	Op    string `json:"op,omitempty"`
	Bound int    `json:"bound,omitempty"`
	// observations
	AErr string `json:"a_err,omitempty"`
	BErr string `json:"b_err,omitempty"`
	Lit  string `json:"lit,omitempty"`
}

type jFilterCase struct {
	Table  jTable        `json:"table"`
	Points []jPoint      `json:"points"`
	Flush  bool          `json:"flush"`
	Pairs  []jFilterPair `json:"pairs"`
	NT     bool          `json:"nt"`
}

var c08Ops = []string{">", ">=", "<", "<=", "=", "<>"}
var c08Cmp = map[string]string{">": "HGt", ">=": "HGe", "<": "HLt", "<=": "HLe", "=": "HEq", "<>": "HNe"}

func c08Where(r *rand.Rand) string {
	switch r.Intn(5) {
	case 0:
		return "d1 = 'a'"
	case 1:
		return "d1 <> 'b'"
	case 2:
		return fmt.Sprintf("d2 > %d", r.Intn(3))
	case 3:
		return "d3 = true"
	default:
		return fmt.Sprintf("d1 <> 'c' AND d2 < %d", 1+r.Intn(3))
	}
}

func c08Group(r *rand.Rand, res time.Duration) string {
	var parts []string
	switch r.Intn(6) {
	case 0:
	case 1:
		parts = []string{"d1"}
	case 2:
		parts = []string{"d2", "d1"}
	case 3:
		parts = []string{"_"}
	case 4:
		parts = []string{"d1", "d3"}
	case 5:
		parts = []string{"*"}
	}
	if r.Intn(3) == 0 {
		parts = append(parts, fmt.Sprintf("period(%v)", res*time.Duration(1+r.Intn(3))))
	}
	if len(parts) == 0 {
		return ""
	}
	return " GROUP BY " + strings.Join(parts, ", ")
}

func genFilterCase(r *rand.Rand) *jFilterCase {
	c := &jFilterCase{}
	c.Table = genTable(r, map[string]bool{})
	c.Points = genDBPoints(r, &c.Table, 20+r.Intn(30))
	c.Flush = r.Intn(2) == 0
	t := &c.Table
	res := time.Duration(t.ResNS)
	field := func() string {
		if r.Intn(4) == 0 {
			return "_points"
		}
		return t.Fields[r.Intn(len(t.Fields))].Name
	}
	havingField := func() string { // HAVING builds a comparison: BOUNDED fields cannot be wrapped in one (validation error)
		for k := 0; k < 8; k++ {
			f := t.Fields[r.Intn(len(t.Fields))]
			if binWrappable(f.E) {
				return f.Name
			}
		}
		return "_points"
	}
	for i := 0; i < 4; i++ { // HAVING
		fa, fb := havingField(), field()
		sel := fa
		if fb != fa && r.Intn(2) == 0 {
			sel = fa + ", " + fb
		}
		if r.Intn(5) == 0 {
			sel = "*"
		}
		q := "SELECT " + sel + " FROM t"
		if r.Intn(3) == 0 {
			q += " WHERE " + c08Where(r)
		}
		grp := c08Group(r, res)
		look := fa
		if r.Intn(4) == 0 {
			// HAVING together with a crosstab that adds totals: the predicate is evaluated on the row as a whole, which
			// the HAVING-free query shows in its total_<field> column
			if grp == "" {
				grp = " GROUP BY CROSSTABT(d1, d2)"
			} else {
				grp += ", CROSSTABT(d1, d2)"
			}
			look = "total_" + fa
		}
		q += grp
		op := c08Ops[r.Intn(len(c08Ops))]
		bound := r.Intn(12) - 3
		c.Pairs = append(c.Pairs, jFilterPair{Kind: "having", A: q, B: fmt.Sprintf("%s HAVING %s %s %d", q, fa, op, bound), Field: look, Op: op, Bound: bound})
	}
	for i := 0; i < 4; i++ { // IN-subquery
		dims := []string{"d1", "d2", "d3"}
		if t.GroupBy != nil {
			dims = nil
			for _, g := range t.GroupBy {
				if g != "d9" {
					dims = append(dims, g)
				}
			}
			if len(dims) == 0 {
				continue
			}
		}
		dim := dims[r.Intn(len(dims))]
		sub := "SELECT " + dim + " FROM t"
		if r.Intn(3) == 0 {
			sub += " WHERE " + c08Where(r)
		}
		switch r.Intn(4) {
		case 0:
			sub += " GROUP BY " + dim
		case 1:
			sub += " GROUP BY " + dim + fmt.Sprintf(" HAVING _points > %d", r.Intn(4))
		case 2: // HAVING without a GROUP BY of its own: evaluated on the table's own groups
			sub += fmt.Sprintf(" HAVING %s %s %d", havingField(), c08Ops[r.Intn(4)], r.Intn(8)-1)
		}
		q := "SELECT " + field() + " FROM t WHERE " + dim + " IN (%s)"
		if r.Intn(3) == 0 {
			q += " AND " + c08Where(r)
		}
		q += c08Group(r, res)
		c.Pairs = append(c.Pairs, jFilterPair{Kind: "insub", A: q, B: fmt.Sprintf(q, sub), Sub: sub, Dim: dim})
	}
	c.NT = len(c.Points) >= 3
	return c
}

func sqlLit(v interface{}) (string, bool) {
	switch x := v.(type) {
	case string:
		return "'" + strings.Replace(x, "'", "''", -1) + "'", true
	case int:
		return fmt.Sprint(x), true
	case int64:
		return fmt.Sprint(x), true
	case float64:
		return fmt.Sprint(x), true
	case bool:
		return fmt.Sprint(x), true
	}
	return "", false
}

func runFilterCase(e *Env, c *jFilterCase) error {
	e.Running(c)
	dir := tempDir()
	defer rmDir(dir)
	t := &c.Table
	db, err := openDB(dir, t, "t")
	if err != nil {
		return err
	}
	defer db.Close()
	for i := range c.Points {
		p := &c.Points[i]
		if err := db.Insert("inbound", p.TS.T(), p.goDims(), p.goVals()); err != nil {
			return err
		}
		if c.Flush && i == len(c.Points)/2 {
			if err := waitCaughtUp(db, "t", 0); err != nil {
				return err
			}
			db.FlushAll()
		}
	}
	if err := waitCaughtUp(db, "t", 0); err != nil {
		return err
	}
	for pi := range c.Pairs {
		p := &c.Pairs[pi]
		p.AErr, p.BErr, p.Lit = "", "", ""
		a := p.A
		if p.Kind == "insub" {
			// what the subquery returns on its own: the distinct values of the dimension in its row keys
			// (as a subquery its select list is replaced by _points: a row exists for every group with points)
			_, srows, serr := runQuery(db, strings.Replace(p.Sub, "SELECT "+p.Dim+" FROM", "SELECT _points FROM", 1), true)
			if serr != nil {
				e.Count("subquery_alone_fails")
				continue
			}
			seen := map[string]bool{}
			var lits []string
			hasNil := false
			for _, r := range srows {
				if l, ok := sqlLit(r.Key[p.Dim]); ok && !seen[l] {
					seen[l] = true
					lits = append(lits, l)
				} else if !ok {
					hasNil = true
				}
			}
			if hasNil {
				// a row without the dimension puts nil into the list, which no SQL literal list can say
				e.Count("insub_with_nil_value_skipped")
				continue
			}
			sort.Strings(lits)
			if len(lits) == 0 {
				lits = []string{"'no such value'"}
			}
			p.Lit = strings.Join(lits, ", ")
			a = fmt.Sprintf(p.A, p.Lit)
		}
		fa, ra, ea := runQuery(db, a, true)
		fb, rb, eb := runQuery(db, p.B, true)
		if ea != nil {
			p.AErr = ea.Error()
		}
		if eb != nil {
			p.BErr = eb.Error()
		}
		rel := "RSame"
		if p.Kind == "having" {
			idx := -1
			for i, n := range fa {
				if n == p.Field {
					idx = i
				}
			}
			if idx < 0 && ea == nil {
				e.Count("having_field_not_in_result")
				continue
			}
			rel = fmt.Sprintf("(RHaving %d%%nat %s (%d # 1))", idx, c08Cmp[p.Op], p.Bound)
			if idx < 0 {
				rel = "RSame"
			}
		}
		one := *c
		one.Pairs = []jFilterPair{*p}
		e.Case(fmt.Sprintf("{| fc_rel := %s; fc_fields_same := %s; fc_err_a := %s; fc_err_b := %s;\n   fc_a := %s;\n   fc_b := %s |}",
			rel, gbool(strings.Join(fa, ",") == strings.Join(fb, ",")), gbool(ea != nil), gbool(eb != nil), galORows(ra), galORows(rb)), &one)
		e.Count("pair_" + p.Kind)
		if ea != nil || eb != nil {
			e.Count("pair_with_error")
		}
		e.Add("rows_a", len(ra))
		e.Add("rows_b", len(rb))
	}
	return nil
}

func runC08X(e *Env) error {
	e.Header("From Coq Require Import QArith.\nFrom Zeno Require Import Base Sort Expr DB Filter.", "filter_case")
	if lines := e.ReplayLines(); lines != nil {
		for _, l := range lines {
			var c jFilterCase
			if err := json.Unmarshal([]byte(l), &c); err != nil {
				return err
			}
			if err := runFilterCase(e, &c); err != nil {
				return err
			}
		}
	} else {
		for i := 0; i < e.N; i++ {
			c := genFilterCase(e.R)
			if err := runFilterCase(e, c); err != nil {
				b, _ := json.Marshal(c)
				return fmt.Errorf("%v on case %s", err, b)
			}
		}
	}
	e.Footer("filter_mismatches")
	return nil
}
