package main

import (
	"encoding/json"
	"fmt"
	"time"
)

// Stage `arrsnap` (C18): one point with array values is applied as many memstore updates; queries issued meanwhile
// must see the table before the point or after it, never a part of the point.

func init() { register("arrsnap", runArrSnap) }

type jArrSnapCase struct {
	jDBCase
	N      int  `json:"n"`      // number of values per array
	Fields int  `json:"fields"` // how many fields of the point carry an array
	NewKey bool `json:"new_key"`
	NT     bool `json:"nt"`
}

func genArrSnapCase(e *Env) *jArrSnapCase {
	r := e.R
	c := &jArrSnapCase{}
	c.Table = jTable{Fields: []jField{
		{Name: "fa", E: &XExpr{K: "agg", N: "SUM", Sub: []*XExpr{{K: "field", N: "a"}}}},
		{Name: "fb", E: &XExpr{K: "agg", N: "SUM", Sub: []*XExpr{{K: "field", N: "b"}}}},
		{Name: "fc", E: &XExpr{K: "agg", N: "MAX", Sub: []*XExpr{{K: "field", N: "c"}}}},
	}, ResNS: int64(time.Second), RetNS: int64(1000 * time.Second)}
	c.Points = genDBPoints(r, &c.Table, 3+r.Intn(6))
	if r.Intn(2) == 0 {
		c.FlushAfter = []int{len(c.Points) - 1}
	}
	c.N = 400 + r.Intn(1600)
	c.Fields = 2 + r.Intn(2)
	c.NewKey = r.Intn(3) == 0
	return c
}

func runArrSnapCase(e *Env, c *jArrSnapCase) error {
	e.Running(c)
	dir := tempDir()
	defer rmDir(dir)
	t := &c.Table
	db, err := openDB(dir, t, "t")
	if err != nil {
		return err
	}
	defer db.Close()
	if _, err := loadHistory(db, &c.jDBCase, e); err != nil {
		return err
	}
	const q = "SELECT * FROM t"
	_, before, err := runQuery(db, q, true)
	if err != nil {
		return err
	}
	// the point: the dims and timestamp of an existing point (or a new key), arrays in its first fields
	base := c.Points[e.R.Intn(len(c.Points))]
	dims := base.goDims()
	if c.NewKey {
		dims["d1"] = "fresh"
	}
	vals := map[string]interface{}{}
	for i, name := range []string{"a", "b", "c"} {
		if i < c.Fields {
			arr := make([]float64, c.N)
			for j := range arr {
				arr[j] = 1
			}
			vals[name] = arr
		} else {
			vals[name] = 1.0
		}
	}
	done := make(chan error, 1)
	go func() {
		ierr := db.Insert("inbound", base.TS.T(), dims, vals)
		if ierr == nil {
			ierr = waitCaughtUp(db, "t", 0)
		}
		done <- ierr
	}()
	var during [][]obsRow
	finished := false
	for !finished && len(during) < 400 {
		select {
		case ierr := <-done:
			if ierr != nil {
				return ierr
			}
			finished = true
		default:
		}
		_, rows, qerr := runQuery(db, q, true)
		if qerr != nil {
			return qerr
		}
		during = append(during, rows)
	}
	if !finished {
		if ierr := <-done; ierr != nil {
			return ierr
		}
	}
	_, after, err := runQuery(db, q, true)
	if err != nil {
		return err
	}
	gd := make([]string, len(during))
	inWindow := 0
	for i, rows := range during {
		gd[i] = galORows(rows)
		if !sameRows(rows, after) {
			inWindow++
		}
	}
	c.NT = inWindow > 0
	e.Case(fmt.Sprintf("{| sn_before := %s;\n   sn_after := %s;\n   sn_during := %s |}", galORows(before), galORows(after), glist(gd)), c)
	e.Add("queries_during", len(during))
	e.Add("queries_before_the_point_was_complete", inWindow)
	return nil
}

func runArrSnap(e *Env) error {
	e.Header("From Coq Require Import QArith.\nFrom Zeno Require Import Base Sort Expr DB CorrSnap.", "snap_case")
	if lines := e.ReplayLines(); lines != nil {
		for _, l := range lines {
			var c jArrSnapCase
			if err := json.Unmarshal([]byte(l), &c); err != nil {
				return err
			}
			if err := runArrSnapCase(e, &c); err != nil {
				return err
			}
		}
	} else {
		for i := 0; i < e.N; i++ {
			if err := runArrSnapCase(e, genArrSnapCase(e)); err != nil {
				return err
			}
		}
	}
	e.Footer("snap_mismatches")
	return nil
}
