package main

import (
	"bytes"
	"encoding/json"
	"fmt"
	"time"

	"github.com/getlantern/goexpr"
	"github.com/getlantern/zenodb/encoding"
	"github.com/getlantern/zenodb/expr"
)

func init() {
	register("c05expr", runC05Expr)
	register("c05seq", runC05Seq)
}

// ---------------------------------------------------------------------------
// expr-level: Update / Merge / Get on byte buffers
// ---------------------------------------------------------------------------

type jExprCase struct {
	E  *XExpr   `json:"e"`
	A  []XPoint `json:"a"`
	B  []XPoint `json:"b"`
	C  []XPoint `json:"c"`
	NT bool     `json:"nt"`
}

func genExprCase(e *Env) *jExprCase {
	r := e.R
	g := &exprGen{r: r, fields: []string{"a", "b", "c"}, allowIf: true, allowDiv: true, allowShift: true}
	c := &jExprCase{E: g.gen(r.Intn(4), false)}
	gen := func() []XPoint {
		n := r.Intn(5)
		ps := make([]XPoint, n)
		for i := range ps {
			ps[i] = genPoint(r, g.fields)
		}
		return ps
	}
	c.A, c.B, c.C = gen(), gen(), gen()
	return c
}

func mergeBytes(ex expr.Expr, x, y []byte) ([]byte, bool) {
	x0 := append([]byte(nil), x...)
	y0 := append([]byte(nil), y...)
	out := make([]byte, ex.EncodedWidth())
	ex.Merge(out, x, y)
	return out, bytes.Equal(x, x0) && bytes.Equal(y, y0)
}

func runExprCase(e *Env, c *jExprCase) error {
	ex := c.E.Real()
	if err := ex.Validate(); err != nil {
		return fmt.Errorf("generated invalid expression %v: %v", ex, err)
	}
	g, ok := exprCaseGal(c, ex, nil)
	c.NT = len(c.A)+len(c.B)+len(c.C) >= 2 && c.E.Size() >= 2
	e.Case(g, c)
	for _, k := range []string{"agg", "avg", "bin", "if", "bounded", "shift"} {
		if c.E.HasKind(k) {
			e.Count("has_" + k)
		}
	}
	e.Count(fmt.Sprintf("size=%d", min(c.E.Size(), 8)))
	if ok {
		e.Count("get_set")
	} else {
		e.Count("get_unset")
	}
	return nil
}

// exprCaseGal runs the batches of c through the given expression object (the original, or one that
// crossed the RPC codec) and prints the expr_case; md supplies the metadata per point (nil = the
// oracle columns themselves as parameters c0, c1, ...).
func exprCaseGal(c *jExprCase, ex expr.Expr, md func(p XPoint) goexpr.Params) (string, bool) {
	if md == nil {
		md = func(p XPoint) goexpr.Params { return p.metadata() }
	}
	accumulate := func(ex expr.Expr, pts []XPoint) []byte {
		b := make([]byte, ex.EncodedWidth())
		for _, p := range pts {
			ex.Update(b, p.params(), md(p))
		}
		return b
	}
	cell := func(b []byte) string { s, _ := c.E.decodeCell(b); return s }
	all := append(append(append([]XPoint(nil), c.A...), c.B...), c.C...)
	stA, stB, stC, stABC := accumulate(ex, c.A), accumulate(ex, c.B), accumulate(ex, c.C), accumulate(ex, all)
	mAB, i1 := mergeBytes(ex, stA, stB)
	mBA, i2 := mergeBytes(ex, stB, stA)
	mABC, i3 := mergeBytes(ex, mAB, stC)
	mBC, i4 := mergeBytes(ex, stB, stC)
	mA_BC, i5 := mergeBytes(ex, stA, mBC)
	val, ok, _ := ex.Get(mABC)
	get := fmt.Sprintf("(%s, %s)", gfloatQ(val), gbool(ok))
	if !ok {
		get = "(0%Q, false)"
	}
	g := fmt.Sprintf("{| xc_e := %s;\n   xc_A := %s;\n   xc_B := %s;\n   xc_C := %s;\n   xc_stA := %s; xc_stB := %s; xc_stC := %s; xc_stABC := %s;\n   xc_mAB := %s; xc_mBA := %s; xc_mAB_C := %s; xc_mA_BC := %s;\n   xc_get := %s; xc_intact := %s |}",
		c.E.Gal(), galPoints(c.A), galPoints(c.B), galPoints(c.C),
		cell(stA), cell(stB), cell(stC), cell(stABC), cell(mAB), cell(mBA), cell(mABC), cell(mA_BC), get, gbool(i1 && i2 && i3 && i4 && i5))
	return g, ok
}

func min(a, b int) int {
	if a < b {
		return a
	}
	return b
}

func runC05Expr(e *Env) error {
	e.Header("From Coq Require Import QArith.\nFrom Zeno Require Import Base Expr Corr05.", "expr_case")
	if lines := e.ReplayLines(); lines != nil {
		for _, l := range lines {
			var c jExprCase
			if err := json.Unmarshal([]byte(l), &c); err != nil {
				return err
			}
			if err := runExprCase(e, &c); err != nil {
				return err
			}
		}
	} else {
		for i := 0; i < e.N; i++ {
			if err := runExprCase(e, genExprCase(e)); err != nil {
				return err
			}
		}
	}
	e.Footer("expr_mismatches")
	return nil
}

// ---------------------------------------------------------------------------
// sequence-level: Truncate / UpdateValue / Merge / SubMerge
// ---------------------------------------------------------------------------

// XTime is Unix seconds + nanoseconds; Zero marks time.Time{}.
type XTime struct {
	Zero bool  `json:"zero,omitempty"`
	S    int64 `json:"s,omitempty"`
	NS   int64 `json:"ns,omitempty"`
}

func (t XTime) T() time.Time {
	if t.Zero {
		return time.Time{}
	}
	return time.Unix(t.S, t.NS)
}

type XSeq struct {
	Empty bool      `json:"empty,omitempty"`
	Until XTime     `json:"until"`
	Cells [][]int64 `json:"cells"` // per period: one optional value per leaf, as [set, v, (t)]... flattened by the leaf writers
}

type jSeqCase struct {
	E      *XExpr `json:"e"`
	Res    int64  `json:"res"`
	Op     string `json:"op"` // trunc update merge submerge
	S1     XSeq   `json:"s1"`
	S2     XSeq   `json:"s2"`
	T1     XTime  `json:"t1"` // asOf / ts
	T2     XTime  `json:"t2"` // until / truncateBefore
	P      XPoint `json:"p"`
	InRes  int64  `json:"in_res"`
	Stride int64  `json:"stride"`
	Sub    *XExpr `json:"sub"`
	NilMD  bool   `json:"nil_md"`
	NT     bool   `json:"nt"`
}

// leaves returns the aggregate/avg leaves of an expression in DFS (byte) order.
func (x *XExpr) leaves() []*XExpr {
	switch x.K {
	case "agg", "avg":
		return []*XExpr{x}
	}
	var out []*XExpr
	for _, s := range x.Sub {
		out = append(out, s.leaves()...)
	}
	if x.K == "field" || x.K == "const" {
		return nil
	}
	return out
}

// build writes the XSeq as a real encoding.Sequence for expression x.
// Cells[p] holds, per leaf, 3 numbers: set(0/1), v1, v2 (v2 only used by avg).
func (s XSeq) build(x *XExpr) encoding.Sequence {
	if s.Empty {
		return nil
	}
	ex := x.Real()
	w := ex.EncodedWidth()
	seq := encoding.NewSequence(w, len(s.Cells))
	seq.SetUntil(s.Until.T())
	lv := x.leaves()
	for p, c := range s.Cells {
		off := encoding.Width64bits + p*w
		for li, l := range lv {
			set, v1, v2 := c[li*3], c[li*3+1], c[li*3+2]
			if l.K == "agg" {
				if set == 1 {
					seq[off] = 1
					encoding.Binary.PutUint64(seq[off+1:], float64bits(float64(v1)))
				}
				off += 9
			} else {
				if set == 1 {
					seq[off] = 1
					encoding.Binary.PutUint64(seq[off+1:], float64bits(float64(v1)))
					encoding.Binary.PutUint64(seq[off+9:], float64bits(float64(v2)))
				}
				off += 17
			}
		}
	}
	return seq
}

func galSeq(x *XExpr, seq encoding.Sequence) string {
	if len(seq) == 0 {
		return "None"
	}
	w := x.Real().EncodedWidth()
	n := seq.NumPeriods(w)
	cells := make([]string, n)
	for p := 0; p < n; p++ {
		cells[p], _ = x.decodeCell(seq[encoding.Width64bits+p*w:])
	}
	return fmt.Sprintf("(Some (%s, %s))", gtime(seq.Until()), glist(cells))
}

func genXSeq(e *Env, x *XExpr, res int64, base int64, aligned bool) XSeq {
	r := e.R
	if r.Intn(8) == 0 {
		return XSeq{Empty: true}
	}
	n := 1 + r.Intn(5)
	nl := len(x.leaves())
	s := XSeq{}
	// until on the resolution grid since the zero time (as every stored sequence is)
	u := time.Unix(base+int64(r.Intn(12))*res/int64(time.Second), 0)
	u = encoding.RoundTimeUp(u, time.Duration(res))
	u = u.Add(time.Duration(int64(r.Intn(8))-2) * time.Duration(res))
	s.Until = XTime{S: u.Unix(), NS: int64(u.Nanosecond())}
	for p := 0; p < n; p++ {
		c := make([]int64, nl*3)
		for li := 0; li < nl; li++ {
			if r.Intn(4) > 0 {
				c[li*3] = 1
				c[li*3+1] = int64(r.Intn(15)) - 4
				c[li*3+2] = int64(r.Intn(15)) - 4
			}
		}
		s.Cells = append(s.Cells, c)
	}
	return s
}

func genTime(e *Env, res int64, base int64, allowZero bool) XTime {
	r := e.R
	if allowZero && r.Intn(4) == 0 {
		return XTime{Zero: true}
	}
	u := encoding.RoundTimeUp(time.Unix(base, 0), time.Duration(res)).Add(time.Duration(int64(r.Intn(24))-6) * time.Duration(res))
	switch r.Intn(4) {
	case 0:
		u = u.Add(time.Duration(r.Int63n(res)))
	case 1:
		u = u.Add(time.Nanosecond)
	case 2:
		u = u.Add(-time.Nanosecond)
	}
	return XTime{S: u.Unix(), NS: int64(u.Nanosecond())}
}

func genSeqCase(e *Env) *jSeqCase {
	r := e.R
	exprs := []*XExpr{
		{K: "agg", N: "SUM", Sub: []*XExpr{{K: "field", N: "a"}}},
		{K: "agg", N: "MIN", Sub: []*XExpr{{K: "field", N: "a"}}},
		{K: "avg", Sub: []*XExpr{{K: "field", N: "a"}, {K: "field", N: "b"}}},
		{K: "bin", N: "+", Sub: []*XExpr{{K: "agg", N: "SUM", Sub: []*XExpr{{K: "field", N: "a"}}}, {K: "agg", N: "MAX", Sub: []*XExpr{{K: "field", N: "b"}}}}},
		{K: "if", Z: 0, Sub: []*XExpr{{K: "agg", N: "COUNT", Sub: []*XExpr{{K: "field", N: "a"}}}}},
	}
	ress := []int64{int64(time.Second), 2 * int64(time.Second), 7 * int64(time.Second), 1500 * int64(time.Millisecond), int64(time.Minute)}
	c := &jSeqCase{E: exprs[r.Intn(len(exprs))], Res: ress[r.Intn(len(ress))]}
	base := int64(1000000)
	switch r.Intn(4) {
	case 0:
		c.Op = "trunc"
		c.S1 = genXSeq(e, c.E, c.Res, base, true)
		c.T1 = genTime(e, c.Res, base, true)
		c.T2 = genTime(e, c.Res, base, true)
	case 1:
		c.Op = "update"
		c.S1 = genXSeq(e, c.E, c.Res, base, true)
		c.T1 = genTime(e, c.Res, base, false)
		c.T2 = genTime(e, c.Res, base, true)
		c.P = genPoint(r, []string{"a", "b"})
	case 2:
		c.Op = "merge"
		c.S1 = genXSeq(e, c.E, c.Res, base, true)
		c.S2 = genXSeq(e, c.E, c.Res, base, true)
		c.T2 = genTime(e, c.Res, base, true)
	case 3:
		c.Op = "submerge"
		scale := int64(1 + r.Intn(4))
		c.InRes = c.Res
		c.Res = c.InRes * scale
		c.Sub = c.E
		if r.Intn(3) == 0 {
			// shifted output expression over the same sub expression
			c.E = &XExpr{K: "shift", Z: -int64(r.Intn(4)) * c.InRes, Sub: []*XExpr{c.Sub}}
		}
		c.S2 = genXSeq(e, c.Sub, c.InRes, base, true)
		// with a shifted expression Go computes zeroTime.Add(-shift), whose distance to any
		// real time saturates time.Duration and then overflows in RoundTimeUntilDown; that
		// float/overflow regime is outside the model (DESIGN 3.1), so shifted cases carry a real asOf
		c.T1 = genTime(e, c.InRes, base, c.E.K != "shift" || c.E.Z == 0)
		c.T2 = genTime(e, c.InRes, base, true)
		// the output accumulator of a group-by is always empty or the result of an
		// earlier SubMerge with the same until and resolution: on the grid anchored at until
		c.S1 = genXSeq(e, c.E, c.Res, base, true)
		if !c.S1.Empty && !c.T2.Zero {
			u := c.T2.T().Add(-time.Duration(int64(r.Intn(5))) * time.Duration(c.Res))
			c.S1.Until = XTime{S: u.Unix(), NS: int64(u.Nanosecond())}
		}
		if r.Intn(3) == 0 && scale > 1 {
			c.Stride = c.InRes * int64(1+r.Intn(int(scale)))
		}
		c.NilMD = r.Intn(2) == 0
		c.P = genPoint(r, []string{"a"})
	}
	return c
}

func float64bits(f float64) uint64 { return mathFloat64bits(f) }

func runSeqCase(e *Env, c *jSeqCase) (err error) {
	defer func() {
		if r := recover(); r != nil {
			b, _ := json.Marshal(c)
			err = fmt.Errorf("panic %v on case %s", r, b)
		}
	}()
	ex := c.E.Real()
	res := time.Duration(c.Res)
	w := ex.EncodedWidth()
	s1 := c.S1.build(c.E)
	// operands are views into larger buffers, as the columns of a file row and the results of Truncate are: the
	// bytes behind them belong to someone else and must stay as they are, too
	view := func(s encoding.Sequence) (encoding.Sequence, []byte) {
		if s == nil {
			return nil, nil
		}
		buf := make([]byte, len(s)+40)
		copy(buf, s)
		for i := len(s); i < len(buf); i++ {
			buf[i] = 0xAB
		}
		return encoding.Sequence(buf[:len(s)]), buf
	}
	tailIntact := func(s encoding.Sequence, buf []byte) bool {
		for i := len(s); i < len(buf); i++ {
			if buf[i] != 0xAB {
				return false
			}
		}
		return true
	}
	var buf1 []byte
	s1, buf1 = view(s1)
	var out encoding.Sequence
	intact := true
	var op string
	switch c.Op {
	case "trunc":
		before := append([]byte(nil), s1...)
		out = s1.Truncate(w, res, c.T1.T(), c.T2.T())
		out = append(encoding.Sequence(nil), out...)
		intact = bytes.Equal(before, s1) && tailIntact(s1, buf1)
		op = fmt.Sprintf("OTrunc %s %s %s", galSeq(c.E, before), gtime(c.T1.T()), gtime(c.T2.T()))
	case "update":
		before := galSeq(c.E, s1)
		out = s1.UpdateValue(c.T1.T(), c.P.params(), c.P.metadata(), ex, res, c.T2.T())
		op = fmt.Sprintf("OUpdate %s %s %s %s", before, gtime(c.T1.T()), gtime(c.T2.T()), c.P.Gal())
	case "merge":
		s2, buf2 := view(c.S2.build(c.E))
		b1, b2 := append([]byte(nil), s1...), append([]byte(nil), s2...)
		out = s1.Merge(s2, ex, res, c.T2.T())
		out = append(encoding.Sequence(nil), out...)
		intact = bytes.Equal(b1, s1) && bytes.Equal(b2, s2) && tailIntact(s1, buf1) && tailIntact(s2, buf2)
		op = fmt.Sprintf("OMerge %s %s %s", galSeq(c.E, b1), galSeq(c.E, b2), gtime(c.T2.T()))
	case "submerge":
		sub := c.Sub.Real()
		s2, buf2 := view(c.S2.build(c.Sub))
		b2 := append([]byte(nil), s2...)
		before := galSeq(c.E, s1)
		sms := ex.SubMergers([]expr.Expr{sub})
		if sms[0] == nil {
			return fmt.Errorf("no submerger for %v <- %v", ex, sub)
		}
		var md goexpr.Params
		mdg := "None"
		if !c.NilMD {
			md = c.P.metadata()
			cs := make([]string, len(c.P.Conds))
			for i, b := range c.P.Conds {
				cs[i] = gbool(b)
			}
			mdg = "(Some " + glist(cs) + ")"
		}
		out = s1.SubMerge(s2, md, res, time.Duration(c.InRes), ex, sub, sms[0], c.T1.T(), c.T2.T(), time.Duration(c.Stride))
		intact = bytes.Equal(b2, s2) && tailIntact(s2, buf2)
		op = fmt.Sprintf("OSubMerge %s %s %s %s %s %s %s %s", before, galSeq(c.Sub, b2), gz(c.InRes), gtime(c.T1.T()), gtime(c.T2.T()), gz(c.Stride), c.Sub.Gal(), mdg)
	}
	g := fmt.Sprintf("{| qc_e := %s; qc_res := %s;\n   qc_op := %s;\n   qc_out := %s; qc_intact := %s |}", c.E.Gal(), gz(c.Res), op, galSeq(c.E, out), gbool(intact))
	c.NT = !c.S1.Empty
	e.Case(g, c)
	e.Count("op=" + c.Op)
	if len(out) == 0 {
		e.Count("out_empty")
	}
	return nil
}

func runC05Seq(e *Env) error {
	e.Header("From Coq Require Import QArith.\nFrom Zeno Require Import Base Expr Seq Corr05.", "seq_case")
	if lines := e.ReplayLines(); lines != nil {
		for _, l := range lines {
			var c jSeqCase
			if err := json.Unmarshal([]byte(l), &c); err != nil {
				return err
			}
			if err := runSeqCase(e, &c); err != nil {
				return err
			}
		}
	} else {
		for i := 0; i < e.N; i++ {
			if err := runSeqCase(e, genSeqCase(e)); err != nil {
				return err
			}
		}
	}
	e.Footer("seq_mismatches")
	return nil
}
