package main

// C14: retention.  Histories whose clock moves well beyond the retention period, late and
// out-of-order points, many flushes (so the every-10th truncating flush runs).

import (
	"encoding/json"
	"fmt"
	"strings"
	"time"
)

func init() { register("dbret", runDBRet) }

type jRetOp struct {
	Flush bool    `json:"flush,omitempty"`
	P     *jPoint `json:"p,omitempty"`
}

type jRetQuery struct {
	Q    jQuery `json:"q"`
	Upto int    `json:"upto"` // run after this many operations
}

type jRetCase struct {
	Table   jTable      `json:"table"`
	Ops     []jRetOp    `json:"ops"`
	Queries []jRetQuery `json:"queries"`
	NT      bool        `json:"nt"`
}

func genRetCase(e *Env) *jRetCase {
	r := e.R
	c := &jRetCase{}
	c.Table = genTable(r, map[string]bool{})
	t := &c.Table
	ratios := []int64{1, 2, 3, 5, 10, 40}
	t.RetNS = t.ResNS * ratios[r.Intn(len(ratios))]
	n := 15 + r.Intn(45)
	flushP := []int{0, 8, 3, 2}[r.Intn(4)] // 1/flushP chance of a flush after each insert
	cur := baseSec * int64(time.Second)
	// few distinct keys in most cases, so that one key has data on disk and in memory, long silences
	// and periods right at the retention boundary
	var keyPool []jPoint
	if r.Intn(4) > 0 {
		keyPool = genDBPoints(r, t, 1+r.Intn(3))
	}
	for i := 0; i < n; i++ {
		p := genDBPoints(r, t, 1)[0]
		if keyPool != nil {
			p.Dims = keyPool[r.Intn(len(keyPool))].Dims
		}
		switch r.Intn(10) {
		case 0, 1: // late: back by up to 1.5 x retention
			back := r.Int63n(t.RetNS*3/2 + 1)
			ns := cur - back
			p.TS = XTime{S: ns / int64(time.Second), NS: ns % int64(time.Second)}
		case 2: // exactly on / around the retention boundary
			ns := cur - t.RetNS + int64(r.Intn(3)-1)
			p.TS = XTime{S: ns / int64(time.Second), NS: ns % int64(time.Second)}
		case 3: // a silence of almost one retention period, then a point (its key's old data sits at the boundary)
			cur += t.RetNS - r.Int63n(t.ResNS+1)
			p.TS = XTime{S: cur / int64(time.Second), NS: cur % int64(time.Second)}
		default:
			cur += r.Int63n(3*t.ResNS + 1)
			if r.Intn(3) == 0 {
				cur = cur / t.ResNS * t.ResNS // a multiple of the resolution since the unix epoch
			}
			p.TS = XTime{S: cur / int64(time.Second), NS: cur % int64(time.Second)}
		}
		pp := p
		c.Ops = append(c.Ops, jRetOp{P: &pp})
		if flushP > 0 && r.Intn(flushP) == 0 {
			c.Ops = append(c.Ops, jRetOp{Flush: true})
		}
	}
	mk := func(upto int) {
		c.Queries = append(c.Queries, jRetQuery{Q: jQuery{Mem: true}, Upto: upto})
		g := genGroupQuery(r, t, r.Intn(3) == 0)
		if !g.HasAsOf && g.PeriodNS == 0 && g.GroupBy == "" && g.Fields == nil {
			g.GroupBy = "*"
			g.PeriodNS = t.ResNS
		}
		c.Queries = append(c.Queries, jRetQuery{Q: g, Upto: upto})
	}
	mk(len(c.Ops) / 2)
	mk(len(c.Ops))
	// disk-only raw view after a final flush
	c.Ops = append(c.Ops, jRetOp{Flush: true})
	c.Queries = append(c.Queries, jRetQuery{Q: jQuery{Mem: false}, Upto: len(c.Ops)})
	return c
}

func runRetCase(e *Env, c *jRetCase) error {
	e.Running(c)
	dir := tempDir()
	defer rmDir(dir)
	t := &c.Table
	db, err := openDB(dir, t, "t")
	if err != nil {
		return err
	}
	defer db.Close()
	type res struct {
		qResult
		upto int
	}
	var results []res
	runQueriesAt := func(upto int) error {
		for i := range c.Queries {
			if c.Queries[i].Upto != upto {
				continue
			}
			if err := waitCaughtUp(db, "t", 0); err != nil {
				return err
			}
			q := &c.Queries[i].Q
			now := db.VerifNow()
			_, rows, qerr := runQuery(db, q.SQL("t", t.Conds), q.Mem)
			results = append(results, res{qResult{0, q, "", qerr, rows, now}, upto})
		}
		return nil
	}
	flushes := 0
	for i, op := range c.Ops {
		if err := runQueriesAt(i); err != nil {
			return err
		}
		if op.Flush {
			if err := waitCaughtUp(db, "t", 0); err != nil {
				return err
			}
			db.FlushAll()
			flushes++
		} else {
			if err := db.Insert("inbound", op.P.TS.T(), op.P.goDims(), op.P.goVals()); err != nil {
				return err
			}
		}
	}
	if err := runQueriesAt(len(c.Ops)); err != nil {
		return err
	}
	// Gallina: reuse galDBCase for the points/oracles, then rearrange into a ret_case
	var pts []jPoint
	for _, op := range c.Ops {
		if !op.Flush {
			pts = append(pts, *op.P)
		}
	}
	qs := make([]jQuery, len(results))
	qr := make([]qResult, len(results))
	for i, r := range results {
		qs[i] = *r.q
		qr[i] = r.qResult
	}
	tg, pg, rg, err := galDBParts(t, pts, qs, qr)
	if err != nil {
		return err
	}
	var ops []string
	pi := 0
	for _, op := range c.Ops {
		if op.Flush {
			ops = append(ops, "RFlush")
		} else {
			ops = append(ops, "RIns "+pg[pi])
			pi++
		}
	}
	runs := make([]string, len(results))
	for i, r := range results {
		runs[i] = fmt.Sprintf("{| ro_q := %s;\n      ro_err := %s;\n      ro_rows := %s; ro_upto := %d%%nat |}", rg[i].q, gbool(r.err != nil), rg[i].rows, r.upto)
		e.Add("rows", len(r.rows))
		if r.err != nil {
			e.Count("query_errors")
		}
	}
	g := fmt.Sprintf("{| rc_table := %s;\n   rc_ops := [%s];\n   rc_runs := [%s] |}", tg, strings.Join(ops, ";\n     "), strings.Join(runs, ";\n     "))
	c.NT = flushes >= 1
	e.Case(g, c)
	if flushes >= 10 {
		e.Count("cases_with_10plus_flushes")
	}
	e.Add("flushes", flushes)
	e.Add("points", len(pts))
	e.Count(fmt.Sprintf("ret/res=%d", t.RetNS/t.ResNS))
	return nil
}

func runDBRet(e *Env) error {
	e.Header("From Coq Require Import QArith.\nFrom Zeno Require Import Base Sort Expr DB Retention.", "ret_case")
	if lines := e.ReplayLines(); lines != nil {
		for _, l := range lines {
			var c jRetCase
			if err := json.Unmarshal([]byte(l), &c); err != nil {
				return err
			}
			if err := runRetCase(e, &c); err != nil {
				return err
			}
		}
	} else {
		for i := 0; i < e.N; i++ {
			c := genRetCase(e)
			if err := runRetCase(e, c); err != nil {
				b, _ := json.Marshal(c)
				return fmt.Errorf("%v on case %s", err, b)
			}
		}
	}
	e.Footer("ret_mismatches")
	return nil
}
