package main

import (
	"encoding/json"
	"fmt"
	"sort"

	"github.com/getlantern/wal"
	"github.com/getlantern/zenodb/common"
)

// Stage `offs`: the real common.OffsetsBySource (Advance, LimitAge) against Model/Offsets.v.

func init() { register("offs", runOffs) }

type jOff struct {
	Src int   `json:"src"`
	Seq int64 `json:"seq"`
	Pos int64 `json:"pos"`
}
type jOffsCase struct {
	A    []jOff `json:"a"`
	ANil bool   `json:"a_nil"`
	B    []jOff `json:"b"`
	BNil bool   `json:"b_nil"`
	Lim  jOff   `json:"lim"`
	NT   bool   `json:"nt"`
}

func genOffs(e *Env) ([]jOff, bool) {
	r := e.R
	if r.Intn(6) == 0 {
		return nil, true
	}
	n := r.Intn(5)
	seen := map[int]bool{}
	var out []jOff
	for i := 0; i < n; i++ {
		s := r.Intn(5)
		if seen[s] {
			continue
		}
		seen[s] = true
		out = append(out, jOff{Src: s, Seq: int64(r.Intn(4)), Pos: int64(r.Intn(4))})
	}
	sort.Slice(out, func(i, j int) bool { return out[i].Src < out[j].Src })
	return out, false
}

func (c *jOffsCase) real(xs []jOff, isNil bool) common.OffsetsBySource {
	if isNil {
		return nil
	}
	m := make(common.OffsetsBySource)
	for _, x := range xs {
		m[x.Src] = wal.NewOffset(x.Seq, x.Pos)
	}
	return m
}

func galObs(m common.OffsetsBySource) string {
	if m == nil {
		return "None"
	}
	var srcs []int
	for s := range m {
		srcs = append(srcs, s)
	}
	sort.Ints(srcs)
	items := make([]string, len(srcs))
	for i, s := range srcs {
		items[i] = fmt.Sprintf("(%d, (%s, %s))", s, gz(m[s].FileSequence()), gz(m[s].Position()))
	}
	return "(Some " + glist(items) + ")"
}

func runOffsCase(e *Env, c *jOffsCase) error {
	a, b := c.real(c.A, c.ANil), c.real(c.B, c.BNil)
	ga, gb := galObs(a), galObs(b)
	adv := a.Advance(b)
	gadv := galObs(adv)
	lim := a.LimitAge(wal.NewOffset(c.Lim.Seq, c.Lim.Pos))
	c.NT = len(c.A) > 0 && len(c.B) > 0
	e.Case(fmt.Sprintf("{| oc_a := %s; oc_b := %s; oc_lim := (%s, %s); oc_adv := %s; oc_lim_a := %s |}",
		ga, gb, gz(c.Lim.Seq), gz(c.Lim.Pos), gadv, galObs(lim)), c)
	if c.ANil || c.BNil {
		e.Count("nil-operand")
	}
	return nil
}

func runOffs(e *Env) error {
	e.Header("From Zeno Require Import Base Offsets CorrOffsets.", "offs_case")
	if lines := e.ReplayLines(); lines != nil {
		for _, l := range lines {
			var c jOffsCase
			if err := json.Unmarshal([]byte(l), &c); err != nil {
				return err
			}
			if err := runOffsCase(e, &c); err != nil {
				return err
			}
		}
	} else {
		for i := 0; i < e.N; i++ {
			c := &jOffsCase{}
			c.A, c.ANil = genOffs(e)
			c.B, c.BNil = genOffs(e)
			c.Lim = jOff{Seq: int64(e.R.Intn(4)), Pos: int64(e.R.Intn(4))}
			if err := runOffsCase(e, c); err != nil {
				return err
			}
		}
	}
	e.Footer("offs_mismatches")
	return nil
}
