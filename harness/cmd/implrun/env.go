package main

import (
	"bufio"
	"encoding/json"
	"fmt"
	"math/rand"
	"os"
	"path/filepath"
	"strings"
)

// Env carries the PRNG (the single source of random choices), the output
// writers and the statistics of one implrun invocation.
type Env struct {
	Name   string
	Seed   int64
	N      int
	Out    string
	Replay string
	Mode   string
	R      *rand.Rand

	v       *bufio.Writer // cases.v
	vf      *os.File
	j       *bufio.Writer // cases.jsonl
	jf      *os.File
	g       *bufio.Writer // cases.gal: the Gallina term of every case (inputs + what was observed), for replay records
	gf      *os.File
	Stats   map[string]int
	Samples []interface{}
	Cases   int
	first   bool
}

func newEnv(name string, seed int64, n int, out, replay, mode string) *Env {
	os.MkdirAll(out, 0755)
	vf, err := os.Create(filepath.Join(out, "cases.v"))
	if err != nil {
		panic(err)
	}
	jf, err := os.Create(filepath.Join(out, "cases.jsonl"))
	if err != nil {
		panic(err)
	}
	gf, err := os.Create(filepath.Join(out, "cases.gal"))
	if err != nil {
		panic(err)
	}
	return &Env{Name: name, Seed: seed, N: n, Out: out, Replay: replay, Mode: mode,
		R: rand.New(rand.NewSource(seed)), v: bufio.NewWriterSize(vf, 1<<20), vf: vf,
		j: bufio.NewWriterSize(jf, 1<<20), jf: jf, g: bufio.NewWriterSize(gf, 1<<20), gf: gf, Stats: map[string]int{}, first: true}
}

// Header writes the preamble of cases.v: imports and the opening of the case list.
func (e *Env) Header(imports string, listType string) {
	fmt.Fprintf(e.v, "%s\nOpen Scope Z_scope.\nDefinition cases : list %s := [\n", imports, listType)
}

// Running records the case about to be run (running.json in the output directory): if the implementation brings
// the process down (a panic in one of its goroutines), that file is the failing input.
func (e *Env) Running(js interface{}) {
	b, _ := json.Marshal(js)
	os.WriteFile(filepath.Join(e.Out, "running.json"), b, 0644)
}

// Case appends one case: its Gallina term and its JSON form (for replay and samples).
func (e *Env) Case(gallina string, js interface{}) {
	if !e.first {
		e.v.WriteString(";\n")
	}
	e.first = false
	e.v.WriteString(gallina)
	e.g.WriteString(gallina)
	e.g.WriteString("\n\x1e\n")
	b, _ := json.Marshal(js)
	e.j.Write(b)
	e.j.WriteString("\n")
	if len(e.Samples) < 3 {
		e.Samples = append(e.Samples, js)
	}
	e.Cases++
}

// Footer closes the list and asks Coq for the indices of the failing cases.
func (e *Env) Footer(mismatchFn string) {
	fmt.Fprintf(e.v, "\n].\nDefinition M := Eval vm_compute in (%s cases).\nPrint M.\n", mismatchFn)
}

func (e *Env) Count(k string)      { e.Stats[k]++ }
func (e *Env) Add(k string, n int) { e.Stats[k] += n }

func (e *Env) finish() error {
	if err := e.v.Flush(); err != nil {
		return err
	}
	e.vf.Close()
	e.j.Flush()
	e.jf.Close()
	e.g.Flush()
	e.gf.Close()
	st := map[string]interface{}{"name": e.Name, "seed": e.Seed, "cases": e.Cases, "stats": e.Stats, "samples": e.Samples}
	b, _ := json.MarshalIndent(st, "", " ")
	return os.WriteFile(filepath.Join(e.Out, "stats.json"), b, 0644)
}

// ReplayLines returns the JSON lines of the replay file (nil when generating).
func (e *Env) ReplayLines() []string {
	if e.Replay == "" {
		return nil
	}
	b, err := os.ReadFile(e.Replay)
	if err != nil {
		panic(err)
	}
	var out []string
	for _, l := range strings.Split(string(b), "\n") {
		if strings.TrimSpace(l) != "" {
			out = append(out, l)
		}
	}
	return out
}

// ---- Gallina printing helpers ----

func gz(i int64) string {
	if i < 0 {
		return fmt.Sprintf("(%d)", i)
	}
	return fmt.Sprintf("%d", i)
}
func gbool(b bool) string {
	if b {
		return "true"
	}
	return "false"
}
func glist(items []string) string { return "[" + strings.Join(items, "; ") + "]" }
func gzlist(xs []int64) string {
	items := make([]string, len(xs))
	for i, x := range xs {
		items[i] = gz(x)
	}
	return glist(items)
}
func gstr(s string) string {
	items := make([]string, len(s))
	for i := 0; i < len(s); i++ {
		items[i] = fmt.Sprintf("%d", s[i])
	}
	return glist(items)
}
func gopt(s string, some bool) string {
	if some {
		return "(Some " + s + ")"
	}
	return "None"
}
