package main

import (
	"fmt"
	"math"
	"math/big"
	"math/rand"
	"strings"
	"time"

	"github.com/getlantern/goexpr"
	"github.com/getlantern/zenodb/encoding"
	"github.com/getlantern/zenodb/expr"
)

// XExpr is the harness-side AST of an expression; it converts to the real
// expr.Expr, to zenodb SQL, and to the Gallina term of Model/Expr.v.
type XExpr struct {
	K   string   `json:"k"`             // field const bounded agg avg bin if shift unary
	N   string   `json:"n,omitempty"`   // field name / agg name / binop / unary name
	Z   int64    `json:"z,omitempty"`   // const value / cond id / shift offset (ns)
	Lo  int64    `json:"lo,omitempty"`  // bounded
	Hi  int64    `json:"hi,omitempty"`  // bounded
	Sub []*XExpr `json:"sub,omitempty"` // children
}

var fieldIDs = map[string]int64{"a": 1, "b": 2, "c": 3, "w": 4, "_point": 9}

func fieldID(n string) int64 {
	if id, ok := fieldIDs[n]; ok {
		return id
	}
	panic("unknown field " + n)
}

var binopGal = map[string]string{"+": "ADD", "-": "SUB", "*": "MUL", "/": "DIV", "<": "LT", "<=": "LTE", "=": "EQ",
	"<>": "NEQ", ">=": "GTE", ">": "GT", "AND": "AND", "OR": "OR"}

func condParam(id int64) string { return fmt.Sprintf("c%d", id) }

// Real builds the real expr.Expr (IF conditions become parameters c<i> of the metadata).
func (x *XExpr) Real() expr.Expr { return x.RealC(nil) }

// RealC builds the real expr.Expr with the given compiled IF conditions.
func (x *XExpr) RealC(conds []goexpr.Expr) expr.Expr {
	if conds != nil {
		switch x.K {
		case "field", "const":
		default:
			// rebuild children with the same conditions
			cp := *x
			_ = cp
		}
	}
	return x.realC(conds)
}

func (x *XExpr) realC(conds []goexpr.Expr) expr.Expr {
	switch x.K {
	case "field":
		return expr.FIELD(x.N)
	case "const":
		return expr.CONST(float64(x.Z))
	case "bounded":
		return expr.BOUNDED(x.Sub[0].realC(conds), float64(x.Lo), float64(x.Hi))
	case "agg":
		switch x.N {
		case "SUM":
			return expr.SUM(x.Sub[0].realC(conds))
		case "MIN":
			return expr.MIN(x.Sub[0].realC(conds))
		case "MAX":
			return expr.MAX(x.Sub[0].realC(conds))
		case "COUNT":
			return expr.COUNT(x.Sub[0].realC(conds))
		}
	case "avg":
		return expr.WAVG(x.Sub[0].realC(conds), x.Sub[1].realC(conds))
	case "bin":
		l, r := x.Sub[0].realC(conds), x.Sub[1].realC(conds)
		switch x.N {
		case "+":
			return expr.ADD(l, r)
		case "-":
			return expr.SUB(l, r)
		case "*":
			return expr.MULT(l, r)
		case "/":
			return expr.DIV(l, r)
		case "<":
			return expr.LT(l, r)
		case "<=":
			return expr.LTE(l, r)
		case "=":
			return expr.EQ(l, r)
		case "<>":
			return expr.NEQ(l, r)
		case ">=":
			return expr.GTE(l, r)
		case ">":
			return expr.GT(l, r)
		case "AND":
			return expr.AND(l, r)
		case "OR":
			return expr.OR(l, r)
		}
	case "if":
		if conds != nil {
			return expr.IF(conds[x.Z], x.Sub[0].realC(conds))
		}
		return expr.IF(goexpr.Param(condParam(x.Z)), x.Sub[0].realC(conds))
	case "shift":
		return expr.SHIFT(x.Sub[0].realC(conds), time.Duration(x.Z))
	case "unary":
		e, err := expr.UnaryMath(x.N, x.Sub[0].realC(conds))
		if err != nil {
			panic(err)
		}
		return e
	}
	panic("bad XExpr " + x.K + " " + x.N)
}

// Gal prints the Model/Expr.v term.
func (x *XExpr) Gal() string {
	switch x.K {
	case "field":
		return fmt.Sprintf("(EField %d)", fieldID(x.N))
	case "const":
		return fmt.Sprintf("(EConst %s)", gz(x.Z))
	case "bounded":
		return fmt.Sprintf("(EBounded %s %s %s)", x.Sub[0].Gal(), gz(x.Lo), gz(x.Hi))
	case "agg":
		return fmt.Sprintf("(EAgg %s %s)", x.N, x.Sub[0].Gal())
	case "avg":
		return fmt.Sprintf("(EAvg %s %s)", x.Sub[0].Gal(), x.Sub[1].Gal())
	case "bin":
		return fmt.Sprintf("(EBin %s %s %s)", binopGal[x.N], x.Sub[0].Gal(), x.Sub[1].Gal())
	case "if":
		return fmt.Sprintf("(EIf %d%%nat %s)", x.Z, x.Sub[0].Gal())
	case "shift":
		return fmt.Sprintf("(EShift %s %s)", x.Sub[0].Gal(), gz(x.Z))
	case "unary":
		return fmt.Sprintf("(EUnary %d %s)", map[string]int{"LN": 1, "LOG2": 2, "LOG10": 3}[x.N], x.Sub[0].Gal())
	}
	panic("bad XExpr")
}

func (x *XExpr) HasKind(k string) bool {
	if x.K == k {
		return true
	}
	for _, s := range x.Sub {
		if s.HasKind(k) {
			return true
		}
	}
	return false
}

func (x *XExpr) Size() int {
	n := 1
	for _, s := range x.Sub {
		n += s.Size()
	}
	return n
}

// decodeCell decodes the bytes of one period into the Gallina cell of Model/Expr.v,
// walking the expression exactly as Expr.Get/Update do (DFS).
func (x *XExpr) decodeCell(b []byte) (string, []byte) {
	switch x.K {
	case "field", "const":
		return "CU", b
	case "bounded", "if", "shift", "unary":
		return x.Sub[0].decodeCell(b)
	case "agg":
		set := b[0] == 1
		v := math.Float64frombits(encoding.Binary.Uint64(b[1:]))
		_, rest := x.Sub[0].decodeCell(b[9:])
		if !set {
			return "(CAgg None)", rest
		}
		return fmt.Sprintf("(CAgg (Some %s))", gfloatZ(v)), rest
	case "avg":
		set := b[0] == 1
		c := math.Float64frombits(encoding.Binary.Uint64(b[1:]))
		t := math.Float64frombits(encoding.Binary.Uint64(b[9:]))
		_, rest := x.Sub[0].decodeCell(b[17:])
		if !set {
			return "(CAvg None)", rest
		}
		return fmt.Sprintf("(CAvg (Some (%s, %s)))", gfloatZ(c), gfloatZ(t)), rest
	case "bin":
		l, rest := x.Sub[0].decodeCell(b)
		r, rest2 := x.Sub[1].decodeCell(rest)
		return fmt.Sprintf("(CBin %s %s)", l, r), rest2
	}
	panic("bad XExpr")
}

// gfloatZ prints an integer-valued float64 as a Z; a non-integer state is a
// modelling-domain violation and is printed as an impossible marker value.
func gfloatZ(v float64) string {
	if v != math.Trunc(v) || math.IsInf(v, 0) || math.IsNaN(v) || math.Abs(v) > 1e15 {
		return "(-999999999999999999)"
	}
	return gz(int64(v))
}

// gfloatQ prints a float64 exactly as a Coq Q.
func gfloatQ(v float64) string {
	if math.IsInf(v, 1) {
		return "(inject_Z (10 ^ 400))"
	}
	if math.IsInf(v, -1) {
		return "(inject_Z (- 10 ^ 400))"
	}
	if math.IsNaN(v) {
		return "(999999999999999999999 # 7)"
	}
	r := new(big.Rat).SetFloat64(v)
	num, den := r.Num(), r.Denom()
	ns := num.String()
	if num.Sign() < 0 {
		ns = "(" + ns + ")"
	}
	return fmt.Sprintf("(%s # %s)", ns, den.String())
}

// model time: nanoseconds since Go's zero time; the zero time is 0
var zeroToUnix = new(big.Int).Mul(big.NewInt(62135596800), big.NewInt(1000000000))

func gtime(t time.Time) string {
	if t.IsZero() {
		return "0"
	}
	v := new(big.Int).Mul(big.NewInt(t.Unix()), big.NewInt(1000000000))
	v.Add(v, big.NewInt(int64(t.Nanosecond())))
	v.Add(v, zeroToUnix)
	if v.Sign() < 0 {
		return "(" + v.String() + ")"
	}
	return v.String()
}

// ---- generation ----

type exprGen struct {
	r              *rand.Rand
	fields         []string
	allowIf        bool
	allowDiv       bool
	allowShift     bool
	nconds         int  // number of IF conditions available (0 = 3 anonymous oracle columns)
	noConstOperand bool // no constant operands in binary expressions (D14)
	valueOnly      bool // (state) currently below an arithmetic or comparison operator
	noConstAgg     bool // no aggregate over a bare constant (crashes the DB on query: finding D17)
	sqlSafe        bool // zenodb's SQL grammar: comparisons/AND/OR only at the top or below AND/OR
}

func (g *exprGen) wrappable(depth int) *XExpr {
	switch g.r.Intn(6) {
	case 0:
		if !g.noConstAgg {
			return &XExpr{K: "const", Z: int64(g.r.Intn(5)) - 1}
		}
	case 1:
		if depth > 0 {
			lo := int64(g.r.Intn(6)) - 3
			return &XExpr{K: "bounded", Lo: lo, Hi: lo + int64(g.r.Intn(8)), Sub: []*XExpr{g.wrappable(depth - 1)}}
		}
	}
	return &XExpr{K: "field", N: g.fields[g.r.Intn(len(g.fields))]}
}

func (g *exprGen) leaf() *XExpr {
	if g.r.Intn(4) == 0 {
		w := &XExpr{K: "const", Z: 1}
		if g.r.Intn(2) == 0 {
			w = g.wrappable(1)
		}
		if g.r.Intn(6) == 0 {
			w = &XExpr{K: "const", Z: int64(g.r.Intn(3))}
		}
		return &XExpr{K: "avg", Sub: []*XExpr{g.wrappable(1), w}}
	}
	aggs := []string{"SUM", "MIN", "MAX", "COUNT"}
	return &XExpr{K: "agg", N: aggs[g.r.Intn(4)], Sub: []*XExpr{g.wrappable(1)}}
}

// gen produces a valid expression of the aggregate grammar; underCmp forbids DIV
// below comparison operators (float vs exact rational equality would differ).
func (g *exprGen) gen(depth int, underCmp bool) *XExpr {
	if g.sqlSafe {
		if depth > 0 && g.r.Intn(4) == 0 {
			return g.genBool(depth)
		}
		return g.genVal(depth, false, false)
	}
	return g.gen2(depth, underCmp, false)
}

// genVal / genBool: the typed grammar zenodb's SQL parser accepts (value expressions vs
// boolean expressions; AND/OR take booleans, comparisons and arithmetic take values).
func (g *exprGen) genVal(depth int, underBin bool, noDiv bool) *XExpr {
	if depth <= 0 {
		return g.leaf()
	}
	switch g.r.Intn(9) {
	case 0, 1, 2:
		return g.leaf()
	case 3:
		if g.allowIf {
			nc := 3
			if g.nconds > 0 {
				nc = g.nconds
			}
			return &XExpr{K: "if", Z: int64(g.r.Intn(nc)), Sub: []*XExpr{g.genVal(depth-1, false, noDiv)}}
		}
		return g.leaf()
	case 4:
		if underBin || noDiv {
			return g.leaf()
		}
		lo := int64(g.r.Intn(10)) - 5
		return &XExpr{K: "bounded", Lo: lo, Hi: lo + int64(g.r.Intn(20)), Sub: []*XExpr{g.genVal(depth-1, false, true)}}
	case 5:
		if g.allowShift {
			return &XExpr{K: "shift", Z: -int64(g.r.Intn(3)) * int64(time.Second), Sub: []*XExpr{g.genVal(depth-1, false, noDiv)}}
		}
		return g.leaf()
	default:
		ops := []string{"+", "-", "*"}
		if g.allowDiv && !noDiv {
			ops = append(ops, "/")
		}
		op := ops[g.r.Intn(len(ops))]
		side := func() *XExpr {
			if g.r.Intn(5) == 0 && !g.noConstOperand {
				return &XExpr{K: "const", Z: int64(g.r.Intn(7)) - 2}
			}
			return g.genVal(depth-1, true, noDiv)
		}
		return &XExpr{K: "bin", N: op, Sub: []*XExpr{side(), side()}}
	}
}

func (g *exprGen) genBool(depth int) *XExpr {
	if depth > 1 && g.r.Intn(3) == 0 {
		op := []string{"AND", "OR"}[g.r.Intn(2)]
		return &XExpr{K: "bin", N: op, Sub: []*XExpr{g.genBool(depth - 1), g.genBool(depth - 1)}}
	}
	op := []string{"<", "<=", "=", "<>", ">=", ">"}[g.r.Intn(6)]
	return &XExpr{K: "bin", N: op, Sub: []*XExpr{g.genVal(depth-1, true, true), g.genVal(depth-1, true, true)}}
}

func (g *exprGen) gen2(depth int, underCmp bool, underBin bool) *XExpr {
	if depth <= 0 {
		return g.leaf()
	}
	k := g.r.Intn(10)
	if underBin && k == 4 {
		k = 6 // a binary expression may not wrap BOUNDED
	}
	switch k {
	case 0, 1, 2:
		return g.leaf()
	case 3:
		if g.allowIf {
			nc := 3
			if g.nconds > 0 {
				nc = g.nconds
			}
			return &XExpr{K: "if", Z: int64(g.r.Intn(nc)), Sub: []*XExpr{g.gen2(depth-1, underCmp, false)}}
		}
		return g.leaf()
	case 4:
		lo := int64(g.r.Intn(10)) - 5
		if underCmp {
			return g.leaf()
		}
		return &XExpr{K: "bounded", Lo: lo, Hi: lo + int64(g.r.Intn(20)), Sub: []*XExpr{g.gen(depth-1, true)}}
	case 5:
		if g.allowShift {
			return &XExpr{K: "shift", Z: -int64(g.r.Intn(3)) * int64(time.Second), Sub: []*XExpr{g.gen(depth-1, underCmp)}}
		}
		return g.leaf()
	default:
		ops := []string{"+", "-", "*", "<", "<=", "=", "<>", ">=", ">", "AND", "OR"}
		if g.sqlSafe && g.valueOnly {
			ops = []string{"+", "-", "*"}
		}
		if g.allowDiv && !underCmp {
			ops = append(ops, "/", "/")
		}
		op := ops[g.r.Intn(len(ops))]
		cmp := underCmp || !(op == "+" || op == "-" || op == "*" || op == "/")
		if g.sqlSafe {
			// children of anything but AND/OR are value expressions
			saved := g.valueOnly
			g.valueOnly = !(op == "AND" || op == "OR")
			defer func() { g.valueOnly = saved }()
		}
		var l, rr *XExpr
		if g.r.Intn(5) == 0 && !g.noConstOperand {
			l = &XExpr{K: "const", Z: int64(g.r.Intn(7)) - 2}
		} else {
			l = g.gen2(depth-1, cmp, true)
		}
		if g.r.Intn(5) == 0 && !g.noConstOperand {
			rr = &XExpr{K: "const", Z: int64(g.r.Intn(7)) - 2}
		} else {
			rr = g.gen2(depth-1, cmp, true)
		}
		return &XExpr{K: "bin", N: op, Sub: []*XExpr{l, rr}}
	}
}

// ---- points ----

type XPoint struct {
	Vals  map[string]int64 `json:"vals"`
	Conds []bool           `json:"conds"`
	tag   int
}

func genPoint(r *rand.Rand, fields []string) XPoint {
	p := XPoint{Vals: map[string]int64{}}
	for _, f := range fields {
		if r.Intn(5) > 0 {
			p.Vals[f] = int64(r.Intn(21)) - 6
		}
	}
	for i := 0; i < 3; i++ {
		p.Conds = append(p.Conds, r.Intn(2) == 0)
	}
	return p
}

func (p XPoint) params() expr.Params {
	m := expr.Map{}
	for k, v := range p.Vals {
		m[k] = float64(v)
	}
	return m
}

func (p XPoint) metadata() goexpr.Params {
	m := goexpr.MapParams{}
	for i, c := range p.Conds {
		m[condParam(int64(i))] = c
	}
	return m
}

func (p XPoint) Gal() string {
	var vs []string
	for _, f := range []string{"a", "b", "c", "w", "_point"} {
		if v, ok := p.Vals[f]; ok {
			vs = append(vs, fmt.Sprintf("(%d, %s)", fieldID(f), gz(v)))
		}
	}
	cs := make([]string, len(p.Conds))
	for i, c := range p.Conds {
		cs[i] = gbool(c)
	}
	return fmt.Sprintf("{| p_vals := %s; p_md := %s |}", glist(vs), glist(cs))
}

func galPoints(ps []XPoint) string {
	items := make([]string, len(ps))
	for i, p := range ps {
		items[i] = p.Gal()
	}
	return "[" + strings.Join(items, ";\n      ") + "]"
}

func mathFloat64bits(f float64) uint64 { return math.Float64bits(f) }

func nan() float64 { return math.NaN() }
