package main

// C20 (third stage): a query answered over RPC returns the same rows, in the same order, with the same keys and
// field names, as the same query answered in-process — generated SQL incl. ORDER BY (asc/desc, several keys), GROUP BY
// of dimensions that some points lack (empty and non-empty keys interleave), LIMIT/OFFSET, HAVING.

import (
	"context"
	"encoding/json"
	"fmt"
	"math/rand"
	"net"
	"strings"
	"time"

	"github.com/getlantern/zenodb/core"
	"github.com/getlantern/zenodb/rpc"
	rpcserver "github.com/getlantern/zenodb/rpc/server"
)

func init() { register("c20same", runC20Same) }

type jSameCase struct {
	ShiftS  int64    `json:"shift_s"` // all timestamps moved by this many seconds (negative: before 1970)
	Table   jTable   `json:"table"`
	Points  []jPoint `json:"points"`
	Flush   bool     `json:"flush"`
	Queries []string `json:"queries"`
	NT      bool     `json:"nt"`
}

func genSameCase(r *rand.Rand) *jSameCase {
	c := &jSameCase{}
	c.Table = genTable(r, map[string]bool{})
	c.Points = genDBPoints(r, &c.Table, 20+r.Intn(30))
	c.Flush = r.Intn(2) == 0
	if r.Intn(3) == 0 {
		c.ShiftS = -(baseSec + int64(r.Intn(4000))) // around and before the unix epoch
	}
	t := &c.Table
	res := time.Duration(t.ResNS)
	for i := 0; i < 8; i++ {
		f := t.Fields[r.Intn(len(t.Fields))].Name
		sel := []string{"*", f, "_points, " + f, f + ", _points"}[r.Intn(4)]
		q := "SELECT " + sel + " FROM t"
		if r.Intn(3) == 0 {
			q += " WHERE " + c08Where(r)
		}
		q += c08Group(r, res)
		if r.Intn(5) == 0 && sel != "*" {
			q += fmt.Sprintf(" HAVING _points > %d", r.Intn(2))
		}
		var keys []string
		for _, k := range []string{f, "_points", "d1", "d2", "d3", "_time"} {
			if r.Intn(3) == 0 && (sel == "*" || k[0] == 'd' || k == "_time" || strings.Contains(sel, k)) {
				if r.Intn(2) == 0 {
					k += " DESC"
				}
				keys = append(keys, k)
			}
		}
		if len(keys) > 0 {
			q += " ORDER BY " + strings.Join(keys, ", ")
			if r.Intn(3) == 0 {
				if r.Intn(2) == 0 {
					q += fmt.Sprintf(" LIMIT %d, %d", r.Intn(4), 1+r.Intn(6)) // offset, count
				} else {
					q += fmt.Sprintf(" LIMIT %d", 1+r.Intn(6))
				}
			}
		}
		c.Queries = append(c.Queries, q)
	}
	c.NT = len(c.Points) >= 3
	return c
}

func runSameCase(e *Env, c *jSameCase) error {
	e.Running(c)
	dir := tempDir()
	defer rmDir(dir)
	t := &c.Table
	db, err := openDB(dir+"/served", t, "t")
	if err != nil {
		return err
	}
	defer db.Close()
	l, err := net.Listen("tcp", "127.0.0.1:0")
	if err != nil {
		return err
	}
	serve, stop := rpcserver.PrepareServer(db, l, &rpcserver.Opts{ID: 1, Password: "pw"})
	go serve()
	defer stop()
	client, err := rpc.Dial(l.Addr().String(), &rpc.ClientOpts{Password: "pw"})
	if err != nil {
		return err
	}
	defer client.Close()
	// the same points go into the served database through the RPC inserter and into a second one in-process
	ref, err := openDB(dir+"/ref", t, "t")
	if err != nil {
		return err
	}
	defer ref.Close()
	ictx, icancel := context.WithTimeout(context.Background(), 30*time.Second)
	defer icancel()
	ins, err := client.NewInserter(ictx, "inbound")
	if err != nil {
		return err
	}
	for i := range c.Points {
		p := &c.Points[i]
		ts := p.TS.T().Add(time.Duration(c.ShiftS) * time.Second)
		if err := ref.Insert("inbound", ts, p.goDims(), p.goVals()); err != nil {
			return err
		}
		vals := p.goVals()
		if len(p.Dims) == 0 || len(vals) == 0 {
			// the RPC server rejects points without dims or vals
			if err := db.Insert("inbound", ts, p.goDims(), vals); err != nil {
				return err
			}
			continue
		}
		if err := ins.Insert(ts, p.goDims(), func(cb func(string, interface{})) {
			for k, v := range vals {
				cb(k, v)
			}
		}); err != nil {
			return err
		}
	}
	if _, err := ins.Close(); err != nil {
		return err
	}
	if c.Flush {
		if err := waitCaughtUp(db, "t", 0); err != nil {
			return err
		}
		db.FlushAll()
	}
	if err := waitCaughtUp(db, "t", 0); err != nil {
		return err
	}
	if err := waitCaughtUp(ref, "t", 0); err != nil {
		return err
	}
	// (one clock for both: under VirtualTime it is the newest accepted timestamp, which is the same set of points)
	ctx, cancel := context.WithTimeout(context.Background(), 30*time.Second)
	defer cancel()
	for _, q := range c.Queries {
		fa, ra, ea := runQuery(ref, q, true)
		var fb []string
		var rb []obsRow
		md, iterate, eb := client.Query(ctx, q, true)
		if eb == nil {
			fb = md.FieldNames
			_, eb = iterate(func(fr *core.FlatRow) (bool, error) {
				rb = append(rb, obsRow{TS: time.Unix(0, fr.TS), Key: fr.Key.AsMap(), Vals: append([]float64(nil), fr.Values...)})
				return true, nil
			})
		}
		one := *c
		one.Queries = []string{q}
		e.Case(fmt.Sprintf("{| fc_rel := ROrdered; fc_fields_same := %s; fc_err_a := %s; fc_err_b := %s;\n   fc_a := %s;\n   fc_b := %s |}",
			gbool(strings.Join(fa, ",") == strings.Join(fb, ",")), gbool(ea != nil), gbool(eb != nil), galORows(ra), galORows(rb)), &one)
		e.Add("rows", len(ra))
		if ea != nil {
			e.Count("query_error")
		}
		if strings.Contains(q, "ORDER BY") {
			e.Count("ordered")
		}
	}
	return nil
}

func runC20Same(e *Env) error {
	e.Header("From Coq Require Import QArith.\nFrom Zeno Require Import Base Sort Expr DB Filter.", "filter_case")
	if lines := e.ReplayLines(); lines != nil {
		for _, l := range lines {
			var c jSameCase
			if err := json.Unmarshal([]byte(l), &c); err != nil {
				return err
			}
			if err := runSameCase(e, &c); err != nil {
				return err
			}
		}
	} else {
		for i := 0; i < e.N; i++ {
			c := genSameCase(e.R)
			if err := runSameCase(e, c); err != nil {
				b, _ := json.Marshal(c)
				return fmt.Errorf("%v on case %s", err, b)
			}
		}
	}
	e.Footer("filter_mismatches")
	return nil
}
