package main

// C02: crash recovery applies every acknowledged insert exactly once.
//
// A child process (this binary re-executed as c02child) runs a real database on a scratch directory with the WAL
// synced on every write, prints TRY i / ACK i around every DB.Insert, and is ended by an armed crash point of the
// flush/offset protocol (verif hook: os.Exit at the n-th hit), by SIGKILL after a random delay, by exiting without
// Close, or by a clean Close.  After up to three such rounds a last child opens the directory, waits until ingestion
// has caught up and prints what the tables hold.  Table "tid" (SUM(one) GROUP BY pid, pid unique per point, array
// values give several row-store inserts per point) shows how many times each insert is reflected; it is compared
// with the crash model (Model/Crash.v) run on the same history; mode "db" compares the generated table's rows with
// the specification model over the acknowledged points.

import (
	"bufio"
	"encoding/json"
	"fmt"
	"math/rand"
	"os"
	"os/exec"
	"path/filepath"
	"strconv"
	"strings"
	"syscall"
	"time"

	"github.com/getlantern/bytemap"
	"github.com/getlantern/zenodb"
	"github.com/getlantern/zenodb/encoding"
	"github.com/getlantern/zenodb/sql"
)

func init() {
	register("c02", runC02)
	register("c02child", runC02Child)
}

const tidSQL = "SELECT SUM(one) AS cnt FROM inbound WHERE d2 <> 1 GROUP BY pid, period(1h)"

type jCOp struct {
	Op string `json:"op"` // ins, flush, wait, sleep
	Pt int    `json:"pt"`
	MS int    `json:"ms"`
}

type jCRound struct {
	Ops    []jCOp `json:"ops"`
	End    string `json:"end"` // close | exit | point | kill
	Point  string `json:"point,omitempty"`
	Nth    int    `json:"nth,omitempty"`
	KillUS int    `json:"kill_us,omitempty"`
}

type jCrashCase struct {
	Table  jTable      `json:"table"`
	Points []jPoint    `json:"points"`
	Arr    map[int]int `json:"arr"` // point index -> number of elements of its "one" array (absent: scalar)
	Rounds []jCRound   `json:"rounds"`
	NT     bool        `json:"nt"`
	// observations
	Acked    []int          `json:"acked,omitempty"`     // point indices in WAL order (acknowledged, or in flight and found reflected)
	InFlight []int          `json:"in_flight,omitempty"` // tried, not acknowledged when the process ended
	Ends     []string       `json:"ends,omitempty"`      // how each round really ended
	Counts   map[string]int `json:"counts,omitempty"`    // pid -> tid count
	Pass     []bool         `json:"pass,omitempty"`      // per acked entry: tid's WHERE passes (evaluated by the real goexpr)
	Hung     []string       `json:"hung,omitempty"`      // children that had to be killed after 30 s (with what they were doing)
	Note     string         `json:"note,omitempty"`
}

var c02Points = []string{"insert.applied", "wal.read", "insert.split", "flush.written:t", "flush.synced:t", "flush.renamed:t", "flush.swapped:t",
	"flush.written:tid", "flush.synced:tid", "flush.renamed:tid", "flush.swapped:tid", "offsets.synced:t", "offsets.renamed:t", "offsets.synced:tid", "offsets.renamed:tid"}

func (c *jCrashCase) vals(i int) map[string]interface{} {
	m := c.Points[i].goVals()
	if n, ok := c.Arr[i]; ok && n > 0 {
		arr := make([]float64, n)
		for k := range arr {
			arr[k] = 1
		}
		m["one"] = arr
	}
	return m
}

func genCrashCase(r *rand.Rand) *jCrashCase {
	c := &jCrashCase{Arr: map[int]int{}}
	c.Table = genTable(r, map[string]bool{})
	n := 12 + r.Intn(30)
	c.Points = genDBPoints(r, &c.Table, n)
	for i := range c.Points {
		p := c.Points[i]
		d := map[string]jVal{}
		for k, v := range p.Dims {
			d[k] = v
		}
		d["pid"] = jVal{K: "int", I: int64(i + 1)}
		v := map[string]int64{}
		for k, x := range p.Vals {
			v[k] = x
		}
		v["one"] = 1
		c.Points[i].Dims, c.Points[i].Vals = d, v
		if r.Intn(5) == 0 {
			c.Arr[i] = 2 + r.Intn(6)
			if r.Intn(4) == 0 {
				c.Arr[i] = 50 + r.Intn(400)
			}
		}
	}
	next := 0
	rounds := 1 + r.Intn(3)
	for ri := 0; ri < rounds; ri++ {
		var rd jCRound
		k := 2 + r.Intn(8)
		nIns, nFlush := 0, 0
		for j := 0; j < k; j++ {
			switch x := r.Intn(10); {
			case x < 5:
				for b := 1 + r.Intn(5); b > 0 && next < n; b-- {
					if c.Arr[next] > 20 && r.Intn(2) == 0 {
						rd.Ops = append(rd.Ops, jCOp{Op: "wait"}, jCOp{Op: "insmid", Pt: next})
						nFlush++
					} else {
						rd.Ops = append(rd.Ops, jCOp{Op: "ins", Pt: next})
					}
					next++
					nIns++
				}
			case x < 7:
				rd.Ops = append(rd.Ops, jCOp{Op: "flush"})
				nFlush++
			case x < 9:
				rd.Ops = append(rd.Ops, jCOp{Op: "wait"})
			default:
				rd.Ops = append(rd.Ops, jCOp{Op: "sleep", MS: 1 + r.Intn(3)})
			}
		}
		switch x := r.Intn(10); {
		case x < 1:
			rd.End = "close"
		case x < 2:
			rd.End = "exit"
		case x < 4:
			rd.End = "kill"
			rd.KillUS = r.Intn(6000)
		default:
			rd.End = "point"
			rd.Point = c02Points[r.Intn(len(c02Points))]
			max := 2
			switch {
			case rd.Point == "insert.applied" || rd.Point == "wal.read":
				max = 2*nIns + 1
			case rd.Point == "insert.split":
				max = 12
			case strings.HasPrefix(rd.Point, "flush"):
				max = nFlush + 1
			}
			rd.Nth = 1 + r.Intn(max)
		}
		c.Rounds = append(c.Rounds, rd)
	}
	c.NT = true
	return c
}

// ---------- child ----------

func c02Open(dir string, t *jTable) (*zenodb.DB, error) {
	db, err := zenodb.NewDB(&zenodb.DBOpts{Dir: dir, VirtualTime: true, IterationCoalesceInterval: time.Millisecond, Panic: quietPanic})
	if err != nil {
		return nil, err
	}
	err = db.ApplySchema(zenodb.Schema{
		"t":   &zenodb.TableOpts{MinFlushLatency: time.Hour, MaxFlushLatency: 2 * time.Hour, RetentionPeriod: time.Duration(t.RetNS), SQL: t.SQL()},
		"tid": &zenodb.TableOpts{MinFlushLatency: time.Hour, MaxFlushLatency: 2 * time.Hour, RetentionPeriod: 10000 * time.Hour, SQL: tidSQL}})
	if err != nil {
		return nil, err
	}
	return db, nil
}

type c02Row struct {
	TS   int64                  `json:"ts"`
	Key  map[string]interface{} `json:"key"`
	Vals []string               `json:"vals"`
}

type c02Obs struct {
	Counts map[string]int `json:"counts"`
	Rows   []c02Row       `json:"rows"`
	NowNS  int64          `json:"now_ns"`
	WAL    []int          `json:"wal"` // the pid of every complete WAL entry, in WAL order
	Err    string         `json:"err,omitempty"`
}

// runC02Child: -replay <case.json> -mode "<round>|obs:<dir>"
func runC02Child(e *Env) error {
	b, err := os.ReadFile(e.Replay)
	if err != nil {
		return err
	}
	var c jCrashCase
	if err := json.Unmarshal(b, &c); err != nil {
		return err
	}
	parts := strings.SplitN(e.Mode, ":", 2)
	dir := parts[1]
	say := func(s string) { os.Stdout.WriteString(s + "\n") }
	db, err := c02Open(dir, &c.Table)
	if err != nil {
		return err
	}
	if parts[0] == "obs" {
		var maxTS time.Time
		for i := range c.Points {
			if c.Points[i].TS.T().After(maxTS) {
				maxTS = c.Points[i].TS.T()
			}
		}
		obs := c02Obs{Counts: map[string]int{}}
		for _, tb := range []string{"t", "tid"} {
			if err := waitCaughtUp(db, tb, 0); err != nil {
				obs.Err = err.Error()
			}
		}
		db.VerifAdvanceClock(maxTS)
		_, rows, err := runQuery(db, "SELECT cnt FROM tid GROUP BY pid", true)
		if err != nil {
			obs.Err = err.Error()
		}
		for _, r := range rows {
			cnt := 0
			if len(r.Vals) > 0 {
				cnt = int(r.Vals[0] + 0.5)
			}
			obs.Counts[fmt.Sprint(r.Key["pid"])] += cnt
		}
		obs.NowNS = db.VerifNow().UnixNano()
		entries, err := db.VerifWALEntries("inbound")
		if err != nil {
			obs.Err = err.Error()
		}
		for _, data := range entries {
			_, remain := encoding.Read(data, encoding.Width64bits)
			dimsLen, remain := encoding.ReadInt32(remain)
			dims, _ := encoding.Read(remain, dimsLen)
			pid, _ := bytemap.ByteMap(dims).Get("pid").(int)
			obs.WAL = append(obs.WAL, pid)
		}
		q := jQuery{Mem: true}
		_, trows, err := runQuery(db, q.SQL("t", c.Table.Conds), true)
		if err != nil {
			obs.Err = err.Error()
		}
		for _, r := range trows {
			cr := c02Row{TS: r.TS.UnixNano(), Key: r.Key}
			for _, v := range r.Vals {
				cr.Vals = append(cr.Vals, strconv.FormatFloat(v, 'g', -1, 64))
			}
			obs.Rows = append(obs.Rows, cr)
		}
		ob, _ := json.Marshal(&obs)
		say("OBS " + string(ob))
		db.Close()
		os.Exit(0)
	}
	ri, _ := strconv.Atoi(parts[0])
	rd := c.Rounds[ri]
	say("READY")
	for _, op := range rd.Ops {
		switch op.Op {
		case "ins":
			p := &c.Points[op.Pt]
			say(fmt.Sprintf("TRY %d", op.Pt))
			if err := db.Insert("inbound", p.TS.T(), p.goDims(), c.vals(op.Pt)); err == nil {
				say(fmt.Sprintf("ACK %d", op.Pt))
			}
		case "insmid":
			// a flush lands while the row-store inserts of this (array-valued) point are being applied
			base := db.VerifCounter("tid", "applied")
			p := &c.Points[op.Pt]
			say(fmt.Sprintf("TRY %d", op.Pt))
			if err := db.Insert("inbound", p.TS.T(), p.goDims(), c.vals(op.Pt)); err == nil {
				say(fmt.Sprintf("ACK %d", op.Pt))
			}
			for dl := time.Now().Add(300 * time.Millisecond); db.VerifCounter("tid", "applied") < base+1 && time.Now().Before(dl); {
			}
			db.FlushAll()
		case "flush":
			db.FlushAll()
		case "wait":
			waitCaughtUp(db, "t", 0)
			waitCaughtUp(db, "tid", 0)
		case "sleep":
			time.Sleep(time.Duration(op.MS) * time.Millisecond)
		}
	}
	end := rd.End
	if os.Getenv("VERIF_C02_FINISH") != "" {
		end = "point"
	}
	switch end {
	case "close":
		db.Close()
		say("CLOSED")
	case "point":
		// give the pipeline a moment to reach the armed point, then end like "exit"
		waitCaughtUp(db, "t", 0)
		waitCaughtUp(db, "tid", 0)
		db.FlushAll()
	case "kill":
		time.Sleep(50 * time.Millisecond)
	}
	say("END")
	os.Exit(0)
	return nil
}

// ---------- parent ----------

type c02Hit struct {
	name string
	nth  int
}

// c02PointLog runs the first round of the case without killing it and returns every (step, occurrence) it passed.
func c02PointLog(c *jCrashCase) ([]c02Hit, error) {
	dir := tempDir()
	defer rmDir(dir)
	script := filepath.Join(dir, "case.json")
	b, _ := json.Marshal(c)
	if err := os.WriteFile(script, b, 0644); err != nil {
		return nil, err
	}
	os.MkdirAll(filepath.Join(dir, "tmp"), 0755)
	logf := filepath.Join(dir, "points.log")
	cmd := exec.Command(os.Args[0], "c02child", "-replay", script, "-mode", "0:"+filepath.Join(dir, "db"), "-out", filepath.Join(dir, "childout"))
	// the child's round ends like an armed round (wait, flush) so that the flush steps are passed
	cmd.Env = append(os.Environ(), "VERIF_POINT_LOG="+logf, "TMPDIR="+filepath.Join(dir, "tmp"), "VERIF_C02_FINISH=1")
	if out, err := cmd.CombinedOutput(); err != nil {
		return nil, fmt.Errorf("point-log run failed: %v: %s", err, out)
	}
	lb, err := os.ReadFile(logf)
	if os.IsNotExist(err) {
		return nil, nil // the history passed no instrumented step (e.g. it inserts nothing)
	}
	if err != nil {
		return nil, err
	}
	var hits []c02Hit
	for _, l := range strings.Split(string(lb), "\n") {
		f := strings.Fields(l)
		if len(f) == 2 && f[0] != "CRASH" {
			n, _ := strconv.Atoi(f[1])
			hits = append(hits, c02Hit{f[0], n})
		}
	}
	return hits, nil
}

func execCrashCase(e *Env, c *jCrashCase) (*c02Obs, error) {
	dir := tempDir()
	defer rmDir(dir)
	dbDir := filepath.Join(dir, "db")
	script := filepath.Join(dir, "case.json")
	b, _ := json.Marshal(c)
	if err := os.WriteFile(script, b, 0644); err != nil {
		return nil, err
	}
	c.Acked, c.InFlight, c.Ends, c.Counts, c.Hung = nil, nil, nil, nil, nil
	var inflight []int
	run := func(mode string, env []string, killAfter time.Duration) (lines []string, code int, err error) {
		cmd := exec.Command(os.Args[0], "c02child", "-replay", script, "-mode", mode, "-out", filepath.Join(dir, "childout"))
		cmd.Env = append(os.Environ(), env...)
		cmd.Env = append(cmd.Env, "TMPDIR="+filepath.Join(dir, "tmp"))
		os.MkdirAll(filepath.Join(dir, "tmp"), 0755)
		out, err := cmd.StdoutPipe()
		if err != nil {
			return nil, 0, err
		}
		if err := cmd.Start(); err != nil {
			return nil, 0, err
		}
		sc := bufio.NewScanner(out)
		sc.Buffer(make([]byte, 1<<20), 1<<26)
		timer := time.AfterFunc(30*time.Second, func() {
			c.Hung = append(c.Hung, mode[:strings.Index(mode, ":")])
			cmd.Process.Kill()
		})
		defer timer.Stop()
		for sc.Scan() {
			l := sc.Text()
			lines = append(lines, l)
			if l == "READY" && killAfter >= 0 {
				ka := killAfter
				go func() {
					time.Sleep(ka)
					cmd.Process.Signal(syscall.SIGKILL)
				}()
			}
		}
		werr := cmd.Wait()
		code = 0
		if werr != nil {
			if ee, ok := werr.(*exec.ExitError); ok {
				code = ee.ExitCode()
			} else {
				return lines, 0, werr
			}
		}
		return lines, code, nil
	}
	for ri, rd := range c.Rounds {
		var env []string
		kill := time.Duration(-1)
		switch rd.End {
		case "point":
			env = []string{"VERIF_CRASH_POINT=" + rd.Point, "VERIF_CRASH_NTH=" + strconv.Itoa(rd.Nth)}
		case "kill":
			kill = time.Duration(rd.KillUS) * time.Microsecond
		}
		t0 := time.Now()
		lines, code, err := run(fmt.Sprintf("%d:%s", ri, dbDir), env, kill)
		if os.Getenv("VERIF_DEBUG") != "" {
			fmt.Fprintf(os.Stderr, "round %d took %v code %d lines %d last %v\n", ri, time.Since(t0), code, len(lines), lines)
		}
		if err != nil {
			return nil, err
		}
		tried := -1
		ended := false
		for _, l := range lines {
			switch {
			case strings.HasPrefix(l, "TRY "):
				tried, _ = strconv.Atoi(l[4:])
			case strings.HasPrefix(l, "ACK "):
				i, _ := strconv.Atoi(l[4:])
				c.Acked = append(c.Acked, i)
				tried = -1
			case l == "END" || l == "CLOSED":
				ended = true
			}
		}
		if tried >= 0 {
			inflight = append(inflight, tried)
			c.Acked = append(c.Acked, -tried-1) // placeholder in WAL order: resolved by the observation
		}
		how := rd.End
		switch {
		case code == 137:
			how = "crashed at " + rd.Point
		case code == -1:
			how = "killed"
		case code != 0:
			return nil, fmt.Errorf("child of round %d exited with %d: %s", ri, code, strings.Join(lines, " | "))
		case ended && rd.End == "point":
			how = "exit (armed point not reached)"
		case ended && rd.End == "kill":
			how = "exit (kill came too late)"
		}
		c.Ends = append(c.Ends, how)
		e.Count("round_end: " + strings.SplitN(how, ":", 2)[0])
	}
	t0 := time.Now()
	lines, code, err := run("obs:"+dbDir, nil, -1)
	if os.Getenv("VERIF_DEBUG") != "" {
		fmt.Fprintf(os.Stderr, "obs took %v code %d lines %v\n", time.Since(t0), code, lines)
	}
	if err != nil {
		return nil, err
	}
	var obs *c02Obs
	for _, l := range lines {
		if strings.HasPrefix(l, "OBS ") {
			obs = &c02Obs{}
			if err := json.Unmarshal([]byte(l[4:]), obs); err != nil {
				return nil, err
			}
		}
	}
	if obs == nil && len(c.Hung) > 0 {
		obs = &c02Obs{Counts: map[string]int{}}
	}
	if obs == nil {
		return nil, fmt.Errorf("observation child failed (%d): %s", code, strings.Join(lines, " | "))
	}
	if obs.Err != "" {
		return nil, fmt.Errorf("observation child: %s", obs.Err)
	}
	// an insert that was in flight when the process ended may or may not have reached the WAL: the WAL decides.
	// The history given to the model is the WAL's content in WAL order; an acknowledged insert that is not in the WAL
	// is kept (the model then expects it and the comparison fails, as it should).
	wasAcked := map[int]bool{}
	wasInFlight := map[int]bool{}
	for _, a := range c.Acked {
		if a >= 0 {
			wasAcked[a] = true
		} else {
			wasInFlight[-a-1] = true
		}
	}
	var acked []int
	inWAL := map[int]bool{}
	for _, pid := range obs.WAL {
		i := pid - 1
		if !wasAcked[i] && !wasInFlight[i] {
			return nil, fmt.Errorf("the WAL holds pid %d, which was never inserted", pid)
		}
		if wasInFlight[i] && !wasAcked[i] {
			e.Count("in_flight_reflected")
		}
		inWAL[i] = true
		acked = append(acked, i)
	}
	for _, a := range c.Acked {
		if a >= 0 && !inWAL[a] {
			acked = append(acked, a)
			e.Count("acked_but_not_in_wal")
		}
	}
	for i := range wasInFlight {
		if !inWAL[i] {
			e.Count("in_flight_absent")
		}
	}
	c.Acked = acked
	c.Pass = nil
	for _, a := range acked {
		c.Pass = append(c.Pass, c.tidPass(a))
	}
	c.InFlight = inflight
	c.Counts = obs.Counts
	e.Add("acked", len(acked))
	return obs, nil
}

func (c *jCrashCase) tidPass(i int) bool {
	q, err := sql.Parse(tidSQL)
	if err != nil || q.Where == nil {
		return true
	}
	return evalPred(q.Where, bytemap.New(c.Points[i].goDims()))
}

// Gal prints the case for Model/Corr02.v: the history as the model's operations, and per WAL entry how many
// row-store inserts the table was seen to reflect.
func (c *jCrashCase) Gal() string {
	nat := func(i int) string { return fmt.Sprintf("%d%%nat", i) }
	acked := map[int]bool{}
	for _, a := range c.Acked {
		acked[a] = true
	}
	var ops []string
	for ri, rd := range c.Rounds {
		if ri > 0 {
			ops = append(ops, "COp Open")
		}
		for _, op := range rd.Ops {
			switch op.Op {
			case "ins", "insmid":
				if acked[op.Pt] {
					k := 0
					if n, ok := c.Arr[op.Pt]; ok {
						k = n - 1
					}
					ops = append(ops, fmt.Sprintf("COp (Ack %s %s)", gbool(c.tidPass(op.Pt)), nat(k)))
				}
				if op.Op == "insmid" {
					ops = append(ops, "COp Read", "COp Apply", "COp Flush")
				}
			case "flush":
				ops = append(ops, "COp Flush")
			case "wait":
				ops = append(ops, "CDrain")
			}
		}
		if ri < len(c.Ends) && c.Ends[ri] == "close" {
			ops = append(ops, "COp Flush")
		}
		if ri < len(c.Ends) && c.Ends[ri] == "exit (armed point not reached)" {
			ops = append(ops, "CDrain", "COp Flush") // what the child does while waiting for the armed point
		}
		ops = append(ops, "COp Crash")
	}
	var obs []string
	for _, a := range c.Acked {
		obs = append(obs, nat(c.Counts[strconv.Itoa(a+1)]))
	}
	return fmt.Sprintf("{| cc_ops := [%s];\n   cc_obs := %s; cc_hung := %s |}", strings.Join(ops, "; "), glist(obs), nat(len(c.Hung)))
}

// expanded: the acknowledged points as the row store sees them (one point per row-store insert)
func (c *jCrashCase) expanded() []jPoint {
	var pts []jPoint
	for _, a := range c.Acked {
		pts = append(pts, c.Points[a])
		if n, ok := c.Arr[a]; ok {
			for k := 1; k < n; k++ {
				p := c.Points[a]
				p.Vals = map[string]int64{"one": 1}
				p.Junk = nil
				pts = append(pts, p)
			}
		}
	}
	return pts
}

func runC02(e *Env) error {
	wantDB := e.Mode == "db"
	if wantDB {
		e.Header("From Coq Require Import QArith.\nFrom Zeno Require Import Base Sort Expr DB.", "db_case")
	} else {
		e.Header("From Coq Require Import ZArith List.\nImport ListNotations.\nFrom Zeno Require Import Crash Corr02.", "crash_case")
	}
	one := func(c *jCrashCase) error {
		obs, err := execCrashCase(e, c)
		if err != nil {
			return err
		}
		if wantDB {
			pts := c.expanded()
			q := jQuery{Mem: true}
			var rows []obsRow
			for _, cr := range obs.Rows {
				r := obsRow{TS: time.Unix(0, cr.TS), Key: cr.Key}
				for k, v := range r.Key { // JSON turned the integers of the keys into float64
					if f, ok := v.(float64); ok && f == float64(int(f)) {
						r.Key[k] = int(f)
					}
				}
				for _, vs := range cr.Vals {
					f, _ := strconv.ParseFloat(vs, 64)
					r.Vals = append(r.Vals, f)
				}
				rows = append(rows, r)
			}
			g, err := galDBCase(&c.Table, pts, []jQuery{q}, []qResult{{len(pts), &q, "", nil, rows, time.Unix(0, obs.NowNS)}})
			if err != nil {
				return err
			}
			e.Case(g, c)
		} else {
			e.Case(c.Gal(), c)
		}
		return nil
	}
	if lines := e.ReplayLines(); lines != nil {
		for _, l := range lines {
			var c jCrashCase
			if err := json.Unmarshal([]byte(l), &c); err != nil {
				return err
			}
			if err := one(&c); err != nil {
				return err
			}
		}
	} else if e.Mode == "enum" {
		// fault enumeration: one history, killed at every occurrence of every instrumented step that an un-killed run of
		// it passes through; then a second round of inserts, a clean close, and the observation
		for i := 0; i < e.N; i++ {
			base := genCrashCase(e.R)
			base.Rounds = base.Rounds[:1]
			base.Rounds[0].End = "exit"
			hits, err := c02PointLog(base)
			if err != nil {
				return err
			}
			e.Add("enumerated_kill_points", len(hits))
			for _, h := range hits {
				c := *base
				c.Rounds = []jCRound{base.Rounds[0]}
				c.Rounds[0].End, c.Rounds[0].Point, c.Rounds[0].Nth = "point", h.name, h.nth
				if err := one(&c); err != nil {
					b, _ := json.Marshal(&c)
					return fmt.Errorf("%v on case %s", err, b)
				}
			}
		}
	} else {
		for i := 0; i < e.N; i++ {
			c := genCrashCase(e.R)
			if wantDB {
				// array values are reflected 2n-1 times (known finding, judged in the tid stage where it can be told apart
				// from every other deviation): the row comparison uses scalar values only
				c.Arr = map[int]int{}
				for ri := range c.Rounds {
					for oi := range c.Rounds[ri].Ops {
						if c.Rounds[ri].Ops[oi].Op == "insmid" {
							c.Rounds[ri].Ops[oi].Op = "ins"
						}
					}
				}
			}
			if err := one(c); err != nil {
				b, _ := json.Marshal(c)
				return fmt.Errorf("%v on case %s", err, b)
			}
		}
	}
	if wantDB {
		e.Footer("db_mismatches")
	} else {
		e.Footer("crash_mismatches")
	}
	return nil
}
