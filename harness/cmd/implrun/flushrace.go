package main

import (
	"encoding/json"
	"fmt"
	"time"
)

// Stage `flushrace` (C04, C03): queries started while a flush of a large memstore is under way; a probe query must
// return the same rows before, after, after a further time-ranged query and a second flush, and from disk only.

func init() { register("flushrace", runFlushRace) }

type jFlushRaceCase struct {
	Keys   int  `json:"keys"`
	Second bool `json:"second"` // a second batch of points into half of the keys before the race (memstore + file split)
	NT     bool `json:"nt"`
}

func runFlushRaceCase(e *Env, c *jFlushRaceCase) error {
	e.Running(c)
	dir := tempDir()
	defer rmDir(dir)
	t := &jTable{Fields: []jField{{Name: "fa", E: &XExpr{K: "agg", N: "SUM", Sub: []*XExpr{{K: "field", N: "a"}}}}},
		ResNS: int64(time.Second), RetNS: int64(100000 * time.Second)}
	db, err := openDB(dir, t, "t")
	if err != nil {
		return err
	}
	defer db.Close()
	ts := time.Unix(baseSec, 0)
	ins := func(from, to int) error {
		for i := from; i < to; i++ {
			if err := db.Insert("inbound", ts, map[string]interface{}{"d1": i, "d2": "k"}, map[string]interface{}{"a": 1.0}); err != nil {
				return err
			}
		}
		return waitCaughtUp(db, "t", 0)
	}
	if c.Second {
		if err := ins(0, c.Keys/2); err != nil {
			return err
		}
		db.FlushAll()
	}
	if err := ins(0, c.Keys); err != nil {
		return err
	}
	const probe = "SELECT fa FROM t GROUP BY _"
	_, before, err := runQuery(db, probe, true)
	if err != nil {
		return err
	}
	done := make(chan struct{})
	go func() {
		db.FlushAll()
		close(done)
	}()
	started := 0
	for flushing := true; flushing; {
		select {
		case <-done:
			flushing = false
		default:
			if _, _, qerr := runQuery(db, "SELECT * FROM t LIMIT 1", true); qerr != nil {
				return qerr
			}
			started++
		}
	}
	var during [][]obsRow
	_, r1, err := runQuery(db, probe, true)
	if err != nil {
		return err
	}
	during = append(during, r1)
	if _, _, err := runQuery(db, fmt.Sprintf("SELECT fa FROM t ASOF '%s' UNTIL '%s' GROUP BY d2", fmtTime(ts.Add(-3*time.Second)), fmtTime(ts.Add(time.Second))), true); err != nil {
		return err
	}
	_, r2, err := runQuery(db, probe, true)
	if err != nil {
		return err
	}
	during = append(during, r2)
	db.FlushAll()
	_, r3, err := runQuery(db, probe, true)
	if err != nil {
		return err
	}
	_, r4, err := runQuery(db, probe, false)
	if err != nil {
		return err
	}
	during = append(during, r3, r4)
	gd := make([]string, len(during))
	for i, rows := range during {
		gd[i] = galORows(rows)
	}
	c.NT = started > 0
	e.Case(fmt.Sprintf("{| sn_before := %s;\n   sn_after := %s;\n   sn_during := %s |}", galORows(before), galORows(before), glist(gd)), c)
	e.Add("queries_started_during_the_flush", started)
	return nil
}

func runFlushRace(e *Env) error {
	e.Header("From Coq Require Import QArith.\nFrom Zeno Require Import Base Sort Expr DB CorrSnap.", "snap_case")
	if lines := e.ReplayLines(); lines != nil {
		for _, l := range lines {
			var c jFlushRaceCase
			if err := json.Unmarshal([]byte(l), &c); err != nil {
				return err
			}
			if err := runFlushRaceCase(e, &c); err != nil {
				return err
			}
		}
	} else {
		for i := 0; i < e.N; i++ {
			c := &jFlushRaceCase{Keys: 4000 + e.R.Intn(20000), Second: e.R.Intn(2) == 0}
			if err := runFlushRaceCase(e, c); err != nil {
				return err
			}
		}
	}
	e.Footer("snap_mismatches")
	return nil
}
