package main

// C12: replication is exactly-once per partition across follower restarts (clean or from a crash image of the
// directory), leader restarts and link cuts.
//
// The cluster carries two tables on the inbound stream: the generated table "t" and the fixed table
// "tid" = SUM(one) GROUP BY pid, where every point has a unique pid and one = 1, so that a follower's tid
// content is exactly the multiset of WAL entries it has applied.  Mode "" compares that multiset at every
// settle point with the protocol model Model/Repl.v driven through the same operations; mode "db" compares
// the generated table's content on every follower, and the leaders' answers, with the specification model
// over the accepted points.

import (
	"encoding/json"
	"fmt"
	"io"
	"math/rand"
	"os"
	"path/filepath"
	"sort"
	"strings"
	"sync/atomic"
	"time"

	"github.com/getlantern/goexpr"
	"github.com/getlantern/zenodb"
)

func init() { register("c12", runC12) }

type jRStep struct {
	Op   string `json:"op"`
	Node int    `json:"node"`
	Src  int    `json:"src"`
	Pts  []int  `json:"pts,omitempty"`
	K    int    `json:"k"`
}

type jReplCase struct {
	Table     jTable   `json:"table"`
	Points    []jPoint `json:"points"`
	P         int      `json:"p"`
	Replicas  int      `json:"replicas"`
	L         int      `json:"l"`
	PartBy    []string `json:"part_by"`
	TidPartBy []string `json:"tid_part_by"`
	Steps     []jRStep `json:"steps"`
	Queue     int      `json:"queue,omitempty"` // > 0: the leaders queue at most this many entries per follower (MaxFollowQueue)
	NT        bool     `json:"nt"`
	// observations
	Obs      [][][]int64 `json:"obs,omitempty"`    // per settle, per follower: encoded entries held by tid (sorted)
	Routes   [][]int     `json:"routes,omitempty"` // per accepted entry (in op order): [src, partition under tid's keys]
	Guard    []string    `json:"guard,omitempty"`  // Follow requests announcing an EarliestOffset after a table's offset
	Accepted []int       `json:"accepted,omitempty"`
	Note     string      `json:"note,omitempty"`
}

func copyTree(src, dst string) error {
	return filepath.Walk(src, func(p string, info os.FileInfo, err error) error {
		if err != nil {
			if os.IsNotExist(err) {
				return nil // a file removed while we were listing (old filestores are garbage-collected)
			}
			return err
		}
		rel, _ := filepath.Rel(src, p)
		target := filepath.Join(dst, rel)
		if info.IsDir() {
			return os.MkdirAll(target, 0755)
		}
		in, err := os.Open(p)
		if err != nil {
			if os.IsNotExist(err) {
				return nil
			}
			return err
		}
		defer in.Close()
		out, err := os.Create(target)
		if err != nil {
			return err
		}
		defer out.Close()
		_, err = io.Copy(out, in)
		return err
	})
}

func genReplCase(r *rand.Rand) *jReplCase {
	c := &jReplCase{}
	c.Table = genTable(r, map[string]bool{})
	n := 16 + r.Intn(30)
	c.Points = genDBPoints(r, &c.Table, n)
	for i := range c.Points {
		// a fresh copy of the maps: genDBPoints may return exact duplicates sharing them
		p := c.Points[i]
		d := map[string]jVal{}
		for k, v := range p.Dims {
			d[k] = v
		}
		d["pid"] = jVal{K: "int", I: int64(i + 1)}
		v := map[string]int64{}
		for k, x := range p.Vals {
			v[k] = x
		}
		v["one"] = 1
		c.Points[i].Dims, c.Points[i].Vals = d, v
	}
	c.P = 1 + r.Intn(3)
	if r.Intn(4) > 0 && c.P == 1 {
		c.P = 2
	}
	c.Replicas = 1 + r.Intn(2)
	c.L = 1
	if r.Intn(3) == 0 {
		c.L = 2
	}
	switch r.Intn(7) {
	case 0:
		c.PartBy = nil
	case 1:
		c.PartBy = []string{"d1"}
	case 2:
		c.PartBy = []string{"d2"}
	case 3, 4:
		c.PartBy = []string{"d2", "d1"} // declared in non-alphabetical order
	case 5:
		c.PartBy = []string{"d3", "d9"}
	case 6:
		c.PartBy = []string{"d3", "d1"}
	}
	switch r.Intn(3) {
	case 0:
		c.TidPartBy = append([]string(nil), c.PartBy...)
	case 1:
		c.TidPartBy = []string{"pid"}
	case 2:
		c.TidPartBy = []string{"d1"}
	}
	F := c.P * c.Replicas
	up := make([]bool, F)
	cut := make([]bool, F)
	snaps := make([]int, F)
	for i := range up {
		up[i] = true
	}
	lup := make([]bool, c.L)
	for i := range lup {
		lup[i] = true
	}
	next := 0
	ins := func(max int) {
		k := 1 + r.Intn(max)
		src := r.Intn(c.L)
		if !lup[src] {
			for i := range lup {
				if lup[i] {
					src = i
				}
			}
		}
		var pts []int
		for ; k > 0 && next < n; k-- {
			pts = append(pts, next)
			next++
		}
		if len(pts) > 0 {
			c.Steps = append(c.Steps, jRStep{Op: "ins", Src: src, Pts: pts})
		}
	}
	anyUp := func() bool {
		for _, u := range lup {
			if u {
				return true
			}
		}
		return false
	}
	ins(8)
	if r.Intn(3) == 0 {
		// a slow follower behind a short queue: connected all the time, just behind; then a burst
		c.Queue = 2 + r.Intn(3)
		c.Steps = append(c.Steps, jRStep{Op: "slow", Node: r.Intn(F)})
		ins(8)
		ins(8)
	}
	faults := 2 + r.Intn(5)
	for fa := 0; fa < faults; fa++ {
		f := r.Intn(F)
		k := r.Intn(22)
		if k >= 20 {
			k = 11 // the kill between two tables' flushes is the rarest in practice and the richest here
		}
		switch {
		case k < 3:
			if up[f] {
				c.Steps = append(c.Steps, jRStep{Op: "flush", Node: f})
			}
		case k < 6:
			if up[f] {
				c.Steps = append(c.Steps, jRStep{Op: "stop", Node: f})
				up[f] = false
			} else {
				c.Steps = append(c.Steps, jRStep{Op: "start", Node: f})
				up[f] = true
			}
		case k < 10:
			if up[f] {
				if r.Intn(2) == 0 {
					c.Steps = append(c.Steps, jRStep{Op: "flush", Node: f})
					ins(4)
				}
				c.Steps = append(c.Steps, jRStep{Op: "kill", Node: f})
				up[f] = false
			} else {
				c.Steps = append(c.Steps, jRStep{Op: "start", Node: f})
				up[f] = true
			}
		case k < 11:
			if up[f] && r.Intn(2) == 0 {
				c.Steps = append(c.Steps, jRStep{Op: "flush", Node: f})
			}
			c.Steps = append(c.Steps, jRStep{Op: "snap", Node: f})
			snaps[f]++
		case k < 12:
			// the process dies when only one of its two tables has been flushed; half of the time the other table has
			// an older flush behind it, so that the two tables restart from different offsets
			if up[f] && !cut[f] && anyUp() {
				if r.Intn(2) == 0 {
					c.Steps = append(c.Steps, jRStep{Op: "waitnode", Node: f}, jRStep{Op: "flush", Node: f})
					ins(6)
					c.Steps = append(c.Steps, jRStep{Op: "waitnode", Node: f})
				}
				c.Steps = append(c.Steps, jRStep{Op: "killpart", Node: f, K: r.Intn(2)})
				up[f] = false
			}
		case k < 14:
			if snaps[f] == 0 {
				c.Steps = append(c.Steps, jRStep{Op: "snap", Node: f})
				snaps[f]++
				ins(5)
			}
			if snaps[f] > 0 {
				if up[f] {
					c.Steps = append(c.Steps, jRStep{Op: "stop", Node: f})
					up[f] = false
				}
				c.Steps = append(c.Steps, jRStep{Op: "restore", Node: f, K: r.Intn(snaps[f])})
			}
		case k < 17:
			if cut[f] {
				c.Steps = append(c.Steps, jRStep{Op: "uncut", Node: f})
			} else {
				c.Steps = append(c.Steps, jRStep{Op: "cut", Node: f})
			}
			cut[f] = !cut[f]
		case k < 19:
			src := r.Intn(c.L)
			if lup[src] {
				c.Steps = append(c.Steps, jRStep{Op: "lstop", Src: src})
				lup[src] = false
			} else {
				c.Steps = append(c.Steps, jRStep{Op: "lstart", Src: src})
				lup[src] = true
			}
		default:
			c.Steps = append(c.Steps, jRStep{Op: "slow", Node: f})
		}
		if anyUp() && r.Intn(4) > 0 {
			ins(6)
		}
		if r.Intn(6) == 0 {
			// a settle point in the middle of the history needs every node up
			ok := true
			for i := range up {
				if !up[i] || cut[i] {
					ok = false
				}
			}
			for _, u := range lup {
				if !u {
					ok = false
				}
			}
			if ok {
				c.Steps = append(c.Steps, jRStep{Op: "settle"})
			}
		}
	}
	for i := range lup {
		if !lup[i] {
			c.Steps = append(c.Steps, jRStep{Op: "lstart", Src: i})
			lup[i] = true
		}
	}
	for next < n {
		ins(8)
		if r.Intn(3) == 0 {
			break
		}
	}
	for i := range up {
		if cut[i] {
			c.Steps = append(c.Steps, jRStep{Op: "uncut", Node: i})
		}
		if !up[i] {
			c.Steps = append(c.Steps, jRStep{Op: "start", Node: i})
		}
	}
	c.Steps = append(c.Steps, jRStep{Op: "settle"})
	c.NT = true
	return c
}

// normalize drops operations that cannot be applied (start of a running node, restore of a running node or of a
// snapshot that does not exist, ...) and brings every node up before a settle point, so that any sub-sequence of a
// generated history (the shrinker produces those) is again a history; the model is given the normalized steps.
func (c *jReplCase) normalize() {
	F := c.P * c.Replicas
	up := make([]bool, F)
	cut := make([]bool, F)
	snaps := make([]int, F)
	for i := range up {
		up[i] = true
	}
	lup := make([]bool, c.L)
	for i := range lup {
		lup[i] = true
	}
	var out []jRStep
	for _, st := range c.Steps {
		if st.Node < 0 || st.Node >= F || st.Src < 0 || st.Src >= c.L {
			continue
		}
		switch st.Op {
		case "ins":
			var pts []int
			for _, pi := range st.Pts {
				if pi >= 0 && pi < len(c.Points) {
					pts = append(pts, pi)
				}
			}
			st.Pts = pts
			if !lup[st.Src] || len(pts) == 0 {
				continue
			}
		case "flush", "slow", "waitnode":
			if !up[st.Node] {
				continue
			}
		case "stop", "kill", "killpart":
			if !up[st.Node] {
				continue
			}
			up[st.Node] = false
		case "start":
			if up[st.Node] {
				continue
			}
			up[st.Node] = true
		case "snap":
			snaps[st.Node]++
		case "restore":
			if up[st.Node] || st.K < 0 || st.K >= snaps[st.Node] {
				continue
			}
		case "cut":
			cut[st.Node] = true
		case "uncut":
			cut[st.Node] = false
		case "lstop":
			if !lup[st.Src] {
				continue
			}
			lup[st.Src] = false
		case "lstart":
			if lup[st.Src] {
				continue
			}
			lup[st.Src] = true
		case "settle":
			for i := range lup {
				if !lup[i] {
					out = append(out, jRStep{Op: "lstart", Src: i})
					lup[i] = true
				}
			}
			for i := range up {
				if cut[i] {
					out = append(out, jRStep{Op: "uncut", Node: i})
					cut[i] = false
				}
				if !up[i] {
					out = append(out, jRStep{Op: "start", Node: i})
					up[i] = true
				}
			}
		default:
			continue
		}
		out = append(out, st)
	}
	if len(out) == 0 || out[len(out)-1].Op != "settle" {
		c.Steps = out
		c.Steps = append(c.Steps, jRStep{Op: "settle"})
		c.normalize()
		return
	}
	c.Steps = out
}

type replRun struct {
	whereEx  goexpr.Expr
	c        *jReplCase
	cl       *cluster
	accepted []int // point index per accepted entry, in op order
	asrc     []int // its leader
	aoff     []int // its 1-based position in that leader's WAL
	perSrc   []int // accepted entries per leader
	maxTS    time.Time
	snapDirs [][]string
}

func (rr *replRun) code(i int) int64 { return int64(rr.aoff[i]*rr.c.L + rr.asrc[i]) }

// expected tid content of a follower, by the harness's own bookkeeping (used only to decide when to stop waiting)
func (rr *replRun) expected(n *cnode) []int64 {
	var out []int64
	for i, pi := range rr.accepted {
		if rr.cl.routedBy(&rr.c.Points[pi], rr.c.TidPartBy) == n.partition {
			out = append(out, rr.code(i))
		}
	}
	sort.Slice(out, func(a, b int) bool { return out[a] < out[b] })
	return out
}

func (rr *replRun) observeTid(n *cnode) ([]int64, error) {
	_, rows, err := runQuery(n.db, "SELECT cnt FROM tid GROUP BY pid", true)
	if err != nil {
		return nil, err
	}
	byPid := map[int]int{}
	for i, pi := range rr.accepted {
		byPid[pi+1] = i
	}
	var out []int64
	for _, r := range rows {
		pid, _ := r.Key["pid"].(int)
		if v, ok := r.Key["pid"].(int64); ok {
			pid = int(v)
		}
		i, ok := byPid[pid]
		if !ok {
			return nil, fmt.Errorf("follower %d holds pid %v which was never accepted", n.id, r.Key["pid"])
		}
		cnt := 0
		if len(r.Vals) > 0 {
			cnt = int(r.Vals[0] + 0.5)
		}
		for k := 0; k < cnt; k++ {
			out = append(out, rr.code(i))
		}
	}
	sort.Slice(out, func(a, b int) bool { return out[a] < out[b] })
	return out, nil
}

// expectedT / observeTPoints: how many accepted points the generated table must reflect on this follower (the settle
// condition has to cover table t as well: after a restart the two tables may be re-fed from different offsets)
func (rr *replRun) expectedT(n *cnode, whereEx goexpr.Expr) int {
	cnt := 0
	for _, pi := range rr.accepted {
		p := &rr.c.Points[pi]
		if rr.cl.routedBy(p, rr.c.PartBy) == n.partition && (whereEx == nil || evalPred(whereEx, dimsBytemap(p))) {
			cnt++
		}
	}
	return cnt
}

func (rr *replRun) observeTPoints(n *cnode) int {
	_, rows, err := runQuery(n.db, "SELECT _points FROM t GROUP BY _", true)
	if err != nil {
		return -1
	}
	total := 0.0
	for _, r := range rows {
		if len(r.Vals) > 0 {
			total += r.Vals[0]
		}
	}
	return int(total + 0.5)
}

func eq64(a, b []int64) bool {
	if len(a) != len(b) {
		return false
	}
	for i := range a {
		if a[i] != b[i] {
			return false
		}
	}
	return true
}

// settle waits until every follower holds what the bookkeeping expects and stays there for a grace period
// (late re-deliveries would show up as a second copy), or a timeout; it returns what was last observed.
func (rr *replRun) settle() ([][]int64, error) {
	cl := rr.cl
	deadline := time.Now().Add(75 * time.Second)
	var since time.Time
	var obs [][]int64
	for {
		cl.advanceClocks(rr.maxTS)
		obs = obs[:0]
		all := true
		for _, n := range cl.followers {
			o, err := rr.observeTid(n)
			if err != nil {
				return nil, err
			}
			obs = append(obs, o)
			if !eq64(o, rr.expected(n)) || rr.observeTPoints(n) != rr.expectedT(n, rr.whereEx) {
				all = false
			}
		}
		now := time.Now()
		if all {
			if since.IsZero() {
				since = now
			}
			if now.Sub(since) > 1500*time.Millisecond {
				return obs, nil
			}
		} else {
			since = time.Time{}
		}
		if now.After(deadline) {
			if os.Getenv("VERIF_DEBUG") != "" {
				for i, n := range cl.followers {
					n.followMx.Lock()
					fmt.Fprintf(os.Stderr, "follower %d part %d follows=%d processed t=%d tid=%d obs=%v want=%v\n", i, n.partition, n.follows,
						n.db.VerifCounter("t", "processed"), n.db.VerifCounter("tid", "processed"), obs[i], rr.expected(n))
					n.followMx.Unlock()
					filepath.Walk(n.dir, func(p string, info os.FileInfo, err error) error {
						if err == nil && !info.IsDir() {
							fmt.Fprintf(os.Stderr, "   %s %d\n", p, info.Size())
						}
						return nil
					})
				}
			}
			return obs, nil
		}
		time.Sleep(100 * time.Millisecond)
	}
}

func execRepl(e *Env, c *jReplCase, wantDB bool) (*replRun, []string, error) {
	c.normalize()
	dir := tempDir()
	defer rmDir(dir)
	extra := map[string]*zenodb.TableOpts{"tid": {MinFlushLatency: time.Hour, MaxFlushLatency: 2 * time.Hour,
		RetentionPeriod: 10000 * time.Hour, // (not more: under VirtualTime the clock is the zero time at start-up and zero minus a century wraps)
		SQL:             "SELECT SUM(one) AS cnt FROM inbound GROUP BY pid, period(1h)",
		PartitionBy:     append([]string(nil), c.TidPartBy...)}}
	cluFollowQueue = c.Queue
	defer func() { cluFollowQueue = 0 }()
	cl, err := startClusterL(filepath.Join(dir, "c"), &c.Table, c.P, c.Replicas, c.PartBy, c.L, extra)
	if err != nil {
		return nil, nil, err
	}
	defer cl.close()
	rr := &replRun{c: c, cl: cl, perSrc: make([]int, c.L), snapDirs: make([][]string, len(cl.followers))}
	if rr.whereEx, err = compileOpt(c.Table.Where); err != nil {
		return nil, nil, err
	}
	c.Obs, c.Routes, c.Guard, c.Accepted = nil, nil, nil, nil
	var dbCases []string
	nsnap := 0
	for si, st := range c.Steps {
		var n *cnode
		if st.Node < len(cl.followers) {
			n = cl.followers[st.Node]
		}
		switch st.Op {
		case "ins":
			l := cl.leaderAt(st.Src)
			if l == nil {
				continue
			}
			for _, pi := range st.Pts {
				p := &c.Points[pi]
				if err := l.Insert("inbound", p.TS.T(), p.goDims(), p.goVals()); err != nil {
					e.Count("insert_refused")
					continue
				}
				rr.perSrc[st.Src]++
				rr.accepted = append(rr.accepted, pi)
				rr.asrc = append(rr.asrc, st.Src)
				rr.aoff = append(rr.aoff, rr.perSrc[st.Src])
				c.Routes = append(c.Routes, []int{st.Src, cl.routedBy(p, c.TidPartBy)})
				if p.TS.T().After(rr.maxTS) {
					rr.maxTS = p.TS.T()
				}
			}
		case "flush":
			if n.db != nil {
				n.db.FlushAll()
			}
		case "waitnode":
			// give the node up to 8 s to receive what has been accepted so far (it may be cut off: then it cannot)
			if n.db != nil {
				for dl := time.Now().Add(8 * time.Second); time.Now().Before(dl); time.Sleep(50 * time.Millisecond) {
					cl.advanceClocks(rr.maxTS)
					if o, err := rr.observeTid(n); err == nil && eq64(o, rr.expected(n)) {
						break
					}
				}
			}
		case "stop":
			cl.stopFollower(n)
		case "kill":
			if n.db != nil {
				// the directory as it is at this instant is what a killed process leaves behind
				img := filepath.Join(dir, fmt.Sprintf("img%d", si))
				if err := copyTree(n.dir, img); err != nil {
					return nil, nil, err
				}
				cl.stopFollower(n)
				os.RemoveAll(n.dir)
				if err := os.Rename(img, n.dir); err != nil {
					return nil, nil, err
				}
			}
		case "killpart":
			if n.db != nil {
				// tables flush independently (each row store has its own timer): the instant at which table K has
				// flushed and the other has not is the other table's directory as it is now plus K's directory after a flush
				before := filepath.Join(dir, fmt.Sprintf("imgA%d", si))
				after := filepath.Join(dir, fmt.Sprintf("imgB%d", si))
				if err := copyTree(n.dir, before); err != nil {
					return nil, nil, err
				}
				n.db.FlushAll()
				if err := copyTree(n.dir, after); err != nil {
					return nil, nil, err
				}
				cl.stopFollower(n)
				flushed := []string{"t", "tid"}[st.K%2]
				os.RemoveAll(filepath.Join(before, flushed))
				if err := os.Rename(filepath.Join(after, flushed), filepath.Join(before, flushed)); err != nil && !os.IsNotExist(err) {
					return nil, nil, err
				}
				os.RemoveAll(n.dir)
				os.RemoveAll(after)
				if err := os.Rename(before, n.dir); err != nil {
					return nil, nil, err
				}
			}
		case "start":
			if n.db == nil {
				if err := cl.openFollower(n); err != nil {
					return nil, nil, err
				}
			}
		case "snap":
			sd := filepath.Join(dir, fmt.Sprintf("snap%d", nsnap))
			nsnap++
			if err := copyTree(n.dir, sd); err != nil {
				return nil, nil, err
			}
			rr.snapDirs[st.Node] = append(rr.snapDirs[st.Node], sd)
		case "restore":
			if n.db == nil && st.K < len(rr.snapDirs[st.Node]) {
				os.RemoveAll(n.dir)
				if err := copyTree(rr.snapDirs[st.Node][st.K], n.dir); err != nil {
					return nil, nil, err
				}
			}
		case "cut":
			atomic.StoreInt32(&n.linkCut, 1)
		case "uncut":
			atomic.StoreInt32(&n.linkCut, 0)
		case "slow":
			atomic.StoreInt32(&n.slow, 1)
		case "lstop":
			cl.closeLeaderAt(st.Src)
		case "lstart":
			if cl.leaderAt(st.Src) == nil {
				if err := cl.openLeaderAt(st.Src); err != nil {
					return nil, nil, err
				}
			}
		case "settle":
			obs, err := rr.settle()
			if err != nil {
				return nil, nil, err
			}
			c.Obs = append(c.Obs, obs)
			e.Count("settles")
		}
		e.Count("op_" + st.Op)
	}
	for _, n := range cl.followers {
		n.followMx.Lock()
		c.Guard = append(c.Guard, n.earliestAfter...)
		e.Add("follow_requests", n.follows)
		n.followMx.Unlock()
	}
	c.Accepted = rr.accepted
	if wantDB {
		t := &c.Table
		var pts []jPoint
		for _, pi := range rr.accepted {
			pts = append(pts, c.Points[pi])
		}
		// every follower of partition p holds, in the generated table, exactly the accepted points routed to p
		for _, n := range cl.followers {
			var mine []jPoint
			for _, pi := range rr.accepted {
				if cl.routedBy(&c.Points[pi], c.PartBy) == n.partition {
					mine = append(mine, c.Points[pi])
				}
			}
			now := n.db.VerifNow()
			q := jQuery{Mem: true}
			_, rows, qerr := runQuery(n.db, q.SQL("t", t.Conds), true)
			g, err := galDBCase(t, mine, []jQuery{q}, []qResult{{len(mine), &q, "", qerr, rows, now}})
			if err != nil {
				return nil, nil, err
			}
			dbCases = append(dbCases, g)
		}
		// and every leader again answers like a standalone database fed the same points
		for li := 0; li < c.L; li++ {
			l := cl.leaderAt(li)
			qs := []jQuery{{Mem: true}}
			for i := 0; i < 3; i++ {
				qs = append(qs, genGroupQuery(rand.New(rand.NewSource(int64(len(pts)*7+i))), t, false))
			}
			var results []qResult
			for i := range qs {
				q := &qs[i]
				now := l.VerifNow()
				var rows []obsRow
				var qerr error
				// registrations made by follower processes that were stopped since are still queued at the leader and
				// fail when used; the leader then reports the partition as missing (C13) and the query is asked again
				for attempt := 0; attempt < 80; attempt++ {
					_, r2, stats, e2 := runQueryStats(l, q.SQL("t", t.Conds), q.Mem)
					rows, qerr = r2, e2
					if e2 != nil || stats == nil || stats.NumSuccessfulPartitions >= stats.NumPartitions {
						break
					}
					e.Count("incomplete_answers_retried")
					time.Sleep(20 * time.Millisecond)
				}
				results = append(results, qResult{len(pts), q, "", qerr, rows, now})
			}
			g, err := galDBCase(t, pts, qs, results)
			if err != nil {
				return nil, nil, err
			}
			dbCases = append(dbCases, g)
		}
	}
	e.Add("accepted_points", len(rr.accepted))
	e.Count(fmt.Sprintf("P=%d,R=%d,L=%d", c.P, c.Replicas, c.L))
	return rr, dbCases, nil
}

// Gal prints the case for Model/Corr12.v.
func (c *jReplCase) Gal() string {
	var parts []string
	for p := 0; p < c.P; p++ {
		for r := 0; r < c.Replicas; r++ {
			parts = append(parts, fmt.Sprintf("%d%%nat", p))
		}
	}
	nat := func(i int) string { return fmt.Sprintf("%d%%nat", i) }
	var ops []string
	ai := 0
	settle := 0
	acc := map[int]bool{}
	for _, pi := range c.Accepted {
		acc[pi] = true
	}
	for _, st := range c.Steps {
		switch st.Op {
		case "ins":
			for _, pi := range st.Pts {
				if !acc[pi] {
					continue
				}
				ops = append(ops, fmt.Sprintf("HOp (OnSource %s (Ins %s true))", nat(c.Routes[ai][0]), nat(c.Routes[ai][1])))
				ai++
			}
			if len(st.Pts)%2 == 1 {
				ops = append(ops, "HDrain")
			}
		case "waitnode":
			ops = append(ops, "HDrain")
		case "flush":
			ops = append(ops, fmt.Sprintf("HOp (OnFollower (Flush %s))", nat(st.Node)))
		case "stop":
			ops = append(ops, fmt.Sprintf("HOp (OnFollower (Stop %s))", nat(st.Node)))
		case "kill":
			ops = append(ops, fmt.Sprintf("HOp (OnFollower (Kill %s))", nat(st.Node)))
		case "killpart":
			if st.K%2 == 1 { // tid is the table that was flushed
				ops = append(ops, fmt.Sprintf("HOp (OnFollower (Flush %s))", nat(st.Node)))
			}
			ops = append(ops, fmt.Sprintf("HOp (OnFollower (Kill %s))", nat(st.Node)))
		case "start":
			ops = append(ops, fmt.Sprintf("HOp (OnFollower (Start %s 0%%nat))", nat(st.Node)))
		case "snap":
			ops = append(ops, fmt.Sprintf("HOp (OnFollower (Snap %s))", nat(st.Node)))
		case "restore":
			ops = append(ops, fmt.Sprintf("HOp (OnFollower (Restore %s %s))", nat(st.Node), nat(st.K)))
		case "cut":
			ops = append(ops, fmt.Sprintf("HOp (OnFollower (Cut %s))", nat(st.Node)))
		case "uncut":
			ops = append(ops, fmt.Sprintf("HOp (OnFollower (Uncut %s))", nat(st.Node)))
		case "lstop":
			ops = append(ops, fmt.Sprintf("HOp (OnSource %s LStop)", nat(st.Src)))
		case "lstart":
			ops = append(ops, fmt.Sprintf("HOp (OnSource %s LStart)", nat(st.Src)))
		case "settle":
			var fo []string
			if settle < len(c.Obs) {
				for _, o := range c.Obs[settle] {
					items := make([]string, len(o))
					for i, x := range o {
						items[i] = nat(int(x))
					}
					fo = append(fo, glist(items))
				}
			}
			settle++
			ops = append(ops, "HSettle "+glist(fo))
		}
	}
	return fmt.Sprintf("{| rc_parts := %s; rc_nsrc := %s; rc_guard := %s; rc_ops := [\n   %s] |}",
		glist(parts), nat(c.L), nat(len(c.Guard)), strings.Join(ops, ";\n   "))
}

func runC12(e *Env) error {
	wantDB := e.Mode == "db"
	if wantDB {
		e.Header("From Coq Require Import QArith.\nFrom Zeno Require Import Base Sort Expr DB.", "db_case")
	} else {
		e.Header("From Coq Require Import ZArith List.\nImport ListNotations.\nFrom Zeno Require Import Repl Corr12.", "repl_case")
	}
	one := func(c *jReplCase) error {
		_, dbCases, err := execRepl(e, c, wantDB)
		if err != nil {
			return err
		}
		if wantDB {
			for i, g := range dbCases {
				cc := *c
				cc.Note = fmt.Sprintf("content check %d", i)
				e.Case(g, &cc)
			}
		} else {
			e.Case(c.Gal(), c)
		}
		return nil
	}
	if lines := e.ReplayLines(); lines != nil {
		seen := map[string]bool{}
		for _, l := range lines {
			var c jReplCase
			if err := json.Unmarshal([]byte(l), &c); err != nil {
				return err
			}
			c.Note = ""
			c.Obs, c.Routes, c.Guard, c.Accepted = nil, nil, nil, nil
			b, _ := json.Marshal(&c)
			if seen[string(b)] {
				continue
			}
			seen[string(b)] = true
			if err := one(&c); err != nil {
				return err
			}
		}
	} else {
		for i := 0; i < e.N; i++ {
			c := genReplCase(e.R)
			if err := one(c); err != nil {
				b, _ := json.Marshal(c)
				return fmt.Errorf("%v on case %s", err, b)
			}
		}
	}
	if wantDB {
		e.Footer("db_mismatches")
	} else {
		e.Footer("repl_mismatches")
	}
	return nil
}
