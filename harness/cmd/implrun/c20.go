package main

// C20: data crossing the RPC boundary keeps its meaning.

import (
	"context"
	"encoding/json"
	"fmt"
	"net"
	"reflect"
	"time"

	"github.com/getlantern/bytemap"
	"github.com/getlantern/goexpr"
	"github.com/getlantern/zenodb/common"
	"github.com/getlantern/zenodb/core"
	"github.com/getlantern/zenodb/expr"
	"github.com/getlantern/zenodb/rpc"
	rpcserver "github.com/getlantern/zenodb/rpc/server"
)

func init() {
	register("c20codec", runC20Codec)
	register("c20rpc", runC20RPC)
}

type jCodecCase struct {
	jExprCase
	Conds []*XPred          `json:"conds"`
	Dims  []map[string]jVal `json:"dims"` // dims of the points of A ++ B ++ C (IF conditions are evaluated on them)
}

func genCodecCase(e *Env) *jCodecCase {
	r := e.R
	c := &jCodecCase{}
	for i := 0; i < 3; i++ {
		c.Conds = append(c.Conds, genPred(r, 1))
	}
	g := &exprGen{r: r, fields: []string{"a", "b", "c"}, allowIf: true, allowDiv: true, allowShift: true, nconds: 3}
	c.E = g.gen(r.Intn(4), false)
	if r.Intn(4) == 0 {
		c.E = &XExpr{K: "unary", N: []string{"LN", "LOG2", "LOG10"}[r.Intn(3)], Sub: []*XExpr{c.E}}
	}
	gen := func() []XPoint {
		n := r.Intn(5)
		ps := make([]XPoint, n)
		for i := range ps {
			ps[i] = genPoint(r, g.fields)
			jp := genDBPoints(r, &jTable{ResNS: int64(time.Second)}, 1)[0]
			c.Dims = append(c.Dims, jp.Dims)
		}
		return ps
	}
	c.A, c.B, c.C = gen(), gen(), gen()
	return c
}

func runCodecCase(e *Env, c *jCodecCase) error {
	condEx := make([]goexpr.Expr, len(c.Conds))
	for i, cd := range c.Conds {
		ce, err := cd.compile()
		if err != nil {
			return err
		}
		condEx[i] = ce
	}
	orig := c.E.RealC(condEx)
	if err := orig.Validate(); err != nil {
		return fmt.Errorf("invalid %v: %v", orig, err)
	}
	// oracle columns from the ORIGINAL conditions on each point's dims
	all := [][]XPoint{c.A, c.B, c.C}
	di := 0
	mdOf := map[string]goexpr.Params{}
	for _, batch := range all {
		for i := range batch {
			dims := map[string]interface{}{}
			for k, v := range c.Dims[di] {
				dims[k] = v.goVal()
			}
			bm := bytemap.New(dims)
			batch[i].Conds = nil
			for _, ce := range condEx {
				batch[i].Conds = append(batch[i].Conds, evalPred(ce, bm))
			}
			b, _ := json.Marshal(batch[i])
			mdOf[string(b)+fmt.Sprint(di)] = bm
			batch[i].tag = di
			di++
		}
	}
	// across the real codec, as a field of a query result message
	in := &rpc.RemoteQueryResult{Fields: core.Fields{core.NewField("f", orig)}}
	wire, err := marshalHeld(in)
	if err != nil {
		return fmt.Errorf("marshal %v: %v", orig, err)
	}
	out := &rpc.RemoteQueryResult{}
	if err := rpc.Codec.Unmarshal(wire, out); err != nil {
		return fmt.Errorf("unmarshal %v: %v", orig, err)
	}
	if len(out.Fields) != 1 {
		return fmt.Errorf("decoded %d fields", len(out.Fields))
	}
	dec := out.Fields[0].Expr
	dimsByTag := map[int]goexpr.Params{}
	di = 0
	for range c.Dims {
		dims := map[string]interface{}{}
		for k, v := range c.Dims[di] {
			dims[k] = v.goVal()
		}
		dimsByTag[di] = bytemap.New(dims)
		di++
	}
	// the decoded object is run on the case's points; if it panics (a decoded expression with, say, a wrong width
	// slices out of range) that is this case's outcome, not the end of the run
	var g string
	panicked := false
	func() {
		defer func() {
			if p := recover(); p != nil {
				panicked = true
			}
		}()
		g, _ = exprCaseGal(&c.jExprCase, dec, func(p XPoint) goexpr.Params { return dimsByTag[p.tag] })
	}()
	if panicked {
		e.Count("decoded_object_panicked")
		g, _ = exprCaseGal(&c.jExprCase, orig, func(p XPoint) goexpr.Params { return dimsByTag[p.tag] })
	}
	gal := fmt.Sprintf("CodecCase %s %s %s\n  (%s)", gbool(out.Fields[0].Name == "f" && !panicked), gbool(dec.String() == orig.String()), gbool(dec.EncodedWidth() == orig.EncodedWidth()), g)
	c.NT = c.E.Size() >= 2
	e.Case(gal, c)
	for _, k := range []string{"agg", "avg", "bin", "if", "bounded", "shift", "unary"} {
		if c.E.HasKind(k) {
			e.Count("has_" + k)
		}
	}
	return nil
}

// marshalHeld encodes v and then encodes other messages before the bytes are looked at: the transport holds an
// encoded message by reference until it has been written, while the next rows are already being encoded
func marshalHeld(v interface{}) ([]byte, error) {
	wire, err := rpc.Codec.Marshal(v)
	if err != nil {
		return nil, err
	}
	for i := 0; i < 3; i++ {
		other := &rpc.RemoteQueryResult{Row: &core.FlatRow{TS: int64(1000 + i), Key: bytemap.New(map[string]interface{}{"zz": "other", "n": i}), Values: []float64{9, 8, 7, 6, 5, 4, 3, 2, 1}}}
		if _, oerr := rpc.Codec.Marshal(other); oerr != nil {
			return nil, oerr
		}
	}
	return wire, nil
}

func msgRoundTrip(v interface{}, fresh interface{}) bool {
	wire, err := marshalHeld(v)
	if err != nil {
		return false
	}
	if err := rpc.Codec.Unmarshal(wire, fresh); err != nil {
		return false
	}
	return reflect.DeepEqual(v, fresh)
}

func runC20Codec(e *Env) error {
	e.Header("From Coq Require Import QArith.\nFrom Zeno Require Import Base Expr Corr05 Corr20.", "c20_case")
	if lines := e.ReplayLines(); lines != nil {
		for _, l := range lines {
			var c jCodecCase
			if err := json.Unmarshal([]byte(l), &c); err != nil {
				return err
			}
			if c.E == nil {
				continue
			}
			if err := runCodecCase(e, &c); err != nil {
				return err
			}
		}
	} else {
		for i := 0; i < e.N; i++ {
			c := genCodecCase(e)
			if err := runCodecCase(e, c); err != nil {
				b, _ := json.Marshal(c)
				return fmt.Errorf("%v on %s", err, b)
			}
		}
		// messages
		r := e.R
		for i := 0; i < 40; i++ {
			p := genDBPoints(r, &jTable{ResNS: int64(time.Second)}, 1)[0]
			dims, vals := bytemap.New(p.goDims()), bytemap.New(p.goVals())
			msgs := []struct {
				name     string
				v, fresh interface{}
			}{
				{"Insert", &rpc.Insert{Stream: "inbound", TS: p.TS.T().UnixNano(), Dims: dims, Vals: vals}, &rpc.Insert{}},
				{"Query", &rpc.Query{SQLString: "SELECT * FROM t", IsSubQuery: i%2 == 0, IncludeMemStore: i%3 == 0, Unflat: i%5 == 0, HasDeadline: true, Deadline: time.Unix(int64(1000+i), 0).UTC()}, &rpc.Query{}},
				{"Point", &rpc.Point{Data: []byte(dims), Offset: []byte{1, 2, 3, 4, 5, 6, 7, 8, 9, 10, 11, 12, 13, 14, 15, 16}}, &rpc.Point{}},
				{"Stats", &rpc.RemoteQueryResult{Stats: &common.QueryStats{NumPartitions: 3, NumSuccessfulPartitions: 2, LowestHighWaterMark: 5, HighestHighWaterMark: 9, MissingPartitions: []int{1}}, EndOfResults: true, Error: "x"}, &rpc.RemoteQueryResult{}},
				{"Unflat", &rpc.RemoteQueryResult{Key: dims, Vals: core.Vals{[]byte{0, 0, 0, 0, 0, 0, 0, 9, 1, 2}, nil}}, &rpc.RemoteQueryResult{}},
			}
			for _, m := range msgs {
				ok := msgRoundTrip(m.v, m.fresh)
				if q, isQ := m.v.(*rpc.Query); isQ {
					// time.Time carries a location pointer: compare the instant, not the representation
					f := m.fresh.(*rpc.Query)
					ok = f.Deadline.Equal(q.Deadline)
					f.Deadline = q.Deadline
					ok = ok && reflect.DeepEqual(q, f)
				}
				e.Case(fmt.Sprintf("MsgCase %s", gbool(ok)), map[string]interface{}{"msg": m.name, "ok": ok, "nt": true})
				e.Count("msg_" + m.name)
			}
			// flat rows: values and key
			fr := &core.FlatRow{TS: p.TS.T().UnixNano(), Key: dims, Values: []float64{1.5, -2, 0}}
			wire, _ := marshalHeld(&rpc.RemoteQueryResult{Row: fr})
			out := &rpc.RemoteQueryResult{}
			ok := rpc.Codec.Unmarshal(wire, out) == nil && out.Row != nil && out.Row.TS == fr.TS && reflect.DeepEqual(out.Row.Values, fr.Values) && string(out.Row.Key) == string(fr.Key)
			e.Case(fmt.Sprintf("MsgCase %s", gbool(ok)), map[string]interface{}{"msg": "FlatRow", "ok": ok, "nt": true})
		}
	}
	e.Footer("c20_mismatches")
	return nil
}

// ---- end to end: the same queries through rpc.Dial <-> rpcserver.PrepareServer and embedded ----

func runC20RPCCase(e *Env, c *jDBCase) error {
	e.Running(c)
	dir := tempDir()
	defer rmDir(dir)
	t := &c.Table
	db, err := openDB(dir, t, "t")
	if err != nil {
		return err
	}
	defer db.Close()
	l, err := net.Listen("tcp", "127.0.0.1:0")
	if err != nil {
		return err
	}
	serve, stop := rpcserver.PrepareServer(db, l, &rpcserver.Opts{ID: 1, Password: "pw"})
	go serve()
	defer stop()
	client, err := rpc.Dial(l.Addr().String(), &rpc.ClientOpts{Password: "pw"})
	if err != nil {
		return err
	}
	defer client.Close()
	// inserts through the RPC inserter
	ctx, cancel := context.WithTimeout(context.Background(), 30*time.Second)
	defer cancel()
	ins, err := client.NewInserter(ctx, "inbound")
	if err != nil {
		return err
	}
	sent := 0
	for i := range c.Points {
		p := &c.Points[i]
		if len(p.Dims) == 0 || len(p.goVals()) == 0 {
			// the RPC server rejects points without dims or vals; insert those directly
			db.Insert("inbound", p.TS.T(), p.goDims(), p.goVals())
			continue
		}
		vals := p.goVals()
		if err := ins.Insert(p.TS.T(), p.goDims(), func(cb func(string, interface{})) {
			for k, v := range vals {
				cb(k, v)
			}
		}); err != nil {
			return err
		}
		sent++
	}
	report, err := ins.Close()
	if err != nil {
		return err
	}
	if report.Succeeded != sent {
		return fmt.Errorf("rpc insert report: %+v, sent %d", report, sent)
	}
	if err := waitCaughtUp(db, "t", 0); err != nil {
		return err
	}
	if c.FinalFlush {
		db.FlushAll()
	}
	var results []qResult
	for i := range c.Queries {
		q := &c.Queries[i]
		now := db.VerifNow()
		var rows []obsRow
		_, iterate, qerr := client.Query(ctx, q.SQL("t", t.Conds), q.Mem)
		if qerr == nil {
			_, qerr = iterate(func(fr *core.FlatRow) (bool, error) {
				rows = append(rows, obsRow{TS: time.Unix(0, fr.TS), Key: fr.Key.AsMap(), Vals: append([]float64(nil), fr.Values...)})
				return true, nil
			})
		}
		results = append(results, qResult{len(c.Points), q, "", qerr, rows, now})
	}
	g, err := galDBCase(t, c.Points, c.Queries, results)
	if err != nil {
		return err
	}
	c.NT = len(c.Points) >= 3
	e.Case(g, c)
	e.Add("rpc_inserts", sent)
	return nil
}

func runC20RPC(e *Env) error {
	e.Header("From Coq Require Import QArith.\nFrom Zeno Require Import Base Sort Expr DB.", "db_case")
	run := func(c *jDBCase) error { return runC20RPCCase(e, c) }
	if lines := e.ReplayLines(); lines != nil {
		for _, l := range lines {
			var c jDBCase
			if err := json.Unmarshal([]byte(l), &c); err != nil {
				return err
			}
			if err := run(&c); err != nil {
				return err
			}
		}
	} else {
		for i := 0; i < e.N; i++ {
			r := e.R
			c := &jDBCase{Table: genTable(r, map[string]bool{})}
			c.Points = genDBPoints(r, &c.Table, 8+r.Intn(25))
			// order matters for equal timestamps only through the clock; keep as generated
			c.FinalFlush = r.Intn(2) == 0
			c.Queries = []jQuery{{Mem: true}}
			for j := 0; j < 4; j++ {
				q := genGroupQuery(r, &c.Table, r.Intn(3) == 0)
				c.Queries = append(c.Queries, q)
			}
			if err := run(c); err != nil {
				b, _ := json.Marshal(c)
				return fmt.Errorf("%v on %s", err, b)
			}
		}
	}
	e.Footer("db_mismatches")
	return nil
}

var _ expr.Expr
