package main

// C16: malformed client input yields an error, never a crash or a stalled pipeline.
// The parent generates inputs; a worker process (this binary re-executed) runs them against
// the real sql/planner/DB so that a crash of a database goroutine is observed, not masked.

import (
	"bufio"
	"context"
	"encoding/json"
	"fmt"
	"math/rand"
	"os"
	"os/exec"
	"path/filepath"
	"runtime/pprof"
	"strings"
	"time"

	"github.com/getlantern/bytemap"
	"github.com/getlantern/zenodb"
	"github.com/getlantern/zenodb/core"
	"github.com/getlantern/zenodb/sql"
)

func init() {
	register("c16", runC16)
	register("c16worker", runC16Worker)
}

type jRobCase struct {
	Kind    string            `json:"kind"` // sql | insert
	SQL     string            `json:"sql,omitempty"`
	Payload string            `json:"payload,omitempty"` // description of an insert payload
	Idx     int               `json:"idx"`
	NT      bool              `json:"nt"`
	Res     map[string]string `json:"res,omitempty"`
}

const c16Schema = "SELECT SUM(a) AS a, AVG(b) AS b, IF(d1 = 'v1', COUNT(a)) AS c FROM inbound GROUP BY d1, d2, period(1s)"

func c16OpenDB(dir string) (*zenodb.DB, error) {
	db, err := zenodb.NewDB(&zenodb.DBOpts{Dir: dir, VirtualTime: true, IterationCoalesceInterval: time.Millisecond, Panic: quietPanic})
	if err != nil {
		return nil, err
	}
	err = db.ApplySchema(zenodb.Schema{"t": &zenodb.TableOpts{MinFlushLatency: time.Hour, MaxFlushLatency: 2 * time.Hour,
		RetentionPeriod: 1000 * time.Second, SQL: c16Schema},
		// a table whose GROUP BY makes the stored key longer than the dimensions it is derived from
		"tx": &zenodb.TableOpts{MinFlushLatency: time.Hour, MaxFlushLatency: 2 * time.Hour,
			RetentionPeriod: 1000 * time.Second, SQL: "SELECT SUM(a) AS a FROM inbound GROUP BY CONCAT('_', d1, d1) AS dd, d2, period(1s)"}})
	return db, err
}

// ---------- SQL generation ----------

var c16Valid = []string{
	"SELECT * FROM t",
	"SELECT a, b FROM t GROUP BY d1, period(2s)",
	"SELECT a / b AS r FROM t WHERE d1 = 'v1' GROUP BY d2 HAVING a > 1 ORDER BY r DESC LIMIT 3",
	"SELECT SUM(a) AS s, c FROM t ASOF '-10s' UNTIL '-1s' GROUP BY _, period(5s)",
	"SELECT a FROM t WHERE d1 IN (SELECT d1 FROM t WHERE d2 = 1 GROUP BY d1) GROUP BY d1",
	"SELECT a, IF(d2 > 1, b) AS bb FROM (SELECT a, b FROM t GROUP BY d1, d2, period(2s)) GROUP BY d1",
	"SELECT a FROM t GROUP BY d1, CROSSTAB(d2), period(2s)",
	"SELECT SHIFT(a, '-2s') AS sa, a FROM t GROUP BY d1",
	"SELECT a FROM t GROUP BY CONCAT('_', d1, d2) AS k",
	"SELECT LN(a) AS l, LOG2(b) AS m FROM t GROUP BY d1",
	"SELECT PERCENTILE(a, 99, 0, 100, 1) AS p FROM t GROUP BY d1",
	"SELECT a FROM t GROUP BY d1, STRIDE(4s), period(2s)",
}

var c16Hostile = []string{
	"INSERT INTO t (a) VALUES (1)", "UPDATE t SET a = 1", "DELETE FROM t", "SELECT a FROM t UNION SELECT b FROM t",
	"SET x = 1", "CREATE TABLE z (a int)", "DROP TABLE t", "ALTER TABLE t ADD c int", "SHOW TABLES", "", ";", "SELECT",
	"SELECT a FROM t WHERE LUA('return 1', d1, d2) = 1",
	"SELECT a FROM t WHERE LUA('return 1', ARRAY(d1), d2) = 1",
	"SELECT a FROM t WHERE SPLIT(d1, ',', 'q') = 'x'",
	"SELECT a FROM t WHERE SUBSTR(d1, 'a', 'b') = 'x'",
	"SELECT a FROM t GROUP BY SPLIT(d1, ',', 'q') AS k",
	"SELECT a FROM t GROUP BY SUBSTR(d1, 'a', 'b') AS k",
	"SELECT a FROM t WHERE HGET('h', d1) = 'x'",
	"SELECT a FROM t WHERE SISMEMBER('s', d1)",
	"SELECT a FROM t GROUP BY ISP(d1) AS i",
	"SELECT a FROM t GROUP BY CITY(d1) AS i",
	"SELECT a FROM t HAVING 'abc'",
	"SELECT a FROM t HAVING d1",
	"SELECT IF(d1, a) AS x FROM t",
	"SELECT IF(a) AS x FROM t", "SELECT BOUNDED(a) AS x FROM t", "SELECT BOUNDED(a, 'x', 'y') AS x FROM t",
	"SELECT PERCENTILE(a) AS p FROM t", "SELECT PERCENTILE(a, 99) AS p FROM t", "SELECT PERCENTILE(a, 99, 5, 1, 0) AS p FROM t",
	"SELECT SHIFT(a) AS s FROM t", "SELECT SHIFT(a, 'xyz') AS s FROM t", "SELECT CROSSHIFT(a, '0s', '0s') FROM t", "SELECT CROSSHIFT(a) FROM t",
	"SELECT SUM(1) AS one FROM t", "SELECT MIN(2) AS two, a FROM t GROUP BY d1", "SELECT AVG(1) AS x FROM t",
	"SELECT SUM(SUM(a)) AS ss FROM t", "SELECT WAVG(a, SUM(b)) AS w FROM t", "SELECT a + 'x' AS s FROM t",
	"SELECT * FROM nosuchtable", "SELECT nosuchfield FROM t", "SELECT NOSUCHFN(a) AS x FROM t", "SELECT NOSUCHFN(a, b, c, d) AS x FROM t",
	"SELECT a FROM t GROUP BY period(0s)", "SELECT a FROM t GROUP BY period(-1s)", "SELECT a FROM t GROUP BY period(xyz)", "SELECT a FROM t GROUP BY period(1s, 2s)",
	"SELECT a FROM t GROUP BY STRIDE(3s)", "SELECT a FROM t GROUP BY STRIDE()", "SELECT a FROM t GROUP BY CROSSTAB()", "SELECT a FROM t GROUP BY CROSSTAB(d1), CROSSTAB(d2)",
	"SELECT a FROM t ASOF 'garbage'", "SELECT a FROM t ASOF '-1s' UNTIL 'garbage'", "SELECT a FROM t ASOF '2999-01-01T00:00:00Z'", "SELECT a FROM t ASOF '0001-01-01T00:00:00Z' UNTIL '0001-01-02T00:00:00Z'",
	"SELECT a FROM t LIMIT -1", "SELECT a FROM t LIMIT 'x'", "SELECT a FROM t LIMIT 99999999999999999999", "SELECT a FROM t ORDER BY nosuch", "SELECT a FROM t ORDER BY",
	"SELECT a FROM t WHERE d1 IN (SELECT a, b FROM t)", "SELECT a FROM t WHERE d1 IN (SELECT * FROM t)", "SELECT a FROM t WHERE d1 IN (UPDATE t SET a = 1)",
	"SELECT a FROM (SELECT a FROM t", "SELECT a FROM (DELETE FROM t)", "SELECT a FROM t WHERE", "SELECT a FROM t WHERE d1 =", "SELECT a FROM t WHERE d1 LIKE 5",
	"SELECT a FROM t WHERE d1 = NULL AND d2 IS NULL OR NOT d3", "SELECT a FROM t WHERE (((((((((d1 = 'x')))))))))", "SELECT _ FROM t", "SELECT _points FROM t GROUP BY _",
	"SELECT a FROM t GROUP BY d1 AS", "SELECT a AS FROM t", "SELECT a b c FROM t", "SELECT a, FROM t", "SELECT * FROM t GROUP BY *, *", "SELECT * FROM t t2 t3",
	"SELECT a FROM t WHERE d1 = 'unterminated", "SELECT a FROM t WHERE d1 = \"dq\"", "SELECT a FROM t /* comment", "SELECT /*+ force_fresh */ a FROM t",
	"SELECT a FROM t WHERE ANY(d1) = 1", "SELECT a FROM t WHERE LEN(d1, d2) = 1", "SELECT a FROM t WHERE DECODE() = 1", "SELECT a FROM t WHERE CONCAT() = ''",
	"SELECT a FROM t WHERE PSPLIT(d1, ',', 0) = 'x'", "SELECT a FROM t WHERE P(d1) = 'x'", "SELECT a FROM t WHERE RAND() < 2",
	"select a from T where D1 = 'v1' group by D1", "SELECT A FROM T",
	// redis expressions on a database without Redis: the second evaluation in one process (the first is the HGET above)
	"SELECT a FROM t WHERE LUA('return 1', ARRAY(d1), ARRAY(d2)) = 1",
	"SELECT b FROM t WHERE HGET('h', d1) = 'y'",
}

var c16ValFns = []string{"SUM", "MIN", "MAX", "COUNT", "AVG", "WAVG", "IF", "BOUNDED", "PERCENTILE", "SHIFT", "CROSSHIFT", "LN", "LOG2", "LOG10", "NOSUCH", "CONCAT"}
var c16DimFns = []string{"SPLIT", "SUBSTR", "REPLACEALL", "LEN", "CONCAT", "ANY", "ARRAY", "DECODE", "LUA", "HGET", "SISMEMBER", "ISP", "CITY", "REGION", "ASN", "RAND", "PSPLIT", "NOSUCH"}

func genArg(r *rand.Rand, depth int) string {
	switch r.Intn(9) {
	case 0:
		return []string{"a", "b", "c", "nosuch", "_points", "_"}[r.Intn(6)]
	case 1:
		return []string{"d1", "d2", "d3"}[r.Intn(3)]
	case 2:
		return []string{"0", "1", "-1", "99", "1.5", "1e400", "0x10"}[r.Intn(7)]
	case 3:
		return []string{"'x'", "''", "'-1s'", "'2s'", "','", "'v1'", "'%'"}[r.Intn(7)]
	case 4:
		return []string{"d1 = 'v1'", "d2 > 1", "d1 IS NULL", "TRUE", "d1 IN ('v1', 'v2')", "d1 LIKE 'v%'"}[r.Intn(6)]
	case 5:
		return "*"
	default:
		if depth > 0 {
			return genCall(r, c16ValFns, depth-1)
		}
		return "a"
	}
}

func genCall(r *rand.Rand, fns []string, depth int) string {
	n := r.Intn(5)
	args := make([]string, n)
	for i := range args {
		args[i] = genArg(r, depth)
	}
	return fns[r.Intn(len(fns))] + "(" + strings.Join(args, ", ") + ")"
}

func genStructured(r *rand.Rand) string {
	var fs []string
	for i := 0; i <= r.Intn(3); i++ {
		f := genCall(r, c16ValFns, 2)
		if r.Intn(3) == 0 {
			f = "(" + f + " " + []string{"+", "-", "*", "/", ">", "=", "AND"}[r.Intn(7)] + " " + genArg(r, 1) + ")"
		}
		fs = append(fs, f+fmt.Sprintf(" AS x%d", i))
	}
	q := "SELECT " + strings.Join(fs, ", ") + " FROM " + []string{"t", "t", "t", "nosuch", "(SELECT a, b FROM t GROUP BY d1)"}[r.Intn(5)]
	if r.Intn(2) == 0 {
		q += " WHERE " + genCall(r, c16DimFns, 1) + " " + []string{"=", "<>", "<", "IN"}[r.Intn(4)] + " " + []string{"'x'", "1", "(1, 2)", "('a')", "d1"}[r.Intn(5)]
	}
	if r.Intn(2) == 0 {
		gb := []string{"d1", "d2", "*", "_", "period(2s)", "period(3s)", "STRIDE(4s)", "CROSSTAB(d1)", "CROSSTABT(d1, d2)", genCall(r, c16DimFns, 1) + " AS g"}
		var parts []string
		for i := 0; i <= r.Intn(3); i++ {
			parts = append(parts, gb[r.Intn(len(gb))])
		}
		q += " GROUP BY " + strings.Join(parts, ", ")
	}
	if r.Intn(4) == 0 {
		q += " HAVING " + genArg(r, 1) + " " + []string{">", "=", "<"}[r.Intn(3)] + " " + genArg(r, 0)
	}
	if r.Intn(4) == 0 {
		q += " ORDER BY " + []string{"x0", "_time", "d1 DESC", "nosuch", "x0, _time DESC"}[r.Intn(5)]
	}
	if r.Intn(4) == 0 {
		q += " LIMIT " + []string{"0", "1", "5, 2", "-3"}[r.Intn(4)]
	}
	return q
}

// legitimate table definitions that evaluate dimension functions / wide aggregates on every insert;
// the hostile part is the payloads inserted into them (ill-typed dims, out-of-range values)
var c16Schemas = []string{
	"SELECT IF(SUBSTR(d1, 0, 1) = 'v', SUM(a)) AS a FROM inbound GROUP BY d1, period(1s)",
	"SELECT IF(LEN(d1) > 1, SUM(a)) AS a, b FROM inbound GROUP BY d1, period(1s)",
	"SELECT IF(SPLIT(d1, ',', 0) = 'v1', SUM(a)) AS a FROM inbound GROUP BY d1, d2, period(1s)",
	"SELECT SUM(a) AS a FROM inbound WHERE SPLIT(d1, ',', 0) = 'v1' GROUP BY d1, period(1s)",
	"SELECT SUM(a) AS a FROM inbound WHERE LEN(d1) > 1 AND d2 > 0 GROUP BY d1, period(1s)",
	"SELECT SUM(a) AS a FROM inbound GROUP BY SUBSTR(d1, 0, 1) AS k, period(1s)",
	"SELECT SUM(a) AS a FROM inbound GROUP BY CONCAT('_', d1, d2) AS k, period(1s)",
	"SELECT PERCENTILE(a, 99, 0, 100, 1) AS p FROM inbound GROUP BY d1, period(1s)",
	"SELECT IF(d2 > 1, AVG(a)) AS x, WAVG(a, b) AS w, BOUNDED(a, 0, 3) AS ba FROM inbound GROUP BY *, period(1s)",
	"SELECT SUM(a) AS a FROM inbound WHERE d1 LIKE 'v%' GROUP BY d1, period(1s)",
	"SELECT SUM(a) AS a FROM inbound WHERE d1 IN ('v1', 'v2') AND d2 IS NOT NULL GROUP BY d1, period(1s)",
}

func mutate(r *rand.Rand, s string) string {
	toks := strings.Fields(s)
	if len(toks) == 0 {
		return s
	}
	junk := []string{"(", ")", ",", "'", "''", "*", "/", "=", "<>", "NULL", "-1", "0", "1e309", "SELECT", "FROM", "GROUP BY", "HAVING", "ORDER BY", "LIMIT", "period(1s)",
		"IF(", "SUM(", "CROSSTAB(", "ASOF", "UNTIL", "'-1s'", "IN", "(SELECT d1 FROM t)", "\x00", "\xff\xfe", "🙂", ";", "--", "/*", "d1", "a", "t"}
	for n := 1 + r.Intn(3); n > 0; n-- {
		i := r.Intn(len(toks))
		switch r.Intn(5) {
		case 0:
			toks = append(toks[:i], toks[i+1:]...)
		case 1:
			toks = append(toks[:i], append([]string{junk[r.Intn(len(junk))]}, toks[i:]...)...)
		case 2:
			toks[i] = junk[r.Intn(len(junk))]
		case 3:
			toks = toks[:i]
		case 4:
			j := r.Intn(len(toks))
			toks[i], toks[j] = toks[j], toks[i]
		}
		if len(toks) == 0 {
			break
		}
	}
	out := strings.Join(toks, " ")
	if r.Intn(10) == 0 && len(out) > 2 {
		out = out[:r.Intn(len(out))] // cut inside a token
	}
	return out
}

// ---------- insert payloads ----------

type payload struct {
	desc string
	raw  bool
	dims map[string]interface{}
	vals map[string]interface{}
	rawD []byte
	rawV []byte
}

func c16Payloads() []payload {
	d := func(m map[string]interface{}) map[string]interface{} { return m }
	base := map[string]interface{}{"d1": "junk", "d2": 9}
	ps := []payload{
		{desc: "vals nil map", dims: base, vals: nil},
		{desc: "dims nil map", dims: nil, vals: d(map[string]interface{}{"a": 1.0})},
		{desc: "empty []float64", dims: base, vals: d(map[string]interface{}{"a": []float64{}})},
		{desc: "empty []int", dims: base, vals: d(map[string]interface{}{"a": []int{}})},
		{desc: "array of floats", dims: base, vals: d(map[string]interface{}{"a": []float64{1, 2, 3}})},
		{desc: "string value", dims: base, vals: d(map[string]interface{}{"a": "x"})},
		{desc: "bool value", dims: base, vals: d(map[string]interface{}{"a": true})},
		{desc: "nil value", dims: base, vals: d(map[string]interface{}{"a": nil})},
		{desc: "int8 value", dims: base, vals: d(map[string]interface{}{"a": int8(3)})},
		{desc: "uint64 value", dims: base, vals: d(map[string]interface{}{"a": uint64(3)})},
		{desc: "float32 value", dims: base, vals: d(map[string]interface{}{"a": float32(3)})},
		{desc: "int value", dims: base, vals: d(map[string]interface{}{"a": 3})},
		{desc: "time value", dims: base, vals: d(map[string]interface{}{"a": time.Unix(5, 0)})},
		{desc: "NaN value", dims: base, vals: d(map[string]interface{}{"a": nan()})},
		{desc: "nil dim", dims: d(map[string]interface{}{"d1": nil, "d2": nil}), vals: d(map[string]interface{}{"a": 1.0})},
		{desc: "float dim", dims: d(map[string]interface{}{"d1": 1.5, "d2": "str"}), vals: d(map[string]interface{}{"a": 1.0})},
		{desc: "bool dim for IF/WHERE string compare", dims: d(map[string]interface{}{"d1": true, "d2": false}), vals: d(map[string]interface{}{"a": 1.0})},
		{desc: "time dim", dims: d(map[string]interface{}{"d1": time.Unix(1, 0)}), vals: d(map[string]interface{}{"a": 1.0})},
		{desc: "byte-slice dims (unhashable as map keys)", dims: d(map[string]interface{}{"d1": []byte{1, 2}, "d2": []byte("x")}), vals: d(map[string]interface{}{"a": 1.0})},
		{desc: "many dims", dims: manyDims(200), vals: d(map[string]interface{}{"a": 1.0})},
		{desc: "a dimension value of 70 KB (a row file stores key lengths in 16 bits)", dims: d(map[string]interface{}{"d1": strings.Repeat("x", 70000), "d2": 1}), vals: d(map[string]interface{}{"a": 1.0})},
		{desc: "5000 dims, 90 KB of key", dims: manyDims(5000), vals: d(map[string]interface{}{"a": 1.0})},
		{desc: "a dimension value of 40 KB: fits the limit, the key a GROUP BY derives from it does not", dims: d(map[string]interface{}{"d1": strings.Repeat("k", 40000), "d2": 2}), vals: d(map[string]interface{}{"a": 1.0})},
		{desc: "a dimension value of exactly 65535 bytes", dims: d(map[string]interface{}{"d1": strings.Repeat("y", 65535)}), vals: d(map[string]interface{}{"a": 1.0})},
		{desc: "empty key and empty names", dims: d(map[string]interface{}{"": ""}), vals: d(map[string]interface{}{"": 1.0})},
		{desc: "magic _points value", dims: base, vals: d(map[string]interface{}{"_points": 5.0, "a": 1.0})},
		{desc: "magic _point value string", dims: base, vals: d(map[string]interface{}{"_point": "x"})},
		{desc: "zero time", dims: base, vals: d(map[string]interface{}{"a": 1.0})},
		{desc: "raw: truncated dims", raw: true, rawD: bytemap.New(base)[:3], rawV: bytemap.New(map[string]interface{}{"a": 1.0})},
		{desc: "raw: truncated vals", raw: true, rawD: bytemap.New(base), rawV: bytemap.New(map[string]interface{}{"a": 1.0})[:5]},
		{desc: "raw: garbage bytes", raw: true, rawD: []byte{0xff, 0xff, 0xff, 0xff, 0x01}, rawV: []byte{0x07, 0x00, 0x10, 0x00}},
		{desc: "raw: empty", raw: true, rawD: nil, rawV: nil},
	}
	return ps
}

func manyDims(n int) map[string]interface{} {
	m := map[string]interface{}{}
	for i := 0; i < n; i++ {
		m[fmt.Sprintf("dim%03d", i)] = i
	}
	return m
}

// ---------- parent ----------

func runC16(e *Env) error {
	r := e.R
	var cases []jRobCase
	add := func(c jRobCase) { c.Idx = len(cases); cases = append(cases, c) }
	for _, s := range c16Valid {
		add(jRobCase{Kind: "sql", SQL: s})
	}
	for _, s := range c16Hostile {
		add(jRobCase{Kind: "sql", SQL: s, NT: true})
	}
	pool := append(append([]string(nil), c16Valid...), c16Hostile...)
	for len(cases) < e.N {
		if r.Intn(2) == 0 {
			add(jRobCase{Kind: "sql", SQL: genStructured(r), NT: true})
			continue
		}
		s := mutate(r, pool[r.Intn(len(pool))])
		add(jRobCase{Kind: "sql", SQL: s, NT: true})
	}
	for _, s := range c16Schemas {
		add(jRobCase{Kind: "schema", SQL: s, NT: true})
	}
	for i := range c16Payloads() {
		add(jRobCase{Kind: "insert", Payload: fmt.Sprintf("%d", i), NT: true})
	}
	inFile := filepath.Join(e.Out, "c16.in.jsonl")
	f, err := os.Create(inFile)
	if err != nil {
		return err
	}
	for _, c := range cases {
		b, _ := json.Marshal(c)
		f.Write(append(b, '\n'))
	}
	f.Close()
	results := make([]map[string]string, len(cases))
	next := 0
	crashes := 0
	for next < len(cases) {
		resFile := filepath.Join(e.Out, fmt.Sprintf("c16.res.%d.jsonl", next))
		cmd := exec.Command(os.Args[0], "c16worker", "-out", e.Out, "-replay", inFile, "-mode", fmt.Sprintf("%d:%s", next, resFile))
		cmd.Stderr = nil
		cmd.Run() // the exit status is irrelevant: the result file tells how far it got
		begun := -1
		rf, err := os.Open(resFile)
		if err == nil {
			sc := bufio.NewScanner(rf)
			sc.Buffer(make([]byte, 1<<20), 1<<24)
			for sc.Scan() {
				line := sc.Text()
				var rec struct {
					Begin *int              `json:"begin"`
					End   *int              `json:"end"`
					Res   map[string]string `json:"res"`
				}
				if json.Unmarshal([]byte(line), &rec) != nil {
					continue
				}
				if rec.Begin != nil {
					begun = *rec.Begin
				}
				if rec.End != nil {
					results[*rec.End] = rec.Res
					next = *rec.End + 1
				}
			}
			rf.Close()
		}
		if next < len(cases) {
			crashes++
			if begun >= next {
				// the worker died while executing case `begun`
				results[begun] = map[string]string{"process": "crash"}
				next = begun + 1
			}
			// (otherwise it ended between two cases - after reporting a hang - and is restarted at the next one)
			if crashes > 50 {
				return fmt.Errorf("more than 50 worker crashes, giving up")
			}
		}
	}
	fmt.Fprintf(e.v, "From Coq Require Import String.\nFrom Zeno Require Import Base Robust Facts.\nOpen Scope string_scope.\nDefinition cases : list rob_case := [\n")
	for i := range cases {
		c := &cases[i]
		c.Res = results[i]
		get := func(k string) string {
			if v, ok := c.Res[k]; ok {
				return v
			}
			return "none"
		}
		oc := func(s string) string {
			switch s {
			case "ok":
				return "OOk"
			case "err":
				return "OErr"
			case "panic":
				return "OPanic"
			case "crash":
				return "OCrash"
			case "hang":
				return "OHang"
			}
			return "ONone"
		}
		var g string
		if c.Kind == "sql" {
			g = fmt.Sprintf("RobSQL %s %s %s %s %s", oc(get("parse")), oc(get("tablefor")), oc(get("plan")), oc(get("exec")), oc(get("process")))
		} else if c.Kind == "schema" {
			g = fmt.Sprintf("RobSQL %s ONone %s %s %s", oc(get("create")), oc(get("ingest")), oc(get("exec")), oc(get("process")))
		} else {
			g = fmt.Sprintf("RobInsert %s %s %s", oc(get("insert")), oc(get("alive")), oc(get("process")))
		}
		e.Case(g, c)
		for k, v := range c.Res {
			e.Count(k + "=" + v)
		}
	}
	fmt.Fprintf(e.v, "\n].\nDefinition M := Eval vm_compute in (failing (map rob_case_ok cases)).\nPrint M.\n")
	e.Add("worker_crashes", crashes)
	return nil
}

// ---------- worker ----------

func classify(f func() error) (out string) {
	defer func() {
		if p := recover(); p != nil {
			out = "panic"
		}
	}()
	if err := f(); err != nil {
		return "err"
	}
	return "ok"
}

func runC16Worker(e *Env) error {
	var from int
	var resFile string
	parts := strings.SplitN(e.Mode, ":", 2)
	fmt.Sscanf(parts[0], "%d", &from)
	resFile = parts[1]
	rf, err := os.Create(resFile)
	if err != nil {
		return err
	}
	defer rf.Close()
	emit := func(v interface{}) {
		b, _ := json.Marshal(v)
		rf.Write(append(b, '\n'))
		rf.Sync()
	}
	dir := tempDir()
	defer rmDir(dir)
	db, err := c16OpenDB(dir)
	if err != nil {
		return err
	}
	valid := func(i int) (time.Time, map[string]interface{}, map[string]interface{}) {
		return time.Unix(baseSec+int64(i%20), 0), map[string]interface{}{"d1": fmt.Sprintf("v%d", 1+i%2), "d2": i % 3}, map[string]interface{}{"a": float64(1 + i%5), "b": float64(i % 7)}
	}
	nValid := 0
	for i := 0; i < 30; i++ {
		ts, dims, vals := valid(i)
		db.Insert("inbound", ts, dims, vals)
		nValid++
	}
	waitCaughtUp(db, "t", 0)
	db.FlushAll()
	// a watchdog: a hang of the database is reported by dying (the parent records the case as a crash/hang)
	lines := e.ReplayLines()
	payloads := c16Payloads()
	for i := from; i < len(lines); i++ {
		var c jRobCase
		if err := json.Unmarshal([]byte(lines[i]), &c); err != nil {
			return err
		}
		emit(map[string]interface{}{"begin": i})
		res := map[string]string{}
		done := make(chan bool, 1)
		go func() {
			select {
			case <-done:
			case <-time.After(20 * time.Second):
				// where every goroutine stands goes next to the results (diagnosis of the stall)
				if hf, herr := os.Create(filepath.Join(e.Out, fmt.Sprintf("c16.hang.%d.txt", i))); herr == nil {
					pprof.Lookup("goroutine").WriteTo(hf, 2)
					hf.Close()
				}
				emit(map[string]interface{}{"end": i, "res": map[string]string{"process": "hang"}})
				os.Exit(3)
			}
		}()
		if c.Kind == "sql" {
			res["parse"] = classify(func() error { _, err := sql.Parse(c.SQL); return err })
			res["tablefor"] = classify(func() error { _, err := sql.TableFor(c.SQL); return err })
			var src core.FlatRowSource
			res["plan"] = classify(func() error { var err error; src, err = db.Query(c.SQL, false, nil, true); return err })
			if src != nil && res["plan"] == "ok" {
				res["exec"] = classify(func() error {
					ctx, cancel := context.WithTimeout(context.Background(), 5*time.Second)
					defer cancel()
					_, err := src.Iterate(ctx, core.FieldsIgnored, func(r *core.FlatRow) (bool, error) { return true, nil })
					return err
				})
			}
		} else if c.Kind == "schema" {
			// a table whose definition evaluates hostile expressions on every insert (row-store goroutine)
			name := fmt.Sprintf("s%d", i)
			res["create"] = classify(func() error {
				return db.ApplySchema(zenodb.Schema{name: &zenodb.TableOpts{MinFlushLatency: time.Hour, MaxFlushLatency: 2 * time.Hour, RetentionPeriod: 1000 * time.Second, SQL: c.SQL}})
			})
			if res["create"] == "ok" {
				vts, dims, vals := valid(nValid)
				db.Insert("inbound", vts, dims, vals)
				nValid++
				for _, hd := range []map[string]interface{}{{"d1": 5, "d2": "s"}, {"d1": nil, "d2": nil}, {"d1": true, "d2": 1.5}, {"d2": 1}, {"d1": "", "d2": -1}, {"d1": 1.5}, {"d1": "v1,v2,,", "d2": 99999999999}} {
					for _, hv := range []map[string]interface{}{{"a": 1.0, "b": 2.0}, {"a": -5.0}, {"a": 1e12, "b": 0.0}, {"a": nan()}, {"b": 1.0},
						{"a": []float64{1, 2, 3}, "b": []int{4, 5}}, {"a": []float64{7, 8}}} { // array values: several row-store updates per point
						db.Insert("inbound", vts, hd, hv)
					}
				}
				res["ingest"] = "ok"
				if waitCaughtUp(db, name, 0) != nil || waitCaughtUp(db, "t", 0) != nil {
					res["ingest"] = "hang"
				}
				res["exec"] = classify(func() error {
					_, _, err := runQuery(db, "SELECT * FROM "+name, true)
					return err
				})
			}
		} else {
			var pi int
			fmt.Sscanf(c.Payload, "%d", &pi)
			p := payloads[pi]
			ts := time.Unix(baseSec+3, 0)
			if p.desc == "zero time" {
				ts = time.Time{}
			}
			res["insert"] = classify(func() error {
				if p.raw {
					return db.InsertRaw("inbound", ts, bytemap.ByteMap(p.rawD), bytemap.ByteMap(p.rawV))
				}
				return db.Insert("inbound", ts, p.dims, p.vals)
			})
			// valid traffic afterwards must still be ingested
			vts, dims, vals := valid(nValid)
			db.Insert("inbound", vts, dims, vals)
			nValid++
			if waitCaughtUp(db, "t", 0) != nil || waitCaughtUp(db, "tx", 0) != nil {
				res["alive"] = "hang"
			} else {
				// the stored dimensions now flow through query-side code as well (IN-subquery collects them in a map)
				res["subquery"] = classify(func() error {
					_, _, err := runQuery(db, "SELECT _points FROM t WHERE d1 IN (SELECT d1 FROM t GROUP BY d1) GROUP BY d2", true)
					return err
				})
				res["alive"] = classify(func() error {
					_, rows, err := runQuery(db, "SELECT _points FROM t WHERE d1 = 'v1' OR d1 = 'v2' GROUP BY _", true)
					if err != nil {
						return err
					}
					total := 0.0
					for _, r := range rows {
						total += r.Vals[0]
					}
					if int(total) != nValid {
						return fmt.Errorf("valid points lost: have %v want %d", total, nValid)
					}
					return nil
				})
				if res["subquery"] == "panic" && res["alive"] == "ok" {
					res["alive"] = "panic" // an error is fine, a panic reaching the caller is not
				}
				if res["alive"] == "ok" {
					// ... and stays readable once the memstore has been flushed (whatever was accepted must fit the file format)
					db.FlushAll()
					res["alive"] = classify(func() error {
						for _, mem := range []bool{false, true} {
							_, rows, err := runQuery(db, "SELECT _points FROM t WHERE d1 = 'v1' OR d1 = 'v2' GROUP BY _", mem)
							if err != nil {
								return err
							}
							total := 0.0
							for _, r := range rows {
								total += r.Vals[0]
							}
							if int(total) != nValid {
								return fmt.Errorf("valid points lost after the flush: have %v want %d", total, nValid)
							}
							// the same for the table with the derived key
							_, rows, err = runQuery(db, "SELECT _points FROM tx WHERE dd = 'v1_v1' OR dd = 'v2_v2' GROUP BY _", mem)
							if err != nil {
								return err
							}
							total = 0.0
							for _, r := range rows {
								total += r.Vals[0]
							}
							if int(total) != nValid {
								return fmt.Errorf("valid points lost in tx after the flush: have %v want %d", total, nValid)
							}
						}
						return nil
					})
				}
			}
		}
		done <- true
		emit(map[string]interface{}{"end": i, "res": res})
	}
	db.Close()
	return nil
}
