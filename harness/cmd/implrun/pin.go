package main

// pin: scans against flushes and the removal of old files (Model/Pin.v; C03, C18).
// A history is run on a real database; a scan is held (hook VerifPauseAt) right after it captured file store
// and memstore copy, flushes and remover ticks run meanwhile, then the scan goes on.  Every point carries its
// index in a dimension, so the rows a scan returns say exactly which points it saw.

import (
	"context"
	"encoding/json"
	"fmt"
	"math/rand"
	"os"
	"sort"
	"strings"
	"sync"
	"time"

	"github.com/getlantern/zenodb"
)

func init() { register("pin", runPin) }

type jPinOp struct {
	Op string `json:"op"` // ins | flush | begin | resume | remove
	I  int    `json:"i,omitempty"`
	// observations
	Seen []int  `json:"seen,omitempty"`
	Gone []int  `json:"gone,omitempty"`
	Err  string `json:"err,omitempty"`
}

type jPinCase struct {
	Ops []jPinOp `json:"ops"`
	NT  bool     `json:"nt"`
}

func genPinCase(r *rand.Rand) *jPinCase {
	c := &jPinCase{NT: true}
	pending, files, removes, scans := 0, 0, 0, 0
	var open []int
	n := 10 + r.Intn(10)
	for len(c.Ops) < n {
		switch k := r.Intn(12); {
		case k < 4:
			c.Ops = append(c.Ops, jPinOp{Op: "ins"})
			pending++
		case k < 7:
			if pending == 0 {
				c.Ops = append(c.Ops, jPinOp{Op: "ins"})
			}
			c.Ops = append(c.Ops, jPinOp{Op: "flush"})
			pending = 0
			files++
		case k < 9:
			if len(open) < 3 {
				c.Ops = append(c.Ops, jPinOp{Op: "begin"})
				open = append(open, scans)
				scans++
			}
		case k < 11:
			if len(open) > 0 {
				j := r.Intn(len(open))
				c.Ops = append(c.Ops, jPinOp{Op: "resume", I: open[j]})
				open = append(open[:j], open[j+1:]...)
			}
		default:
			if files >= 4 && removes < 1 {
				c.Ops = append(c.Ops, jPinOp{Op: "remove"})
				removes++
			}
		}
	}
	if removes == 0 && r.Intn(2) == 0 {
		// make sure old files exist, let the remover run while scans are held
		for files < 5 {
			c.Ops = append(c.Ops, jPinOp{Op: "ins"}, jPinOp{Op: "flush"})
			files++
		}
		c.Ops = append(c.Ops, jPinOp{Op: "remove"})
	}
	for _, i := range open {
		c.Ops = append(c.Ops, jPinOp{Op: "resume", I: i})
	}
	return c
}

var pinTableSeq int
var pinTableMx sync.Mutex

func dataFiles(dir string) []string {
	ents, _ := os.ReadDir(dir)
	var out []string
	for _, e := range ents {
		if strings.HasPrefix(e.Name(), "filestore_") && strings.HasSuffix(e.Name(), ".dat") {
			out = append(out, e.Name())
		}
	}
	sort.Strings(out)
	return out
}

func runPinCase(c *jPinCase) (string, error) {
	pinTableMx.Lock()
	pinTableSeq++
	table := fmt.Sprintf("pt%d", pinTableSeq)
	pinTableMx.Unlock()
	dir := tempDir()
	defer rmDir(dir)
	db, err := zenodb.NewDB(&zenodb.DBOpts{Dir: dir, VirtualTime: true, IterationCoalesceInterval: time.Millisecond, IterationConcurrency: 8, Panic: quietPanic})
	if err != nil {
		return "", err
	}
	defer db.Close()
	err = db.ApplySchema(zenodb.Schema{table: &zenodb.TableOpts{MinFlushLatency: time.Hour, MaxFlushLatency: 2 * time.Hour,
		RetentionPeriod: 1000 * time.Hour, SQL: "SELECT SUM(v) AS v FROM inbound GROUP BY pid, period(1s)"}})
	if err != nil {
		return "", err
	}
	tdir := dir + "/" + table
	base := time.Unix(baseSec, 0)
	fileIdx := map[string]int{}
	type scan struct {
		release func()
		done    chan struct{}
		seen    []int
		err     error
	}
	var scans []*scan
	n := 0
	var hist []string
	nat := func(l []int) string {
		s := make([]string, len(l))
		for i, x := range l {
			s[i] = fmt.Sprint(x)
		}
		return "[" + strings.Join(s, "; ") + "]%nat"
	}
	for oi := range c.Ops {
		o := &c.Ops[oi]
		o.Seen, o.Gone, o.Err = nil, nil, ""
		switch o.Op {
		case "ins":
			if err := db.Insert("inbound", base, map[string]interface{}{"pid": n}, map[string]interface{}{"v": 1.0}); err != nil {
				return "", err
			}
			n++
			if err := waitCaughtUp(db, table, 0); err != nil {
				return "", err
			}
			hist = append(hist, "HInsert")
		case "flush":
			db.FlushAll()
			for _, f := range dataFiles(tdir) {
				if _, ok := fileIdx[f]; !ok {
					fileIdx[f] = len(fileIdx)
				}
			}
			hist = append(hist, "HFlush")
		case "begin":
			reached, release := zenodb.VerifPauseAt("iterate.captured:" + table)
			sc := &scan{release: release, done: make(chan struct{})}
			scans = append(scans, sc)
			go func() {
				defer close(sc.done)
				ctx, cancel := context.WithTimeout(context.Background(), 60*time.Second)
				defer cancel()
				rows, err := runQueryCtx(ctx, db, "SELECT v FROM "+table, true)
				sc.err = err
				for _, r := range rows {
					if pid, ok := r.Key["pid"].(int); ok {
						sc.seen = append(sc.seen, pid)
					} else {
						sc.seen = append(sc.seen, -1)
					}
				}
				sort.Ints(sc.seen)
			}()
			select {
			case <-reached:
			case <-time.After(20 * time.Second):
				return "", fmt.Errorf("scan did not reach the pause point")
			}
			hist = append(hist, "HBegin")
		case "resume":
			if o.I >= len(scans) {
				return "", fmt.Errorf("no scan %d", o.I)
			}
			sc := scans[o.I]
			sc.release()
			select {
			case <-sc.done:
			case <-time.After(70 * time.Second):
				return "", fmt.Errorf("scan %d did not finish", o.I)
			}
			o.Seen = sc.seen
			if sc.err != nil {
				o.Err = sc.err.Error()
				o.Seen = append(o.Seen, -2) // an error is not what the model's scan returns
			}
			// the structure the source has decides what "going on" means: register, then read - or read only
			hist = append(hist, fmt.Sprintf("HResume %d%%nat %s", o.I, nat(o.Seen)))
		case "remove":
			before := dataFiles(tdir)
			time.Sleep(10300 * time.Millisecond) // removeOldFiles ticks every 10 s
			after := map[string]bool{}
			for _, f := range dataFiles(tdir) {
				after[f] = true
			}
			for _, f := range before {
				if !after[f] {
					o.Gone = append(o.Gone, fileIdx[f])
				}
			}
			hist = append(hist, "HRemove "+nat(o.Gone))
		default:
			return "", fmt.Errorf("unknown op %q", o.Op)
		}
	}
	for _, sc := range scans {
		sc.release()
	}
	return "[" + strings.Join(hist, "; ") + "]", nil
}

func runPin(e *Env) error {
	e.Header("From Coq Require Import List ZArith.\nImport ListNotations.\nFrom Zeno Require Import Pin PinSrc Facts.", "pin_case")
	var cases []*jPinCase
	if lines := e.ReplayLines(); lines != nil {
		for _, l := range lines {
			c := &jPinCase{}
			if err := json.Unmarshal([]byte(l), c); err != nil {
				return err
			}
			cases = append(cases, c)
		}
	} else {
		for i := 0; i < e.N; i++ {
			cases = append(cases, genPinCase(e.R))
		}
	}
	// the histories wait for the remover's 10 s ticker: run them side by side
	hists := make([]string, len(cases))
	errs := make([]error, len(cases))
	var wg sync.WaitGroup
	sem := make(chan bool, 16)
	for i := range cases {
		wg.Add(1)
		go func(i int) {
			defer wg.Done()
			sem <- true
			defer func() { <-sem }()
			hists[i], errs[i] = runPinCase(cases[i])
		}(i)
	}
	wg.Wait()
	for i, c := range cases {
		if errs[i] != nil {
			b, _ := json.Marshal(c)
			return fmt.Errorf("%v on case %s", errs[i], b)
		}
		e.Case(fmt.Sprintf("(mk_pin_case (pins_atomically gen_iterate_steps) %s)", hists[i]), c)
		for _, o := range c.Ops {
			e.Count("op_" + o.Op)
			if o.Op == "remove" {
				e.Add("files_removed", len(o.Gone))
			}
		}
	}
	e.Footer("pin_mismatches")
	return nil
}
