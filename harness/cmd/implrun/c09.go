package main

import (
	"context"
	"encoding/json"
	"fmt"
	"time"

	"github.com/getlantern/bytemap"
	"github.com/getlantern/zenodb/core"
	"github.com/getlantern/zenodb/expr"
	"github.com/getlantern/zenodb/planner"
	"github.com/getlantern/zenodb/sql"
)

func init() { register("c09core", runC09Core) }

// ---- JSON form of a sort case (inputs only; outputs are recomputed on replay) ----

type jVal struct {
	K string  `json:"k"` // nil bool int flt str
	B bool    `json:"b,omitempty"`
	I int64   `json:"i,omitempty"`
	F float64 `json:"f,omitempty"`
	S string  `json:"s,omitempty"`
}
type jRow struct {
	TS   int64           `json:"ts"`
	Vals []float64       `json:"vals"`
	Key  map[string]jVal `json:"key"`
}
type jOrder struct {
	Field string `json:"field"`
	Desc  bool   `json:"desc"`
}
type jSortCase struct {
	Fields   []string `json:"fields"`
	Order    []jOrder `json:"order"`
	Offset   int      `json:"offset"`
	Limit    int      `json:"limit"`
	HasLimit bool     `json:"has_limit"`
	Rows     []jRow   `json:"rows"`
	NT       bool     `json:"nt"` // non-trivial: at least one key and two rows
}

var c09Names = map[string]int64{"f1": 1, "f2": 2, "f3": 3, "d1": 11, "d2": 12, "d3": 13, "pid": 16, "zz": 20}

type sliceSource struct {
	fields core.Fields
	rows   []*core.FlatRow
}

func (s *sliceSource) GetGroupBy() []core.GroupBy   { return nil }
func (s *sliceSource) GetResolution() time.Duration { return time.Second }
func (s *sliceSource) GetAsOf() time.Time           { return time.Time{} }
func (s *sliceSource) GetUntil() time.Time          { return time.Time{} }
func (s *sliceSource) String() string               { return "slice" }
func (s *sliceSource) Iterate(ctx context.Context, onFields core.OnFields, onRow core.OnFlatRow) (interface{}, error) {
	if err := onFields(s.fields); err != nil {
		return nil, err
	}
	for _, r := range s.rows {
		more, err := onRow(r)
		if err != nil {
			return nil, err
		}
		if !more {
			break
		}
	}
	return nil, nil
}

func collectFlat(src core.FlatRowSource) ([]*core.FlatRow, error) {
	var out []*core.FlatRow
	_, err := src.Iterate(context.Background(), core.FieldsIgnored, func(r *core.FlatRow) (bool, error) {
		out = append(out, r)
		return true, nil
	})
	return out, err
}

func genSortCase(e *Env) *jSortCase {
	r := e.R
	c := &jSortCase{}
	nf := 1 + r.Intn(3)
	for i := 0; i < nf; i++ {
		c.Fields = append(c.Fields, fmt.Sprintf("f%d", i+1))
	}
	// one dynamic type per dim so that core.compare's type assertions hold (C16 covers the rest)
	kinds := []string{"bool", "int", "flt", "str"}
	dimKind := map[string]string{}
	for _, d := range []string{"d1", "d2", "d3"} {
		dimKind[d] = kinds[r.Intn(len(kinds))]
	}
	nrows := r.Intn(13)
	if r.Intn(10) == 0 {
		nrows = 20 + r.Intn(30) // beyond insertion-sort threshold of pdqsort
	}
	valRange := int64(1 + r.Intn(4)) // few distinct values => ties
	// integer dimensions are sometimes 64-bit ids: adjacent values beyond 2^53 (not representable as distinct float64)
	intBase := map[string]int64{}
	for _, d := range []string{"d1", "d2", "d3"} {
		if r.Intn(3) == 0 {
			intBase[d] = []int64{1 << 53, -(1 << 53), (1<<63 - 1) - 8, -(1 << 62)}[r.Intn(4)]
		}
	}
	for i := 0; i < nrows; i++ {
		row := jRow{TS: 1000 + r.Int63n(valRange+1), Key: map[string]jVal{}}
		for range c.Fields {
			row.Vals = append(row.Vals, float64(r.Int63n(2*valRange+1)-valRange))
		}
		for d, k := range dimKind {
			if r.Intn(4) == 0 {
				continue // missing dim => nil
			}
			switch k {
			case "bool":
				row.Key[d] = jVal{K: "bool", B: r.Intn(2) == 0}
			case "int":
				row.Key[d] = jVal{K: "int", I: intBase[d] + r.Int63n(2*valRange+1) - valRange}
			case "flt":
				row.Key[d] = jVal{K: "flt", F: float64(r.Int63n(2*valRange+1) - valRange)}
			case "str":
				strs := []string{"", "a", "ab", "b", "B", "aa", "\xc3\xa9"}
				row.Key[d] = jVal{K: "str", S: strs[r.Intn(len(strs))]}
			}
		}
		c.Rows = append(c.Rows, row)
	}
	cand := append([]string{"_time", "d1", "d2", "d3", "zz"}, c.Fields...)
	nk := r.Intn(5)
	for i := 0; i < nk; i++ {
		c.Order = append(c.Order, jOrder{Field: cand[r.Intn(len(cand))], Desc: r.Intn(2) == 0})
	}
	if r.Intn(3) > 0 {
		c.Offset = r.Intn(nrows + 3)
	}
	if r.Intn(3) > 0 {
		c.HasLimit = true
		c.Limit = r.Intn(nrows + 3)
	}
	return c
}

func (v jVal) goVal() interface{} {
	switch v.K {
	case "bool":
		return v.B
	case "int":
		return int(v.I)
	case "flt":
		return v.F
	case "str":
		return v.S
	}
	return nil
}

func galVal(v interface{}) string {
	switch t := v.(type) {
	case nil:
		return "VNil"
	case bool:
		return "(VBool " + gbool(t) + ")"
	case int:
		return "(VInt " + gz(int64(t)) + ")"
	case int64:
		return "(VInt " + gz(t) + ")"
	case float64:
		return "(VFlt " + gz(int64(t)) + ")"
	case string:
		return "(VStr " + gstr(t) + ")"
	}
	panic(fmt.Sprintf("galVal: unsupported %T", v))
}

func galRow(fields []string, r *core.FlatRow) string {
	vals := make([]string, len(r.Values))
	for i, v := range r.Values {
		vals[i] = fmt.Sprintf("(%d, %s)", c09Names[fields[i]], gz(int64(v)))
	}
	var key []string
	r.Key.IterateValues(func(k string, v interface{}) bool {
		key = append(key, fmt.Sprintf("(%d, %s)", c09Names[k], galVal(v)))
		return true
	})
	return fmt.Sprintf("{| r_ts := %s; r_vals := %s; r_key := %s |}", gz(r.TS), glist(vals), glist(key))
}

func galRows(fields []string, rows []*core.FlatRow) string {
	items := make([]string, len(rows))
	for i, r := range rows {
		items[i] = galRow(fields, r)
	}
	return glist(items)
}

func runSortCase(e *Env, c *jSortCase) error {
	var fields core.Fields
	for _, f := range c.Fields {
		fields = append(fields, core.NewField(f, expr.FIELD(f)))
	}
	var rows []*core.FlatRow
	for _, jr := range c.Rows {
		m := map[string]interface{}{}
		for k, v := range jr.Key {
			m[k] = v.goVal()
		}
		fr := &core.FlatRow{TS: jr.TS, Key: bytemap.New(m), Values: append([]float64(nil), jr.Vals...)}
		fr.SetFields(fields)
		rows = append(rows, fr)
	}
	q := &sql.Query{Offset: c.Offset, Limit: c.Limit, HasLimit: c.HasLimit}
	var keys []string
	for _, o := range c.Order {
		q.OrderBy = append(q.OrderBy, core.NewOrderBy(o.Field, o.Desc))
		if o.Field == "_time" {
			keys = append(keys, "OTime "+gbool(o.Desc))
		} else {
			keys = append(keys, fmt.Sprintf("OKey %d %s", c09Names[o.Field], gbool(o.Desc)))
		}
	}
	// 1. sort alone (as the planner composes it)
	var sortedSrc core.FlatRowSource = &sliceSource{fields, rows}
	if len(q.OrderBy) > 0 {
		sortedSrc = core.Sort(sortedSrc, q.OrderBy...)
	}
	sorted, err := collectFlat(sortedSrc)
	if err != nil {
		return err
	}
	// 2. the planner's order/offset/limit composition
	out, err := collectFlat(planner.VerifAddOrderLimitOffset(&sliceSource{fields, rows}, q))
	if err != nil {
		return err
	}
	lim := gopt(gz(int64(c.Limit)), c.HasLimit)
	g := fmt.Sprintf("{| sc_keys := %s; sc_off := %s; sc_lim := %s;\n   sc_in := %s;\n   sc_sorted := %s;\n   sc_out := %s |}",
		glist(keys), gz(int64(c.Offset)), lim, galRows(c.Fields, rows), galRows(c.Fields, sorted), galRows(c.Fields, out))
	c.NT = len(c.Order) > 0 && len(c.Rows) >= 2
	e.Case(g, c)
	// input distribution
	e.Count(fmt.Sprintf("keys=%d", len(c.Order)))
	if len(c.Rows) >= 13 {
		e.Count("rows>=13")
	} else if len(c.Rows) >= 2 {
		e.Count("rows=2..12")
	} else {
		e.Count("rows<2")
	}
	if c.HasLimit {
		if c.Limit == 0 {
			e.Count("limit=0")
		} else if c.Limit >= len(c.Rows) {
			e.Count("limit>=rows")
		} else {
			e.Count("limit<rows")
		}
	} else {
		e.Count("nolimit")
	}
	for _, o := range c.Order {
		if o.Field == "_time" {
			e.Count("has_time_key")
			break
		}
	}
	if len(c.Order) > 0 && len(c.Rows) >= 2 {
		e.Count("nontrivial")
	}
	return nil
}

func runC09Core(e *Env) error {
	e.Header("From Zeno Require Import Base Sort.", "sort_case")
	if lines := e.ReplayLines(); lines != nil {
		for _, l := range lines {
			var c jSortCase
			if err := json.Unmarshal([]byte(l), &c); err != nil {
				return err
			}
			if err := runSortCase(e, &c); err != nil {
				return err
			}
		}
	} else {
		for i := 0; i < e.N; i++ {
			if err := runSortCase(e, genSortCase(e)); err != nil {
				return err
			}
		}
	}
	e.Footer("sort_mismatches")
	return nil
}
