package main

// DB-level harness: runs a history (schema, inserts, flushes, reopen) against a
// real zenodb.DB on a scratch directory and collects query results.

import (
	"context"
	"fmt"
	"io/ioutil"
	"os"
	"runtime"
	"sort"
	"strings"
	"time"

	"github.com/getlantern/bytemap"
	"github.com/getlantern/goexpr"
	"github.com/getlantern/zenodb"
	"github.com/getlantern/zenodb/common"
	"github.com/getlantern/zenodb/core"
	"github.com/getlantern/zenodb/sql"
)

// ---------- predicates over dimensions ----------

type XPred struct {
	K   string   `json:"k"`             // cmp and or not isnull in true
	Dim string   `json:"dim,omitempty"` // cmp/isnull/in
	Op  string   `json:"op,omitempty"`  // = <> < > <= >=
	Lit jVal     `json:"lit,omitempty"`
	Set []jVal   `json:"set,omitempty"`
	Sub []*XPred `json:"sub,omitempty"`
}

func litSQL(v jVal) string {
	switch v.K {
	case "str":
		return "'" + v.S + "'"
	case "int":
		return fmt.Sprintf("%d", v.I)
	case "flt":
		return fmt.Sprintf("%v", v.F)
	case "bool":
		if v.B {
			return "TRUE"
		}
		return "FALSE"
	}
	return "NULL"
}

func (p *XPred) SQL() string {
	switch p.K {
	case "true":
		return "TRUE = TRUE"
	case "cmp":
		return fmt.Sprintf("%s %s %s", p.Dim, p.Op, litSQL(p.Lit))
	case "isnull":
		return fmt.Sprintf("%s IS NULL", p.Dim)
	case "in":
		items := make([]string, len(p.Set))
		for i, v := range p.Set {
			items[i] = litSQL(v)
		}
		return fmt.Sprintf("%s IN (%s)", p.Dim, strings.Join(items, ", "))
	case "and":
		return fmt.Sprintf("(%s) AND (%s)", p.Sub[0].SQL(), p.Sub[1].SQL())
	case "or":
		return fmt.Sprintf("(%s) OR (%s)", p.Sub[0].SQL(), p.Sub[1].SQL())
	case "not":
		return fmt.Sprintf("NOT (%s)", p.Sub[0].SQL())
	}
	panic("bad pred")
}

// compile obtains the real goexpr for the predicate through the real SQL parser.
func (p *XPred) compile() (goexpr.Expr, error) {
	q, err := sql.Parse("SELECT * FROM whatever WHERE " + p.SQL())
	if err != nil {
		return nil, err
	}
	return q.Where, nil
}

func compileOpt(p *XPred) (goexpr.Expr, error) {
	if p == nil {
		return nil, nil
	}
	return p.compile()
}

func evalPred(ex goexpr.Expr, dims bytemap.ByteMap) (res bool) {
	defer func() {
		if r := recover(); r != nil {
			res = false
		}
	}()
	v := ex.Eval(dims)
	b, ok := v.(bool)
	return ok && b
}

// ---------- schema, points, queries ----------

type jField struct {
	Name    string `json:"name"`
	E       *XExpr `json:"e"`
	Derived string `json:"derived,omitempty"` // SQL text over table field names (query fields only)
}

type jTable struct {
	Fields  []jField `json:"fields"`
	GroupBy []string `json:"group_by"` // nil = *
	ResNS   int64    `json:"res"`
	RetNS   int64    `json:"ret"`
	Where   *XPred   `json:"where,omitempty"`
	Conds   []*XPred `json:"conds"` // IF conditions referenced by XExpr.Z
}

type jPoint struct {
	TS   XTime             `json:"ts"`
	Dims map[string]jVal   `json:"dims"`
	Vals map[string]int64  `json:"vals"`
	Junk map[string]string `json:"junk,omitempty"` // non-numeric values (ignored by the table)
}

type jQuery struct {
	Fields      []jField `json:"fields"` // nil = *
	GroupBy     string   `json:"gb"`     // "" (no clause), "*" , "dims", "_" (nothing)
	Dims        []string `json:"dims"`
	PeriodNS    int64    `json:"period"`
	AsOf        XTime    `json:"asof"`
	Until       XTime    `json:"until"`
	HasAsOf     bool     `json:"has_asof"`
	HasUntil    bool     `json:"has_until"`
	AsOfOff     int64    `json:"asof_off,omitempty"`  // non-zero: ASOF is written relative to the database clock ('-8s'); AsOf is ignored
	UntilOff    int64    `json:"until_off,omitempty"` // likewise for UNTIL
	Where       *XPred   `json:"where,omitempty"`
	Having      string   `json:"having,omitempty"`
	Order       []jOrder `json:"order,omitempty"`
	Limit       int      `json:"limit,omitempty"`
	HasLimit    bool     `json:"has_limit,omitempty"`
	Offset      int      `json:"offset,omitempty"`
	Mem         bool     `json:"mem"`                    // includeMemStore
	FlushBefore bool     `json:"flush_before,omitempty"` // FlushAll right before this query
	ByName      bool     `json:"by_name"`                // query fields refer to table fields by name
}

var dimNames = []string{"d1", "d2", "d3"}

// SQL renders an XExpr in zenodb's SQL dialect.
func (x *XExpr) SQL(conds []*XPred) string {
	switch x.K {
	case "field":
		return x.N
	case "const":
		return fmt.Sprintf("%d", x.Z)
	case "bounded":
		return fmt.Sprintf("BOUNDED(%s, %d, %d)", x.Sub[0].SQL(conds), x.Lo, x.Hi)
	case "agg":
		return fmt.Sprintf("%s(%s)", x.N, x.Sub[0].SQL(conds))
	case "avg":
		if x.Sub[1].K == "const" && x.Sub[1].Z == 1 {
			return fmt.Sprintf("AVG(%s)", x.Sub[0].SQL(conds))
		}
		return fmt.Sprintf("WAVG(%s, %s)", x.Sub[0].SQL(conds), x.Sub[1].SQL(conds))
	case "bin":
		return fmt.Sprintf("(%s %s %s)", x.Sub[0].SQL(conds), x.N, x.Sub[1].SQL(conds))
	case "if":
		return fmt.Sprintf("IF(%s, %s)", conds[x.Z].SQL(), x.Sub[0].SQL(conds))
	case "shift":
		return fmt.Sprintf("SHIFT(%s, '%v')", x.Sub[0].SQL(conds), time.Duration(x.Z))
	case "unary":
		return fmt.Sprintf("%s(%s)", x.N, x.Sub[0].SQL(conds))
	}
	panic("bad XExpr")
}

func (t *jTable) SQL() string {
	fs := make([]string, len(t.Fields))
	for i, f := range t.Fields {
		fs[i] = fmt.Sprintf("%s AS %s", f.E.SQL(t.Conds), f.Name)
	}
	s := "SELECT " + strings.Join(fs, ", ") + " FROM inbound"
	if t.Where != nil {
		s += " WHERE " + t.Where.SQL()
	}
	gb := "*"
	if t.GroupBy != nil {
		gb = strings.Join(t.GroupBy, ", ")
	}
	if gb != "" {
		gb += ", "
	}
	s += fmt.Sprintf(" GROUP BY %speriod(%v)", gb, time.Duration(t.ResNS))
	return s
}

func fmtTime(t time.Time) string { return t.UTC().Format(time.RFC3339Nano) }

func (q *jQuery) SQL(table string, conds []*XPred) string {
	sel := "*"
	if q.Fields != nil {
		fs := make([]string, len(q.Fields))
		for i, f := range q.Fields {
			switch {
			case f.Derived != "":
				fs[i] = fmt.Sprintf("%s AS %s", f.Derived, f.Name)
			case q.ByName:
				fs[i] = f.Name
			default:
				fs[i] = fmt.Sprintf("%s AS %s", f.E.SQL(conds), f.Name)
			}
		}
		sel = strings.Join(fs, ", ")
	}
	s := fmt.Sprintf("SELECT %s FROM %s", sel, table)
	if q.HasAsOf {
		if q.AsOfOff != 0 {
			s += fmt.Sprintf(" ASOF '%s'", time.Duration(q.AsOfOff).String())
		} else {
			s += fmt.Sprintf(" ASOF '%s'", fmtTime(q.AsOf.T()))
		}
		if q.HasUntil {
			if q.UntilOff != 0 {
				s += fmt.Sprintf(" UNTIL '%s'", time.Duration(q.UntilOff).String())
			} else {
				s += fmt.Sprintf(" UNTIL '%s'", fmtTime(q.Until.T()))
			}
		}
	}
	if q.Where != nil {
		s += " WHERE " + q.Where.SQL()
	}
	var gb []string
	switch q.GroupBy {
	case "*":
		gb = append(gb, "*")
	case "dims":
		gb = append(gb, q.Dims...)
	case "_":
		gb = append(gb, "_")
	}
	if q.PeriodNS > 0 {
		gb = append(gb, fmt.Sprintf("period(%v)", time.Duration(q.PeriodNS)))
	}
	if len(gb) > 0 {
		s += " GROUP BY " + strings.Join(gb, ", ")
	}
	if q.Having != "" {
		s += " HAVING " + q.Having
	}
	if len(q.Order) > 0 {
		os := make([]string, len(q.Order))
		for i, o := range q.Order {
			os[i] = o.Field
			if o.Desc {
				os[i] += " DESC"
			}
		}
		s += " ORDER BY " + strings.Join(os, ", ")
	}
	if q.HasLimit {
		s += fmt.Sprintf(" LIMIT %d", q.Limit)
		if q.Offset > 0 {
			s = strings.Replace(s, fmt.Sprintf(" LIMIT %d", q.Limit), fmt.Sprintf(" LIMIT %d, %d", q.Offset, q.Limit), 1)
		}
	}
	return s
}

// ---------- running ----------

type dbRun struct {
	dir string
	db  *zenodb.DB
	n   int64 // entries written to the stream
}

// memRatio > 0 configures a memory cap, which makes forced flushes sort their output (emsort)
var memRatio float64

func openDB(dir string, t *jTable, name string) (*zenodb.DB, error) {
	db, err := zenodb.NewDB(&zenodb.DBOpts{Dir: dir, VirtualTime: true, IterationCoalesceInterval: time.Millisecond, MaxMemoryRatio: memRatio,
		Panic: quietPanic})
	if err != nil {
		return nil, err
	}
	err = db.ApplySchema(zenodb.Schema{name: &zenodb.TableOpts{
		MinFlushLatency: time.Hour, MaxFlushLatency: 2 * time.Hour,
		RetentionPeriod: time.Duration(t.RetNS), SQL: t.SQL()}})
	if err != nil {
		db.Close()
		return nil, err
	}
	return db, nil
}

// quietPanic: zenodb's WAL reader goroutines outlive Close and "panic" once the scratch directory
// is gone; end such a goroutine quietly, re-panic for anything else.
func quietPanic(e interface{}) {
	if strings.Contains(fmt.Sprint(e), "Unable to read from WAL") {
		runtime.Goexit()
	}
	panic(e)
}

func runQueryCtx(ctx context.Context, db *zenodb.DB, sqlStr string, mem bool) (rows []obsRow, err error) {
	src, err := db.Query(sqlStr, false, nil, mem)
	if err != nil {
		return nil, err
	}
	_, err = src.Iterate(ctx, core.FieldsIgnored, func(r *core.FlatRow) (bool, error) {
		rows = append(rows, obsRow{TS: time.Unix(0, r.TS), Key: r.Key.AsMap(), Vals: append([]float64(nil), r.Values...)})
		return true, nil
	})
	return rows, err
}

func (p *jPoint) goDims() map[string]interface{} {
	m := map[string]interface{}{}
	for k, v := range p.Dims {
		m[k] = v.goVal()
	}
	return m
}

// numVals: the numeric values the database sees (a junk value of the same name replaces the number, as in goVals)
func (p *jPoint) numVals() map[string]int64 {
	m := map[string]int64{}
	for k, v := range p.Vals {
		if _, junk := p.Junk[k]; !junk {
			m[k] = v
		}
	}
	return m
}

func (p *jPoint) goVals() map[string]interface{} {
	m := map[string]interface{}{}
	for k, v := range p.Vals {
		m[k] = float64(v)
	}
	for k, v := range p.Junk {
		m[k] = v
	}
	return m
}

// waitCaughtUp waits until the table has read its stream's WAL to the end, processed every
// entry it read and its row store has applied every submitted insert (exact, via verif hooks).
func waitCaughtUp(db *zenodb.DB, table string, n int64) error {
	deadline := time.Now().Add(20 * time.Second)
	for time.Now().Before(deadline) {
		if db.VerifQuiescent(table) {
			return nil
		}
		time.Sleep(200 * time.Microsecond)
	}
	return fmt.Errorf("table %s did not catch up: read %d processed %d, applied %d of %d", table,
		db.VerifCounter(table, "read"), db.VerifCounter(table, "processed"), db.VerifCounter(table, "applied"), db.VerifCounter(table, "submitted"))
}

type obsRow struct {
	TS   time.Time
	Key  map[string]interface{}
	Vals []float64
}

func runQuery(db *zenodb.DB, sqlStr string, mem bool) (fields []string, rows []obsRow, err error) {
	fields, rows, _, err = runQueryStats(db, sqlStr, mem)
	return
}

// runQueryStats also returns the query statistics (partitions asked / answered).
func runQueryStats(db *zenodb.DB, sqlStr string, mem bool) (fields []string, rows []obsRow, stats *common.QueryStats, err error) {
	src, err := db.Query(sqlStr, false, nil, mem)
	if err != nil {
		return nil, nil, nil, err
	}
	var md interface{}
	defer func() {
		if qs, ok := md.(*common.QueryStats); ok {
			stats = qs
		}
	}()
	md, err = src.Iterate(context.Background(), func(fs core.Fields) error {
		fields = fs.Names()
		return nil
	}, func(r *core.FlatRow) (bool, error) {
		rows = append(rows, obsRow{TS: time.Unix(0, r.TS), Key: r.Key.AsMap(), Vals: append([]float64(nil), r.Values...)})
		return true, nil
	})
	return fields, rows, nil, err
}

func galKey(m map[string]interface{}) string {
	names := make([]string, 0, len(m))
	for k := range m {
		names = append(names, k)
	}
	sort.Strings(names)
	items := make([]string, len(names))
	for i, k := range names {
		items[i] = fmt.Sprintf("(%d, %s)", c09Names[k], galVal(m[k]))
	}
	return glist(items)
}

func galORows(rows []obsRow) string {
	items := make([]string, len(rows))
	for i, r := range rows {
		vs := make([]string, len(r.Vals))
		for j, v := range r.Vals {
			vs[j] = gfloatQ(v)
		}
		items[i] = fmt.Sprintf("{| o_ts := %s; o_key := %s; o_vals := %s |}", gtime(r.TS), galKey(r.Key), glist(vs))
	}
	return "[" + strings.Join(items, ";\n        ") + "]"
}

func tempDir() string {
	d, err := ioutil.TempDir("", "zenoverif-db")
	if err != nil {
		panic(err)
	}
	return d
}

func rmDir(d string) { os.RemoveAll(d) }
