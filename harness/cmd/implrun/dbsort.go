package main

import (
	"encoding/json"
	"fmt"
	"sort"
	"strings"
)

func init() {
	register("dbsort", runDBSort)
	for i, n := range []string{"_points", "f4", "dv"} {
		c09Names[n] = int64(30 + i)
	}
}

// ranker maps the float64 values of one case to their rank among the distinct values of the
// case: an order isomorphism into Z (equal floats, incl. -0 = +0, get equal ranks), for the Z-valued sort model.
type ranker struct{ vals []float64 }

func (rk *ranker) add(rows []obsRow) {
	for _, r := range rows {
		rk.vals = append(rk.vals, r.Vals...)
	}
}

func (rk *ranker) finish() {
	sort.Float64s(rk.vals)
	out := rk.vals[:0]
	for i, v := range rk.vals {
		if i == 0 || v != out[len(out)-1] {
			out = append(out, v)
		}
	}
	rk.vals = out
}

func (rk *ranker) rank(v float64) int64 { return int64(sort.SearchFloat64s(rk.vals, v)) }

type jDBSortCase struct {
	jDBCase
	Order    []jOrder `json:"order"`
	Limit    int      `json:"limit"`
	HasLimit bool     `json:"has_limit"`
	Offset   int      `json:"offset"`
}

func galFRows(rk *ranker, fields []string, rows []obsRow) string {
	items := make([]string, len(rows))
	for i, r := range rows {
		vals := make([]string, len(r.Vals))
		for j, v := range r.Vals {
			vals[j] = fmt.Sprintf("(%d, %s)", c09Names[fields[j]], gz(rk.rank(v)))
		}
		items[i] = fmt.Sprintf("{| r_ts := %s; r_vals := %s; r_key := %s |}", gtime(r.TS), glist(vals), galKey(r.Key))
	}
	return "[" + strings.Join(items, ";\n      ") + "]"
}

func runDBSortCase(e *Env, c *jDBSortCase) error {
	e.Running(c)
	dir := tempDir()
	defer rmDir(dir)
	t := &c.Table
	db, err := openDB(dir, t, "t")
	if err != nil {
		return err
	}
	defer db.Close()
	for i := range c.Points {
		p := &c.Points[i]
		if err := db.Insert("inbound", p.TS.T(), p.goDims(), p.goVals()); err != nil {
			return err
		}
		if contains(c.FlushAfter, i) {
			if err := waitCaughtUp(db, "t", 0); err != nil {
				return err
			}
			db.FlushAll()
		}
	}
	if err := waitCaughtUp(db, "t", 0); err != nil {
		return err
	}
	base := c.Queries[0]
	sorted := base
	sorted.Order = c.Order
	sliced := sorted
	sliced.HasLimit, sliced.Limit, sliced.Offset = c.HasLimit, c.Limit, c.Offset
	fields, rowsIn, err := runQuery(db, base.SQL("t", t.Conds), true)
	if err != nil {
		return fmt.Errorf("base query %q: %v", base.SQL("t", t.Conds), err)
	}
	_, rowsSorted, err := runQuery(db, sorted.SQL("t", t.Conds), true)
	if err != nil {
		return fmt.Errorf("sorted query %q: %v", sorted.SQL("t", t.Conds), err)
	}
	_, rowsOut, err := runQuery(db, sliced.SQL("t", t.Conds), true)
	if err != nil {
		return fmt.Errorf("sliced query %q: %v", sliced.SQL("t", t.Conds), err)
	}
	rk := &ranker{}
	rk.add(rowsIn)
	rk.add(rowsSorted)
	rk.add(rowsOut)
	rk.finish()
	var keys []string
	for _, o := range c.Order {
		if o.Field == "_time" {
			keys = append(keys, "OTime "+gbool(o.Desc))
		} else {
			keys = append(keys, fmt.Sprintf("OKey %d %s", c09Names[o.Field], gbool(o.Desc)))
		}
	}
	g := fmt.Sprintf("{| sc_keys := %s; sc_off := %s; sc_lim := %s;\n   sc_in := %s;\n   sc_sorted := %s;\n   sc_out := %s |}",
		glist(keys), gz(int64(c.Offset)), gopt(gz(int64(c.Limit)), c.HasLimit),
		galFRows(rk, fields, rowsIn), galFRows(rk, fields, rowsSorted), galFRows(rk, fields, rowsOut))
	c.NT = len(rowsIn) >= 2 && len(c.Order) > 0
	e.Case(g, c)
	e.Add("rows", len(rowsIn))
	e.Count(fmt.Sprintf("keys=%d", len(c.Order)))
	if c.HasLimit && c.Limit == 0 {
		e.Count("limit=0")
	}
	return nil
}

func genDBSortCase(e *Env) *jDBSortCase {
	r := e.R
	c := &jDBSortCase{}
	for {
		c.Table = genTable(r, map[string]bool{})
		// dims of one dynamic type each (the generator's dims already are); group by dims so keys vary
		if c.Table.GroupBy == nil || len(c.Table.GroupBy) > 0 {
			break
		}
	}
	c.Points = genDBPoints(r, &c.Table, 8+r.Intn(30))
	c.FlushAfter, _, _ = genSchedule(r, len(c.Points))
	q := jQuery{Mem: true}
	if r.Intn(2) == 0 {
		q = genGroupQuery(r, &c.Table, false)
		q.PeriodNS = 0
		if r.Intn(2) == 0 {
			q.PeriodNS = c.Table.ResNS * int64(1+r.Intn(3))
		}
	}
	c.Queries = []jQuery{q}
	// ORDER BY candidates: output field names, dims, _time, an absent name
	cand := []string{"_time", "d1", "d2", "d3", "d9"}
	if q.Fields == nil {
		cand = append(cand, "_points")
		for _, f := range c.Table.Fields {
			cand = append(cand, f.Name)
		}
	} else {
		for _, f := range q.Fields {
			cand = append(cand, f.Name)
		}
	}
	nk := 1 + r.Intn(4)
	if r.Intn(6) == 0 {
		nk = 0
	}
	for i := 0; i < nk; i++ {
		c.Order = append(c.Order, jOrder{Field: cand[r.Intn(len(cand))], Desc: r.Intn(2) == 0})
	}
	if r.Intn(4) > 0 {
		c.HasLimit = true
		c.Limit = r.Intn(12)
		if r.Intn(2) == 0 {
			c.Offset = r.Intn(8)
		}
	}
	return c
}

func runDBSort(e *Env) error {
	e.Header("From Zeno Require Import Base Sort.", "sort_case")
	if lines := e.ReplayLines(); lines != nil {
		for _, l := range lines {
			var c jDBSortCase
			if err := json.Unmarshal([]byte(l), &c); err != nil {
				return err
			}
			if err := runDBSortCase(e, &c); err != nil {
				return err
			}
		}
	} else {
		for i := 0; i < e.N; i++ {
			c := genDBSortCase(e)
			if err := runDBSortCase(e, c); err != nil {
				b, _ := json.Marshal(c)
				return fmt.Errorf("%v on case %s", err, b)
			}
		}
	}
	e.Footer("sort_mismatches")
	return nil
}
