package main

import (
	"encoding/json"
	"fmt"
	"time"

	"github.com/getlantern/bytemap"
	"github.com/getlantern/zenodb/bytetree"
	"github.com/getlantern/zenodb/encoding"
	"github.com/getlantern/zenodb/expr"
)

// Stage `tree`: operation sequences on the real bytetree.Tree (Update / Remove / Walk with per-context removal /
// Copy / Length) against the structural model Model/Tree.v, evaluated by Model/CorrTree.v.

func init() { register("tree", runTree) }

type jTreeOp struct {
	Op  string `json:"op"` // upd rem walk copy len
	T   int    `json:"t"`
	Key []byte `json:"key,omitempty"`
	V   int64  `json:"v,omitempty"`
	Ctx int64  `json:"ctx,omitempty"`
	KA  int64  `json:"ka,omitempty"`
	KB  int64  `json:"kb,omitempty"`
	MA  int64  `json:"ma,omitempty"`
	MB  int64  `json:"mb,omitempty"`
}
type jTreeCase struct {
	Ops []jTreeOp `json:"ops"`
	NT  bool      `json:"nt"`
}

func genTreeKeyPool(e *Env) [][]byte {
	r := e.R
	var pool [][]byte
	switch r.Intn(4) {
	case 0: // realistic keys: byte maps over a few dims (long shared prefixes, prefix-free)
		for i := 0; i < 3+r.Intn(8); i++ {
			m := map[string]interface{}{}
			if r.Intn(4) > 0 {
				m["a"] = []interface{}{1, 2, "x", "xy", true}[r.Intn(5)]
			}
			if r.Intn(3) > 0 {
				m["b"] = []interface{}{"", "y", "yy", 7, 3.5}[r.Intn(5)]
			}
			if r.Intn(3) == 0 {
				m["cc"] = r.Intn(3)
			}
			pool = append(pool, []byte(bytemap.New(m)))
		}
	default: // short strings over a tiny alphabet: prefixes of each other, empty key, splits at every position
		alpha := []byte{'a', 'b', 0}[:2+r.Intn(2)]
		n := 3 + r.Intn(10)
		for i := 0; i < n; i++ {
			l := r.Intn(6)
			if r.Intn(8) == 0 {
				l = 0
			}
			k := make([]byte, l)
			for j := range k {
				k[j] = alpha[r.Intn(len(alpha))]
			}
			// often extend or cut an earlier key
			if len(pool) > 0 && r.Intn(3) == 0 {
				p := pool[r.Intn(len(pool))]
				if r.Intn(2) == 0 {
					k = append(append([]byte(nil), p...), k...)
					if len(k) > 8 {
						k = k[:8]
					}
				} else if len(p) > 0 {
					k = append([]byte(nil), p[:r.Intn(len(p))]...)
				}
			}
			pool = append(pool, k)
		}
	}
	return pool
}

func genTreeCase(e *Env) *jTreeCase {
	r := e.R
	c := &jTreeCase{}
	pool := genTreeKeyPool(e)
	key := func() []byte { return pool[r.Intn(len(pool))] }
	trees := 1
	n := 4 + r.Intn(40)
	for i := 0; i < n; i++ {
		t := r.Intn(trees)
		switch x := r.Intn(20); {
		case x < 11:
			// only the first tree is updated: a Copy is a read-only snapshot (it carries no expressions)
			c.Ops = append(c.Ops, jTreeOp{Op: "upd", T: 0, Key: key(), V: int64(1 + r.Intn(5))})
		case x < 14:
			c.Ops = append(c.Ops, jTreeOp{Op: "rem", T: t, Key: key(), Ctx: int64(r.Intn(3))})
		case x < 17:
			op := jTreeOp{Op: "walk", T: t, Ctx: int64(r.Intn(3))}
			if r.Intn(2) == 0 {
				op.KA = int64(1 + r.Intn(3))
				op.KB = r.Int63n(op.KA)
			}
			if r.Intn(3) == 0 {
				op.MA = int64(2 + r.Intn(4))
				op.MB = r.Int63n(op.MA)
			}
			c.Ops = append(c.Ops, op)
		case x < 18 && trees < 4:
			c.Ops = append(c.Ops, jTreeOp{Op: "copy", T: t})
			trees++
		default:
			c.Ops = append(c.Ops, jTreeOp{Op: "len", T: t})
		}
	}
	// the closing observation of every tree: a full walk in a fresh context and its length
	for t := 0; t < trees; t++ {
		c.Ops = append(c.Ops, jTreeOp{Op: "walk", T: t, Ctx: 9}, jTreeOp{Op: "len", T: t})
	}
	return c
}

var treeField = expr.SUM(expr.FIELD("a"))
var treeTS = time.Date(2015, 1, 1, 0, 0, 1, 0, time.UTC)

func treeVal(data []encoding.Sequence) int64 {
	if len(data) == 0 || data[0] == nil {
		return -1
	}
	v, _ := data[0].ValueAt(0, treeField)
	return int64(v)
}

func runTreeCase(e *Env, c *jTreeCase) error {
	e.Running(c)
	trees := []*bytetree.Tree{bytetree.New([]expr.Expr{treeField}, nil, time.Second, 0, time.Time{}, time.Time{}, 0)}
	var g []string
	upd, splitsLikely, prefixRel := 0, 0, false
	seen := map[string]bool{}
	for _, op := range c.Ops {
		if op.T >= len(trees) {
			return fmt.Errorf("tree index out of range")
		}
		bt := trees[op.T]
		switch op.Op {
		case "upd":
			params := encoding.NewTSParams(treeTS, bytemap.FromSortedKeysAndFloats([]string{"a"}, []float64{float64(op.V)}))
			bt.Update(append([]byte(nil), op.Key...), nil, params, nil)
			g = append(g, fmt.Sprintf("TUpd %d %s %s", op.T, gstr(string(op.Key)), gz(op.V)))
			upd++
			for k := range seen {
				if k != string(op.Key) && (len(k) < len(op.Key) && string(op.Key[:len(k)]) == k || len(op.Key) < len(k) && k[:len(op.Key)] == string(op.Key)) {
					prefixRel = true
				}
			}
			if !seen[string(op.Key)] {
				splitsLikely++
			}
			seen[string(op.Key)] = true
		case "rem":
			data := bt.Remove(op.Ctx, op.Key)
			obs := "None"
			if data != nil {
				obs = "(Some " + gz(treeVal(data)) + ")"
			}
			g = append(g, fmt.Sprintf("TRem %d %s %s %s", op.T, gz(op.Ctx), gstr(string(op.Key)), obs))
		case "walk":
			var vis []string
			err := bt.Walk(op.Ctx, func(key []byte, data []encoding.Sequence) (bool, bool, error) {
				d := treeVal(data)
				vis = append(vis, fmt.Sprintf("(%s, %s)", gstr(string(key)), gz(d)))
				l := int64(len(key))
				more := op.MA == 0 || (l+2*d)%op.MA != op.MB
				keep := op.KA == 0 || (l+d)%op.KA != op.KB
				return more, keep, nil
			})
			if err != nil {
				return err
			}
			g = append(g, fmt.Sprintf("TWalk %d %s %s %s %s %s %s", op.T, gz(op.Ctx), gz(op.KA), gz(op.KB), gz(op.MA), gz(op.MB), glist(vis)))
		case "copy":
			trees = append(trees, bt.Copy())
			g = append(g, fmt.Sprintf("TCopy %d", op.T))
		case "len":
			g = append(g, fmt.Sprintf("TLen %d %s", op.T, gz(int64(bt.Length()))))
		default:
			return fmt.Errorf("unknown tree op %q", op.Op)
		}
	}
	c.NT = upd >= 3
	e.Case(glist(g), c)
	e.Count(fmt.Sprintf("trees=%d", len(trees)))
	if prefixRel {
		e.Count("key-is-prefix-of-key")
	}
	if seen[""] {
		e.Count("empty-key")
	}
	if splitsLikely >= 3 {
		e.Count("distinct-keys>=3")
	}
	e.Add("ops", len(c.Ops))
	return nil
}

func runTree(e *Env) error {
	e.Header("From Zeno Require Import Base Tree CorrTree.", "(list top)")
	if lines := e.ReplayLines(); lines != nil {
		for _, l := range lines {
			var c jTreeCase
			if err := json.Unmarshal([]byte(l), &c); err != nil {
				return err
			}
			if err := runTreeCase(e, &c); err != nil {
				return err
			}
		}
	} else {
		for i := 0; i < e.N; i++ {
			if err := runTreeCase(e, genTreeCase(e)); err != nil {
				return err
			}
		}
	}
	e.Footer("tree_mismatches")
	return nil
}
