package main

// In-process cluster: one passthrough leader and P partitions of followers, wired exactly as
// server/server.go wires them (DBOpts.Follow -> leader.Follow, RegisterRemoteQueryHandler ->
// leader.RegisterQueryHandler) but without sockets.

import (
	"context"
	"fmt"
	"path/filepath"
	"sync"
	"sync/atomic"
	"time"

	"github.com/getlantern/wal"
	"github.com/getlantern/zenodb"
	"github.com/getlantern/zenodb/common"
	"github.com/getlantern/zenodb/core"
	"github.com/getlantern/zenodb/planner"
)

type cnode struct {
	db        *zenodb.DB
	dir       string
	partition int
	id        int
	linkCut   int32 // 1 = the link to the leader is cut: deliveries fail
	noQuery   int32 // 1 = its query handlers fail, 2 = they are too slow
	stopReg   chan struct{}
}

type cluster struct {
	dir       string
	t         *jTable
	partBy    []string
	P         int
	leader    *zenodb.DB
	followers []*cnode
	mx        sync.Mutex
}

func (c *cluster) schema() zenodb.Schema {
	return zenodb.Schema{"t": &zenodb.TableOpts{MinFlushLatency: time.Hour, MaxFlushLatency: 2 * time.Hour,
		RetentionPeriod: time.Duration(c.t.RetNS), SQL: c.t.SQL(), PartitionBy: append([]string(nil), c.partBy...)}}
}

func (c *cluster) openLeader() error {
	db, err := zenodb.NewDB(&zenodb.DBOpts{Dir: filepath.Join(c.dir, "leader"), VirtualTime: true, Passthrough: true, ID: 0,
		NumPartitions: c.P, ClusterQueryConcurrency: 8, ClusterQueryTimeout: 10 * time.Second, IterationCoalesceInterval: time.Millisecond, Panic: quietPanic})
	if err != nil {
		return err
	}
	if err := db.ApplySchema(c.schema()); err != nil {
		return err
	}
	c.leader = db
	return nil
}

func (c *cluster) openFollower(n *cnode) error {
	n.stopReg = make(chan struct{})
	stopReg := n.stopReg
	db, err := zenodb.NewDB(&zenodb.DBOpts{Dir: n.dir, VirtualTime: true, ID: n.id, NumPartitions: c.P, Partition: n.partition,
		IterationCoalesceInterval: time.Millisecond, Panic: quietPanic,
		Follow: func(ff func(sources []int) map[int]*common.Follow, insert func(data []byte, newOffset wal.Offset, source int) error) {
			follows := ff([]int{0})
			for source, f := range follows {
				source, f := source, f
				go func() {
					// server.followSource: follow, and on failure follow again from the last delivered offset
					for {
						select {
						case <-stopReg:
							return
						default:
						}
						c.mx.Lock()
						leader := c.leader
						c.mx.Unlock()
						if leader == nil {
							time.Sleep(20 * time.Millisecond)
							continue
						}
						done := make(chan bool)
						go func() {
							leader.Follow(f, func(data []byte, off wal.Offset) error {
								if atomic.LoadInt32(&n.linkCut) == 1 {
									return fmt.Errorf("link cut")
								}
								select {
								case <-stopReg:
									return fmt.Errorf("follower stopped")
								default:
								}
								if err := insert(data, off, source); err != nil {
									return err
								}
								f.EarliestOffset = off
								return nil
							})
							close(done)
						}()
						select {
						case <-done:
						case <-stopReg:
							return
						}
						time.Sleep(50 * time.Millisecond)
					}
				}()
			}
		},
		RegisterRemoteQueryHandler: func(db *zenodb.DB, partition int, query planner.QueryClusterFN) {
			// a pool of registrations, as server.go keeps ClusterQueryConcurrency connections per follower
			for w := 0; w < 4; w++ {
				go func() {
					for {
						select {
						case <-stopReg:
							return
						default:
						}
						c.mx.Lock()
						leader := c.leader
						c.mx.Unlock()
						if leader == nil {
							time.Sleep(20 * time.Millisecond)
							continue
						}
						// one registration serves one query (as one gRPC stream does)
						used := make(chan bool, 1)
						leader.RegisterQueryHandler(partition, func(ctx context.Context, sqlString string, isSubQuery bool, subQueryResults [][]interface{}, unflat bool, onFields core.OnFields, onRow core.OnRow, onFlatRow core.OnFlatRow) (interface{}, error) {
							defer func() { used <- true }()
							switch atomic.LoadInt32(&n.noQuery) {
							case 1:
								return nil, fmt.Errorf("follower unavailable")
							case 2: // slower than the leader is willing to wait
								select {
								case <-time.After(6 * time.Second):
								case <-ctx.Done():
								}
								return nil, fmt.Errorf("follower too slow")
							}
							return query(ctx, sqlString, isSubQuery, subQueryResults, unflat, onFields, onRow, onFlatRow)
						})
						select {
						case <-used:
						case <-stopReg:
							return
						}
					}
				}()
			}
		},
	})
	if err != nil {
		return err
	}
	if err := db.ApplySchema(c.schema()); err != nil {
		return err
	}
	n.db = db
	return nil
}

func startCluster(dir string, t *jTable, P int, replicas int, partBy []string) (*cluster, error) {
	c := &cluster{dir: dir, t: t, partBy: partBy, P: P}
	if err := c.openLeader(); err != nil {
		return nil, err
	}
	var wg sync.WaitGroup
	errs := make(chan error, P*replicas)
	for p := 0; p < P; p++ {
		for r := 0; r < replicas; r++ {
			n := &cnode{partition: p, id: 100 + p*10 + r, dir: filepath.Join(dir, fmt.Sprintf("follower_%d_%d", p, r))}
			c.followers = append(c.followers, n)
			wg.Add(1)
			go func() {
				defer wg.Done()
				if err := c.openFollower(n); err != nil {
					errs <- err
				}
			}()
		}
	}
	wg.Wait()
	select {
	case err := <-errs:
		return nil, err
	default:
	}
	return c, nil
}

func (c *cluster) close() {
	for _, n := range c.followers {
		if n.db != nil {
			close(n.stopReg)
			n.db.Close()
		}
	}
	if c.leader != nil {
		c.leader.Close()
	}
}

// expectedFor returns how many of the points the leader offers to partition p of table t.
func (c *cluster) routed(p *jPoint) int {
	return c.leader.VerifPartitionFor(p.goDims(), c.partBy)
}

// waitFollowers waits until every follower has processed the number of entries routed to its partition
// (and applied all submitted inserts).
func (c *cluster) waitFollowers(expected map[int]int64, timeout time.Duration) error {
	deadline := time.Now().Add(timeout)
	for time.Now().Before(deadline) {
		ok := true
		for _, n := range c.followers {
			if n.db == nil {
				continue
			}
			if n.db.VerifCounter("t", "processed") < expected[n.partition] || n.db.VerifCounter("t", "applied") < n.db.VerifCounter("t", "submitted") {
				ok = false
			}
		}
		if ok {
			return nil
		}
		time.Sleep(20 * time.Millisecond)
	}
	msg := ""
	for _, n := range c.followers {
		if n.db != nil {
			msg += fmt.Sprintf(" [p%d id%d processed %d want %d]", n.partition, n.id, n.db.VerifCounter("t", "processed"), expected[n.partition])
		}
	}
	return fmt.Errorf("followers did not catch up:%s", msg)
}

func (c *cluster) advanceClocks(t time.Time) {
	c.leader.VerifAdvanceClock(t)
	for _, n := range c.followers {
		if n.db != nil {
			n.db.VerifAdvanceClock(t)
		}
	}
}
