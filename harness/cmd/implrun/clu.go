package main

// In-process cluster: L passthrough leaders and P partitions of followers, wired exactly as
// server/server.go wires them (DBOpts.Follow -> leader.Follow, RegisterRemoteQueryHandler ->
// leader.RegisterQueryHandler) but without sockets.

import (
	"context"
	"fmt"
	"os"
	"path/filepath"
	"sync"
	"sync/atomic"
	"time"

	"github.com/getlantern/wal"
	"github.com/getlantern/zenodb"
	"github.com/getlantern/zenodb/common"
	"github.com/getlantern/zenodb/core"
	"github.com/getlantern/zenodb/planner"
)

type cnode struct {
	db        *zenodb.DB
	dir       string
	partition int
	id        int
	linkCut   int32 // 1 = the link to the leaders is cut: deliveries fail, no new stream can be opened
	noQuery   int32 // 1 = its query handlers fail, 2 = they are too slow, 3 = they fail with a retriable error
	slow      int32 // 1 = every delivery takes a few milliseconds longer
	stopReg   chan struct{}
	// what the follower announced in its Follow requests (C12: the protocol's precondition)
	followMx      sync.Mutex
	follows       int
	earliestAfter []string // a table whose persisted offset is before the announced EarliestOffset
}

type cluster struct {
	dir         string
	t           *jTable
	partBy      []string
	P           int
	L           int
	extraTables map[string]*zenodb.TableOpts
	leader      *zenodb.DB // leaders[0]
	leaders     []*zenodb.DB
	followers   []*cnode
	mx          sync.Mutex
}

func (c *cluster) schema() zenodb.Schema {
	s := zenodb.Schema{"t": &zenodb.TableOpts{MinFlushLatency: time.Hour, MaxFlushLatency: 2 * time.Hour,
		RetentionPeriod: time.Duration(c.t.RetNS), SQL: c.t.SQL(), PartitionBy: append([]string(nil), c.partBy...)}}
	for name, o := range c.extraTables {
		cp := *o
		cp.PartitionBy = append([]string(nil), o.PartitionBy...)
		s[name] = &cp
	}
	return s
}

func (c *cluster) leaderDir(i int) string {
	if i == 0 {
		return filepath.Join(c.dir, "leader")
	}
	return filepath.Join(c.dir, fmt.Sprintf("leader%d", i))
}

// cluFollowQueue, when > 0, is the leaders' MaxFollowQueue (entries queued per follower; the default is 100000): with a
// small queue a follower that is slow, but connected, fills it
var cluFollowQueue int

func (c *cluster) openLeaderAt(i int) error {
	db, err := zenodb.NewDB(&zenodb.DBOpts{Dir: c.leaderDir(i), VirtualTime: true, Passthrough: true, ID: i, MaxFollowQueue: cluFollowQueue,
		NumPartitions: c.P, ClusterQueryConcurrency: 8, ClusterQueryTimeout: 10 * time.Second, IterationCoalesceInterval: time.Millisecond, Panic: quietPanic})
	if err != nil {
		return err
	}
	if err := db.ApplySchema(c.schema()); err != nil {
		return err
	}
	c.mx.Lock()
	for len(c.leaders) <= i {
		c.leaders = append(c.leaders, nil)
	}
	c.leaders[i] = db
	if i == 0 {
		c.leader = db
	}
	c.mx.Unlock()
	return nil
}

func (c *cluster) openLeader() error { return c.openLeaderAt(0) }

func (c *cluster) closeLeaderAt(i int) {
	c.mx.Lock()
	db := c.leaders[i]
	c.leaders[i] = nil
	if i == 0 {
		c.leader = nil
	}
	c.mx.Unlock()
	if db != nil {
		db.Close()
	}
}

func (c *cluster) leaderAt(i int) *zenodb.DB {
	c.mx.Lock()
	defer c.mx.Unlock()
	if i < len(c.leaders) {
		return c.leaders[i]
	}
	return nil
}

// noteFollow records what a Follow request announces: the protocol needs EarliestOffset not to be after the
// persisted offset of any of the follower's tables for that leader.
func (n *cnode) noteFollow(source int, f *common.Follow) {
	n.followMx.Lock()
	defer n.followMx.Unlock()
	n.follows++
	if os.Getenv("VERIF_DEBUG") != "" {
		for _, p := range f.Partitions {
			for _, t := range p.Tables {
				fmt.Fprintf(os.Stderr, "follow #%d by node %d source %d: earliest %v table %s offsets %v\n", n.follows, n.id, source, f.EarliestOffset, t.Name, t.Offsets)
			}
		}
	}
	for _, p := range f.Partitions {
		for _, t := range p.Tables {
			if f.EarliestOffset != nil && f.EarliestOffset.After(t.Offsets[source]) {
				n.earliestAfter = append(n.earliestAfter, fmt.Sprintf("%s source %d: earliest %v table %v", t.Name, source, f.EarliestOffset, t.Offsets[source]))
			}
		}
	}
}

func (c *cluster) openFollower(n *cnode) error {
	n.stopReg = make(chan struct{})
	stopReg := n.stopReg
	sources := make([]int, 0, c.L)
	for i := 0; i < c.L; i++ {
		sources = append(sources, i)
	}
	db, err := zenodb.NewDB(&zenodb.DBOpts{Dir: n.dir, VirtualTime: true, ID: n.id, NumPartitions: c.P, Partition: n.partition,
		IterationCoalesceInterval: time.Millisecond, Panic: quietPanic,
		Follow: func(ff func(sources []int) map[int]*common.Follow, insert func(data []byte, newOffset wal.Offset, source int) error) {
			follows := ff(sources)
			for source, f := range follows {
				source, f := source, f
				go func() {
					// server.followSource: follow, and on failure follow again from the last delivered offset
					for {
						select {
						case <-stopReg:
							return
						default:
						}
						leader := c.leaderAt(source)
						if leader == nil || atomic.LoadInt32(&n.linkCut) == 1 {
							time.Sleep(20 * time.Millisecond)
							continue
						}
						n.noteFollow(source, f)
						done := make(chan bool)
						broken := make(chan struct{})
						var once sync.Once
						brk := func() { once.Do(func() { close(broken) }) }
						var fmx sync.Mutex
						fcopy := *f
						go func() {
							leader.Follow(&fcopy, func(data []byte, off wal.Offset) error {
								select {
								case <-broken:
									return fmt.Errorf("stream broken")
								default:
								}
								if atomic.LoadInt32(&n.linkCut) == 1 {
									brk() // the client side sees the stream fail as well
									return fmt.Errorf("link cut")
								}
								select {
								case <-stopReg:
									return fmt.Errorf("follower stopped")
								default:
								}
								if c.leaderAt(source) != leader {
									brk()
									return fmt.Errorf("leader gone")
								}
								if atomic.LoadInt32(&n.slow) == 1 {
									if cluFollowQueue > 0 {
										time.Sleep(12 * time.Millisecond) // slower than the leader queues: the queue fills
									} else {
										time.Sleep(3 * time.Millisecond)
									}
								}
								if err := insert(data, off, source); err != nil {
									brk()
									return err
								}
								fmx.Lock()
								f.EarliestOffset = off
								fmx.Unlock()
								return nil
							})
							close(done)
						}()
						// a closed leader breaks the stream
						gone := make(chan struct{})
						go func() {
							for {
								select {
								case <-done:
									return
								case <-broken:
									return
								case <-stopReg:
									return
								case <-time.After(20 * time.Millisecond):
									if c.leaderAt(source) != leader {
										close(gone)
										return
									}
								}
							}
						}()
						select {
						case <-done:
						case <-broken:
						case <-gone:
							brk()
						case <-stopReg:
							brk()
							return
						}
						time.Sleep(50 * time.Millisecond)
					}
				}()
			}
		},
		RegisterRemoteQueryHandler: func(db *zenodb.DB, partition int, query planner.QueryClusterFN) {
			// a pool of registrations, as server.go keeps ClusterQueryConcurrency connections per follower and leader
			for li := 0; li < c.L; li++ {
				li := li
				for w := 0; w < 4; w++ {
					go func() {
						for {
							select {
							case <-stopReg:
								return
							default:
							}
							leader := c.leaderAt(li)
							if leader == nil {
								time.Sleep(20 * time.Millisecond)
								continue
							}
							// one registration serves one query (as one gRPC stream does)
							used := make(chan bool, 1)
							leader.RegisterQueryHandler(partition, func(ctx context.Context, sqlString string, isSubQuery bool, subQueryResults [][]interface{}, unflat bool, onFields core.OnFields, onRow core.OnRow, onFlatRow core.OnFlatRow) (interface{}, error) {
								defer func() { used <- true }()
								select {
								case <-stopReg:
									return nil, fmt.Errorf("follower stopped")
								default:
								}
								switch atomic.LoadInt32(&n.noQuery) {
								case 1:
									return nil, fmt.Errorf("follower unavailable")
								case 3: // the way the rpc server reports a follower it cannot reach: the leader may try another handler
									return nil, common.MarkRetriable(fmt.Errorf("unable to send query"))
								case 2: // slower than the leader is willing to wait
									select {
									case <-time.After(6 * time.Second):
									case <-ctx.Done():
									}
									return nil, fmt.Errorf("follower too slow")
								}
								return query(ctx, sqlString, isSubQuery, subQueryResults, unflat, onFields, onRow, onFlatRow)
							})
						wait:
							for {
								select {
								case <-used:
									break wait
								case <-stopReg:
									return
								case <-time.After(200 * time.Millisecond):
									// the leader this handler was registered with may have been closed: register again
									if c.leaderAt(li) != leader {
										break wait
									}
								}
							}
						}
					}()
				}
			}
		},
	})
	if err != nil {
		return err
	}
	if err := db.ApplySchema(c.schema()); err != nil {
		return err
	}
	n.db = db
	return nil
}

func (c *cluster) stopFollower(n *cnode) {
	if n.db != nil {
		close(n.stopReg)
		n.db.Close()
		n.db = nil
	}
}

func startClusterL(dir string, t *jTable, P int, replicas int, partBy []string, L int, extra map[string]*zenodb.TableOpts) (*cluster, error) {
	c := &cluster{dir: dir, t: t, partBy: partBy, P: P, L: L, extraTables: extra}
	for i := 0; i < L; i++ {
		if err := c.openLeaderAt(i); err != nil {
			return nil, err
		}
	}
	var wg sync.WaitGroup
	errs := make(chan error, P*replicas)
	for p := 0; p < P; p++ {
		for r := 0; r < replicas; r++ {
			n := &cnode{partition: p, id: 100 + p*10 + r, dir: filepath.Join(dir, fmt.Sprintf("follower_%d_%d", p, r))}
			c.followers = append(c.followers, n)
			wg.Add(1)
			go func() {
				defer wg.Done()
				if err := c.openFollower(n); err != nil {
					errs <- err
				}
			}()
		}
	}
	wg.Wait()
	select {
	case err := <-errs:
		return nil, err
	default:
	}
	return c, nil
}

func startCluster(dir string, t *jTable, P int, replicas int, partBy []string) (*cluster, error) {
	return startClusterL(dir, t, P, replicas, partBy, 1, nil)
}

func (c *cluster) close() {
	for _, n := range c.followers {
		c.stopFollower(n)
	}
	for i := range c.leaders {
		c.closeLeaderAt(i)
	}
}

// routed returns the partition the leader routes the point to under table t's partition keys.
func (c *cluster) routed(p *jPoint) int {
	return c.routedBy(p, c.partBy)
}

func (c *cluster) routedBy(p *jPoint, partBy []string) int {
	for _, l := range c.leaders {
		if l != nil {
			return l.VerifPartitionFor(p.goDims(), partBy)
		}
	}
	panic("no leader is up")
}

// waitFollowers waits until every follower has processed the number of entries routed to its partition
// (and applied all submitted inserts).
func (c *cluster) waitFollowers(expected map[int]int64, timeout time.Duration) error {
	deadline := time.Now().Add(timeout)
	for time.Now().Before(deadline) {
		ok := true
		for _, n := range c.followers {
			if n.db == nil {
				continue
			}
			if n.db.VerifCounter("t", "processed") < expected[n.partition] || n.db.VerifCounter("t", "applied") < n.db.VerifCounter("t", "submitted") {
				ok = false
			}
		}
		if ok {
			return nil
		}
		time.Sleep(20 * time.Millisecond)
	}
	msg := ""
	for _, n := range c.followers {
		if n.db != nil {
			msg += fmt.Sprintf(" [p%d id%d processed %d want %d]", n.partition, n.id, n.db.VerifCounter("t", "processed"), expected[n.partition])
		}
	}
	return fmt.Errorf("followers did not catch up:%s", msg)
}

func (c *cluster) advanceClocks(t time.Time) {
	for _, l := range c.leaders {
		if l != nil {
			l.VerifAdvanceClock(t)
		}
	}
	for _, n := range c.followers {
		if n.db != nil {
			n.db.VerifAdvanceClock(t)
		}
	}
}
