package main

import (
	"encoding/json"
	"fmt"
	"math/rand"
	"os"
	"strings"
	"time"

	"github.com/getlantern/bytemap"
	"github.com/getlantern/goexpr"
	"github.com/getlantern/zenodb/sql"
)

func init() {
	register("dbq", runDBQ)
	c09Names["d9"] = 14
	fieldIDs["x"] = 5
}

type jDBCase struct {
	Table      jTable   `json:"table"`
	Points     []jPoint `json:"points"`
	FlushAfter []int    `json:"flush_after"`  // FlushAll after the i-th insert (0-based)
	ReopenAt   []int    `json:"reopen_after"` // clean Close + reopen after the i-th insert
	FinalFlush bool     `json:"final_flush"`
	MemCap     bool     `json:"mem_cap,omitempty"`  // MaxMemoryRatio configured: forced flushes are sorted
	MemTiny    bool     `json:"mem_tiny,omitempty"` // ... with a cap of a few bytes: every insert forces a flush and the sorter spills every row to its own temp file
	Queries    []jQuery `json:"queries"`
	NT         bool     `json:"nt"`
}

const baseSec = int64(1000000)

func genPred(r *rand.Rand, depth int) *XPred {
	if depth > 0 && r.Intn(3) == 0 {
		switch r.Intn(3) {
		case 0:
			return &XPred{K: "and", Sub: []*XPred{genPred(r, depth-1), genPred(r, depth-1)}}
		case 1:
			return &XPred{K: "or", Sub: []*XPred{genPred(r, depth-1), genPred(r, depth-1)}}
		default:
			return &XPred{K: "not", Sub: []*XPred{genPred(r, depth-1)}}
		}
	}
	switch r.Intn(6) {
	case 0:
		return &XPred{K: "cmp", Dim: "d1", Op: []string{"=", "<>"}[r.Intn(2)], Lit: jVal{K: "str", S: []string{"a", "b", "c"}[r.Intn(3)]}}
	case 1:
		return &XPred{K: "cmp", Dim: "d2", Op: []string{"=", "<>", "<", ">", "<=", ">="}[r.Intn(6)], Lit: jVal{K: "int", I: int64(r.Intn(4))}}
	case 2:
		return &XPred{K: "cmp", Dim: "d3", Op: "=", Lit: jVal{K: "bool", B: r.Intn(2) == 0}}
	case 3:
		return &XPred{K: "isnull", Dim: dimNames[r.Intn(3)]}
	case 4:
		return &XPred{K: "in", Dim: "d1", Set: []jVal{{K: "str", S: "a"}, {K: "str", S: []string{"b", "c", "zz"}[r.Intn(3)]}}}
	default:
		return &XPred{K: "cmp", Dim: "d1", Op: "=", Lit: jVal{K: "str", S: "a"}}
	}
}

// stringCollision reports whether two stored fields (or AVG leaves) of the table have the
// same String() although they are different columns: zenodb identifies stored fields by
// expression string when it maps query fields to stored ones, so such tables hit the
// known finding "duplicate-field-definition" (DESIGN.md section 7, D15).
func stringCollision(t *jTable) bool {
	seen := map[string]bool{}
	for _, f := range t.Fields {
		s := f.E.Real().String()
		if seen[s] {
			return true
		}
		seen[s] = true
	}
	weights := map[string]string{}
	var walk func(x *XExpr) bool
	walk = func(x *XExpr) bool {
		if x.K == "avg" {
			v, w := x.Sub[0].Real().String(), x.Sub[1].Real().String()
			if old, ok := weights[v]; ok && old != w {
				return true
			}
			weights[v] = w
		}
		for _, sub := range x.Sub {
			if walk(sub) {
				return true
			}
		}
		return false
	}
	for _, f := range t.Fields {
		if walk(f.E) {
			return true
		}
	}
	return false
}

func genTable(r *rand.Rand, opts map[string]bool) jTable {
	for {
		t := genTable1(r, opts)
		if opts["allow_collision"] || !stringCollision(&t) {
			return t
		}
	}
}

func genTable1(r *rand.Rand, opts map[string]bool) jTable {
	ress := []int64{1, 2, 7, 60}
	t := jTable{ResNS: ress[r.Intn(len(ress))] * int64(time.Second)}
	t.RetNS = t.ResNS * int64(30+r.Intn(60))
	nconds := 0
	if !opts["noif"] {
		nconds = r.Intn(3)
	}
	for i := 0; i < nconds; i++ {
		t.Conds = append(t.Conds, genPred(r, 1))
	}
	g := &exprGen{r: r, fields: []string{"a", "b", "c"}, allowIf: nconds > 0, allowDiv: true, allowShift: false, nconds: nconds, noConstOperand: true, sqlSafe: true, noConstAgg: true}
	nf := 1 + r.Intn(4)
	for i := 0; i < nf; i++ {
		t.Fields = append(t.Fields, jField{Name: fmt.Sprintf("f%d", i+1), E: g.gen(r.Intn(3), false)})
	}
	if r.Intn(3) == 0 {
		t.Where = genPred(r, 1)
	}
	switch r.Intn(4) {
	case 0:
		t.GroupBy = nil
	case 1:
		t.GroupBy = []string{"d1"}
	case 2:
		t.GroupBy = []string{"d1", "d2"}
	case 3:
		t.GroupBy = []string{"d2", "d3", "d9"}
	}
	return t
}

func genDBPoints(r *rand.Rand, t *jTable, n int) []jPoint {
	res := t.ResNS
	var pts []jPoint
	for i := 0; i < n; i++ {
		p := jPoint{Dims: map[string]jVal{}, Vals: map[string]int64{}}
		// timestamps: within 14 periods after the base; exact boundaries and +-1ns around them included
		k := int64(r.Intn(14))
		ns := baseSec*int64(time.Second) + k*res
		switch r.Intn(5) {
		case 0: // exact multiple of res since the unix epoch (not necessarily since the zero time)
		case 1:
			ns += 1
		case 2:
			ns -= 1
		default:
			ns += r.Int63n(res)
		}
		p.TS = XTime{S: ns / int64(time.Second), NS: ns % int64(time.Second)}
		if r.Intn(6) > 0 {
			p.Dims["d1"] = jVal{K: "str", S: []string{"a", "b", "c", "ab", ""}[r.Intn(5)]}
		}
		if r.Intn(6) > 0 {
			p.Dims["d2"] = jVal{K: "int", I: int64(r.Intn(4))}
		} else if r.Intn(3) == 0 {
			p.Dims["d2"] = jVal{K: "nil"}
		}
		if r.Intn(3) > 0 {
			p.Dims["d3"] = jVal{K: "bool", B: r.Intn(2) == 0}
		}
		for _, f := range []string{"a", "b", "c"} {
			if r.Intn(4) > 0 {
				p.Vals[f] = int64(r.Intn(21)) - 6
			}
		}
		if r.Intn(8) == 0 {
			p.Vals["x"] = int64(r.Intn(5)) // a value no field uses
		}
		if r.Intn(10) == 0 {
			p.Junk = map[string]string{"a": "notanumber"}
			delete(p.Vals, "a")
		}
		if r.Intn(12) == 0 && len(pts) > 0 {
			p = pts[r.Intn(len(pts))] // exact duplicate
		}
		pts = append(pts, p)
	}
	return pts
}

func genSchedule(r *rand.Rand, n int) (flush []int, reopen []int, final bool) {
	switch r.Intn(5) {
	case 0: // nothing flushed: all in memory
	case 1: // flush after every k-th insert
		k := 1 + r.Intn(4)
		for i := k - 1; i < n; i += k {
			flush = append(flush, i)
		}
	case 2: // a few random flushes
		for i := 0; i < n; i++ {
			if r.Intn(6) == 0 {
				flush = append(flush, i)
			}
		}
	case 3: // many flushes (beyond the 10th, truncating flush)
		for i := 0; i < n; i++ {
			if r.Intn(2) == 0 {
				flush = append(flush, i)
			}
		}
	case 4:
		for i := 0; i < n; i++ {
			if r.Intn(8) == 0 {
				flush = append(flush, i)
			}
			if r.Intn(12) == 0 {
				reopen = append(reopen, i)
			}
		}
	}
	final = r.Intn(3) == 0
	return
}

func contains(xs []int, x int) bool {
	for _, y := range xs {
		if x == y {
			return true
		}
	}
	return false
}

// ---- model-side printing ----

func galTableKeyProj(gb []string) string {
	if gb == nil {
		return "None"
	}
	ids := make([]string, len(gb))
	for i, g := range gb {
		ids[i] = fmt.Sprintf("%d", c09Names[g])
	}
	return "(Some " + glist(ids) + ")"
}

func (t *jTable) Gal() string {
	fs := []string{"(0, EAgg SUM (EField 9))"}
	for i, f := range t.Fields {
		fs = append(fs, fmt.Sprintf("(%d, %s)", i+1, f.E.Gal()))
	}
	w := "None"
	if t.Where != nil {
		w = "(Some 0%nat)"
	}
	return fmt.Sprintf("{| t_fields := %s;\n     t_groupby := %s; t_res := %s; t_ret := %s; t_where := %s |}",
		glist(fs), galTableKeyProj(t.GroupBy), gz(t.ResNS), gz(t.RetNS), w)
}

func dimsBytemap(p *jPoint) bytemap.ByteMap { return bytemap.New(p.goDims()) }

// tableKey mirrors table.doInsert's reslice (used only to evaluate query WHERE oracles on the stored key).
func tableKey(t *jTable, p *jPoint) bytemap.ByteMap {
	if t.GroupBy == nil {
		return dimsBytemap(p)
	}
	m := map[string]interface{}{}
	for _, g := range t.GroupBy {
		if v, ok := p.Dims[g]; ok && v.K != "nil" {
			m[g] = v.goVal()
		}
	}
	return bytemap.New(m)
}

func galDims(p *jPoint) string {
	return galKey(p.goDims())
}

func (q *jQuery) Gal(t *jTable, idx int, now time.Time, flushed int) string {
	fs := "None"
	if q.Fields != nil {
		items := make([]string, len(q.Fields))
		for i, f := range q.Fields {
			items[i] = fmt.Sprintf("(%d, %s)", i, f.E.Gal())
		}
		fs = "(Some " + glist(items) + ")"
	}
	gb := "None"
	switch q.GroupBy {
	case "*":
		gb = "(Some None)"
	case "dims":
		gb = "(Some " + galTableKeyProj(q.Dims) + ")"
	case "_":
		gb = "(Some (Some []))"
	}
	asof, until := "0", "0"
	if q.HasAsOf {
		asof = gtime(q.AsOf.T())
		if q.AsOfOff != 0 {
			asof = gtime(now.Add(time.Duration(q.AsOfOff)))
		}
	}
	if q.HasUntil {
		until = gtime(q.Until.T())
		if q.UntilOff != 0 {
			until = gtime(now.Add(time.Duration(q.UntilOff)))
		}
	}
	w := "None"
	if q.Where != nil {
		w = fmt.Sprintf("(Some %d%%nat)", idx+1)
	}
	vis := "None"
	if !q.Mem {
		vis = fmt.Sprintf("(Some %d%%nat)", flushed)
	}
	lim := "None"
	if q.HasLimit && len(q.Order) == 0 {
		lim = fmt.Sprintf("(Some %d)", q.Limit)
	}
	return fmt.Sprintf("{| q_fields := %s; q_groupby := %s; q_period := %s; q_asof := %s; q_until := %s; q_where := %s; q_now := %s; q_vis := %s; q_limit := %s |}",
		fs, gb, gz(q.PeriodNS), asof, until, w, gtime(now), vis, lim)
}

// ---- running one case ----

type qResult struct {
	flushed int
	q       *jQuery
	sql     string
	err     error
	rows    []obsRow
	now     time.Time
}

func runDBCase(e *Env, c *jDBCase) error {
	e.Running(c)
	memRatio = 0
	if c.MemCap {
		memRatio = 0.95
		e.Count("mem_cap_sorted_flushes")
		if c.MemTiny {
			memRatio = 1e-9
			e.Count("mem_cap_tiny_sorter_spills")
		}
	}
	defer func() { memRatio = 0 }()
	dir := tempDir()
	defer rmDir(dir)
	t := &c.Table
	db, err := openDB(dir, t, "t")
	if err != nil {
		return fmt.Errorf("schema %q: %v", t.SQL(), err)
	}
	closed := false
	defer func() {
		if !closed {
			db.Close()
		}
	}()
	written := int64(0)
	flushed := 0 // number of points on disk (a prefix of the history)
	for i := range c.Points {
		p := &c.Points[i]
		if err := db.Insert("inbound", p.TS.T(), p.goDims(), p.goVals()); err != nil {
			return fmt.Errorf("insert: %v", err)
		}
		written++
		if contains(c.FlushAfter, i) {
			if err := waitCaughtUp(db, "t", written); err != nil {
				return err
			}
			db.FlushAll()
			flushed = i + 1
			e.Count("flushes")
		}
		if contains(c.ReopenAt, i) {
			if err := waitCaughtUp(db, "t", written); err != nil {
				return err
			}
			now := db.VerifNow()
			db.Close() // flushes
			flushed = i + 1
			db, err = openDB(dir, t, "t")
			if err != nil {
				return fmt.Errorf("reopen: %v", err)
			}
			// the virtual clock is not persisted: restore it as the next accepted point would
			db.VerifAdvanceClock(now)
			written = 0
			e.Count("reopens")
		}
	}
	if err := waitCaughtUp(db, "t", written); err != nil {
		return err
	}
	if c.FinalFlush {
		db.FlushAll()
		flushed = len(c.Points)
	}
	var results []qResult
	for i := range c.Queries {
		q := &c.Queries[i]
		if q.FlushBefore {
			db.FlushAll()
			flushed = len(c.Points)
		}
		s := q.SQL("t", t.Conds)
		now := db.VerifNow()
		_, rows, err := runQuery(db, s, q.Mem)
		results = append(results, qResult{flushed, q, s, err, rows, now})
	}
	db.Close()
	closed = true

	g, err := galDBCase(t, c.Points, c.Queries, results)
	if err != nil {
		return err
	}
	for _, r := range results {
		if r.err != nil {
			e.Count("query_errors")
			msg := r.err.Error()
			if len(msg) > 90 {
				msg = msg[:90]
			}
			e.Count("err: " + msg)
		}
		e.Add("rows", len(r.rows))
	}
	c.NT = len(c.Points) >= 3
	e.Case(g, c)
	e.Add("points", len(c.Points))
	e.Add("queries", len(c.Queries))
	if t.Where != nil {
		e.Count("table_where")
	}
	if t.GroupBy == nil {
		e.Count("group_by_all")
	}
	return nil
}

func runDBQ(e *Env) error {
	e.Header("From Coq Require Import QArith.\nFrom Zeno Require Import Base Sort Expr DB.", "db_case")
	if lines := e.ReplayLines(); lines != nil {
		for _, l := range lines {
			var c jDBCase
			if err := json.Unmarshal([]byte(l), &c); err != nil {
				return err
			}
			if err := runDBCase(e, &c); err != nil {
				return err
			}
		}
	} else {
		for i := 0; i < e.N; i++ {
			c := genDBCase(e)
			if os.Getenv("VERIF_DEBUG") != "" {
				b, _ := json.Marshal(c)
				fmt.Fprintf(os.Stderr, "CASE %s\n", b)
			}
			if err := runDBCase(e, c); err != nil {
				b, _ := json.Marshal(c)
				return fmt.Errorf("%v on case %s", err, b)
			}
		}
	}
	e.Footer("db_mismatches")
	return nil
}

func genDBCase(e *Env) *jDBCase {
	r := e.R
	opts := map[string]bool{}
	c := &jDBCase{Table: genTable(r, opts)}
	c.Points = genDBPoints(r, &c.Table, 5+r.Intn(30))
	c.FlushAfter, c.ReopenAt, c.FinalFlush = genSchedule(r, len(c.Points))
	t := &c.Table
	switch e.Mode {
	case "c03": // storage location independence: all / some fields, memstore on and (after a flush) off
		if r.Intn(3) == 0 {
			// restart-heavy schedules on tables with a WHERE: flushes while the memstore holds nothing
			// but the WAL position moved (offset file), followed by data flushes and clean restarts
			if c.Table.Where == nil {
				c.Table.Where = genPred(r, 1)
			}
			c.FlushAfter, c.ReopenAt = nil, nil
			for i := range c.Points {
				if r.Intn(2) == 0 {
					c.FlushAfter = append(c.FlushAfter, i)
				}
				if r.Intn(5) == 0 {
					c.ReopenAt = append(c.ReopenAt, i)
				}
			}
			c.ReopenAt = append(c.ReopenAt, len(c.Points)-1)
		}
		c.FinalFlush = r.Intn(2) == 0
		c.MemCap = r.Intn(3) == 0
		c.MemTiny = c.MemCap && r.Intn(2) == 0
		c.Queries = []jQuery{{Mem: true}, genSubsetQuery(r, t, true)}
		if c.FinalFlush {
			c.Queries = append(c.Queries, jQuery{Mem: false}, genSubsetQuery(r, t, false))
		}
	case "c06": // coarser grouping; a third of the queries with a window the period need not divide
		for i := 0; i < 4; i++ {
			q := genGroupQuery(r, t, r.Intn(3) == 0)
			if q.HasAsOf && q.PeriodNS == 0 {
				q.PeriodNS = t.ResNS * int64(2+r.Intn(4))
			}
			c.Queries = append(c.Queries, q)
		}
	case "c07": // time windows
		for i := 0; i < 5; i++ {
			c.Queries = append(c.Queries, genGroupQuery(r, t, true))
		}
	case "c08": // WHERE on the stored key
		for i := 0; i < 4; i++ {
			q := genGroupQuery(r, t, r.Intn(3) == 0)
			q.Where = genKeyPred(r, t)
			c.Queries = append(c.Queries, q)
		}
	case "c04": // queries are read-only: probe, Q, probe, flush, probe
		probe := func() jQuery {
			if r.Intn(2) == 0 {
				return jQuery{Mem: true}
			}
			q := genGroupQuery(r, t, false)
			q.PeriodNS = 0
			return q
		}
		for i := 0; i < 2; i++ {
			pr := probe()
			q := genGroupQuery(r, t, true)
			// time ranges that end before the newest stored period are the interesting ones
			if r.Intn(2) == 0 {
				ns := baseSec*int64(time.Second) + int64(2+r.Intn(8))*t.ResNS
				q.HasAsOf, q.HasUntil = true, true
				q.AsOf = XTime{S: baseSec - 10*t.ResNS/int64(time.Second)}
				q.Until = XTime{S: ns / int64(time.Second), NS: ns % int64(time.Second)}
			}
			q.Mem = r.Intn(4) > 0
			pr2, pr3 := pr, pr
			pr3.FlushBefore = true
			c.Queries = append(c.Queries, pr, q, pr2, pr3)
		}
	default: // c01: native query
		c.Queries = []jQuery{{Mem: true}}
	}
	return c
}

// refField makes a query field that names a table field.
func refField(t *jTable, i int) jField { return jField{Name: t.Fields[i].Name, E: t.Fields[i].E} }

func genSubsetQuery(r *rand.Rand, t *jTable, mem bool) jQuery {
	q := jQuery{Mem: mem}
	for i := range t.Fields {
		if r.Intn(2) == 0 {
			q.Fields = append(q.Fields, refField(t, i))
		}
	}
	if len(q.Fields) == 0 {
		q.Fields = []jField{refField(t, r.Intn(len(t.Fields)))}
	}
	q.ByName = true
	return q
}

func binWrappable(e *XExpr) bool {
	switch e.K {
	case "agg", "if", "avg", "const", "shift", "unary", "bin":
		return true
	}
	return false
}

// genKeyPred: a predicate over the dims that are part of the stored key
func genKeyPred(r *rand.Rand, t *jTable) *XPred {
	for i := 0; i < 20; i++ {
		p := genPred(r, 1)
		if t.GroupBy == nil || predDimsIn(p, t.GroupBy) {
			return p
		}
	}
	return &XPred{K: "true"}
}

func predDimsIn(p *XPred, dims []string) bool {
	if p.Dim != "" {
		ok := false
		for _, d := range dims {
			if d == p.Dim {
				ok = true
			}
		}
		if !ok {
			return false
		}
	}
	for _, s := range p.Sub {
		if !predDimsIn(s, dims) {
			return false
		}
	}
	return true
}

func genGroupQuery(r *rand.Rand, t *jTable, window bool) jQuery {
	q := jQuery{Mem: true}
	// fields: *, named table fields, or derived fields over table fields
	switch r.Intn(3) {
	case 0:
	case 1:
		q = genSubsetQuery(r, t, true)
	case 2:
		q = genSubsetQuery(r, t, true)
		var ok []int
		for i, f := range t.Fields {
			if binWrappable(f.E) && !isBoolExpr(f.E) {
				ok = append(ok, i)
			}
		}
		if len(ok) > 0 {
			a, b := ok[r.Intn(len(ok))], ok[r.Intn(len(ok))]
			op := []string{"+", "-", "*", "/"}[r.Intn(4)]
			q.Fields = append(q.Fields, jField{Name: "dv", Derived: fmt.Sprintf("(%s %s %s)", t.Fields[a].Name, op, t.Fields[b].Name),
				E: &XExpr{K: "bin", N: op, Sub: []*XExpr{t.Fields[a].E, t.Fields[b].E}}})
		}
	}
	dup := false
	if len(q.Fields) > 0 && r.Intn(3) == 0 {
		// the same stored field a second time under another name (mostly one that is selected as it is, too)
		src := q.Fields[r.Intn(len(q.Fields))]
		if src.Derived != "" || r.Intn(4) == 0 {
			src = refField(t, r.Intn(len(t.Fields)))
		}
		q.Fields = append(q.Fields, jField{Name: "dup", Derived: src.Name, E: src.E})
		dup = true
	}
	// grouping
	switch r.Intn(5) {
	case 0:
	case 1:
		q.GroupBy = "*"
	case 2:
		q.GroupBy = "_"
	default:
		q.GroupBy = "dims"
		cand := []string{"d1", "d2", "d3", "d9"}
		n := 1 + r.Intn(2)
		seen := map[string]bool{}
		for i := 0; i < n; i++ {
			d := cand[r.Intn(len(cand))]
			if !seen[d] {
				seen[d] = true
				q.Dims = append(q.Dims, d)
			}
		}
	}
	// period: multiples of the resolution, sometimes a non-multiple or larger than the data span
	switch r.Intn(6) {
	case 0, 1:
	case 2:
		q.PeriodNS = t.ResNS
	case 3, 4:
		q.PeriodNS = t.ResNS * int64(2+r.Intn(7))
	case 5:
		if r.Intn(2) == 0 {
			q.PeriodNS = t.ResNS*int64(1+r.Intn(3)) + t.ResNS/2 // not a multiple: planning error
		} else {
			q.PeriodNS = t.RetNS * 2 // larger than the window
		}
	}
	if dup && r.Intn(2) == 0 {
		// at the table's own resolution, over fewer dims: several stored rows per output row, merged period by period
		q.PeriodNS = 0
		if q.GroupBy == "" || q.GroupBy == "*" {
			q.GroupBy = "dims"
			q.Dims = []string{[]string{"d1", "d2", "d3"}[r.Intn(3)]}
		}
	}
	if window {
		base := baseSec * int64(time.Second)
		mk := func() XTime {
			ns := base + int64(r.Intn(18)-2)*t.ResNS
			switch r.Intn(3) {
			case 0:
				ns += r.Int63n(t.ResNS)
			case 1:
				ns += 1
			}
			return XTime{S: ns / int64(time.Second), NS: ns % int64(time.Second)}
		}
		q.HasAsOf = true
		q.AsOf = mk()
		if r.Intn(3) > 0 {
			q.HasUntil = true
			q.Until = mk()
			if q.Until.T().Before(q.AsOf.T()) && r.Intn(4) > 0 {
				q.AsOf, q.Until = q.Until, q.AsOf
			}
		}
		// ranges relative to the database clock: offsets that are and are not multiples of the resolution
		// (the clock itself is wherever the newest point left it, mostly off the grid)
		rel := func(maxPeriods int) int64 {
			off := int64(r.Intn(maxPeriods)) * t.ResNS
			switch r.Intn(4) {
			case 0:
				off += t.ResNS / 3
			case 1:
				off += t.ResNS - 1
			case 2:
				off += 1 + r.Int63n(t.ResNS)
			}
			if off == 0 {
				off = t.ResNS
			}
			return -off
		}
		if r.Intn(3) == 0 {
			q.AsOfOff = rel(16)
			if q.HasUntil && r.Intn(2) == 0 {
				q.UntilOff = rel(6)
				if q.UntilOff < q.AsOfOff && r.Intn(4) > 0 {
					q.AsOfOff, q.UntilOff = q.UntilOff, q.AsOfOff
				}
			}
		} else if q.HasUntil && r.Intn(4) == 0 {
			q.UntilOff = rel(6)
		}
	}
	return q
}

func isBoolExpr(e *XExpr) bool {
	if e.K != "bin" {
		return false
	}
	switch e.N {
	case "+", "-", "*", "/":
		return false
	}
	return true
}

// galDBCase prints a db_case: the table, the points with their oracle columns (WHERE flags and IF
// conditions evaluated with the real goexpr) and the observed query results.
type galRun struct{ q, rows string }

// galDBParts prints the table, the points (with oracle columns) and the query runs separately.
func galDBParts(t *jTable, points []jPoint, queries []jQuery, results []qResult) (string, []string, []galRun, error) {
	var err error
	// oracle columns evaluated with the real goexpr
	var whereEx goexpr.Expr
	if t.Where != nil {
		if whereEx, err = t.Where.compile(); err != nil {
			return "", nil, nil, err
		}
	}
	condEx := make([]goexpr.Expr, len(t.Conds))
	for i, cd := range t.Conds {
		if condEx[i], err = cd.compile(); err != nil {
			return "", nil, nil, err
		}
	}
	// the SQL the harness printed means the expression the model was given: parse it with the
	// real parser and compare String() with the expression built programmatically from the AST
	if pq, perr := sql.Parse(t.SQL()); perr == nil {
		if pfs, ferr := pq.Fields.Get(nil); ferr == nil && len(pfs) == len(t.Fields) {
			for i, f := range t.Fields {
				if want := f.E.RealC(condEx).String(); pfs[i].Expr.String() != want {
					return "", nil, nil, fmt.Errorf("harness SQL printer mismatch: field %s parses to %v, AST is %v", f.Name, pfs[i].Expr, want)
				}
			}
		} else {
			return "", nil, nil, fmt.Errorf("harness SQL printer: cannot resolve fields of %q: %v", t.SQL(), ferr)
		}
	}
	qWhere := make([]goexpr.Expr, len(queries))
	for i := range queries {
		if queries[i].Where != nil {
			if qWhere[i], err = queries[i].Where.compile(); err != nil {
				return "", nil, nil, err
			}
		}
	}
	pts := make([]string, len(points))
	for i := range points {
		p := &points[i]
		dims := dimsBytemap(p)
		flags := []string{gbool(whereEx == nil || evalPred(whereEx, dims))}
		tk := tableKey(t, p)
		for _, qw := range qWhere {
			flags = append(flags, gbool(qw == nil || evalPred(qw, tk)))
		}
		var vals []string
		nv := p.numVals()
		if len(nv) > 0 {
			vals = append(vals, "(9, 1)")
		}
		for _, f := range []string{"a", "b", "c", "x"} {
			if v, ok := nv[f]; ok {
				vals = append(vals, fmt.Sprintf("(%d, %s)", fieldID(f), gz(v)))
			}
		}
		conds := make([]string, len(condEx))
		for j, ce := range condEx {
			conds[j] = gbool(evalPred(ce, dims))
		}
		pts[i] = fmt.Sprintf("{| tp_ts := %s; tp_dims := %s; tp_pt := {| p_vals := %s; p_md := %s |}; tp_flags := %s |}",
			gtime(p.TS.T()), galDims(p), glist(vals), glist(conds), glist(flags))
	}
	runs := make([]galRun, len(results))
	for i, r := range results {
		runs[i] = galRun{r.q.Gal(t, i, r.now, r.flushed), galORows(r.rows)}
	}
	return t.Gal(), pts, runs, nil
}

// galDBCase prints a db_case.
func galDBCase(t *jTable, points []jPoint, queries []jQuery, results []qResult) (string, error) {
	tg, pts, rg, err := galDBParts(t, points, queries, results)
	if err != nil {
		return "", err
	}
	runs := make([]string, len(results))
	for i, r := range results {
		runs[i] = fmt.Sprintf("{| qr_q := %s;\n      qr_err := %s;\n      qr_rows := %s |}", rg[i].q, gbool(r.err != nil), rg[i].rows)
	}
	return fmt.Sprintf("{| dc_table := %s;\n   dc_points := [%s];\n   dc_runs := [%s] |}", tg, strings.Join(pts, ";\n     "), strings.Join(runs, ";\n     ")), nil
}
