// implrun drives the real zenodb implementation on generated cases and prints
// the inputs together with the observed outputs as a Gallina file that the Coq
// model evaluates (see /verif/DESIGN.md section 2.2b).
package main

import (
	"flag"
	"io/ioutil"
	stdlog "log"

	"fmt"
	"github.com/getlantern/golog"
	"os"
	"sort"
)

type runner func(env *Env) error

var runners = map[string]runner{}

func register(name string, r runner) { runners[name] = r }

func main() {
	golog.SetOutputs(ioutil.Discard, ioutil.Discard)
	stdlog.SetOutput(ioutil.Discard)
	if len(os.Args) < 2 {
		usage()
	}
	name := os.Args[1]
	r, ok := runners[name]
	if !ok {
		usage()
	}
	fs := flag.NewFlagSet(name, flag.ExitOnError)
	seed := fs.Int64("seed", 1, "PRNG seed")
	n := fs.Int("n", 100, "number of cases")
	out := fs.String("out", ".", "output directory")
	replay := fs.String("replay", "", "replay the cases of this jsonl file instead of generating")
	mode := fs.String("mode", "", "runner specific mode")
	fs.Parse(os.Args[2:])
	env := newEnv(name, *seed, *n, *out, *replay, *mode)
	if err := r(env); err != nil {
		fmt.Fprintf(os.Stderr, "implrun %s: %v\n", name, err)
		os.Exit(2)
	}
	if err := env.finish(); err != nil {
		fmt.Fprintf(os.Stderr, "implrun %s: %v\n", name, err)
		os.Exit(2)
	}
}

func usage() {
	names := make([]string, 0, len(runners))
	for k := range runners {
		names = append(names, k)
	}
	sort.Strings(names)
	fmt.Fprintf(os.Stderr, "usage: implrun <%v> [-seed N] [-n N] [-out DIR] [-replay FILE]\n", names)
	os.Exit(2)
}
