package main

// C13: incomplete results are never presented as complete.

import (
	"context"
	"encoding/json"
	"fmt"
	"io/ioutil"
	"net/http"
	"net/http/httptest"
	"net/url"
	"sync"
	"sync/atomic"
	"time"

	"github.com/getlantern/zenodb"
	"github.com/getlantern/zenodb/common"
	"github.com/getlantern/zenodb/core"
	"github.com/getlantern/zenodb/web"
	"github.com/gorilla/mux"
)

func init() { register("c13", runC13) }

type jRepCase struct {
	Kind string `json:"kind"`
	Desc string `json:"desc"`
	NT   bool   `json:"nt"`
}

func sameRows(a, b []obsRow) bool {
	if len(a) != len(b) {
		return false
	}
	key := func(r obsRow) string { return fmt.Sprintf("%d|%v|%v", r.TS.UnixNano(), r.Key, r.Vals) }
	m := map[string]int{}
	for _, r := range a {
		m[key(r)]++
	}
	for _, r := range b {
		m[key(r)]--
	}
	for _, v := range m {
		if v != 0 {
			return false
		}
	}
	return true
}

// embedded API: deadlines that are already expired or expire after k delivered rows
func c13Embedded(e *Env) error {
	r := e.R
	for iter := 0; iter < e.N; iter++ {
		tb := genTable(r, map[string]bool{})
		tb.Where = nil
		pts := genDBPoints(r, &tb, 8+r.Intn(20))
		c := &jDBCase{Table: tb, Points: pts}
		switch r.Intn(3) {
		case 0: // memstore only
		case 1: // file only
			c.FinalFlush = true
		case 2: // split
			c.FlushAfter = []int{len(pts) / 2}
		}
		dir := tempDir()
		db, err := openDB(dir, &tb, "t")
		if err != nil {
			rmDir(dir)
			return err
		}
		if _, err := loadHistory(db, c, e); err != nil {
			db.Close()
			rmDir(dir)
			return err
		}
		queries := []jQuery{{Mem: true}, genGroupQuery(r, &tb, false)}
		if r.Intn(2) == 0 {
			q := jQuery{Mem: true, Order: []jOrder{{Field: "_time", Desc: r.Intn(2) == 0}}}
			queries = append(queries, q)
		}
		for _, q := range queries {
			sqlStr := q.SQL("t", tb.Conds)
			_, full, ferr := runQuery(db, sqlStr, true)
			if ferr != nil {
				continue // planning error: nothing to omit
			}
			ks := []int{-1, 0, 1, 2, len(full) / 2, len(full)}
			for _, k := range ks {
				src, perr := db.Query(sqlStr, false, nil, true)
				if perr != nil {
					continue
				}
				var ctx context.Context
				var cancel context.CancelFunc
				const budget = 150 * time.Millisecond
				if k < 0 {
					ctx, cancel = context.WithDeadline(context.Background(), time.Now().Add(-time.Second))
				} else {
					ctx, cancel = context.WithTimeout(context.Background(), budget)
				}
				start := time.Now()
				var rows []obsRow
				n := 0
				_, ierr := src.Iterate(ctx, core.FieldsIgnored, func(fr *core.FlatRow) (bool, error) {
					rows = append(rows, obsRow{TS: time.Unix(0, fr.TS), Key: fr.Key.AsMap(), Vals: append([]float64(nil), fr.Values...)})
					n++
					if k >= 0 && n == k+1 {
						// let the deadline pass while this row is being consumed
						if d := budget - time.Since(start) + 30*time.Millisecond; d > 0 {
							time.Sleep(d)
						}
					}
					return true, nil
				})
				cancel()
				complete := sameRows(rows, full)
				g := fmt.Sprintf("RepEmbedded %s %s", gbool(complete), gbool(ierr != nil))
				e.Case(g, &jRepCase{Kind: "embedded", Desc: fmt.Sprintf("sql=%q k=%d rows=%d/%d err=%v flush=%v/%v", sqlStr, k, len(rows), len(full), ierr, c.FlushAfter, c.FinalFlush), NT: !complete})
				if !complete {
					e.Count("embedded_incomplete")
				} else {
					e.Count("embedded_complete")
				}
			}
		}
		db.Close()
		rmDir(dir)
	}
	return nil
}

// cluster: partitions erroring or too slow
func c13Cluster(e *Env) error {
	r := e.R
	tb := genTable(r, map[string]bool{})
	tb.Where = nil
	pts := genDBPoints(r, &tb, 30)
	dir := tempDir()
	defer rmDir(dir)
	P := 3
	cl, err := startCluster(dir, &tb, P, 1, nil)
	if err != nil {
		return err
	}
	defer cl.close()
	expected := map[int]int64{}
	var maxTS time.Time
	for i := range pts {
		p := &pts[i]
		cl.leader.Insert("inbound", p.TS.T(), p.goDims(), p.goVals())
		expected[cl.routed(p)]++
		if p.TS.T().After(maxTS) {
			maxTS = p.TS.T()
		}
	}
	if err := cl.waitFollowers(expected, 40*time.Second); err != nil {
		return err
	}
	cl.advanceClocks(maxTS)
	queries := []jQuery{{Mem: true}, genGroupQuery(r, &tb, false), genGroupQuery(r, &tb, false)}
	// fault-free oracle runs first (retried until the leader itself reports all partitions)
	fulls := make([][]obsRow, len(queries))
	okq := make([]bool, len(queries))
	for i, q := range queries {
		for attempt := 0; attempt < 5; attempt++ {
			_, full, stats, ferr := runQueryStats(cl.leader, q.SQL("t", tb.Conds), true)
			if ferr != nil {
				break
			}
			if stats != nil && stats.NumSuccessfulPartitions >= stats.NumPartitions {
				fulls[i], okq[i] = full, true
				break
			}
			time.Sleep(100 * time.Millisecond)
		}
	}
	for qi, q := range queries {
		sqlStr := q.SQL("t", tb.Conds)
		if !okq[qi] {
			continue
		}
		full := fulls[qi]
		// every subset of partitions made unavailable, by error and by slowness
		for mask := 0; mask < 1<<uint(P); mask++ {
			for _, mode := range []int32{1, 3, 2} {
				if mode == 2 && mask != 1 && mask != 2 && mask != 4 {
					continue // slowness: one partition at a time (each such run waits for the leader's timeout)
				}
				for _, n := range cl.followers {
					if mask&(1<<uint(n.partition)) != 0 {
						atomic.StoreInt32(&n.noQuery, mode)
					} else {
						atomic.StoreInt32(&n.noQuery, 0)
					}
				}
				ctx, cancel := context.WithTimeout(context.Background(), 3*time.Second)
				src, perr := cl.leader.Query(sqlStr, false, nil, true)
				if perr != nil {
					cancel()
					continue
				}
				var rows []obsRow
				md, ierr := src.Iterate(ctx, core.FieldsIgnored, func(fr *core.FlatRow) (bool, error) {
					rows = append(rows, obsRow{TS: time.Unix(0, fr.TS), Key: fr.Key.AsMap(), Vals: append([]float64(nil), fr.Values...)})
					return true, nil
				})
				cancel()
				missing := false
				if qs, ok := md.(*common.QueryStats); ok && qs != nil {
					missing = qs.NumSuccessfulPartitions < qs.NumPartitions || len(qs.MissingPartitions) > 0
				}
				complete := sameRows(rows, full)
				g := fmt.Sprintf("RepCluster %s %s %s", gbool(complete), gbool(ierr != nil), gbool(missing))
				e.Case(g, &jRepCase{Kind: "cluster", Desc: fmt.Sprintf("sql=%q unavailable=%03b mode=%d rows=%d/%d err=%v missing=%v", sqlStr, mask, mode, len(rows), len(full), ierr, missing), NT: mask != 0})
				if !complete {
					e.Count("cluster_incomplete")
				} else {
					e.Count("cluster_complete")
				}
			}
		}
	}
	for _, n := range cl.followers {
		atomic.StoreInt32(&n.noQuery, 0)
	}
	return nil
}

// web: query timeouts and response size limits
func c13Web(e *Env) error {
	r := e.R
	for _, cfg := range []struct {
		name    string
		timeout time.Duration
		maxResp int
	}{{"ok", 10 * time.Second, 0}, {"tiny-response-limit", 10 * time.Second, 200}, {"short-timeout", time.Nanosecond, 0}} {
		tb := genTable(r, map[string]bool{})
		tb.Where = nil
		pts := genDBPoints(r, &tb, 40)
		dir := tempDir()
		db, err := openDB(dir+"/db", &tb, "t")
		if err != nil {
			return err
		}
		c := &jDBCase{Table: tb, Points: pts, FinalFlush: true}
		if _, err := loadHistory(db, c, e); err != nil {
			return err
		}
		_, full, ferr := runQuery(db, "SELECT * FROM t", false)
		if ferr != nil {
			return ferr
		}
		router := mux.NewRouter()
		stopWeb, err := web.Configure(db, router, &web.Opts{CacheDir: dir + "/cache", QueryTimeout: cfg.timeout, MaxResponseBytes: cfg.maxResp})
		if err != nil {
			return err
		}
		srv := httptest.NewServer(router)
		for _, route := range []string{"/run", "/immediate"} {
			resp, rerr := http.Get(srv.URL + route + "?" + url.QueryEscape("SELECT * FROM t"))
			status := 0
			nrows := -1
			if rerr == nil {
				status = resp.StatusCode
				body, _ := ioutil.ReadAll(resp.Body)
				resp.Body.Close()
				if status == 200 {
					// gzip handled transparently? the handler sets Content-Encoding itself; net/http decodes it
					var qr web.QueryResult
					if json.Unmarshal(body, &qr) == nil {
						nrows = len(qr.Rows)
					}
				}
			}
			complete := nrows == len(full)
			g := fmt.Sprintf("RepHTTP %s %d", gbool(complete), status)
			e.Case(g, &jRepCase{Kind: "http", Desc: fmt.Sprintf("cfg=%s route=%s status=%d rows=%d/%d", cfg.name, route, status, nrows, len(full)), NT: cfg.name != "ok"})
			e.Count("http_" + cfg.name + fmt.Sprintf("_%d", status))
		}
		srv.Close()
		stopWeb()
		db.Close()
		rmDir(dir)
	}
	return nil
}

// embedded API, shared scans: a query that arrived first leaves the coalesced scan early (LIMIT directly on the scan);
// a query that arrived later runs into its deadline on a later row; a third one runs to the end. Every one of them
// that comes back incomplete must come back with an error.
func c13Coalesced(e *Env) error {
	r := e.R
	for iter := 0; iter < e.N; iter++ {
		tb := genTable(r, map[string]bool{})
		tb.Where = nil
		tb.GroupBy = nil
		pts := genDBPoints(r, &tb, 16+r.Intn(16))
		c := &jDBCase{Table: tb, Points: pts}
		if r.Intn(2) == 0 {
			c.FlushAfter = []int{len(pts) / 2}
		}
		dir := tempDir()
		coalesce := 120 * time.Millisecond
		db, err := zenodb.NewDB(&zenodb.DBOpts{Dir: dir, VirtualTime: true, IterationCoalesceInterval: coalesce, Panic: quietPanic})
		if err == nil {
			err = db.ApplySchema(zenodb.Schema{"t": &zenodb.TableOpts{MinFlushLatency: time.Hour, MaxFlushLatency: 2 * time.Hour,
				RetentionPeriod: time.Duration(tb.RetNS), SQL: tb.SQL()}})
		}
		if err == nil {
			_, err = loadHistory(db, c, e)
		}
		if err != nil {
			if db != nil {
				db.Close()
			}
			rmDir(dir)
			return err
		}
		_, full, ferr := runQuery(db, "SELECT * FROM t", true)
		if ferr != nil || len(full) < 6 {
			db.Close()
			rmDir(dir)
			continue
		}
		stallAt := 3 + r.Intn(3)
		type res struct {
			rows []obsRow
			err  error
		}
		out := make([]res, 3)
		sqls := []string{fmt.Sprintf("SELECT * FROM t LIMIT %d", 1+r.Intn(2)), "SELECT * FROM t", "SELECT * FROM t"}
		var wg sync.WaitGroup
		for i := range sqls {
			wg.Add(1)
			go func(i int) {
				defer wg.Done()
				time.Sleep(time.Duration(6*i) * time.Millisecond)
				ctx := context.Background()
				budget := coalesce + 250*time.Millisecond
				start := time.Now()
				if i == 1 {
					var cancel context.CancelFunc
					ctx, cancel = context.WithTimeout(ctx, budget)
					defer cancel()
				}
				src, perr := db.Query(sqls[i], false, nil, true)
				if perr != nil {
					out[i].err = perr
					return
				}
				n := 0
				_, out[i].err = src.Iterate(ctx, core.FieldsIgnored, func(fr *core.FlatRow) (bool, error) {
					out[i].rows = append(out[i].rows, obsRow{TS: time.Unix(0, fr.TS), Key: fr.Key.AsMap(), Vals: append([]float64(nil), fr.Values...)})
					n++
					if i == 1 && n == stallAt {
						if d := budget - time.Since(start) + 40*time.Millisecond; d > 0 {
							time.Sleep(d)
						}
					}
					return true, nil
				})
			}(i)
		}
		wg.Wait()
		for i := 1; i < 3; i++ {
			complete := sameRows(out[i].rows, full)
			e.Case(fmt.Sprintf("RepEmbedded %s %s", gbool(complete), gbool(out[i].err != nil)),
				&jRepCase{Kind: "coalesced", Desc: fmt.Sprintf("member %d of [%q after 0ms; SELECT * with a deadline passing on row %d after 6ms; SELECT * after 12ms] rows=%d/%d err=%v",
					i, sqls[0], stallAt, len(out[i].rows), len(full), out[i].err), NT: !complete})
			if complete {
				e.Count("coalesced_complete")
			} else {
				e.Count("coalesced_incomplete")
			}
		}
		db.Close()
		rmDir(dir)
	}
	return nil
}

func runC13(e *Env) error {
	fmt.Fprintf(e.v, "From Zeno Require Import Base Report.\nOpen Scope Z_scope.\nDefinition cases : list rep_case := [\n")
	if err := c13Embedded(e); err != nil {
		return err
	}
	if err := c13Coalesced(e); err != nil {
		return err
	}
	if e.Mode != "nocluster" {
		if err := c13Cluster(e); err != nil {
			return err
		}
	}
	if err := c13Web(e); err != nil {
		return err
	}
	fmt.Fprintf(e.v, "\n].\nDefinition M := Eval vm_compute in (rep_mismatches cases).\nPrint M.\n")
	return nil
}

var _ = zenodb.ErrOutOfMemory
